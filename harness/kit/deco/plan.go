// Package deco: decorators over every backend interface SOP's commit protocol crosses, driven by one
// process-global Plan (fault / crash / pause / delay at a labelled call site). A process runs one
// planned case at a time; parallelism comes from worker child processes.
package deco

import (
	"errors"
	"fmt"
	"math/rand"
	"os"
	"sync"
	"sync/atomic"
	"time"
)

// Action is what happens at the target site.
type Action string

const (
	None        Action = ""
	FailBefore  Action = "fail-before"  // return injected error without delegating
	FailAfter   Action = "fail-after"   // delegate, then return injected error
	Refuse      Action = "refuse"       // lock calls only: return (false, nil)
	CrashBefore Action = "crash-before" // os.Exit(77) before delegating
	CrashAfter  Action = "crash-after"  // delegate, then os.Exit(77)
	Torn        Action = "torn"         // dio.WriteAt / blob file: write a prefix, then os.Exit(77)
	Pause       Action = "pause"        // signal Paused, block until Resume
	PauseAfter  Action = "pause-after"  // delegate, then pause
	PauseFail   Action = "pause-fail"   // pause; after Resume return the injected error without delegating
)

// ErrInjected is the error returned by fail actions (a plain error: sop.ShouldRetry treats it as retryable).
var ErrInjected = errors.New("verif: injected failure")

// Plan describes one case. Zero Target = census only.
type Plan struct {
	Label  string // target site label, e.g. "reg.UpdateNoLocks(true)"
	Ord    int    // 1-based occurrence of that label while armed
	Act    Action
	TornN  int   // prefix length for Torn
	TornRel int  // if >0: the torn prefix ends TornRel bytes after the first byte that differs from the block on disk
	Sticky bool  // keep failing every later occurrence of Label too (default: fire once)
	NoTrace bool // do not record the site trace (long concurrent runs)
	DelayP int   // if >0: per-site probability (percent) of a 0-3ms delay (interleaving widening)
	Rnd    *rand.Rand

	mu     sync.Mutex
	armed  bool
	counts map[string]int
	trace  []string
	fired  int
	owner  string // optional: only calls tagged with this owner count (unused when empty)

	Paused chan struct{} // closed/sent when the pause site is reached
	resume chan struct{}
}

// NewPlan builds a plan; label=="" means census.
func NewPlan(label string, ord int, act Action) *Plan {
	return &Plan{Label: label, Ord: ord, Act: act, counts: map[string]int{}, Paused: make(chan struct{}, 1), resume: make(chan struct{})}
}

var active atomic.Pointer[Plan]

// Install makes p the process-wide plan (nil = pass-through).
func Install(p *Plan) { active.Store(p) }

// Current returns the installed plan.
func Current() *Plan { return active.Load() }

// Arm starts counting/recording sites (call right before Commit); Disarm stops.
func (p *Plan) Arm() {
	p.mu.Lock()
	p.armed = true
	p.mu.Unlock()
}
func (p *Plan) Disarm() {
	p.mu.Lock()
	p.armed = false
	p.mu.Unlock()
}

// Trace returns the ordered site labels seen while armed.
func (p *Plan) Trace() []string {
	p.mu.Lock()
	defer p.mu.Unlock()
	return append([]string(nil), p.trace...)
}

// Fired reports how many times the target action was applied.
func (p *Plan) Fired() int {
	p.mu.Lock()
	defer p.mu.Unlock()
	return p.fired
}

// Resume releases a paused site.
func (p *Plan) Resume() {
	defer func() { recover() }()
	close(p.resume)
}

// SiteID renders label#ord.
func SiteID(label string, ord int) string { return fmt.Sprintf("%s#%d", label, ord) }

// hit is called by every decorator method. It returns the action to apply at this call.
func hit(label string) (Action, *Plan) {
	p := active.Load()
	if p == nil {
		return None, nil
	}
	p.mu.Lock()
	if !p.armed {
		p.mu.Unlock()
		return None, p
	}
	p.counts[label]++
	n := p.counts[label]
	if !p.NoTrace {
		p.trace = append(p.trace, label)
	}
	act := None
	if p.Label == label && p.Act != None && (n == p.Ord || (p.Sticky && n > p.Ord)) {
		act = p.Act
		p.fired++
	}
	delay := time.Duration(0)
	if p.DelayP > 0 && p.Rnd != nil && p.Rnd.Intn(100) < p.DelayP {
		delay = time.Duration(p.Rnd.Intn(3000)) * time.Microsecond
	}
	p.mu.Unlock()
	if delay > 0 {
		time.Sleep(delay)
	}
	return act, p
}

func crash() { os.Exit(77) }

func (p *Plan) pause() {
	select {
	case p.Paused <- struct{}{}:
	default:
	}
	<-p.resume
}

// do applies the standard before/after protocol around call for error-returning operations.
func do(label string, call func() error) error {
	act, p := hit(label)
	switch act {
	case FailBefore:
		return ErrInjected
	case CrashBefore:
		crash()
	case Pause:
		p.pause()
	case PauseFail:
		p.pause()
		return ErrInjected
	}
	err := call()
	switch act {
	case FailAfter:
		return ErrInjected
	case CrashAfter:
		crash()
	case PauseAfter:
		p.pause()
	}
	return err
}
