package deco

import (
	"context"
	"fmt"
	"io"
	"os"
	"time"

	"github.com/sharedcode/sop"
	"github.com/sharedcode/sop/fs"
)

// ---- Registry ----

type Registry struct{ In sop.Registry }

func (r *Registry) Close() error {
	if c, ok := r.In.(io.Closer); ok {
		return c.Close()
	}
	return nil
}
func (r *Registry) Get(ctx context.Context, p []sop.RegistryPayload[sop.UUID]) (out []sop.RegistryPayload[sop.Handle], err error) {
	err = do("reg.Get", func() error { out, err = r.In.Get(ctx, p); return err })
	if err != nil {
		return nil, err
	}
	return
}
func (r *Registry) Add(ctx context.Context, p []sop.RegistryPayload[sop.Handle]) error {
	return do("reg.Add", func() error { return r.In.Add(ctx, p) })
}
func (r *Registry) Update(ctx context.Context, p []sop.RegistryPayload[sop.Handle]) error {
	return do("reg.Update", func() error { return r.In.Update(ctx, p) })
}
func (r *Registry) UpdateNoLocks(ctx context.Context, allOrNothing bool, p []sop.RegistryPayload[sop.Handle]) error {
	return do(fmt.Sprintf("reg.UpdateNoLocks(%v)", allOrNothing), func() error { return r.In.UpdateNoLocks(ctx, allOrNothing, p) })
}
func (r *Registry) Remove(ctx context.Context, p []sop.RegistryPayload[sop.UUID]) error {
	return do("reg.Remove", func() error { return r.In.Remove(ctx, p) })
}
func (r *Registry) Replicate(ctx context.Context, a, b, c, d []sop.RegistryPayload[sop.Handle]) error {
	return do("reg.Replicate", func() error { return r.In.Replicate(ctx, a, b, c, d) })
}

// ---- BlobStore (multi-blob payloads are split so that a site exists between any two blob files) ----

type BlobStore struct{ In sop.BlobStore }

func (b *BlobStore) GetOne(ctx context.Context, table string, id sop.UUID) (out []byte, err error) {
	err = do("blob.GetOne", func() error { out, err = b.In.GetOne(ctx, table, id); return err })
	if err != nil {
		return nil, err
	}
	return
}
func (b *BlobStore) Add(ctx context.Context, blobs []sop.BlobsPayload[sop.KeyValuePair[sop.UUID, []byte]]) error {
	for _, bp := range blobs {
		for _, kv := range bp.Blobs {
			one := []sop.BlobsPayload[sop.KeyValuePair[sop.UUID, []byte]]{{BlobTable: bp.BlobTable, Blobs: []sop.KeyValuePair[sop.UUID, []byte]{kv}}}
			if err := do("blob.Add", func() error { return b.In.Add(ctx, one) }); err != nil {
				return err
			}
		}
	}
	return nil
}
func (b *BlobStore) Update(ctx context.Context, blobs []sop.BlobsPayload[sop.KeyValuePair[sop.UUID, []byte]]) error {
	for _, bp := range blobs {
		for _, kv := range bp.Blobs {
			one := []sop.BlobsPayload[sop.KeyValuePair[sop.UUID, []byte]]{{BlobTable: bp.BlobTable, Blobs: []sop.KeyValuePair[sop.UUID, []byte]{kv}}}
			if err := do("blob.Update", func() error { return b.In.Update(ctx, one) }); err != nil {
				return err
			}
		}
	}
	return nil
}
func (b *BlobStore) Remove(ctx context.Context, ids []sop.BlobsPayload[sop.UUID]) error {
	return do("blob.Remove", func() error { return b.In.Remove(ctx, ids) })
}

// ---- StoreRepository ----

type StoreRepository struct{ In sop.StoreRepository }

func (s *StoreRepository) Get(ctx context.Context, names ...string) (out []sop.StoreInfo, err error) {
	err = do("sr.Get", func() error { out, err = s.In.Get(ctx, names...); return err })
	if err != nil {
		return nil, err
	}
	return
}
func (s *StoreRepository) GetWithTTL(ctx context.Context, ttl bool, d time.Duration, names ...string) (out []sop.StoreInfo, err error) {
	err = do("sr.GetWithTTL", func() error { out, err = s.In.GetWithTTL(ctx, ttl, d, names...); return err })
	if err != nil {
		return nil, err
	}
	return
}
func (s *StoreRepository) GetAll(ctx context.Context) (out []string, err error) {
	err = do("sr.GetAll", func() error { out, err = s.In.GetAll(ctx); return err })
	if err != nil {
		return nil, err
	}
	return
}
func (s *StoreRepository) Add(ctx context.Context, stores ...sop.StoreInfo) error {
	return do("sr.Add", func() error { return s.In.Add(ctx, stores...) })
}
func (s *StoreRepository) Remove(ctx context.Context, names ...string) error {
	return do("sr.Remove", func() error { return s.In.Remove(ctx, names...) })
}
func (s *StoreRepository) Update(ctx context.Context, stores []sop.StoreInfo) (out []sop.StoreInfo, err error) {
	err = do("sr.Update", func() error { out, err = s.In.Update(ctx, stores); return err })
	if err != nil {
		return nil, err
	}
	return
}
func (s *StoreRepository) Replicate(ctx context.Context, stores []sop.StoreInfo) error {
	return do("sr.Replicate", func() error { return s.In.Replicate(ctx, stores) })
}

// ---- TransactionLog + PriorityLog ----

type TransactionLog struct {
	In sop.TransactionLog
	pl *PriorityLog
}

func NewTransactionLog(in sop.TransactionLog) *TransactionLog {
	return &TransactionLog{In: in, pl: &PriorityLog{In: in.PriorityLog()}}
}
func (t *TransactionLog) PriorityLog() sop.TransactionPriorityLog { return t.pl }
func (t *TransactionLog) NewUUID() sop.UUID                       { return t.In.NewUUID() }
func (t *TransactionLog) Add(ctx context.Context, tid sop.UUID, f int, payload []byte) error {
	return do(fmt.Sprintf("tlog.Add(%d)", f), func() error { return t.In.Add(ctx, tid, f, payload) })
}
func (t *TransactionLog) Remove(ctx context.Context, tid sop.UUID) error {
	return do("tlog.Remove", func() error { return t.In.Remove(ctx, tid) })
}
func (t *TransactionLog) GetOne(ctx context.Context) (sop.UUID, string, []sop.KeyValuePair[int, []byte], error) {
	return t.In.GetOne(ctx)
}
func (t *TransactionLog) GetOneOfHour(ctx context.Context, hour string) (sop.UUID, []sop.KeyValuePair[int, []byte], error) {
	return t.In.GetOneOfHour(ctx, hour)
}

type PriorityLog struct{ In sop.TransactionPriorityLog }

func (p *PriorityLog) IsEnabled() bool { return p.In.IsEnabled() }
func (p *PriorityLog) Add(ctx context.Context, tid sop.UUID, payload []byte) error {
	return do("plog.Add", func() error { return p.In.Add(ctx, tid, payload) })
}
func (p *PriorityLog) Remove(ctx context.Context, tid sop.UUID) error {
	return do("plog.Remove", func() error { return p.In.Remove(ctx, tid) })
}
func (p *PriorityLog) Get(ctx context.Context, tid sop.UUID) (out []sop.RegistryPayload[sop.Handle], err error) {
	err = do("plog.Get", func() error { out, err = p.In.Get(ctx, tid); return err })
	if err != nil {
		return nil, err
	}
	return
}
func (p *PriorityLog) GetBatch(ctx context.Context, n int) ([]sop.KeyValuePair[sop.UUID, []sop.RegistryPayload[sop.Handle]], error) {
	return p.In.GetBatch(ctx, n)
}
func (p *PriorityLog) ProcessNewer(ctx context.Context, f func(tid sop.UUID, payload []sop.RegistryPayload[sop.Handle]) error) error {
	return p.In.ProcessNewer(ctx, f)
}
func (p *PriorityLog) LogCommitChanges(ctx context.Context, stores []sop.StoreInfo, a, b, c, d []sop.RegistryPayload[sop.Handle]) error {
	return do("plog.LogCommitChanges", func() error { return p.In.LogCommitChanges(ctx, stores, a, b, c, d) })
}

// ---- DirectIO (global seam fs.DirectIOSim) ----

type DirectIO struct{ In fs.DirectIO }

// InstallDirectIO routes every registry block read/write through the plan.
func InstallDirectIO() { fs.DirectIOSim = &DirectIO{In: fs.NewDirectIO()} }

func (d *DirectIO) Open(ctx context.Context, filename string, flag int, perm os.FileMode) (*os.File, error) {
	return d.In.Open(ctx, filename, flag, perm)
}
func (d *DirectIO) Close(f *os.File) error { return d.In.Close(f) }
func (d *DirectIO) ReadAt(ctx context.Context, f *os.File, block []byte, off int64) (n int, err error) {
	err = do("dio.ReadAt", func() error { n, err = d.In.ReadAt(ctx, f, block, off); return err })
	if err != nil {
		return 0, err
	}
	return
}
func (d *DirectIO) WriteAt(ctx context.Context, f *os.File, block []byte, off int64) (n int, err error) {
	act, p := hit("dio.WriteAt")
	switch act {
	case FailBefore:
		return 0, ErrInjected
	case CrashBefore:
		crash()
	case Pause:
		p.pause()
	case PauseFail:
		p.pause()
		return 0, ErrInjected
	case Torn:
		// a torn write: only a prefix reaches the disk, then the process dies.
		n := p.TornN
		if p.TornRel > 0 {
			// tear inside the region this write actually changes
			old := make([]byte, len(block))
			if g, e := os.Open(f.Name()); e == nil {
				g.ReadAt(old, off)
				g.Close()
			}
			first := 0
			for first < len(block) && block[first] == old[first] {
				first++
			}
			n = first + p.TornRel
			if n > len(block) {
				n = len(block)
			}
		}
		if n > 0 {
			if g, e := os.OpenFile(f.Name(), os.O_RDWR, 0); e == nil {
				g.WriteAt(block[:n], off)
				g.Sync()
				g.Close()
			}
		}
		crash()
	}
	n, err = d.In.WriteAt(ctx, f, block, off)
	switch act {
	case FailAfter:
		return 0, ErrInjected
	case CrashAfter:
		crash()
	case PauseAfter:
		p.pause()
	}
	return
}
