package deco

import (
	"context"
	"strings"
	"sync"
	"time"

	"github.com/sharedcode/sop"
	"github.com/sharedcode/sop/cache"
)

// dataKeys remembers every non-lock key that was ever written through the decorated L2, so that Cool
// can evict exactly the cached DATA (nodes, item values, handles, store infos) and leave lock records
// alone - the state a process is in after its cache entries expired (every entry has its own TTL) or
// were evicted for capacity while the locks, which are refreshed, are still held.
var dataKeys sync.Map

func note(keys ...string) {
	for _, k := range keys {
		if keyClass(k) != "lock" {
			dataKeys.Store(k, struct{}{})
		}
	}
}

// Cool evicts every data entry from the L2 cache (directly on the wrapped cache: not a plan site) and
// from the process-global L1 node and handle caches. It returns the number of L2 keys evicted.
func (c *L2) Cool(ctx context.Context) int {
	var keys []string
	var nodes []sop.UUID
	dataKeys.Range(func(k, _ any) bool {
		ks := k.(string)
		keys = append(keys, ks)
		if keyClass(ks) == "node" {
			if id, err := sop.ParseUUID(ks[1:]); err == nil {
				nodes = append(nodes, id)
			}
		}
		return true
	})
	if len(keys) > 0 {
		c.In.Delete(ctx, keys)
	}
	l1 := cache.GetGlobalL1Cache(c)
	if len(nodes) > 0 {
		l1.DeleteNodes(ctx, nodes)
	}
	l1.Handles.Clear()
	return len(keys)
}

// keyClass names what an L2 key caches, so that site labels (and violation signatures) say which
// cache entry a fault hit: node blobs "N<uuid>", item values "V<uuid>", handles "<uuid>", store info
// "<folder>:<name>".
func keyClass(key string) string {
	switch {
	case strings.HasPrefix(key, "lock:"):
		return "lock"
	case len(key) == 37 && key[0] == 'N':
		return "node"
	case len(key) == 37 && key[0] == 'V':
		return "item"
	case len(key) == 36 && key[8] == '-' && key[13] == '-':
		return "handle"
	case strings.Contains(key, ":"):
		return "storeinfo"
	}
	return "other"
}

func keysClass(keys []string) string {
	if len(keys) == 0 {
		return "none"
	}
	return keyClass(keys[0])
}

// L2 wraps an L2 cache. One global instance is registered as the factory for sop.InMemory so that
// every path (public and mirror) goes through it.
type L2 struct{ In sop.L2Cache }

func (c *L2) GetType() sop.L2CacheType                      { return c.In.GetType() }
func (c *L2) FormatLockKey(k string) string                 { return c.In.FormatLockKey(k) }
func (c *L2) CreateLockKeys(keys []string) []*sop.LockKey   { return c.In.CreateLockKeys(keys) }
func (c *L2) CreateLockKeysForIDs(keys []sop.Tuple[string, sop.UUID]) []*sop.LockKey {
	return c.In.CreateLockKeysForIDs(keys)
}
func (c *L2) IsRestarted(ctx context.Context) bool { return c.In.IsRestarted(ctx) }
func (c *L2) Ping(ctx context.Context) error       { return c.In.Ping(ctx) }
func (c *L2) Clear(ctx context.Context) error      { return c.In.Clear(ctx) }

func (c *L2) Set(ctx context.Context, key, value string, exp time.Duration) error {
	return do("l2.Set", func() error { return c.In.Set(ctx, key, value, exp) })
}
func (c *L2) Get(ctx context.Context, key string) (ok bool, v string, err error) {
	err = do("l2.Get", func() error { ok, v, err = c.In.Get(ctx, key); return err })
	if err != nil {
		return false, "", err
	}
	return
}
func (c *L2) GetEx(ctx context.Context, key string, exp time.Duration) (ok bool, v string, err error) {
	err = do("l2.GetEx", func() error { ok, v, err = c.In.GetEx(ctx, key, exp); return err })
	if err != nil {
		return false, "", err
	}
	return
}
func (c *L2) SetStruct(ctx context.Context, key string, value interface{}, exp time.Duration) error {
	note(key)
	return do("l2.SetStruct["+keyClass(key)+"]", func() error { return c.In.SetStruct(ctx, key, value, exp) })
}
func (c *L2) SetStructs(ctx context.Context, keys []string, values []interface{}, exp time.Duration) error {
	note(keys...)
	return do("l2.SetStructs["+keysClass(keys)+"]", func() error { return c.In.SetStructs(ctx, keys, values, exp) })
}
func (c *L2) GetStruct(ctx context.Context, key string, target interface{}) (ok bool, err error) {
	err = do("l2.GetStruct["+keyClass(key)+"]", func() error { ok, err = c.In.GetStruct(ctx, key, target); return err })
	if err != nil {
		return false, err
	}
	return
}
func (c *L2) GetStructEx(ctx context.Context, key string, target interface{}, exp time.Duration) (ok bool, err error) {
	err = do("l2.GetStructEx["+keyClass(key)+"]", func() error { ok, err = c.In.GetStructEx(ctx, key, target, exp); return err })
	if err != nil {
		return false, err
	}
	return
}
func (c *L2) GetStructs(ctx context.Context, keys []string, targets []interface{}, exp time.Duration) (found []bool, err error) {
	err = do("l2.GetStructs["+keysClass(keys)+"]", func() error { found, err = c.In.GetStructs(ctx, keys, targets, exp); return err })
	if err != nil {
		return make([]bool, len(keys)), err
	}
	return
}
func (c *L2) Delete(ctx context.Context, keys []string) (ok bool, err error) {
	err = do("l2.Delete["+keysClass(keys)+"]", func() error { ok, err = c.In.Delete(ctx, keys); return err })
	if err != nil {
		return false, err
	}
	return
}

// lock-type calls additionally support Refuse.
func (c *L2) lockCall(label string, call func() (bool, sop.UUID, error)) (bool, sop.UUID, error) {
	act, p := hit(label)
	switch act {
	case FailBefore:
		return false, sop.NilUUID, ErrInjected
	case Refuse:
		return false, sop.NilUUID, nil
	case CrashBefore:
		crash()
	case Pause:
		p.pause()
	case PauseFail:
		p.pause()
		return false, sop.NilUUID, ErrInjected
	}
	ok, id, err := call()
	switch act {
	case FailAfter:
		return false, sop.NilUUID, ErrInjected
	case CrashAfter:
		crash()
	case PauseAfter:
		p.pause()
	}
	return ok, id, err
}

func (c *L2) Lock(ctx context.Context, d time.Duration, lk []*sop.LockKey) (bool, sop.UUID, error) {
	return c.lockCall("l2.Lock", func() (bool, sop.UUID, error) { return c.In.Lock(ctx, d, lk) })
}
func (c *L2) DualLock(ctx context.Context, d time.Duration, lk []*sop.LockKey) (bool, sop.UUID, error) {
	return c.lockCall("l2.DualLock", func() (bool, sop.UUID, error) { return c.In.DualLock(ctx, d, lk) })
}
func (c *L2) IsLocked(ctx context.Context, lk []*sop.LockKey) (bool, error) {
	ok, _, err := c.lockCall("l2.IsLocked", func() (bool, sop.UUID, error) { ok, err := c.In.IsLocked(ctx, lk); return ok, sop.NilUUID, err })
	return ok, err
}
func (c *L2) IsLockedTTL(ctx context.Context, d time.Duration, lk []*sop.LockKey) (bool, error) {
	ok, _, err := c.lockCall("l2.IsLockedTTL", func() (bool, sop.UUID, error) { ok, err := c.In.IsLockedTTL(ctx, d, lk); return ok, sop.NilUUID, err })
	return ok, err
}
func (c *L2) IsLockedByOthers(ctx context.Context, names []string) (ok bool, err error) {
	err = do("l2.IsLockedByOthers", func() error { ok, err = c.In.IsLockedByOthers(ctx, names); return err })
	if err != nil {
		return false, err
	}
	return
}
func (c *L2) IsLockedByOthersTTL(ctx context.Context, names []string, d time.Duration) (ok bool, err error) {
	err = do("l2.IsLockedByOthersTTL", func() error { ok, err = c.In.IsLockedByOthersTTL(ctx, names, d); return err })
	if err != nil {
		return false, err
	}
	return
}
func (c *L2) Unlock(ctx context.Context, lk []*sop.LockKey) error {
	return do("l2.Unlock", func() error { return c.In.Unlock(ctx, lk) })
}
