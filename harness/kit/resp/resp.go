// Package resp: a RESP2 server with a VIRTUAL clock that stands in for Redis (DESIGN §3.6).
//
// Only the server is a stub: the code under test is the real adapter (/repo/adapters/redis) over the
// real go-redis v9 client. The stub implements the commands that adapter issues (and a few cheap
// neighbours), one command at a time under one mutex (Redis' single-threaded semantics). A pipeline
// is a sequence of ordinary commands; commands of other connections may interleave between them.
//
// Documented semantics (unit-tested in resp_test.go):
//   - Values are strings only. Unknown commands answer `-ERR unknown command` and are counted.
//   - HELLO always answers with an error, so go-redis falls back to RESP2.
//   - Key expiry is driven by a virtual clock in milliseconds which starts at 0 and moves ONLY on
//     `VERIF.ADVANCE <ms>` / Server.Advance. A key written at virtual time t with TTL d has
//     expireAt = t+d; as in Redis (db.c keyIsExpired: `now > when`) it is live while now <= t+d and
//     gone as soon as now > t+d. "Definitely expired" therefore needs Advance(d + 1ms).
//   - SET key v [EX s|PX ms|KEEPTTL] [NX|XX] [GET]; plain SET clears the TTL. SETNX, SETEX, PSETEX.
//     GET, GETDEL, GETEX key [EX s|PX ms|PERSIST] (no option: TTL untouched), MGET (nil for missing),
//     MSET, DEL/UNLINK (count of keys that existed), EXISTS (count, duplicates counted),
//     EXPIRE/PEXPIRE key n [NX|XX|GT|LT] (n <= 0 deletes the key), PERSIST, TTL/PTTL (-2 missing, -1 no
//     TTL), DBSIZE, KEYS, SCAN (single batch), FLUSHDB/FLUSHALL, SELECT (separate keyspaces), PING, ECHO,
//     AUTH/CLIENT/QUIT (OK), INFO (contains a `run_id:` line), VERIF.NOW, VERIF.ADVANCE, VERIF.RESTART
//     (all keys lost, new run_id — what a server restart without persistence looks like).
package resp

import (
	"bufio"
	"errors"
	"fmt"
	"io"
	"net"
	"path"
	"runtime"
	"sort"
	"strconv"
	"strings"
	"sync"
	"sync/atomic"
	"time"

	"github.com/sharedcode/sop"
)

type entry struct {
	val      []byte
	expireAt int64 // virtual ms; 0 = no expiry
}

// KeyInfo is one live key in a snapshot. TTLms is -1 when the key has no expiry.
type KeyInfo struct {
	Value string
	TTLms int64
}

// Server is one stub instance.
type Server struct {
	mu      sync.Mutex
	ln      net.Listener
	now     int64
	dbs     map[int]map[string]*entry
	runSeq  int
	conns   map[net.Conn]struct{}
	closed  bool
	wg      sync.WaitGroup
	logMax  int
	log     []string
	unknown []string
	ncmd    int64
	yield   atomic.Bool
}

// Start listens on 127.0.0.1:0.
func Start() (*Server, error) { return StartAt("127.0.0.1:0") }

// StartAt listens on addr (host:port).
func StartAt(addr string) (*Server, error) {
	ln, err := net.Listen("tcp", addr)
	if err != nil {
		return nil, err
	}
	s := &Server{ln: ln, dbs: map[int]map[string]*entry{}, conns: map[net.Conn]struct{}{}, runSeq: 1}
	s.wg.Add(1)
	go s.accept()
	return s, nil
}

// Serve is the standalone mode: it hosts a stub at addr, prints `LISTENING <addr>` on stdout and
// blocks until the listener fails (i.e. until the process is killed). Child processes reach it via
// Options(addr); the virtual clock is moved remotely with Do(addr, "VERIF.ADVANCE", ms).
func Serve(addr string) error {
	s, err := StartAt(addr)
	if err != nil {
		return err
	}
	fmt.Printf("LISTENING %s\n", s.Addr())
	s.wg.Wait()
	return errors.New("resp: listener closed")
}

// Addr is the host:port the stub listens on.
func (s *Server) Addr() string { return s.ln.Addr().String() }

// SetYield makes every connection yield the processor between two commands, so that the commands of
// concurrent pipelines interleave more often (the stub stays one-command-at-a-time).
func (s *Server) SetYield(on bool) { s.yield.Store(on) }

// EnableLog keeps the last max commands (0 disables).
func (s *Server) EnableLog(max int) {
	s.mu.Lock()
	s.logMax, s.log = max, nil
	s.mu.Unlock()
}

// CommandLog returns the recorded commands (see EnableLog).
func (s *Server) CommandLog() []string {
	s.mu.Lock()
	defer s.mu.Unlock()
	return append([]string(nil), s.log...)
}

// Unknown returns the names of commands the stub did not implement (must stay empty for a trusted run).
func (s *Server) Unknown() []string {
	s.mu.Lock()
	defer s.mu.Unlock()
	return append([]string(nil), s.unknown...)
}

// Commands is the number of commands executed so far.
func (s *Server) Commands() int64 {
	s.mu.Lock()
	defer s.mu.Unlock()
	return s.ncmd
}

// Now is the virtual time.
func (s *Server) Now() time.Duration {
	s.mu.Lock()
	defer s.mu.Unlock()
	return time.Duration(s.now) * time.Millisecond
}

// Advance moves the virtual clock forward (rounded down to milliseconds) and returns the new time.
func (s *Server) Advance(d time.Duration) time.Duration {
	s.mu.Lock()
	defer s.mu.Unlock()
	if d > 0 {
		s.now += int64(d / time.Millisecond)
	}
	return time.Duration(s.now) * time.Millisecond
}

// Restart drops every key and changes run_id (a restart of a server without persistence).
func (s *Server) Restart() {
	s.mu.Lock()
	defer s.mu.Unlock()
	s.dbs = map[int]map[string]*entry{}
	s.runSeq++
}

// Keys is a snapshot of the live keys of database 0.
func (s *Server) Keys() map[string]KeyInfo { return s.KeysDB(0) }

// KeysDB is a snapshot of the live keys of one database.
func (s *Server) KeysDB(db int) map[string]KeyInfo {
	s.mu.Lock()
	defer s.mu.Unlock()
	out := map[string]KeyInfo{}
	for k, e := range s.dbs[db] {
		if s.expired(e) {
			continue
		}
		ttl := int64(-1)
		if e.expireAt != 0 {
			ttl = e.expireAt - s.now
		}
		out[k] = KeyInfo{Value: string(e.val), TTLms: ttl}
	}
	return out
}

// Close stops the listener and every connection.
func (s *Server) Close() error {
	s.mu.Lock()
	if s.closed {
		s.mu.Unlock()
		return nil
	}
	s.closed = true
	for c := range s.conns {
		c.Close()
	}
	s.mu.Unlock()
	err := s.ln.Close()
	s.wg.Wait()
	return err
}

// Config builds the adapter configuration for a stub address. Timeouts are generous and client-side
// retries are off (-1), so a slow machine produces neither spurious errors nor re-executed commands.
func Config(addr string) *sop.RedisCacheConfig {
	return &sop.RedisCacheConfig{Address: addr, DialTimeout: 10 * time.Second, ReadTimeout: 60 * time.Second,
		WriteTimeout: 60 * time.Second, MaxRetries: -1}
}

// Options builds transaction options selecting the Redis L2 cache at a stub address.
func Options(addr string) sop.TransactionOptions {
	return sop.TransactionOptions{CacheType: sop.Redis, RedisConfig: Config(addr)}
}

// Do sends one command to a (possibly remote) stub over a fresh connection and renders the reply:
// simple strings and bulk strings as is, integers in decimal, nil as "(nil)", arrays joined by "\n",
// error replies as a Go error.
func Do(addr string, args ...string) (string, error) {
	c, err := net.DialTimeout("tcp", addr, 10*time.Second)
	if err != nil {
		return "", err
	}
	defer c.Close()
	var b strings.Builder
	fmt.Fprintf(&b, "*%d\r\n", len(args))
	for _, a := range args {
		fmt.Fprintf(&b, "$%d\r\n%s\r\n", len(a), a)
	}
	if _, err := io.WriteString(c, b.String()); err != nil {
		return "", err
	}
	return readReply(bufio.NewReader(c))
}

// AdvanceRemote moves the virtual clock of the stub at addr.
func AdvanceRemote(addr string, d time.Duration) error {
	_, err := Do(addr, "VERIF.ADVANCE", strconv.FormatInt(int64(d/time.Millisecond), 10))
	return err
}

func readReply(r *bufio.Reader) (string, error) {
	line, err := r.ReadString('\n')
	if err != nil {
		return "", err
	}
	line = strings.TrimRight(line, "\r\n")
	if line == "" {
		return "", errors.New("resp: empty reply")
	}
	switch line[0] {
	case '+', ':':
		return line[1:], nil
	case '-':
		return "", errors.New(line[1:])
	case '$':
		n, _ := strconv.Atoi(line[1:])
		if n < 0 {
			return "(nil)", nil
		}
		buf := make([]byte, n+2)
		if _, err := io.ReadFull(r, buf); err != nil {
			return "", err
		}
		return string(buf[:n]), nil
	case '*':
		n, _ := strconv.Atoi(line[1:])
		if n < 0 {
			return "(nil)", nil
		}
		parts := make([]string, 0, n)
		for i := 0; i < n; i++ {
			p, err := readReply(r)
			if err != nil {
				return "", err
			}
			parts = append(parts, p)
		}
		return strings.Join(parts, "\n"), nil
	}
	return "", fmt.Errorf("resp: bad reply %q", line)
}

// ---- server side ----

func (s *Server) accept() {
	defer s.wg.Done()
	for {
		c, err := s.ln.Accept()
		if err != nil {
			return
		}
		s.mu.Lock()
		if s.closed {
			s.mu.Unlock()
			c.Close()
			return
		}
		s.conns[c] = struct{}{}
		s.mu.Unlock()
		s.wg.Add(1)
		go s.serve(c)
	}
}

func (s *Server) serve(c net.Conn) {
	defer s.wg.Done()
	defer func() {
		c.Close()
		s.mu.Lock()
		delete(s.conns, c)
		s.mu.Unlock()
	}()
	r := bufio.NewReaderSize(c, 64<<10)
	w := bufio.NewWriterSize(c, 64<<10)
	db := 0
	for {
		args, err := readCommand(r)
		if err != nil {
			return
		}
		if len(args) == 0 {
			continue
		}
		quit := s.exec(w, &db, args)
		if r.Buffered() == 0 || quit {
			if w.Flush() != nil || quit {
				return
			}
		}
		if s.yield.Load() {
			runtime.Gosched()
		}
	}
}

func readCommand(r *bufio.Reader) ([][]byte, error) {
	line, err := r.ReadBytes('\n')
	if err != nil {
		return nil, err
	}
	line = trimCRLF(line)
	if len(line) == 0 {
		return nil, nil
	}
	if line[0] != '*' { // inline command
		var out [][]byte
		for _, f := range strings.Fields(string(line)) {
			out = append(out, []byte(f))
		}
		return out, nil
	}
	n, err := strconv.Atoi(string(line[1:]))
	if err != nil || n < 0 || n > 1<<20 {
		return nil, errors.New("resp: bad array header")
	}
	args := make([][]byte, 0, n)
	for i := 0; i < n; i++ {
		h, err := r.ReadBytes('\n')
		if err != nil {
			return nil, err
		}
		h = trimCRLF(h)
		if len(h) == 0 || h[0] != '$' {
			return nil, errors.New("resp: expected bulk string")
		}
		l, err := strconv.Atoi(string(h[1:]))
		if err != nil || l < 0 || l > 512<<20 {
			return nil, errors.New("resp: bad bulk length")
		}
		buf := make([]byte, l+2)
		if _, err := io.ReadFull(r, buf); err != nil {
			return nil, err
		}
		args = append(args, buf[:l])
	}
	return args, nil
}

func trimCRLF(b []byte) []byte {
	for len(b) > 0 && (b[len(b)-1] == '\n' || b[len(b)-1] == '\r') {
		b = b[:len(b)-1]
	}
	return b
}

func wStatus(w *bufio.Writer, s string) { w.WriteString("+" + s + "\r\n") }
func wErr(w *bufio.Writer, s string)    { w.WriteString("-" + s + "\r\n") }
func wInt(w *bufio.Writer, n int64)     { w.WriteString(":" + strconv.FormatInt(n, 10) + "\r\n") }
func wNil(w *bufio.Writer)              { w.WriteString("$-1\r\n") }
func wBulk(w *bufio.Writer, b []byte) {
	w.WriteString("$" + strconv.Itoa(len(b)) + "\r\n")
	w.Write(b)
	w.WriteString("\r\n")
}
func wArrayHdr(w *bufio.Writer, n int) { w.WriteString("*" + strconv.Itoa(n) + "\r\n") }

func (s *Server) expired(e *entry) bool { return e.expireAt != 0 && s.now > e.expireAt }

// lookup returns the live entry or nil (lazily removing an expired one). Caller holds s.mu.
func (s *Server) lookup(db int, key string) *entry {
	m := s.dbs[db]
	e, ok := m[key]
	if !ok {
		return nil
	}
	if s.expired(e) {
		delete(m, key)
		return nil
	}
	return e
}

func (s *Server) keyspace(db int) map[string]*entry {
	m := s.dbs[db]
	if m == nil {
		m = map[string]*entry{}
		s.dbs[db] = m
	}
	return m
}

func parseInt(b []byte) (int64, bool) {
	n, err := strconv.ParseInt(string(b), 10, 64)
	return n, err == nil
}

const (
	errSyntax = "ERR syntax error"
	errNotInt = "ERR value is not an integer or out of range"
)

func wrongArgs(w *bufio.Writer, cmd string) {
	wErr(w, "ERR wrong number of arguments for '"+strings.ToLower(cmd)+"' command")
}

// exec runs one command under the server mutex and writes the reply. Returns true for QUIT.
func (s *Server) exec(w *bufio.Writer, db *int, args [][]byte) bool {
	cmd := strings.ToUpper(string(args[0]))
	a := args[1:]
	s.mu.Lock()
	defer s.mu.Unlock()
	s.ncmd++
	if s.logMax > 0 {
		parts := make([]string, 0, len(args))
		parts = append(parts, cmd)
		for _, x := range a {
			if len(x) > 48 {
				parts = append(parts, string(x[:48])+"…")
			} else {
				parts = append(parts, string(x))
			}
		}
		if len(s.log) >= s.logMax {
			s.log = s.log[1:]
		}
		s.log = append(s.log, strings.Join(parts, " "))
	}
	switch cmd {
	case "PING":
		if len(a) == 0 {
			wStatus(w, "PONG")
		} else {
			wBulk(w, a[0])
		}
	case "ECHO":
		if len(a) != 1 {
			wrongArgs(w, cmd)
		} else {
			wBulk(w, a[0])
		}
	case "HELLO":
		wErr(w, "ERR unknown command 'HELLO'")
	case "AUTH":
		wStatus(w, "OK")
	case "CLIENT":
		if len(a) > 0 && strings.EqualFold(string(a[0]), "ID") {
			wInt(w, 1)
		} else if len(a) > 0 && strings.EqualFold(string(a[0]), "GETNAME") {
			wNil(w)
		} else {
			wStatus(w, "OK")
		}
	case "SELECT":
		if len(a) != 1 {
			wrongArgs(w, cmd)
			break
		}
		n, ok := parseInt(a[0])
		if !ok || n < 0 {
			wErr(w, "ERR invalid DB index")
			break
		}
		*db = int(n)
		wStatus(w, "OK")
	case "QUIT":
		wStatus(w, "OK")
		return true
	case "SET":
		s.cmdSet(w, *db, a)
	case "SETNX":
		if len(a) != 2 {
			wrongArgs(w, cmd)
			break
		}
		if s.lookup(*db, string(a[0])) != nil {
			wInt(w, 0)
			break
		}
		s.keyspace(*db)[string(a[0])] = &entry{val: clone(a[1])}
		wInt(w, 1)
	case "SETEX", "PSETEX":
		if len(a) != 3 {
			wrongArgs(w, cmd)
			break
		}
		n, ok := parseInt(a[1])
		if !ok {
			wErr(w, errNotInt)
			break
		}
		if n <= 0 {
			wErr(w, "ERR invalid expire time in '"+strings.ToLower(cmd)+"' command")
			break
		}
		if cmd == "SETEX" {
			n *= 1000
		}
		s.keyspace(*db)[string(a[0])] = &entry{val: clone(a[2]), expireAt: s.now + n}
		wStatus(w, "OK")
	case "MSET":
		if len(a) == 0 || len(a)%2 != 0 {
			wrongArgs(w, cmd)
			break
		}
		for i := 0; i < len(a); i += 2 {
			s.keyspace(*db)[string(a[i])] = &entry{val: clone(a[i+1])}
		}
		wStatus(w, "OK")
	case "GET":
		if len(a) != 1 {
			wrongArgs(w, cmd)
			break
		}
		if e := s.lookup(*db, string(a[0])); e != nil {
			wBulk(w, e.val)
		} else {
			wNil(w)
		}
	case "GETDEL":
		if len(a) != 1 {
			wrongArgs(w, cmd)
			break
		}
		if e := s.lookup(*db, string(a[0])); e != nil {
			wBulk(w, e.val)
			delete(s.dbs[*db], string(a[0]))
		} else {
			wNil(w)
		}
	case "GETEX":
		s.cmdGetEx(w, *db, a)
	case "MGET":
		if len(a) == 0 {
			wrongArgs(w, cmd)
			break
		}
		wArrayHdr(w, len(a))
		for _, k := range a {
			if e := s.lookup(*db, string(k)); e != nil {
				wBulk(w, e.val)
			} else {
				wNil(w)
			}
		}
	case "DEL", "UNLINK":
		if len(a) == 0 {
			wrongArgs(w, cmd)
			break
		}
		var n int64
		for _, k := range a {
			if s.lookup(*db, string(k)) != nil {
				delete(s.dbs[*db], string(k))
				n++
			}
		}
		wInt(w, n)
	case "EXISTS":
		if len(a) == 0 {
			wrongArgs(w, cmd)
			break
		}
		var n int64
		for _, k := range a {
			if s.lookup(*db, string(k)) != nil {
				n++
			}
		}
		wInt(w, n)
	case "EXPIRE", "PEXPIRE":
		s.cmdExpire(w, *db, cmd, a)
	case "PERSIST":
		if len(a) != 1 {
			wrongArgs(w, cmd)
			break
		}
		if e := s.lookup(*db, string(a[0])); e != nil && e.expireAt != 0 {
			e.expireAt = 0
			wInt(w, 1)
		} else {
			wInt(w, 0)
		}
	case "TTL", "PTTL":
		if len(a) != 1 {
			wrongArgs(w, cmd)
			break
		}
		e := s.lookup(*db, string(a[0]))
		switch {
		case e == nil:
			wInt(w, -2)
		case e.expireAt == 0:
			wInt(w, -1)
		case cmd == "PTTL":
			wInt(w, e.expireAt-s.now)
		default:
			wInt(w, (e.expireAt-s.now+500)/1000)
		}
	case "DBSIZE":
		var n int64
		for k := range s.dbs[*db] {
			if s.lookup(*db, k) != nil {
				n++
			}
		}
		wInt(w, n)
	case "KEYS":
		if len(a) != 1 {
			wrongArgs(w, cmd)
			break
		}
		ks := s.match(*db, string(a[0]))
		wArrayHdr(w, len(ks))
		for _, k := range ks {
			wBulk(w, []byte(k))
		}
	case "SCAN":
		if len(a) < 1 {
			wrongArgs(w, cmd)
			break
		}
		pat := "*"
		for i := 1; i+1 < len(a); i += 2 {
			if strings.EqualFold(string(a[i]), "MATCH") {
				pat = string(a[i+1])
			}
		}
		ks := s.match(*db, pat)
		wArrayHdr(w, 2)
		wBulk(w, []byte("0"))
		wArrayHdr(w, len(ks))
		for _, k := range ks {
			wBulk(w, []byte(k))
		}
	case "FLUSHDB":
		delete(s.dbs, *db)
		wStatus(w, "OK")
	case "FLUSHALL":
		s.dbs = map[int]map[string]*entry{}
		wStatus(w, "OK")
	case "INFO":
		info := fmt.Sprintf("# Server\r\nredis_version:7.2.0\r\nredis_mode:standalone\r\nverif_stub:1\r\nrun_id:%040d\r\nuptime_in_seconds:%d\r\n# Keyspace\r\n",
			s.runSeq, s.now/1000)
		wBulk(w, []byte(info))
	case "VERIF.NOW":
		wInt(w, s.now)
	case "VERIF.ADVANCE":
		if len(a) != 1 {
			wrongArgs(w, cmd)
			break
		}
		n, ok := parseInt(a[0])
		if !ok || n < 0 {
			wErr(w, errNotInt)
			break
		}
		s.now += n
		wInt(w, s.now)
	case "VERIF.RESTART":
		s.dbs = map[int]map[string]*entry{}
		s.runSeq++
		wStatus(w, "OK")
	default:
		if len(s.unknown) < 64 {
			s.unknown = append(s.unknown, cmd)
		}
		wErr(w, "ERR unknown command '"+string(args[0])+"'")
	}
	return false
}

func clone(b []byte) []byte { return append([]byte(nil), b...) }

func (s *Server) match(db int, pat string) []string {
	var ks []string
	for k := range s.dbs[db] {
		if s.lookup(db, k) == nil {
			continue
		}
		if ok, _ := path.Match(pat, k); ok || pat == "*" {
			ks = append(ks, k)
		}
	}
	sort.Strings(ks)
	return ks
}

func (s *Server) cmdSet(w *bufio.Writer, db int, a [][]byte) {
	if len(a) < 2 {
		wrongArgs(w, "set")
		return
	}
	key, val := string(a[0]), a[1]
	var nx, xx, keepTTL, get, hasTTL bool
	var ttl int64
	for i := 2; i < len(a); i++ {
		switch strings.ToUpper(string(a[i])) {
		case "NX":
			nx = true
		case "XX":
			xx = true
		case "KEEPTTL":
			keepTTL = true
		case "GET":
			get = true
		case "EX", "PX":
			if i+1 >= len(a) || hasTTL {
				wErr(w, errSyntax)
				return
			}
			n, ok := parseInt(a[i+1])
			if !ok {
				wErr(w, errNotInt)
				return
			}
			if n <= 0 {
				wErr(w, "ERR invalid expire time in 'set' command")
				return
			}
			if strings.EqualFold(string(a[i]), "EX") {
				n *= 1000
			}
			ttl, hasTTL = n, true
			i++
		default:
			wErr(w, errSyntax)
			return
		}
	}
	if (nx && xx) || (keepTTL && hasTTL) {
		wErr(w, errSyntax)
		return
	}
	old := s.lookup(db, key)
	reply := func(done bool) {
		switch {
		case get && old != nil:
			wBulk(w, old.val)
		case get:
			wNil(w)
		case done:
			wStatus(w, "OK")
		default:
			wNil(w)
		}
	}
	if (nx && old != nil) || (xx && old == nil) {
		reply(false)
		return
	}
	ne := &entry{val: clone(val)}
	if hasTTL {
		ne.expireAt = s.now + ttl
	} else if keepTTL && old != nil {
		ne.expireAt = old.expireAt
	}
	// reply uses old.val, so write the reply before replacing the entry
	reply(true)
	s.keyspace(db)[key] = ne
}

func (s *Server) cmdGetEx(w *bufio.Writer, db int, a [][]byte) {
	if len(a) < 1 {
		wrongArgs(w, "getex")
		return
	}
	mode, ttl := "", int64(0)
	switch {
	case len(a) == 1:
	case len(a) == 2 && strings.EqualFold(string(a[1]), "PERSIST"):
		mode = "PERSIST"
	case len(a) == 3 && (strings.EqualFold(string(a[1]), "EX") || strings.EqualFold(string(a[1]), "PX")):
		n, ok := parseInt(a[2])
		if !ok {
			wErr(w, errNotInt)
			return
		}
		if n <= 0 {
			wErr(w, "ERR invalid expire time in 'getex' command")
			return
		}
		if strings.EqualFold(string(a[1]), "EX") {
			n *= 1000
		}
		mode, ttl = "TTL", n
	default:
		wErr(w, errSyntax)
		return
	}
	e := s.lookup(db, string(a[0]))
	if e == nil {
		wNil(w)
		return
	}
	switch mode {
	case "PERSIST":
		e.expireAt = 0
	case "TTL":
		e.expireAt = s.now + ttl
	}
	wBulk(w, e.val)
}

func (s *Server) cmdExpire(w *bufio.Writer, db int, cmd string, a [][]byte) {
	if len(a) < 2 || len(a) > 3 {
		wrongArgs(w, cmd)
		return
	}
	n, ok := parseInt(a[1])
	if !ok {
		wErr(w, errNotInt)
		return
	}
	if cmd == "EXPIRE" {
		n *= 1000
	}
	mode := ""
	if len(a) == 3 {
		mode = strings.ToUpper(string(a[2]))
		switch mode {
		case "NX", "XX", "GT", "LT":
		default:
			wErr(w, "ERR Unsupported option "+string(a[2]))
			return
		}
	}
	e := s.lookup(db, string(a[0]))
	if e == nil {
		wInt(w, 0)
		return
	}
	when := s.now + n
	switch mode { // a key without TTL counts as infinite TTL for GT/LT
	case "NX":
		if e.expireAt != 0 {
			wInt(w, 0)
			return
		}
	case "XX":
		if e.expireAt == 0 {
			wInt(w, 0)
			return
		}
	case "GT":
		if e.expireAt == 0 || when <= e.expireAt {
			wInt(w, 0)
			return
		}
	case "LT":
		if e.expireAt != 0 && when >= e.expireAt {
			wInt(w, 0)
			return
		}
	}
	if when <= s.now { // Redis: an EXPIRE in the past deletes the key
		delete(s.dbs[db], string(a[0]))
	} else {
		e.expireAt = when
	}
	wInt(w, 1)
}
