package resp

import (
	"context"
	"fmt"
	"net"
	"sync"
	"testing"
	"time"

	goredis "github.com/redis/go-redis/v9"
	"github.com/sharedcode/sop"
	sopredis "github.com/sharedcode/sop/adapters/redis"
)

func start(t *testing.T) *Server {
	t.Helper()
	s, err := Start()
	if err != nil {
		t.Fatal(err)
	}
	t.Cleanup(func() { s.Close() })
	return s
}

func do(t *testing.T, s *Server, want string, args ...string) {
	t.Helper()
	got, err := Do(s.Addr(), args...)
	if err != nil {
		got = "ERR:" + err.Error()
	}
	if got != want {
		t.Fatalf("%v: got %q want %q", args, got, want)
	}
}

func TestSetNXAndOptions(t *testing.T) {
	s := start(t)
	do(t, s, "OK", "SET", "k", "a", "NX")
	do(t, s, "(nil)", "SET", "k", "b", "NX")
	do(t, s, "a", "GET", "k")
	do(t, s, "OK", "SET", "k", "c", "XX")
	do(t, s, "(nil)", "SET", "nokey", "c", "XX")
	do(t, s, "c", "SET", "k", "d", "GET")
	do(t, s, "(nil)", "SET", "k2", "d", "GET")
	do(t, s, "d", "GET", "k2")
	do(t, s, "1", "SETNX", "k3", "x")
	do(t, s, "0", "SETNX", "k3", "y")
	do(t, s, "x", "GET", "k3")
	do(t, s, "ERR:ERR syntax error", "SET", "k", "v", "NX", "XX")
	do(t, s, "ERR:ERR invalid expire time in 'set' command", "SET", "k", "v", "EX", "0")
	do(t, s, "ERR:ERR syntax error", "SET", "k", "v", "BOGUS")
	// NX with a TTL: after expiry the key is free again
	do(t, s, "OK", "SET", "l", "A", "PX", "100", "NX")
	do(t, s, "(nil)", "SET", "l", "B", "PX", "100", "NX")
	s.Advance(100 * time.Millisecond)
	do(t, s, "(nil)", "SET", "l", "B", "PX", "100", "NX") // now == expireAt: still live
	s.Advance(time.Millisecond)
	do(t, s, "OK", "SET", "l", "B", "PX", "100", "NX")
	do(t, s, "B", "GET", "l")
}

func TestExpiryUnderVirtualClock(t *testing.T) {
	s := start(t)
	do(t, s, "0", "VERIF.NOW")
	do(t, s, "OK", "SET", "a", "1", "EX", "2")
	do(t, s, "OK", "SET", "b", "1", "PX", "1500")
	do(t, s, "OK", "SET", "c", "1")
	do(t, s, "2", "TTL", "a")
	do(t, s, "2000", "PTTL", "a")
	do(t, s, "-1", "TTL", "c")
	do(t, s, "-2", "TTL", "zz")
	time.Sleep(30 * time.Millisecond) // wall clock must not matter
	do(t, s, "2000", "PTTL", "a")
	do(t, s, "1500", "VERIF.ADVANCE", "1500")
	do(t, s, "1", "GET", "b") // now == expireAt
	do(t, s, "1501", "VERIF.ADVANCE", "1")
	do(t, s, "(nil)", "GET", "b")
	do(t, s, "1", "GET", "a")
	do(t, s, "2", "EXISTS", "a", "b", "c")
	if got := s.Advance(500 * time.Millisecond); got != 2001*time.Millisecond {
		t.Fatalf("Advance returned %v", got)
	}
	do(t, s, "(nil)", "GET", "a")
	do(t, s, "1", "GET", "c")
	do(t, s, "1", "DBSIZE")
	// plain SET clears the TTL, KEEPTTL keeps it
	do(t, s, "OK", "SET", "d", "1", "PX", "100")
	do(t, s, "OK", "SET", "d", "2", "KEEPTTL")
	do(t, s, "100", "PTTL", "d")
	do(t, s, "OK", "SET", "d", "3")
	do(t, s, "-1", "PTTL", "d")
	// EXPIRE / PEXPIRE / PERSIST
	do(t, s, "1", "EXPIRE", "d", "10")
	do(t, s, "10000", "PTTL", "d")
	do(t, s, "1", "PEXPIRE", "d", "50")
	do(t, s, "0", "EXPIRE", "missing", "10")
	do(t, s, "1", "PERSIST", "d")
	do(t, s, "0", "PERSIST", "d")
	do(t, s, "1", "EXPIRE", "d", "0") // deletes
	do(t, s, "0", "EXISTS", "d")
	keys := s.Keys()
	if len(keys) != 1 || keys["c"].Value != "1" || keys["c"].TTLms != -1 {
		t.Fatalf("Keys() = %v", keys)
	}
}

func TestGetEx(t *testing.T) {
	s := start(t)
	do(t, s, "(nil)", "GETEX", "k", "EX", "5")
	do(t, s, "OK", "SET", "k", "v", "PX", "100")
	do(t, s, "v", "GETEX", "k") // no option: TTL untouched
	do(t, s, "100", "PTTL", "k")
	do(t, s, "v", "GETEX", "k", "EX", "5")
	do(t, s, "5000", "PTTL", "k")
	do(t, s, "v", "GETEX", "k", "PX", "250")
	do(t, s, "250", "PTTL", "k")
	do(t, s, "v", "GETEX", "k", "PERSIST")
	do(t, s, "-1", "PTTL", "k")
	do(t, s, "v", "GETEX", "k", "PX", "10")
	s.Advance(11 * time.Millisecond)
	do(t, s, "(nil)", "GETEX", "k", "EX", "5") // expired keys are not revived
	do(t, s, "0", "EXISTS", "k")
	do(t, s, "ERR:ERR syntax error", "GETEX", "k", "BOGUS")
	do(t, s, "ERR:ERR invalid expire time in 'getex' command", "GETEX", "k", "EX", "0")
}

func TestMGetDelMisc(t *testing.T) {
	s := start(t)
	do(t, s, "OK", "MSET", "a", "1", "c", "3")
	do(t, s, "1\n(nil)\n3", "MGET", "a", "b", "c")
	do(t, s, "2", "DEL", "a", "b", "c", "zz")
	do(t, s, "0", "DEL", "a")
	do(t, s, "(nil)\n(nil)", "MGET", "a", "c")
	do(t, s, "PONG", "PING")
	do(t, s, "hi", "PING", "hi")
	do(t, s, "OK", "CLIENT", "SETINFO", "LIB-NAME", "x")
	if _, err := Do(s.Addr(), "HELLO", "3"); err == nil {
		t.Fatal("HELLO must answer with an error")
	}
	info, err := Do(s.Addr(), "INFO", "server")
	if err != nil || !contains(info, "run_id:") {
		t.Fatalf("INFO = %q, %v", info, err)
	}
	do(t, s, "OK", "SET", "x", "1")
	do(t, s, "OK", "VERIF.RESTART")
	do(t, s, "0", "DBSIZE")
	info2, _ := Do(s.Addr(), "INFO")
	if info2 == info {
		t.Fatal("run_id did not change on restart")
	}
	do(t, s, "OK", "SET", "x", "1")
	do(t, s, "OK", "FLUSHDB")
	do(t, s, "0", "DBSIZE")
	if _, err := Do(s.Addr(), "EVAL", "return 1", "0"); err == nil {
		t.Fatal("EVAL is not implemented and must say so")
	}
	if u := s.Unknown(); len(u) != 1 || u[0] != "EVAL" {
		t.Fatalf("Unknown() = %v", u)
	}
}

func contains(s, sub string) bool {
	for i := 0; i+len(sub) <= len(s); i++ {
		if s[i:i+len(sub)] == sub {
			return true
		}
	}
	return false
}

// go-redis speaks to the stub the way it speaks to Redis: handshake, SELECT, pipelines, binary values.
func TestGoRedisClient(t *testing.T) {
	s := start(t)
	ctx := context.Background()
	c := goredis.NewClient(&goredis.Options{Addr: s.Addr(), DB: 2})
	defer c.Close()
	if err := c.Ping(ctx).Err(); err != nil {
		t.Fatal(err)
	}
	bin := []byte{0, 1, 2, '\r', '\n', 255}
	if err := c.Set(ctx, "bin", bin, 0).Err(); err != nil {
		t.Fatal(err)
	}
	got, err := c.Get(ctx, "bin").Bytes()
	if err != nil || string(got) != string(bin) {
		t.Fatalf("binary round trip: %v %v", got, err)
	}
	if len(s.KeysDB(2)) != 1 || len(s.Keys()) != 0 {
		t.Fatalf("SELECT not honoured: db0=%v db2=%v", s.Keys(), s.KeysDB(2))
	}
	ok, err := c.SetNX(ctx, "n", "1", 1500*time.Millisecond).Result()
	if err != nil || !ok {
		t.Fatal(ok, err)
	}
	ok, err = c.SetNX(ctx, "n", "2", 3*time.Second).Result()
	if err != nil || ok {
		t.Fatal(ok, err)
	}
	if _, err := c.Get(ctx, "missing").Result(); err != goredis.Nil {
		t.Fatalf("missing key: %v", err)
	}
	pipe := c.Pipeline()
	a := pipe.SetNX(ctx, "p1", "x", time.Hour)
	b := pipe.Get(ctx, "n")
	d := pipe.Get(ctx, "nope")
	e := pipe.Expire(ctx, "p1", 10*time.Second)
	if _, err := pipe.Exec(ctx); err != nil && err != goredis.Nil {
		t.Fatal(err)
	}
	if !a.Val() || b.Val() != "1" || d.Err() != goredis.Nil || !e.Val() {
		t.Fatalf("pipeline: %v %v %v %v", a.Val(), b.Val(), d.Err(), e.Val())
	}
	if ttl := c.PTTL(ctx, "p1").Val(); ttl != 10*time.Second {
		t.Fatalf("pttl %v", ttl)
	}
	vals, err := c.MGet(ctx, "n", "nope", "p1").Result()
	if err != nil || len(vals) != 3 || vals[0] != "1" || vals[1] != nil || vals[2] != "x" {
		t.Fatalf("mget %v %v", vals, err)
	}
	if n := c.Exists(ctx, "n", "nope", "p1").Val(); n != 2 {
		t.Fatalf("exists %d", n)
	}
	if u := s.Unknown(); len(u) != 0 {
		t.Fatalf("unknown commands: %v", u)
	}
}

type rec struct {
	A int
	B string
}

// The real adapter (/repo/adapters/redis) over the stub: every L2Cache / Locker method.
func TestAdapterOverStub(t *testing.T) {
	s := start(t)
	s.EnableLog(1000)
	ctx := context.Background()
	c := sopredis.NewClient(Options(s.Addr()))
	defer c.(sop.CloseableCache).Close()
	if c.GetType() != sop.Redis {
		t.Fatal("type")
	}
	if err := c.Ping(ctx); err != nil {
		t.Fatal(err)
	}
	// strings
	if err := c.Set(ctx, "s", "v", 2*time.Second); err != nil {
		t.Fatal(err)
	}
	if ok, v, err := c.Get(ctx, "s"); !ok || v != "v" || err != nil {
		t.Fatal(ok, v, err)
	}
	if ok, v, err := c.GetEx(ctx, "s", 10*time.Second); !ok || v != "v" || err != nil {
		t.Fatal(ok, v, err)
	}
	s.Advance(5 * time.Second)
	if ok, _, err := c.Get(ctx, "s"); !ok || err != nil {
		t.Fatal("GetEx did not extend the TTL", ok, err)
	}
	s.Advance(6 * time.Second)
	if ok, _, err := c.Get(ctx, "s"); ok || err != nil {
		t.Fatal("key should have expired", ok, err)
	}
	// structs
	if err := c.SetStruct(ctx, "r1", &rec{1, "one"}, time.Minute); err != nil {
		t.Fatal(err)
	}
	if err := c.SetStructs(ctx, []string{"r2", "r3"}, []interface{}{&rec{2, "two"}, &rec{3, "three"}}, 0); err != nil {
		t.Fatal(err)
	}
	var r rec
	if ok, err := c.GetStruct(ctx, "r1", &r); !ok || err != nil || r != (rec{1, "one"}) {
		t.Fatal(ok, err, r)
	}
	if ok, err := c.GetStruct(ctx, "nope", &r); ok || err != nil {
		t.Fatal(ok, err)
	}
	if ok, err := c.GetStructEx(ctx, "r2", &r, time.Minute); !ok || err != nil || r != (rec{2, "two"}) {
		t.Fatal(ok, err, r)
	}
	if ttl := s.Keys()["r2"].TTLms; ttl != 60000 {
		t.Fatalf("GetStructEx TTL = %d", ttl)
	}
	for _, exp := range []time.Duration{0, 30 * time.Second} {
		t1, t2, t3 := &rec{}, &rec{}, &rec{}
		found, err := c.GetStructs(ctx, []string{"r1", "missing", "r3"}, []interface{}{t1, t2, t3}, exp)
		if err != nil || len(found) != 3 || !found[0] || found[1] || !found[2] || t1.B != "one" || t3.B != "three" {
			t.Fatalf("GetStructs(exp=%v) = %v %v %v %v", exp, found, err, t1, t3)
		}
	}
	if ok, err := c.Delete(ctx, []string{"r1", "missing"}); !ok || err != nil {
		t.Fatal(ok, err)
	}
	if ok, err := c.GetStruct(ctx, "r1", &r); ok || err != nil {
		t.Fatal(ok, err)
	}
	// locks
	idA, idB := sop.NewUUID(), sop.NewUUID()
	ka := c.CreateLockKeysForIDs([]sop.Tuple[string, sop.UUID]{{First: "x", Second: idA}, {First: "y", Second: idA}})
	kb := c.CreateLockKeysForIDs([]sop.Tuple[string, sop.UUID]{{First: "y", Second: idB}})
	if ka[0].Key != c.FormatLockKey("x") {
		t.Fatal("lock key format")
	}
	if ok, _, err := c.Lock(ctx, time.Hour, ka); !ok || err != nil {
		t.Fatal(ok, err)
	}
	if ok, owner, err := c.Lock(ctx, time.Hour, kb); ok || err != nil || owner != idA {
		t.Fatal(ok, owner, err)
	}
	if ok, _, err := c.DualLock(ctx, time.Hour, ka); !ok || err != nil { // re-entrant
		t.Fatal(ok, err)
	}
	if ok, err := c.IsLocked(ctx, ka); !ok || err != nil {
		t.Fatal(ok, err)
	}
	if ok, err := c.IsLocked(ctx, kb); ok || err != nil {
		t.Fatal(ok, err)
	}
	if ok, err := c.IsLockedTTL(ctx, 2*time.Hour, ka); !ok || err != nil {
		t.Fatal(ok, err)
	}
	if ttl := s.Keys()[ka[0].Key].TTLms; ttl != 2*3600*1000 {
		t.Fatalf("IsLockedTTL TTL = %d", ttl)
	}
	if ok, err := c.IsLockedByOthers(ctx, []string{ka[0].Key, ka[1].Key}); !ok || err != nil {
		t.Fatal(ok, err)
	}
	if ok, err := c.IsLockedByOthersTTL(ctx, []string{ka[0].Key}, time.Hour); !ok || err != nil {
		t.Fatal(ok, err)
	}
	if err := c.Unlock(ctx, ka); err != nil {
		t.Fatal(err)
	}
	if ok, err := c.IsLocked(ctx, ka); ok || err != nil {
		t.Fatal(ok, err)
	}
	if ok, _, err := c.DualLock(ctx, 1500*time.Millisecond, kb); !ok || err != nil {
		t.Fatal(ok, err)
	}
	s.Advance(1501 * time.Millisecond)
	if ok, err := c.IsLocked(ctx, kb); ok || err != nil {
		t.Fatal("lock should have expired", ok, err)
	}
	// clear
	if err := c.Clear(ctx); err != nil {
		t.Fatal(err)
	}
	if n := len(s.Keys()); n != 0 {
		t.Fatalf("%d keys after Clear", n)
	}
	if u := s.Unknown(); len(u) != 0 {
		t.Fatalf("the adapter used commands the stub lacks: %v", u)
	}
	if len(s.CommandLog()) == 0 {
		t.Fatal("command log empty")
	}
	// sop.GetL2Cache builds (and caches per address) the same adapter through the registered factory
	l2 := sop.GetL2Cache(Options(s.Addr()))
	if l2 == nil || l2.GetType() != sop.Redis || l2.Ping(ctx) != nil {
		t.Fatal("GetL2Cache")
	}
	if l2 != sop.GetL2Cache(Options(s.Addr())) {
		t.Fatal("GetL2Cache should return one instance per address")
	}
}

// One command at a time: N connections race SET NX on one key, exactly one wins; pipelines interleave.
func TestSingleWinner(t *testing.T) {
	s := start(t)
	s.SetYield(true)
	ctx := context.Background()
	for round := 0; round < 50; round++ {
		var wg sync.WaitGroup
		var mu sync.Mutex
		wins := 0
		for i := 0; i < 8; i++ {
			wg.Add(1)
			go func(i int) {
				defer wg.Done()
				c := goredis.NewClient(&goredis.Options{Addr: s.Addr()})
				defer c.Close()
				ok, err := c.SetNX(ctx, fmt.Sprintf("r%d", round), i, time.Hour).Result()
				if err != nil {
					t.Error(err)
				}
				if ok {
					mu.Lock()
					wins++
					mu.Unlock()
				}
			}(i)
		}
		wg.Wait()
		if wins != 1 {
			t.Fatalf("round %d: %d winners", round, wins)
		}
	}
}

// Standalone mode pieces: StartAt + remote control through Do / AdvanceRemote.
func TestRemoteControl(t *testing.T) {
	s, err := StartAt("127.0.0.1:0")
	if err != nil {
		t.Fatal(err)
	}
	defer s.Close()
	if err := AdvanceRemote(s.Addr(), 1234*time.Millisecond); err != nil {
		t.Fatal(err)
	}
	if s.Now() != 1234*time.Millisecond {
		t.Fatal(s.Now())
	}
	do(t, s, "1234", "VERIF.NOW")
}

// Serve (standalone mode) hosts a stub at a given address until the process ends.
func TestServeStandalone(t *testing.T) {
	ln, err := net.Listen("tcp", "127.0.0.1:0")
	if err != nil {
		t.Fatal(err)
	}
	addr := ln.Addr().String()
	ln.Close()
	go Serve(addr)
	var last error
	for i := 0; i < 200; i++ {
		if _, last = Do(addr, "PING"); last == nil {
			break
		}
		time.Sleep(5 * time.Millisecond)
	}
	if last != nil {
		t.Fatal(last)
	}
	if got, err := Do(addr, "SET", "k", "v", "PX", "10"); err != nil || got != "OK" {
		t.Fatal(got, err)
	}
	if err := AdvanceRemote(addr, 11*time.Millisecond); err != nil {
		t.Fatal(err)
	}
	if got, _ := Do(addr, "GET", "k"); got != "(nil)" {
		t.Fatalf("GET after remote advance = %q", got)
	}
}
