// Package proc: child-process runner. The same binary is re-executed as `check child <role> <args>`.
// Every command line is logged before the child starts; the child is wrapped in `timeout -s QUIT`
// with stdout/stderr redirected to files so a goroutine dump survives.
package proc

import (
	"fmt"
	"os"
	"os/exec"
	"path/filepath"
	"strconv"
	"sync"
	"sync/atomic"
	"syscall"
)

// Exit codes of the child protocol (DESIGN §10b).
const (
	ExitOK         = 0
	ExitHarness    = 2
	ExitCrash      = 77 // planned crash executed at the planned site
	ExitNotReached = 78 // planned site not reached
	ExitTimeout    = 124
)

var (
	mu    sync.Mutex
	roles = map[string]func(args []string) int{}
	seq   atomic.Int64
)

// Register adds a child role; call from init().
func Register(role string, fn func(args []string) int) {
	mu.Lock()
	defer mu.Unlock()
	roles[role] = fn
}

// Lookup finds a role.
func Lookup(role string) (func(args []string) int, bool) {
	mu.Lock()
	defer mu.Unlock()
	f, ok := roles[role]
	return f, ok
}

// Result of one child run.
type Result struct {
	Code   int
	Stdout string // file path
	Stderr string // file path
	Cmd    string
}

// Out reads the child's stdout.
func (r Result) Out() []byte { b, _ := os.ReadFile(r.Stdout); return b }

// Err reads the child's stderr.
func (r Result) Err() []byte { b, _ := os.ReadFile(r.Stderr); return b }

// Run starts `self child role args...` with extra environment, waits, returns the result.
// logDir receives cmd.log and the output files. timeoutSec is the watchdog (inconclusive when it fires).
func Run(logDir string, timeoutSec int, extraEnv []string, role string, args ...string) Result {
	self := os.Getenv("VERIF_BIN")
	if self == "" {
		self, _ = os.Executable()
	}
	n := seq.Add(1)
	outF := filepath.Join(logDir, fmt.Sprintf("child-%d-%s.out", n, role))
	errF := filepath.Join(logDir, fmt.Sprintf("child-%d-%s.err", n, role))
	full := append([]string{"-s", "QUIT", strconv.Itoa(timeoutSec), self, "child", role}, args...)
	line := fmt.Sprintf("%d: timeout %v env=%v\n", n, full, extraEnv)
	if f, err := os.OpenFile(filepath.Join(logDir, "cmd.log"), os.O_APPEND|os.O_CREATE|os.O_WRONLY, 0o644); err == nil {
		f.WriteString(line)
		f.Close()
	}
	cmd := exec.Command("timeout", full...)
	cmd.Env = append(os.Environ(), extraEnv...)
	of, _ := os.Create(outF)
	ef, _ := os.Create(errF)
	cmd.Stdout, cmd.Stderr = of, ef
	err := cmd.Run()
	of.Close()
	ef.Close()
	code := 0
	if err != nil {
		if ee, ok := err.(*exec.ExitError); ok {
			code = ee.ExitCode()
			if ws, ok := ee.Sys().(syscall.WaitStatus); ok && ws.Signaled() {
				code = 128 + int(ws.Signal())
			}
		} else {
			code = ExitHarness
		}
	}
	return Result{Code: code, Stdout: outF, Stderr: errF, Cmd: line}
}
