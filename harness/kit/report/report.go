// Package report: evidence writer, VIOLATION / KNOWN-FINDING lines, replay files,
// known-findings matcher. One Run per check invocation.
package report

import (
	"encoding/json"
	"fmt"
	"os"
	"path/filepath"
	"sort"
	"strconv"
	"strings"
	"sync"
	"time"
)

const VerifRoot = "/verif"

// Finding is one entry of /verif/known_findings.json.
type Finding struct {
	Property  string `json:"property"`
	Status    string `json:"status"` // open | fixed
	Signature string `json:"signature"`
	WhatFails string `json:"what_fails"`
	Commit    string `json:"commit,omitempty"`
}

type findingsFile struct {
	Findings []Finding `json:"findings"`
}

type violation struct {
	Signature string `json:"signature"`
	Detail    any    `json:"detail"`
}

// Run accumulates what one check invocation observed.
type Run struct {
	ID    string
	Tier  string
	Seed  int64
	Level string
	Replay string

	start time.Time
	mu    sync.Mutex

	evaluations  int64
	distinct     map[string]struct{}
	samples      []any
	maxSamples   int
	counters     map[string]int64
	inconclusive map[string]int64
	violations   []violation // unlisted
	knownHits    map[string]int64
	broken       []string
	exhaustive   bool
	extra        map[string]any
	replayN      int
}

// New creates the run for property id; tier and seed come from the arguments/environment.
func New(id, level, tier string) *Run {
	seed := int64(1)
	if s := os.Getenv("VERIF_SEED"); s != "" {
		if v, err := strconv.ParseInt(s, 10, 64); err == nil {
			seed = v
		}
	}
	if tier == "" {
		tier = os.Getenv("VERIF_TIER")
	}
	if tier != "thorough" {
		tier = "quick"
	}
	return &Run{ID: id, Tier: tier, Seed: seed, Level: level, start: time.Now(),
		distinct: map[string]struct{}{}, counters: map[string]int64{}, inconclusive: map[string]int64{},
		knownHits: map[string]int64{}, maxSamples: 5, extra: map[string]any{}}
}

func (r *Run) Thorough() bool { return r.Tier == "thorough" }

// Pick returns q under the quick tier and t under thorough.
func (r *Run) Pick(q, t int) int {
	if r.Thorough() {
		return t
	}
	return q
}

// Eval records one executed case; fingerprint identifies the case class, nontrivial says whether it
// satisfies the check's non-triviality rule.
func (r *Run) Eval(fingerprint string, nontrivial bool) {
	r.mu.Lock()
	defer r.mu.Unlock()
	r.evaluations++
	if nontrivial {
		r.distinct[fingerprint] = struct{}{}
	}
}

// Sample keeps up to maxSamples literal cases.
func (r *Run) Sample(v any) {
	r.mu.Lock()
	defer r.mu.Unlock()
	if len(r.samples) < r.maxSamples {
		r.samples = append(r.samples, v)
	}
}

func (r *Run) Count(name string, n int64) {
	r.mu.Lock()
	defer r.mu.Unlock()
	r.counters[name] += n
}

func (r *Run) Counter(name string) int64 {
	r.mu.Lock()
	defer r.mu.Unlock()
	return r.counters[name]
}

func (r *Run) Set(name string, v any) {
	r.mu.Lock()
	defer r.mu.Unlock()
	r.extra[name] = v
}

func (r *Run) SetExhaustive(b bool) { r.exhaustive = b }

// Inconclusive counts a case that produced no verdict.
func (r *Run) Inconclusive(reason string) {
	r.mu.Lock()
	defer r.mu.Unlock()
	r.inconclusive[reason]++
}

// Broken marks the run itself as unusable (exit 2, no verdict).
func (r *Run) Broken(format string, a ...any) {
	r.mu.Lock()
	defer r.mu.Unlock()
	r.broken = append(r.broken, fmt.Sprintf(format, a...))
}

// Violation classifies one violating case by signature against known_findings.json.
func (r *Run) Violation(signature string, detail any) {
	r.mu.Lock()
	defer r.mu.Unlock()
	for _, f := range loadFindings() {
		if f.Property == r.ID && f.Status == "open" && sigMatch(f.Signature, signature) {
			r.knownHits[f.Signature]++
			return
		}
	}
	r.violations = append(r.violations, violation{signature, detail})
}

// Signatures returns every signature this run classified (unlisted violations and known-finding hits).
func (r *Run) Signatures() []string {
	r.mu.Lock()
	defer r.mu.Unlock()
	var out []string
	for _, v := range r.violations {
		out = append(out, v.Signature)
	}
	for k := range r.knownHits {
		out = append(out, k)
	}
	return out
}

func (r *Run) Violations() int {
	r.mu.Lock()
	defer r.mu.Unlock()
	return len(r.violations)
}

// sigMatch: exact match, or pattern segments separated by ':' where a '*' segment matches any one segment.
func sigMatch(pattern, sig string) bool {
	if pattern == sig {
		return true
	}
	ps, ss := strings.Split(pattern, ":"), strings.Split(sig, ":")
	if len(ps) != len(ss) {
		return false
	}
	for i := range ps {
		if ps[i] != "*" && ps[i] != ss[i] {
			return false
		}
	}
	return true
}

var (
	findingsOnce sync.Once
	findings     []Finding
)

func loadFindings() []Finding {
	findingsOnce.Do(func() {
		b, err := os.ReadFile(filepath.Join(VerifRoot, "known_findings.json"))
		if err != nil {
			return
		}
		var ff findingsFile
		if json.Unmarshal(b, &ff) == nil {
			findings = ff.Findings
		}
	})
	return findings
}

// Finish writes the evidence file, prints the verdict lines and returns the exit code.
// floorDistinct is the minimum number of distinct non-trivial cases below which the run is broken.
func (r *Run) Finish(rule string, assumptions []string, floorDistinct int) int {
	r.mu.Lock()
	defer r.mu.Unlock()
	wall := time.Since(r.start).Seconds()
	// replay files
	var lines []string
	if old, _ := filepath.Glob(filepath.Join(VerifRoot, "replays", fmt.Sprintf("%s-%d-*.json", r.ID, r.Seed))); len(old) > 0 {
		for _, f := range old {
			_ = os.Remove(f)
		}
	}
	for i, v := range r.violations {
		if i >= 20 {
			break
		}
		p := filepath.Join(VerifRoot, "replays", fmt.Sprintf("%s-%d-%d.json", r.ID, r.Seed, i))
		_ = os.MkdirAll(filepath.Dir(p), 0o755)
		b, _ := json.MarshalIndent(map[string]any{"property": r.ID, "seed": r.Seed, "tier": r.Tier, "signature": v.Signature, "detail": v.Detail}, "", " ")
		_ = os.WriteFile(p, b, 0o644)
		lines = append(lines, fmt.Sprintf("VIOLATION property=%s replay=%s", r.ID, p))
	}
	cov := map[string]any{
		"evaluations":         r.evaluations,
		"distinct_nontrivial": len(r.distinct),
		"rule":                rule,
		"samples":             r.samples,
		"exhaustive":          r.exhaustive,
		"counters":            r.counters,
		"inconclusive":        r.inconclusive,
	}
	if r.samples == nil {
		cov["samples"] = []any{}
	}
	for k, v := range r.extra {
		cov[k] = v
	}
	kh := map[string]int64{}
	for k, v := range r.knownHits {
		kh[k] = v
	}
	cov["known_finding_hits"] = kh
	sigs := []string{}
	for _, v := range r.violations {
		sigs = append(sigs, v.Signature)
	}
	sort.Strings(sigs)
	cov["violation_signatures"] = sigs
	ev := map[string]any{
		"property_id": r.ID, "tier": r.Tier, "seed": r.Seed, "level": r.Level,
		"coverage": cov, "assumptions": assumptions, "wall_s": wall, "violations": len(r.violations),
	}
	b, _ := json.MarshalIndent(ev, "", " ")
	_ = os.MkdirAll(filepath.Join(VerifRoot, "evidence"), 0o755)
	if err := os.WriteFile(filepath.Join(VerifRoot, "evidence", r.ID+".json"), b, 0o644); err != nil {
		fmt.Fprintln(os.Stderr, "cannot write evidence:", err)
		return 2
	}
	for _, f := range loadFindings() {
		if f.Property == r.ID && f.Status == "open" {
			rep := "no"
			if r.knownHits[f.Signature] > 0 {
				rep = "yes"
			}
			fmt.Printf("KNOWN-FINDING: property=%s %s [signature=%s reproduced=%s]\n", r.ID, f.WhatFails, f.Signature, rep)
		}
	}
	for _, l := range lines {
		fmt.Println(l)
	}
	fmt.Printf("%s %s seed=%d: evaluations=%d distinct_nontrivial=%d violations=%d known_hits=%d inconclusive=%v wall=%.1fs\n",
		r.ID, r.Tier, r.Seed, r.evaluations, len(r.distinct), len(r.violations), len(r.knownHits), r.inconclusive, wall)
	if len(r.violations) > 0 {
		return 1
	}
	if len(r.broken) > 0 {
		for _, m := range r.broken {
			fmt.Println("BROKEN-RUN:", m)
		}
		return 2
	}
	if len(r.distinct) < floorDistinct {
		fmt.Printf("BROKEN-RUN: coverage floor missed: distinct_nontrivial=%d < %d\n", len(r.distinct), floorDistinct)
		return 2
	}
	return 0
}
