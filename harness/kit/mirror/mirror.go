// Package mirror: the 15 lines of infs.NewTwoPhaseCommitTransaction restated with every backend
// interface wrapped by a deco decorator, plus the store-option munging of infs.NewBtree.
package mirror

import (
	"context"
	"fmt"
	"sync"
	"time"

	"github.com/sharedcode/sop"
	"github.com/sharedcode/sop/btree"
	"github.com/sharedcode/sop/cache"
	"github.com/sharedcode/sop/common"
	"github.com/sharedcode/sop/fs"

	"verifharness/kit/deco"
)

var once sync.Once

// RegistryWrap, when set (process-wide, by a check's worker), wraps the undecorated filesystem
// registry of every mirror transaction; setTID is called once the transaction id is known.
var RegistryWrap func(folder string, r sop.Registry) (wrapped sop.Registry, setTID func(tid sop.UUID))

// InstallGlobals registers the decorated in-memory L2 cache as THE sop.InMemory cache (public path
// included) and routes direct I/O through the plan. Must run before the first sop.GetL2Cache call.
func InstallGlobals() {
	once.Do(func() {
		real := cache.NewL2InMemoryCache()
		wrapped := &deco.L2{In: real}
		// The process-global L1 cache keeps the first L2 it sees: give it the decorated one so node-cache
		// L2 calls are plan sites too (the plan is process-global, so nothing stale is captured).
		cache.GetGlobalL1Cache(wrapped)
		sop.RegisterL2CacheFactory(sop.InMemory, func(sop.TransactionOptions) sop.L2Cache { return wrapped })
		deco.InstallDirectIO()
	})
}

// NewTransaction mirrors infs.NewTransaction for a single (non replicated) folder.
func NewTransaction(ctx context.Context, folder string, mode sop.TransactionMode, maxTime time.Duration) (sop.Transaction, error) {
	InstallGlobals()
	config := sop.TransactionOptions{StoresFolders: []string{folder}, CacheType: sop.InMemory, Mode: mode, MaxTime: maxTime}
	l2 := sop.GetL2Cache(config)
	if l2 == nil {
		return nil, fmt.Errorf("no L2 cache")
	}
	rt, err := fs.NewReplicationTracker(ctx, []string{folder}, false, l2)
	if err != nil {
		return nil, err
	}
	mbsf := fs.NewManageStoreFolder(fs.NewFileIO())
	sr, err := fs.NewStoreRepository(ctx, rt, mbsf, l2, config.RegistryHashModValue)
	if err != nil {
		return nil, err
	}
	if i, err := sr.GetRegistryHashModValue(ctx); err != nil {
		return nil, err
	} else if i > 0 {
		config.RegistryHashModValue = i
	}
	tl := fs.NewTransactionLog(l2, rt)
	var reg sop.Registry = fs.NewRegistry(config.Mode == sop.ForWriting, config.RegistryHashModValue, rt, l2)
	var setTID func(sop.UUID)
	if RegistryWrap != nil {
		reg, setTID = RegistryWrap(folder, reg)
	}
	t, err := common.NewTwoPhaseCommitTransaction(config.Mode, config.MaxTime,
		&deco.BlobStore{In: fs.NewBlobStore(folder, nil, nil)},
		&deco.StoreRepository{In: sr},
		&deco.Registry{In: reg},
		l2, deco.NewTransactionLog(tl))
	if err != nil {
		return nil, err
	}
	if setTID != nil {
		setTID(t.GetID())
	}
	rt.SetTransactionID(t.GetID())
	return sop.NewTransaction(mode, t)
}

// NewBtree mirrors infs.NewBtree (folder is the stores base folder).
func NewBtree[K btree.Ordered, V any](ctx context.Context, folder string, so sop.StoreOptions, t sop.Transaction) (btree.BtreeInterface[K, V], error) {
	so.DisableRegistryStoreFormatting = true
	so.DisableBlobStoreFormatting = true
	so.BlobStoreBaseFolderPath = folder
	if !so.IsPrimitiveKey {
		so.IsPrimitiveKey = btree.IsPrimitive[K]()
	}
	return common.NewBtree[K, V](ctx, so, t, nil)
}

// OpenBtree mirrors infs.OpenBtree.
func OpenBtree[K btree.Ordered, V any](ctx context.Context, name string, t sop.Transaction) (btree.BtreeInterface[K, V], error) {
	return common.OpenBtree[K, V](ctx, name, t, nil)
}
