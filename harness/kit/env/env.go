// Package env: scratch directories, log silencing, seeded PRNGs.
package env

import (
	"hash/fnv"
	"io"
	"log/slog"
	"math/rand"
	"os"
	"sync"
)

var (
	mu      sync.Mutex
	scratch []string
)

// Quiet discards everything SOP logs through log/slog.
func Quiet() {
	slog.SetDefault(slog.New(slog.NewTextHandler(io.Discard, &slog.HandlerOptions{Level: slog.LevelError + 10})))
}

// Scratch returns a fresh directory (on ext4, so O_DIRECT works); removed by Cleanup.
func Scratch(prefix string) string {
	base := os.Getenv("VERIF_SCRATCH")
	if base == "" {
		base = os.TempDir()
	}
	d, err := os.MkdirTemp(base, "verif-"+prefix+"-")
	if err != nil {
		panic(err)
	}
	mu.Lock()
	scratch = append(scratch, d)
	mu.Unlock()
	return d
}

// Remove deletes one scratch directory early.
func Remove(d string) { _ = os.RemoveAll(d) }

// Cleanup removes every scratch directory handed out.
func Cleanup() {
	mu.Lock()
	defer mu.Unlock()
	for _, d := range scratch {
		_ = os.RemoveAll(d)
	}
	scratch = nil
}

// Rand returns a PRNG that is a pure function of seed and salt.
func Rand(seed int64, salt string) *rand.Rand {
	h := fnv.New64a()
	h.Write([]byte(salt))
	return rand.New(rand.NewSource(seed*1000003 + int64(h.Sum64()&0x7fffffffffff)))
}
