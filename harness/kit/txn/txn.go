// Package txn: seeded programs of B-tree operations over 1..3 string/string stores, the map model
// that predicts their effect, executors for the public and the mirror path.
package txn

import (
	"context"
	"fmt"
	"math/rand"
	"sort"
	"sync"
	"time"
	"verifharness/kit/env"

	"github.com/sharedcode/sop"
	"github.com/sharedcode/sop/btree"

	"verifharness/kit/mirror"
	"verifharness/kit/sopx"
)

// Spec describes a store used by a program.
type Spec struct {
	Name    string       `json:"name"`
	Slot    int          `json:"slot"`
	Profile sopx.Profile `json:"profile"`
	Empty   bool         `json:"empty,omitempty"` // Baseline creates the store but adds nothing to it
}

// Op is one B-tree operation. Kind ∈ add|update|remove|upsert|get.
type Op struct {
	Store string `json:"s"`
	Kind  string `json:"op"`
	K     string `json:"k"`
	V     string `json:"v,omitempty"`
}

// Program is what one transaction does.
type Program struct {
	Shape  string `json:"shape"`
	Create []Spec `json:"create,omitempty"` // stores created by this transaction
	Ops    []Op   `json:"ops"`
}

// Model is store -> key -> value (unique-key stores).
type Model map[string]map[string]string

// Clone deep-copies the model.
func (m Model) Clone() Model {
	c := Model{}
	for s, kv := range m {
		c[s] = map[string]string{}
		for k, v := range kv {
			c[s][k] = v
		}
	}
	return c
}

// Apply returns the model after the program committed.
func (m Model) Apply(p Program) Model {
	c := m.Clone()
	for _, s := range p.Create {
		if _, ok := c[s.Name]; !ok {
			c[s.Name] = map[string]string{}
		}
	}
	for _, o := range p.Ops {
		switch o.Kind {
		case "add":
			if _, ok := c[o.Store][o.K]; !ok {
				c[o.Store][o.K] = o.V
			}
		case "update", "rmw":
			if _, ok := c[o.Store][o.K]; ok {
				c[o.Store][o.K] = o.V
			}
		case "upsert":
			c[o.Store][o.K] = o.V
		case "remove":
			delete(c[o.Store], o.K)
		}
	}
	return c
}

// Dump renders the model as the dump a reader must see (Opts left empty: compare with DiffContent).
func (m Model) Dump() sopx.Dump {
	d := sopx.Dump{By: map[string]sopx.StoreDump{}, Stores: []string{}}
	for s := range m {
		d.Stores = append(d.Stores, s)
	}
	sort.Strings(d.Stores)
	for _, s := range d.Stores {
		keys := make([]string, 0, len(m[s]))
		for k := range m[s] {
			keys = append(keys, k)
		}
		sort.Strings(keys)
		sd := sopx.StoreDump{Count: int64(len(keys)), Items: []sopx.KV{}, Back: []string{}}
		for _, k := range keys {
			sd.Items = append(sd.Items, sopx.KV{K: k, V: m[s][k]})
		}
		for i := len(keys) - 1; i >= 0; i-- {
			sd.Back = append(sd.Back, keys[i])
		}
		d.By[s] = sd
	}
	return d
}

// DiffContent compares an observed dump with a model dump ignoring Opts; "" = equal.
// It also checks the observed dump's self consistency (count == scan, backward == reverse).
func DiffContent(observed, expected sopx.Dump) string {
	if observed.Err != "" {
		return "dump failed: " + observed.Err
	}
	if fmt.Sprint(observed.Stores) != fmt.Sprint(expected.Stores) {
		return fmt.Sprintf("store sets differ: observed %v expected %v", observed.Stores, expected.Stores)
	}
	for _, n := range expected.Stores {
		o, e := observed.By[n], expected.By[n]
		if o.Err != "" {
			return "store " + n + " unreadable: " + o.Err
		}
		if len(o.Items) != len(e.Items) {
			return fmt.Sprintf("store %s: %d items observed, %d expected (observed %v expected %v)", n, len(o.Items), len(e.Items), o.Items, e.Items)
		}
		for i := range e.Items {
			if o.Items[i] != e.Items[i] {
				return fmt.Sprintf("store %s: item %d observed %v expected %v", n, i, o.Items[i], e.Items[i])
			}
		}
		if o.Count != e.Count {
			return fmt.Sprintf("store %s: COUNT-ONLY count %d observed, %d expected (items equal)", n, o.Count, e.Count)
		}
		if len(o.Back) != len(e.Back) {
			return fmt.Sprintf("store %s: backward scan %d keys, expected %d", n, len(o.Back), len(e.Back))
		}
		for i := range e.Back {
			if o.Back[i] != e.Back[i] {
				return fmt.Sprintf("store %s: backward scan differs at %d", n, i)
			}
		}
	}
	return ""
}

// Opener opens/creates a string/string store inside a transaction.
type Opener interface {
	Begin(mode sop.TransactionMode, maxTime time.Duration) (sop.Transaction, error)
	New(t sop.Transaction, s Spec) (btree.BtreeInterface[string, string], error)
	Open(t sop.Transaction, name string) (btree.BtreeInterface[string, string], error)
}

// Public opens through database.* (kit/sopx).
type Public struct{ DB sopx.DB }

func (p Public) Begin(mode sop.TransactionMode, maxTime time.Duration) (sop.Transaction, error) {
	return p.DB.Begin(mode, maxTime)
}
func (p Public) New(t sop.Transaction, s Spec) (btree.BtreeInterface[string, string], error) {
	return sopx.New[string, string](p.DB, t, sopx.Options(s.Name, s.Slot, true, s.Profile))
}
func (p Public) Open(t sop.Transaction, name string) (btree.BtreeInterface[string, string], error) {
	return sopx.Open[string, string](p.DB, t, name)
}

// Mirror opens through kit/mirror (decorated backends).
type Mirror struct{ Dir string }

func (m Mirror) Begin(mode sop.TransactionMode, maxTime time.Duration) (sop.Transaction, error) {
	t, err := mirror.NewTransaction(context.Background(), m.Dir, mode, maxTime)
	if err != nil {
		return nil, err
	}
	if err := t.Begin(context.Background()); err != nil {
		return nil, err
	}
	return t, nil
}
func (m Mirror) New(t sop.Transaction, s Spec) (btree.BtreeInterface[string, string], error) {
	return mirror.NewBtree[string, string](context.Background(), m.Dir, sopx.Options(s.Name, s.Slot, true, s.Profile), t)
}
func (m Mirror) Open(t sop.Transaction, name string) (btree.BtreeInterface[string, string], error) {
	return mirror.OpenBtree[string, string](context.Background(), name, t)
}

// OpResult is an unexpected per-operation outcome (ops are generated valid w.r.t. the model, so every
// add/update/remove/upsert should report true).
type OpResult struct {
	Op  Op
	OK  bool
	Err error
}

// Run opens the stores a program needs inside t and applies its operations. It returns the first
// operation whose result was not (true, nil), if any.
func Run(o Opener, t sop.Transaction, p Program) (*OpResult, error) {
	ctx := context.Background()
	stores := map[string]btree.BtreeInterface[string, string]{}
	for _, s := range p.Create {
		b, err := o.New(t, s)
		if err != nil {
			return nil, fmt.Errorf("create %s: %w", s.Name, err)
		}
		stores[s.Name] = b
	}
	for _, op := range p.Ops {
		b, ok := stores[op.Store]
		if !ok {
			var err error
			b, err = o.Open(t, op.Store)
			if err != nil {
				return nil, fmt.Errorf("open %s: %w", op.Store, err)
			}
			stores[op.Store] = b
		}
		var okk bool
		var err error
		switch op.Kind {
		case "add":
			okk, err = b.Add(ctx, op.K, op.V)
		case "update":
			okk, err = b.Update(ctx, op.K, op.V)
		case "upsert":
			okk, err = b.Upsert(ctx, op.K, op.V)
		case "remove":
			okk, err = b.Remove(ctx, op.K)
		case "get":
			okk, err = b.Find(ctx, op.K, false)
			if okk && err == nil {
				_, err = b.GetCurrentValue(ctx)
			}
		case "rmw": // the ordinary read-modify-write: find, read the value, update the current item
			okk, err = b.Find(ctx, op.K, false)
			if okk && err == nil {
				if _, err = b.GetCurrentValue(ctx); err == nil {
					okk, err = b.UpdateCurrentValue(ctx, op.V)
				}
			}
		}
		if err != nil || !okk {
			return &OpResult{Op: op, OK: okk, Err: err}, nil
		}
	}
	return nil, nil
}

// Commit runs a program in its own writer transaction and commits it.
func Commit(o Opener, p Program, maxTime time.Duration) error {
	t, err := o.Begin(sop.ForWriting, maxTime)
	if err != nil {
		return err
	}
	if r, err := Run(o, t, p); err != nil || r != nil {
		t.Rollback(context.Background())
		if err == nil {
			err = fmt.Errorf("op %+v returned ok=%v err=%v", r.Op, r.OK, r.Err)
		}
		return err
	}
	return t.Commit(context.Background())
}

// Key renders key i (fixed width so string order = numeric order).
func Key(i int) string { return fmt.Sprintf("k%04d", i) }

// Val makes a value of roughly n bytes tagged with tag.
func Val(tag string, n int) string {
	s := tag
	for len(s) < n {
		s += "."
	}
	return s
}

// Baseline builds the committed starting state: stores with nKeys items each (keys 0,10,20,...).
func Baseline(specs []Spec, nKeys int) (Program, Model) {
	p := Program{Shape: "baseline", Create: specs}
	for _, s := range specs {
		if s.Empty {
			continue
		}
		for i := 0; i < nKeys; i++ {
			p.Ops = append(p.Ops, Op{Store: s.Name, Kind: "add", K: Key(i * 10), V: Val(fmt.Sprintf("b%d", i), 12)})
		}
	}
	return p, Model{}.Apply(p)
}

// Shapes of writer programs (DESIGN §4 E-ATOM).
var Shapes = []string{"S1-newstore", "S2-emptied-root", "S3-leaf-insert", "S4-split", "S5-rootsplit", "S6-updates", "S7-removes", "S8-mixed", "S9-multistore", "S10-create-and-change", "S0-first-root"}

// Gen produces a program of the given shape valid against model m. existing = stores of the baseline.
func Gen(rnd *rand.Rand, shape string, m Model, existing []Spec, tag string) Program {
	p := Program{Shape: shape}
	pick := func() Spec { return existing[rnd.Intn(len(existing))] }
	keysOf := func(s string) []string {
		ks := make([]string, 0, len(m[s]))
		for k := range m[s] {
			ks = append(ks, k)
		}
		sort.Strings(ks)
		return ks
	}
	newKey := func(s string, used map[string]bool) string {
		// keys come from k0000..k0399; a long history can use that range up: widen it instead of spinning
		for tries, space := 0, 400; ; tries++ {
			if tries > 0 && tries%2000 == 0 {
				space *= 4
			}
			k := Key(rnd.Intn(space))
			if _, ok := m[s][k]; !ok && !used[s+k] {
				used[s+k] = true
				return k
			}
		}
	}
	used := map[string]bool{}
	switch shape {
	case "S1-newstore":
		s := Spec{Name: "new" + tag, Slot: []int{2, 4, 8}[rnd.Intn(3)], Profile: sopx.Profiles[rnd.Intn(len(sopx.Profiles))]}
		p.Create = []Spec{s}
		for i := 0; i < 1+rnd.Intn(6); i++ {
			p.Ops = append(p.Ops, Op{s.Name, "add", Key(i*7 + rnd.Intn(5)), Val(tag, 10)})
		}
		// de-duplicate keys
		seen := map[string]bool{}
		ops := p.Ops[:0]
		for _, o := range p.Ops {
			if !seen[o.K] {
				seen[o.K] = true
				ops = append(ops, o)
			}
		}
		p.Ops = ops
	case "S2-emptied-root":
		// remove everything from one store, then add one item (new root content on an emptied store)
		s := pick()
		for _, k := range keysOf(s.Name) {
			p.Ops = append(p.Ops, Op{s.Name, "remove", k, ""})
		}
		p.Ops = append(p.Ops, Op{s.Name, "add", Key(5), Val(tag, 10)})
	case "S3-leaf-insert":
		s := pick()
		p.Ops = append(p.Ops, Op{s.Name, "add", newKey(s.Name, used), Val(tag, 10)})
	case "S4-split":
		s := pick()
		n := s.Slot + 1 + rnd.Intn(s.Slot+1)
		base := rnd.Intn(30) * 10
		for i := 0; i < n; i++ { // a run of adjacent new keys lands in one leaf and splits it
			k := Key(base + 1 + i%9 + (i/9)*10)
			if _, ok := m[s.Name][k]; ok || used[s.Name+k] {
				continue
			}
			used[s.Name+k] = true
			p.Ops = append(p.Ops, Op{s.Name, "add", k, Val(tag, 10)})
		}
	case "S5-rootsplit":
		s := pick()
		for i := 0; i < s.Slot*s.Slot+3; i++ {
			p.Ops = append(p.Ops, Op{s.Name, "add", newKey(s.Name, used), Val(tag, 10)})
		}
	case "S6-updates":
		s := pick()
		ks := keysOf(s.Name)
		for i := 0; i < 1+rnd.Intn(4) && len(ks) > 0; i++ {
			k := ks[rnd.Intn(len(ks))]
			kind := "update"
			if rnd.Intn(2) == 0 {
				kind = "rmw"
			}
			p.Ops = append(p.Ops, Op{s.Name, kind, k, Val(fmt.Sprintf("%su%d", tag, i), 10+rnd.Intn(20))})
		}
	case "S7-removes":
		s := pick()
		ks := keysOf(s.Name)
		rnd.Shuffle(len(ks), func(i, j int) { ks[i], ks[j] = ks[j], ks[i] })
		n := len(ks)/2 + 1
		if n > len(ks) {
			n = len(ks)
		}
		for _, k := range ks[:n] {
			p.Ops = append(p.Ops, Op{s.Name, "remove", k, ""})
		}
	case "S8-mixed":
		s := pick()
		ks := keysOf(s.Name)
		removed := map[string]bool{}
		for i := 0; i < 4+rnd.Intn(6); i++ {
			switch rnd.Intn(4) {
			case 0:
				p.Ops = append(p.Ops, Op{s.Name, "add", newKey(s.Name, used), Val(tag, 10)})
			case 1:
				if len(ks) > 0 {
					k := ks[rnd.Intn(len(ks))]
					if !removed[k] {
						p.Ops = append(p.Ops, Op{s.Name, "update", k, Val(fmt.Sprintf("%sm%d", tag, i), 14)})
					}
				}
			case 2:
				if len(ks) > 0 {
					k := ks[rnd.Intn(len(ks))]
					if !removed[k] {
						removed[k] = true
						p.Ops = append(p.Ops, Op{s.Name, "remove", k, ""})
					}
				}
			case 3:
				p.Ops = append(p.Ops, Op{s.Name, "upsert", newKey(s.Name, used), Val(tag+"x", 10)})
			}
		}
	case "S0-first-root":
		// the first items of a store that exists but is still empty: the root node is created under the id
		// the store was given when it was made, so a failed attempt and its retry use the SAME node id
		for _, s := range existing {
			if len(m[s.Name]) == 0 {
				for i := 0; i < 1+rnd.Intn(3); i++ {
					p.Ops = append(p.Ops, Op{s.Name, "add", Key(i*11 + rnd.Intn(7)), Val(tag, 10)})
				}
			}
		}
		// plus a change of an existing populated store in the same transaction, half of the time
		if rnd.Intn(2) == 0 {
			for _, s := range existing {
				if ks := keysOf(s.Name); len(ks) > 0 {
					p.Ops = append(p.Ops, Op{s.Name, "update", ks[0], Val(tag+"u", 12)})
					break
				}
			}
		}
	case "S10-create-and-change":
		// one transaction creates a store (opened first) AND changes the item count of existing stores
		ns := Spec{Name: "made" + tag, Slot: []int{2, 4}[rnd.Intn(2)], Profile: sopx.Profiles[rnd.Intn(len(sopx.Profiles))]}
		p.Create = []Spec{ns}
		for i := 0; i < 1+rnd.Intn(3); i++ {
			p.Ops = append(p.Ops, Op{ns.Name, "add", Key(i * 3), Val(tag, 10)})
		}
		for _, s := range existing {
			ks := keysOf(s.Name)
			for i := 0; i < 2+rnd.Intn(2); i++ {
				p.Ops = append(p.Ops, Op{s.Name, "add", newKey(s.Name, used), Val(tag, 10)})
			}
			if len(ks) > 2 && rnd.Intn(2) == 0 {
				p.Ops = append(p.Ops, Op{s.Name, "remove", ks[rnd.Intn(len(ks))], ""})
			}
			if len(ks) > 1 {
				p.Ops = append(p.Ops, Op{s.Name, "update", ks[0], Val(tag+"u", 12)})
			}
		}
	case "S9-multistore":
		for _, s := range existing {
			ks := keysOf(s.Name)
			p.Ops = append(p.Ops, Op{s.Name, "add", newKey(s.Name, used), Val(tag, 10)})
			if len(ks) > 1 {
				p.Ops = append(p.Ops, Op{s.Name, "update", ks[rnd.Intn(len(ks))], Val(tag+"u", 12)})
			}
			if len(ks) > 2 {
				p.Ops = append(p.Ops, Op{s.Name, "remove", ks[0], ""})
			}
		}
	}
	// An update after a remove of the same key etc. is avoided above; drop ops that became invalid.
	cur := m.Clone()
	for _, s := range p.Create {
		cur[s.Name] = map[string]string{}
	}
	valid := p.Ops[:0]
	for _, o := range p.Ops {
		_, exists := cur[o.Store][o.K]
		switch o.Kind {
		case "add":
			if exists {
				continue
			}
			cur[o.Store][o.K] = o.V
		case "update", "rmw":
			if !exists {
				continue
			}
			cur[o.Store][o.K] = o.V
		case "remove":
			if !exists {
				continue
			}
			delete(cur[o.Store], o.K)
		case "upsert":
			cur[o.Store][o.K] = o.V
		}
		valid = append(valid, o)
	}
	p.Ops = valid
	return p
}

var (
	probeMu  sync.Mutex
	probeDir string
)

// SlowMachine times one small commit on a private scratch store (created on first use). It reports
// true when even that takes more than 300 ms (a healthy commit takes ~30 ms): a judged step that
// missed a seconds-sized deadline at such a moment gets no verdict instead of an error.
func SlowMachine() bool {
	probeMu.Lock()
	defer probeMu.Unlock()
	if probeDir == "" {
		probeDir = env.Scratch("probe")
		p := Program{Create: []Spec{{Name: "probe", Slot: 4, Profile: sopx.InNode}}, Ops: []Op{{Store: "probe", Kind: "add", K: "k", V: "v"}}}
		if err := Commit(Public{DB: sopx.NewDB(probeDir)}, p, time.Minute); err != nil {
			return true
		}
	}
	t0 := time.Now()
	err := Commit(Public{DB: sopx.NewDB(probeDir)}, Program{Ops: []Op{{Store: "probe", Kind: "upsert", K: "k", V: fmt.Sprint(t0.UnixNano())}}}, time.Minute)
	return err != nil || time.Since(t0) > 300*time.Millisecond
}
