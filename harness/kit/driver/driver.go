// Package driver: shared main() logic for the real driver (cmd/check) and per-property dev drivers.
package driver

import (
	"encoding/json"
	"fmt"
	"os"

	"verifharness/kit/env"
	"verifharness/kit/proc"
	"verifharness/kit/report"
)

// Check is one registered property check; Fn returns the exit code (the value of r.Finish).
type Check struct {
	Level string
	Fn    func(r *report.Run) int
}

// Main parses `<Cnn> [--tier quick|thorough] [--replay file]` or `child <role> <args...>` and dispatches.
func Main(checks map[string]Check) {
	if len(os.Args) < 2 {
		fmt.Println("usage: check <Cnn> [--tier quick|thorough] [--replay file]")
		os.Exit(2)
	}
	env.Quiet()
	id := os.Args[1]
	if id == "child" {
		if len(os.Args) < 3 {
			os.Exit(2)
		}
		fn, ok := proc.Lookup(os.Args[2])
		if !ok {
			fmt.Fprintln(os.Stderr, "unknown child role", os.Args[2])
			os.Exit(2)
		}
		os.Exit(fn(os.Args[3:]))
	}
	tier, replay := "", ""
	for i := 2; i < len(os.Args); i++ {
		switch os.Args[i] {
		case "--tier":
			if i+1 < len(os.Args) {
				tier = os.Args[i+1]
				i++
			}
		case "--replay":
			if i+1 < len(os.Args) {
				replay = os.Args[i+1]
				i++
			}
		}
	}
	c, ok := checks[id]
	if !ok {
		fmt.Println("unknown property", id)
		os.Exit(2)
	}
	var want struct {
		Seed      int64  `json:"seed"`
		Tier      string `json:"tier"`
		Signature string `json:"signature"`
	}
	if replay != "" {
		// generic replay: re-run the check at the witness's seed and tier (case lists are a pure function
		// of both) and say whether the same signature shows again; checks with a finer replay use r.Replay.
		if b, err := os.ReadFile(replay); err == nil && json.Unmarshal(b, &want) == nil && want.Signature != "" {
			os.Setenv("VERIF_SEED", fmt.Sprint(want.Seed))
			if tier == "" {
				tier = want.Tier
			}
		}
	}
	r := report.New(id, c.Level, tier)
	r.Replay = replay
	code := 2
	func() {
		defer env.Cleanup()
		code = c.Fn(r)
	}()
	if want.Signature != "" {
		found := false
		for _, sg := range r.Signatures() {
			if sg == want.Signature {
				found = true
			}
		}
		fmt.Printf("REPLAY: %s signature=%s reproduced=%v (seed=%d tier=%s)\n", id, want.Signature, found, want.Seed, r.Tier)
	}
	os.Exit(code)
}
