// Package driver: shared main() logic for the real driver (cmd/check) and per-property dev drivers.
package driver

import (
	"fmt"
	"os"

	"verifharness/kit/env"
	"verifharness/kit/proc"
	"verifharness/kit/report"
)

// Check is one registered property check; Fn returns the exit code (the value of r.Finish).
type Check struct {
	Level string
	Fn    func(r *report.Run) int
}

// Main parses `<Cnn> [--tier quick|thorough] [--replay file]` or `child <role> <args...>` and dispatches.
func Main(checks map[string]Check) {
	if len(os.Args) < 2 {
		fmt.Println("usage: check <Cnn> [--tier quick|thorough] [--replay file]")
		os.Exit(2)
	}
	env.Quiet()
	id := os.Args[1]
	if id == "child" {
		if len(os.Args) < 3 {
			os.Exit(2)
		}
		fn, ok := proc.Lookup(os.Args[2])
		if !ok {
			fmt.Fprintln(os.Stderr, "unknown child role", os.Args[2])
			os.Exit(2)
		}
		os.Exit(fn(os.Args[3:]))
	}
	tier, replay := "", ""
	for i := 2; i < len(os.Args); i++ {
		switch os.Args[i] {
		case "--tier":
			if i+1 < len(os.Args) {
				tier = os.Args[i+1]
				i++
			}
		case "--replay":
			if i+1 < len(os.Args) {
				replay = os.Args[i+1]
				i++
			}
		}
	}
	c, ok := checks[id]
	if !ok {
		fmt.Println("unknown property", id)
		os.Exit(2)
	}
	r := report.New(id, c.Level, tier)
	r.Replay = replay
	code := 2
	func() {
		defer env.Cleanup()
		code = c.Fn(r)
	}()
	os.Exit(code)
}
