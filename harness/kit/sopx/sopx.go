// Package sopx: open transactions and stores through the PUBLIC API (database / infs), typed logical
// dumps of all stores, store-option profiles.
package sopx

import (
	"context"
	"fmt"
	"sort"
	"time"

	"github.com/sharedcode/sop"
	"github.com/sharedcode/sop/btree"
	"github.com/sharedcode/sop/database"
)

var Ctx = context.Background()

// DB is a standalone (in-memory L2) database rooted at one folder.
type DB struct {
	Dir  string
	Opts sop.DatabaseOptions
}

// NewDB returns options for a standalone database over dir (no Setup call needed).
func NewDB(dir string) DB {
	return DB{Dir: dir, Opts: sop.DatabaseOptions{StoresFolders: []string{dir}, CacheType: sop.InMemory}}
}

// Begin starts a transaction through database.BeginTransaction.
func (d DB) Begin(mode sop.TransactionMode, maxTime ...time.Duration) (sop.Transaction, error) {
	return database.BeginTransaction(Ctx, d.Opts, mode, maxTime...)
}

// Profile names a value-placement option set.
type Profile string

const (
	InNode     Profile = "innode"     // value in node segment
	Separate   Profile = "separate"   // separate segment, not globally cached, not actively persisted
	SepCached  Profile = "sepcached"  // separate segment + globally cached
	SepActive  Profile = "sepactive"  // separate segment + actively persisted
)

var Profiles = []Profile{InNode, Separate, SepCached, SepActive}

// Options builds StoreOptions for a profile.
func Options(name string, slot int, unique bool, p Profile) sop.StoreOptions {
	so := sop.StoreOptions{Name: name, SlotLength: slot, IsUnique: unique, IsValueDataInNodeSegment: true, Description: "verif " + string(p)}
	switch p {
	case Separate:
		so.IsValueDataInNodeSegment = false
	case SepCached:
		so.IsValueDataInNodeSegment = false
		so.IsValueDataGloballyCached = true
	case SepActive:
		so.IsValueDataInNodeSegment = false
		so.IsValueDataActivelyPersisted = true
	}
	return so
}

// New creates (or opens) a store inside t.
func New[K btree.Ordered, V any](d DB, t sop.Transaction, so sop.StoreOptions) (btree.BtreeInterface[K, V], error) {
	return database.NewBtree[K, V](Ctx, d.Opts, so.Name, t, nil, so)
}

// Open opens an existing store inside t.
func Open[K btree.Ordered, V any](d DB, t sop.Transaction, name string) (btree.BtreeInterface[K, V], error) {
	return database.OpenBtree[K, V](Ctx, d.Opts, name, t, nil)
}

// KV is one item of a dump.
type KV struct {
	K string `json:"k"`
	V string `json:"v"`
}

// StoreDump is the logical content of one store as a reader transaction sees it.
type StoreDump struct {
	Count int64    `json:"count"`
	Items []KV     `json:"items"`
	Back  []string `json:"back"` // keys of the backward scan
	Opts  string   `json:"opts"` // essentials of StoreInfo
	Err   string   `json:"err,omitempty"`
}

// Dump is the logical content of a database.
type Dump struct {
	Stores []string             `json:"stores"`
	By     map[string]StoreDump `json:"by"`
	Err    string               `json:"err,omitempty"`
}

// OptsString renders the configuration essentials of a StoreInfo.
func OptsString(si sop.StoreInfo) string {
	return fmt.Sprintf("name=%s slot=%d unique=%v innode=%v active=%v gcached=%v llb=%v desc=%q reg=%s blob=%s",
		si.Name, si.SlotLength, si.IsUnique, si.IsValueDataInNodeSegment, si.IsValueDataActivelyPersisted,
		si.IsValueDataGloballyCached, si.LeafLoadBalancing, si.Description, si.RegistryTable, si.BlobTable)
}

// ScanStore reads one string/string store fully (forward with values, backward keys).
func ScanStore(b btree.BtreeInterface[string, string]) StoreDump {
	sd := StoreDump{Count: b.Count(), Opts: OptsString(b.GetStoreInfo()), Items: []KV{}, Back: []string{}}
	ok, err := b.First(Ctx)
	for ok && err == nil {
		k := b.GetCurrentKey().Key
		var v string
		v, err = b.GetCurrentValue(Ctx)
		if err != nil {
			break
		}
		sd.Items = append(sd.Items, KV{k, v})
		ok, err = b.Next(Ctx)
	}
	if err != nil {
		sd.Err = "forward scan: " + err.Error()
		return sd
	}
	ok, err = b.Last(Ctx)
	for ok && err == nil {
		sd.Back = append(sd.Back, b.GetCurrentKey().Key)
		ok, err = b.Previous(Ctx)
	}
	if err != nil {
		sd.Err = "backward scan: " + err.Error()
	}
	return sd
}

// DumpDB dumps every string/string store of the database in one read transaction.
func DumpDB(d DB) Dump {
	dump := Dump{By: map[string]StoreDump{}, Stores: []string{}}
	t, err := d.Begin(sop.ForReading)
	if err != nil {
		dump.Err = "begin: " + err.Error()
		return dump
	}
	defer t.Rollback(Ctx)
	names, err := t.GetStores(Ctx)
	if err != nil {
		dump.Err = "getstores: " + err.Error()
		return dump
	}
	sort.Strings(names)
	dump.Stores = names
	for _, n := range names {
		b, err := Open[string, string](d, t, n)
		if err != nil {
			dump.By[n] = StoreDump{Err: "open: " + err.Error()}
			continue
		}
		dump.By[n] = ScanStore(b)
	}
	return dump
}

// Diff returns "" when the dumps are logically equal (A.1 of DESIGN), otherwise a description.
// Equal-key runs are compared as multisets; Back must be the reverse of the forward keys.
func Diff(a, b Dump) string {
	if a.Err != "" || b.Err != "" {
		if a.Err != b.Err {
			return fmt.Sprintf("dump error: %q vs %q", a.Err, b.Err)
		}
	}
	if fmt.Sprint(a.Stores) != fmt.Sprint(b.Stores) {
		return fmt.Sprintf("store sets differ: %v vs %v", a.Stores, b.Stores)
	}
	for _, n := range a.Stores {
		if d := DiffStore(a.By[n], b.By[n]); d != "" {
			return "store " + n + ": " + d
		}
	}
	return ""
}

// DiffStore compares two store dumps.
func DiffStore(x, y StoreDump) string {
	if x.Err != y.Err {
		return fmt.Sprintf("errors differ: %q vs %q", x.Err, y.Err)
	}
	if x.Opts != y.Opts {
		return fmt.Sprintf("options differ: %s vs %s", x.Opts, y.Opts)
	}
	if x.Count != y.Count {
		return fmt.Sprintf("count differs: %d vs %d", x.Count, y.Count)
	}
	if len(x.Items) != len(y.Items) {
		return fmt.Sprintf("item count differs: %d vs %d (%v vs %v)", len(x.Items), len(y.Items), x.Items, y.Items)
	}
	nx, ny := normalize(x.Items), normalize(y.Items)
	for i := range nx {
		if nx[i] != ny[i] {
			return fmt.Sprintf("item %d differs: %v vs %v", i, nx[i], ny[i])
		}
	}
	return ""
}

// SelfConsistent checks one dump on its own: count == scan length, forward sorted, backward = reverse.
func (s StoreDump) SelfConsistent() string {
	if s.Err != "" {
		return "unreadable: " + s.Err
	}
	if int64(len(s.Items)) != s.Count {
		return fmt.Sprintf("count %d != scanned items %d", s.Count, len(s.Items))
	}
	for i := 1; i < len(s.Items); i++ {
		if s.Items[i-1].K > s.Items[i].K {
			return fmt.Sprintf("forward scan out of order at %d: %q > %q", i, s.Items[i-1].K, s.Items[i].K)
		}
	}
	if len(s.Back) != len(s.Items) {
		return fmt.Sprintf("backward scan has %d keys, forward %d", len(s.Back), len(s.Items))
	}
	for i := range s.Back {
		if s.Back[i] != s.Items[len(s.Items)-1-i].K {
			return fmt.Sprintf("backward scan differs at %d", i)
		}
	}
	return ""
}

func normalize(items []KV) []KV {
	out := append([]KV(nil), items...)
	sort.SliceStable(out, func(i, j int) bool {
		if out[i].K != out[j].K {
			return out[i].K < out[j].K
		}
		return out[i].V < out[j].V
	})
	return out
}
