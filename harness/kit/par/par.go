// Package par: shard a fixed list of rounds over worker child processes (the same binary), each
// emitting one JSON line per round. The round list is a pure function of (seed, tier): worker w runs
// rounds w, w+W, w+2W, ...
package par

import (
	"bufio"
	"encoding/json"
	"fmt"
	"os"
	"strconv"
	"strings"
	"sync"

	"verifharness/kit/env"
	"verifharness/kit/proc"
	"verifharness/kit/report"
)

// Line is what a worker prints per round.
type Line struct {
	Round int             `json:"round"`
	Res   json.RawMessage `json:"res"`
}

// Serve is called by the child role: args = [worker, workers, rounds, seed, extra...].
func Serve(args []string, fn func(round int, seed int64, extra []string) any) int {
	if len(args) < 4 {
		return proc.ExitHarness
	}
	w, _ := strconv.Atoi(args[0])
	W, _ := strconv.Atoi(args[1])
	n, _ := strconv.Atoi(args[2])
	seed, _ := strconv.ParseInt(args[3], 10, 64)
	out := bufio.NewWriter(os.Stdout)
	defer out.Flush()
	for i := w; i < n; i += W {
		// log the round before running it so a dead child names its case
		fmt.Fprintf(os.Stderr, "round %d start\n", i)
		res := fn(i, seed, args[4:])
		b, err := json.Marshal(res)
		if err != nil {
			b = []byte(`"marshal error"`)
		}
		l, _ := json.Marshal(Line{Round: i, Res: b})
		out.Write(l)
		out.WriteByte('\n')
		out.Flush()
	}
	env.Cleanup()
	return 0
}

// Run starts the workers and collects every line (ordered by round). Worker deaths are reported
// through died (exit codes) — the caller decides what they mean.
func Run(r *report.Run, role string, workers, rounds, timeoutSec int, extraEnv []string, extra ...string) (lines []Line, died []string) {
	logDir := env.Scratch("par-" + role)
	var mu sync.Mutex
	var wg sync.WaitGroup
	if workers > rounds {
		workers = rounds
	}
	for w := 0; w < workers; w++ {
		wg.Add(1)
		go func(w int) {
			defer wg.Done()
			args := append([]string{strconv.Itoa(w), strconv.Itoa(workers), strconv.Itoa(rounds), strconv.FormatInt(r.Seed, 10)}, extra...)
			pr := proc.Run(logDir, timeoutSec, extraEnv, role, args...)
			sc := bufio.NewScanner(strings.NewReader(string(pr.Out())))
			sc.Buffer(make([]byte, 1<<20), 1<<27)
			var got []Line
			for sc.Scan() {
				var l Line
				if json.Unmarshal(sc.Bytes(), &l) == nil && l.Res != nil {
					got = append(got, l)
				}
			}
			mu.Lock()
			lines = append(lines, got...)
			if pr.Code != 0 {
				errTail := string(pr.Err())
				if len(errTail) > 3000 {
					errTail = errTail[len(errTail)-3000:]
				}
				died = append(died, fmt.Sprintf("worker %d exit %d: %s", w, pr.Code, errTail))
			}
			mu.Unlock()
		}(w)
	}
	wg.Wait()
	// order by round
	for i := 1; i < len(lines); i++ {
		for j := i; j > 0 && lines[j-1].Round > lines[j].Round; j-- {
			lines[j-1], lines[j] = lines[j], lines[j-1]
		}
	}
	return
}
