// Package regx: raw access to the filesystem registry (fs.NewRegistry) for registry-level checks,
// plus an independent reader of the on-disk block/slot layout.
package regx

import (
	"context"
	"strings"
	"encoding/binary"
	"fmt"
	"hash/crc32"
	"os"
	"path/filepath"
	"sort"

	"github.com/sharedcode/sop"
	"github.com/sharedcode/sop/cache"
	"github.com/sharedcode/sop/encoding"
	"github.com/sharedcode/sop/fs"
)

const (
	BlockSize       = 4096
	HandlesPerBlock = 66
	SlotSize        = 62
)

// Reg is one registry instance over base/<table> with its own (fresh) L2 cache.
type Reg struct {
	Base  string
	Table string
	Mod   int
	L2    sop.L2Cache
	R     fs.Registry
}

// Open creates the table folder if needed and returns a registry with a FRESH in-memory L2 cache, so
// every lookup that misses goes to disk.
func Open(base, table string, mod int, readWrite bool) (*Reg, error) {
	return OpenWithCache(base, table, mod, readWrite, cache.NewL2InMemoryCache())
}

func OpenWithCache(base, table string, mod int, readWrite bool, l2 sop.L2Cache) (*Reg, error) {
	if err := os.MkdirAll(filepath.Join(base, table), 0o755); err != nil {
		return nil, err
	}
	rt, err := fs.NewReplicationTracker(context.Background(), []string{base}, false, l2)
	if err != nil {
		return nil, err
	}
	return &Reg{Base: base, Table: table, Mod: mod, L2: l2, R: fs.NewRegistry(readWrite, mod, rt, l2)}, nil
}

func (r *Reg) Close() { _ = r.R.Close() }

func (r *Reg) pay(hs ...sop.Handle) []sop.RegistryPayload[sop.Handle] {
	return []sop.RegistryPayload[sop.Handle]{{RegistryTable: r.Table, IDs: hs}}
}

func (r *Reg) Add(hs ...sop.Handle) error { return r.R.Add(context.Background(), r.pay(hs...)) }
func (r *Reg) Update(hs ...sop.Handle) error {
	return r.R.Update(context.Background(), r.pay(hs...))
}
func (r *Reg) UpdateNoLocks(allOrNothing bool, hs ...sop.Handle) error {
	return r.R.UpdateNoLocks(context.Background(), allOrNothing, r.pay(hs...))
}
func (r *Reg) Remove(ids ...sop.UUID) error {
	return r.R.Remove(context.Background(), []sop.RegistryPayload[sop.UUID]{{RegistryTable: r.Table, IDs: ids}})
}

// Get returns the handles found for ids (absent ids are simply missing from the result).
func (r *Reg) Get(ids ...sop.UUID) (map[sop.UUID]sop.Handle, error) {
	res, err := r.R.Get(context.Background(), []sop.RegistryPayload[sop.UUID]{{RegistryTable: r.Table, IDs: ids}})
	if err != nil {
		return nil, err
	}
	m := map[sop.UUID]sop.Handle{}
	for _, p := range res {
		for _, h := range p.IDs {
			m[h.LogicalID] = h
		}
	}
	return m, nil
}

// MakeID builds a UUID whose block index is high%mod == block and whose ideal slot is low%66 == slot;
// salt varies the remaining bits.
func MakeID(mod, block, slot int, salt uint32) sop.UUID {
	var id sop.UUID
	high := uint64(salt)*uint64(mod)*1 + uint64(block) // high % mod == block
	high = uint64(salt)*uint64(mod) + uint64(block)
	low := uint64(salt)*HandlesPerBlock*7 + uint64(slot) // low % 66 == slot
	binary.BigEndian.PutUint64(id[0:8], high)
	binary.BigEndian.PutUint64(id[8:16], low)
	return id
}

// SegmentFiles lists the table's *.reg files in segment order.
func SegmentFiles(base, table string) []string {
	m, _ := filepath.Glob(filepath.Join(base, table, "*.reg"))
	sort.Slice(m, func(i, j int) bool {
		var a, b int
		fmt.Sscanf(filepath.Base(m[i])[len(table)+1:], "%d", &a)
		fmt.Sscanf(filepath.Base(m[j])[len(table)+1:], "%d", &b)
		return a < b
	})
	return m
}

// Slot is one decoded non-empty slot found on disk.
type Slot struct {
	File   string
	Seg    int
	Block  int
	Slot   int
	Handle sop.Handle
	CRCOK  bool
}

// ReadAll decodes every non-zero slot of every segment of a table, verifying block CRCs itself.
func ReadAll(base, table string) ([]Slot, error) {
	var out []Slot
	m := encoding.NewHandleMarshaler()
	for si, f := range SegmentFiles(base, table) {
		b, err := os.ReadFile(f)
		if err != nil {
			return nil, err
		}
		for blk := 0; blk+BlockSize <= len(b); blk += BlockSize {
			block := b[blk : blk+BlockSize]
			if allZero(block) {
				continue
			}
			ok := crc32.ChecksumIEEE(block[:BlockSize-4]) == binary.LittleEndian.Uint32(block[BlockSize-4:])
			if !ok {
				// a torn block with a valid backup is restored by SOP on its next access: read the backup
				cow := fmt.Sprintf("%s_%d.cow", strings.TrimSuffix(f, ".reg"), blk)
				if cb, err := os.ReadFile(cow); err == nil && len(cb) == BlockSize && (allZero(cb) || crc32.ChecksumIEEE(cb[:BlockSize-4]) == binary.LittleEndian.Uint32(cb[BlockSize-4:])) {
					block, ok = cb, true
					if allZero(block) {
						continue
					}
				}
			}
			for s := 0; s < HandlesPerBlock; s++ {
				raw := block[s*SlotSize : (s+1)*SlotSize]
				if allZero(raw) {
					continue
				}
				var h sop.Handle
				if err := m.Unmarshal(raw, &h); err != nil {
					return nil, err
				}
				out = append(out, Slot{File: f, Seg: si + 1, Block: blk / BlockSize, Slot: s, Handle: h, CRCOK: ok})
			}
		}
	}
	return out, nil
}

func allZero(b []byte) bool {
	for _, x := range b {
		if x != 0 {
			return false
		}
	}
	return true
}
