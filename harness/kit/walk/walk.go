// Package walk: raw on-disk walker (DESIGN §3.4). It reads storelist.txt, <store>/storeinfo.txt, decodes
// every registry slot itself (kit/regx), follows root -> active physical id -> node blob file ->
// children ids / out-of-node value blobs, and lists every file under the store folders and translogs/.
// SOP code is used only for DECODING (handle marshaler, JSON), never for lookup.
package walk

import (
	"encoding/json"
	"fmt"
	"os"
	"path/filepath"
	"sort"
	"strings"

	"github.com/sharedcode/sop"

	"verifharness/kit/regx"
)

type node struct {
	ID          sop.UUID   `json:"ID"`
	ParentID    sop.UUID   `json:"ParentID"`
	Count       int        `json:"Count"`
	Version     int32      `json:"Version"`
	ChildrenIDs []sop.UUID `json:"ChildrenIDs"`
	Slots       []struct {
		ID              sop.UUID        `json:"ID"`
		Key             json.RawMessage `json:"Key"`
		Value           json.RawMessage `json:"Value"`
		ValueNeedsFetch bool            `json:"ValueNeedsFetch"`
	} `json:"Slots"`
}

// StoreWalk is what the walker found for one store.
type StoreWalk struct {
	Name            string   `json:"name"`
	InfoCount       int64    `json:"info_count"`
	Root            string   `json:"root"`
	NodesReached    int      `json:"nodes_reached"`
	ItemsReached    int      `json:"items_reached"`
	ValueBlobs      int      `json:"value_blobs_reached"`
	Problems        []string `json:"problems,omitempty"`         // C10: live data refers to missing / undecodable data
	OrphanBlobs     []string `json:"orphan_blobs,omitempty"`     // C11: node blob files nothing references
	OrphanValues    []string `json:"orphan_values,omitempty"`    // C11: value blob files nothing references
	InlineDupValues int      `json:"inline_dup_values"`          // of those: blobs named after a reachable item whose value is ALSO stored inline in its node
	OrphanHandles   []string `json:"orphan_handles,omitempty"`   // C11: registry slots whose logical id is unreachable
	StagedHandles   []string `json:"staged_handles,omitempty"`   // C09: reachable handles still carrying an inactive id / delete mark / WIP timestamp
	CowFiles        []string `json:"cow_files,omitempty"`
	DuplicateSlots  []string `json:"duplicate_slots,omitempty"`
}

// Report is the walk of a whole database folder.
type Report struct {
	Stores    []string              `json:"stores"`
	By        map[string]*StoreWalk `json:"by"`
	Translogs []string              `json:"translogs"` // files under translogs/ (relative)
	Err       string                `json:"err,omitempty"`
}

func blobPath(base, table string, id sop.UUID) string {
	s := id.String()
	return filepath.Join(base, table, string(s[0]), string(s[1]), string(s[2]), string(s[3]), s)
}

// Walk inspects the database under dir.
func Walk(dir string) Report {
	rep := Report{By: map[string]*StoreWalk{}, Stores: []string{}, Translogs: []string{}}
	if b, err := os.ReadFile(filepath.Join(dir, "storelist.txt")); err == nil {
		var names []string
		if json.Unmarshal(b, &names) != nil {
			rep.Err = "storelist.txt undecodable"
			return rep
		}
		sort.Strings(names)
		rep.Stores = names
	}
	filepath.Walk(filepath.Join(dir, "translogs"), func(p string, fi os.FileInfo, err error) error {
		if err == nil && !fi.IsDir() {
			rel, _ := filepath.Rel(dir, p)
			rep.Translogs = append(rep.Translogs, rel)
		}
		return nil
	})
	for _, name := range rep.Stores {
		sw := &StoreWalk{Name: name}
		rep.By[name] = sw
		var si sop.StoreInfo
		b, err := os.ReadFile(filepath.Join(dir, name, "storeinfo.txt"))
		if err != nil || json.Unmarshal(b, &si) != nil {
			sw.Problems = append(sw.Problems, fmt.Sprintf("storeinfo unreadable: %v", err))
			continue
		}
		sw.InfoCount, sw.Root = si.Count, si.RootNodeID.String()
		slots, err := regx.ReadAll(dir, si.RegistryTable)
		if err != nil {
			sw.Problems = append(sw.Problems, "registry unreadable: "+err.Error())
			continue
		}
		handles := map[sop.UUID]sop.Handle{}
		for _, s := range slots {
			if !s.CRCOK {
				sw.Problems = append(sw.Problems, fmt.Sprintf("registry block %d of %s has a bad checksum", s.Block, filepath.Base(s.File)))
			}
			if _, dup := handles[s.Handle.LogicalID]; dup {
				sw.DuplicateSlots = append(sw.DuplicateSlots, s.Handle.LogicalID.String())
			}
			handles[s.Handle.LogicalID] = s.Handle
		}
		inlineItems := map[string]bool{}
		reachedHandles := map[sop.UUID]bool{}
		reachedBlobs := map[string]bool{}
		var visit func(lid sop.UUID, depth int)
		visit = func(lid sop.UUID, depth int) {
			if lid.IsNil() || reachedHandles[lid] || depth > 64 {
				return
			}
			h, ok := handles[lid]
			if !ok {
				sw.Problems = append(sw.Problems, fmt.Sprintf("node %v has no registry entry", lid))
				return
			}
			reachedHandles[lid] = true
			if h.IsDeleted || !h.GetInActiveID().IsNil() || h.WorkInProgressTimestamp != 0 {
				sw.StagedHandles = append(sw.StagedHandles, fmt.Sprintf("%v deleted=%v inactive=%v wip=%d version=%d", lid, h.IsDeleted, h.GetInActiveID(), h.WorkInProgressTimestamp, h.Version))
			}
			p := blobPath(dir, si.BlobTable, h.GetActiveID())
			reachedBlobs[p] = true
			if !h.GetInActiveID().IsNil() {
				// a staged copy is referenced by the handle: not an orphan, but not live data either
				reachedBlobs[blobPath(dir, si.BlobTable, h.GetInActiveID())] = true
			}
			ba, err := os.ReadFile(p)
			if err != nil {
				sw.Problems = append(sw.Problems, fmt.Sprintf("node %v: active blob %v missing: %v", lid, h.GetActiveID(), err))
				return
			}
			var n node
			if err := json.Unmarshal(ba, &n); err != nil {
				sw.Problems = append(sw.Problems, fmt.Sprintf("node %v: active blob %v undecodable (%d bytes): %v", lid, h.GetActiveID(), len(ba), err))
				return
			}
			sw.NodesReached++
			for _, it := range n.Slots {
				sw.ItemsReached++
				if len(it.Value) > 0 && string(it.Value) != "null" {
					inlineItems[it.ID.String()] = true
				}
				// SOP fetches the out-of-node value only when the slot carries no inline value
				// (item.Value == nil && item.ValueNeedsFetch); a slot with both is served inline.
				if !si.IsValueDataInNodeSegment && it.ValueNeedsFetch && (len(it.Value) == 0 || string(it.Value) == "null") {
					vp := blobPath(dir, si.BlobTable, it.ID)
					reachedBlobs[vp] = true
					vb, err := os.ReadFile(vp)
					if err != nil {
						sw.Problems = append(sw.Problems, fmt.Sprintf("item %s: value blob %v missing", string(it.Key), it.ID))
						continue
					}
					var anyv any
					if json.Unmarshal(vb, &anyv) != nil {
						sw.Problems = append(sw.Problems, fmt.Sprintf("item %s: value blob %v undecodable", string(it.Key), it.ID))
						continue
					}
					sw.ValueBlobs++
				}
			}
			for _, c := range n.ChildrenIDs {
				visit(c, depth+1)
			}
		}
		if si.Count > 0 || handles[si.RootNodeID].LogicalID == si.RootNodeID {
			if _, ok := handles[si.RootNodeID]; ok || si.Count > 0 {
				visit(si.RootNodeID, 0)
			}
		}
		for lid := range handles {
			if !reachedHandles[lid] {
				sw.OrphanHandles = append(sw.OrphanHandles, lid.String())
			}
		}
		filepath.Walk(filepath.Join(dir, name), func(p string, fi os.FileInfo, err error) error {
			if err != nil || fi.IsDir() {
				return nil
			}
			base := filepath.Base(p)
			switch {
			case base == "storeinfo.txt" || strings.HasSuffix(base, ".reg"):
			case strings.HasSuffix(base, ".cow"):
				sw.CowFiles = append(sw.CowFiles, base)
			default:
				if !reachedBlobs[p] {
					rel, _ := filepath.Rel(dir, p)
					// a node blob is a JSON object with a Slots member, anything else is an item value
					var probe struct {
						Slots *json.RawMessage `json:"Slots"`
					}
					ba, _ := os.ReadFile(p)
					if json.Unmarshal(ba, &probe) == nil && probe.Slots != nil {
						sw.OrphanBlobs = append(sw.OrphanBlobs, rel)
					} else {
						sw.OrphanValues = append(sw.OrphanValues, rel)
						if inlineItems[base] {
							sw.InlineDupValues++
						}
					}
				}
			}
			return nil
		})
		sort.Strings(sw.OrphanBlobs)
		sort.Strings(sw.OrphanHandles)
	}
	return rep
}
