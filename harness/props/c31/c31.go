// Package c31: streamed values read back exactly as written.
//
// Generated add / update / upsert / remove programs over a few keys of one streaming data store,
// opened through the public path (database.BeginTransaction -> infs.NewTransaction,
// infs.NewStreamingDataStore / OpenStreamingDataStore). After every committed transaction a NEW
// transaction re-opens the store and two independent oracles run against a model
// (key -> list of values):
//
//	(1) decode oracle: FindOne + GetCurrentValue, Decode exactly len(values) values, compare each
//	    with the model, then one more Decode which must report io.EOF;
//	(2) chunk oracle: scan the underlying B-tree (First/Next) and group the items by
//	    StreamingDataKey.Key; the set of keys must equal the model's keys and, per key, the
//	    concatenation of the chunk bodies in ChunkIndex order must equal the concatenation of the
//	    JSON encodings of the model's values. This is independent of the reader, so update/remove
//	    defects stay observable while the reader defect is open.
//
// Weaker readings chosen on purpose: the chunk oracle does not assume "one chunk per Encode" (how
// the writer cuts chunks is an implementation choice); it only demands that the bytes of an entry
// are exactly the bytes of its values — which is what "no leftover chunks / all chunks deleted /
// nothing of other entries" means observably. Whether chunk count == value count is only counted.
package c31

import (
	"bytes"
	"crypto/sha1"
	"encoding/hex"
	"encoding/json"
	"fmt"
	"io"
	"math/rand"
	"os"
	"reflect"
	"sort"
	"strings"
	"time"

	"github.com/sharedcode/sop"
	"github.com/sharedcode/sop/infs"
	sd "github.com/sharedcode/sop/streamingdata"

	"verifharness/kit/env"
	"verifharness/kit/report"
	"verifharness/kit/sopx"
)

// readBuf is encoding/json.Decoder's first (and minimum) read size; a chunk longer than the free
// space of the decoder's buffer is handed out in several Read calls.
const readBuf = 512

// vdesc describes one value; the content is a pure function of the descriptor.
type vdesc struct {
	Kind string `json:"kind"` // ascii | esc | rec
	Size int    `json:"size"` // payload size in bytes (approximate for esc)
	Salt int    `json:"salt"`
}

type rec struct {
	ID   int      `json:"id"`
	Tags []string `json:"tags"`
	Body string   `json:"body"`
}

func asciiPayload(size, salt int) string {
	b := make([]byte, size)
	for i := range b {
		b[i] = byte('a' + (i*7+salt+i/26)%26)
	}
	// stamp the salt at the front so that equal-size values of one entry differ
	s := fmt.Sprintf("%d.", salt)
	copy(b, s)
	return string(b)
}

var escAlphabet = []string{"\"", "\\", "<", ">", "&", "\n", "\t", "é", "日", " ", "😀", "x", "Y", "0", " ", "/"}

func escPayload(size, salt int) string {
	var sb strings.Builder
	i := salt
	for sb.Len() < size {
		sb.WriteString(escAlphabet[(i*5+i/16)%len(escAlphabet)])
		i++
	}
	return sb.String()
}

func (v vdesc) value() any {
	switch v.Kind {
	case "esc":
		return escPayload(v.Size, v.Salt)
	case "rec":
		return rec{ID: v.Salt, Tags: []string{"t", fmt.Sprint(v.Size)}, Body: asciiPayload(v.Size, v.Salt)}
	}
	return asciiPayload(v.Size, v.Salt)
}

// encMemo caches encodings per program (cleared by runProgram's caller); single goroutine.
var encMemo = map[vdesc][]byte{}

// encoded is what json.Encoder.Encode writes for the value.
func (v vdesc) encoded() []byte {
	if b, ok := encMemo[v]; ok {
		return b
	}
	b, err := json.Marshal(v.value())
	if err != nil {
		panic(err)
	}
	b = append(b, '\n')
	encMemo[v] = b
	return b
}

type op struct {
	Kind   string  `json:"op"` // add | update | upsert | remove
	Key    string  `json:"key"`
	Values []vdesc `json:"values,omitempty"`
	// Class is the relation to the previous content of the key (for signatures / fingerprints).
	Class string `json:"class"`
}

type program struct {
	Slot    int    `json:"slot_length"`
	Profile string `json:"profile"` // big = sop.BigData (actively persisted, what the library's tests use) | medium = sop.MediumData | plain = separate segment, not cached, not actively persisted
	Txns    [][]op `json:"transactions"`
}

func (p program) options() sop.StoreOptions {
	switch p.Profile {
	case "medium":
		return sop.ConfigureStore(storeName, true, p.Slot, "verif c31", sop.MediumData, "")
	case "plain":
		so := sop.ConfigureStore(storeName, true, p.Slot, "verif c31", sop.MediumData, "")
		so.IsValueDataGloballyCached = false
		return so
	}
	return sop.ConfigureStore(storeName, true, p.Slot, "verif c31", sop.BigData, "")
}

var keyPool = []string{"k", "k0", "k1", "k10", "K", "é", "zz"}

// size classes. Chunk length of an ascii string payload p is len(p)+3 (two quotes and '\n').
func pickSize(rnd *rand.Rand) (int, string) {
	c := rnd.Intn(100)
	switch {
	case c < 12:
		return 1 + rnd.Intn(16), "tiny"
	case c < 30:
		return 17 + rnd.Intn(384), "small"
	case c < 50: // chunk length 507..517: around the decoder's first read size
		return readBuf - 3 - 5 + rnd.Intn(11), "edge512"
	case c < 62: // around the decoder's buffer sizes after growth (1536, 3584, 7680) and 1 KiB multiples
		bases := []int{1024, 1536, 2048, 3000, 3584, 4096, 7680, 8192}
		return bases[rnd.Intn(len(bases))] - 3 - 2 + rnd.Intn(5), "edgeK"
	case c < 88:
		return 600 + rnd.Intn(6000), "mid"
	case c < 95:
		return 16<<10 + rnd.Intn(112<<10), "big"
	default:
		return 64<<10 - 3 - 1 + rnd.Intn(3), "big"
	}
}

func genValues(rnd *rand.Rand, n int, salt *int) []vdesc {
	out := make([]vdesc, 0, n)
	for i := 0; i < n; i++ {
		sz, _ := pickSize(rnd)
		if n > 20 { // many-small entries: make chunk runs span several B-tree nodes
			sz = 1 + rnd.Intn(40)
		}
		kind := "ascii"
		switch k := rnd.Intn(10); {
		case k < 2:
			kind = "esc"
		case k < 4:
			kind = "rec"
		}
		*salt++
		out = append(out, vdesc{Kind: kind, Size: sz, Salt: *salt})
	}
	return out
}

func pickCount(rnd *rand.Rand) int {
	switch c := rnd.Intn(100); {
	case c < 15:
		return 1
	case c < 45:
		return 2
	case c < 85:
		return 3 + rnd.Intn(3)
	case c < 93:
		return 6 + rnd.Intn(10)
	default:
		return 60 + rnd.Intn(80)
	}
}

// genProgram builds one program; model state is tracked only as key -> number of values / sizes to
// choose applicable ops.
// hugeSize > 0 puts one value of that payload size (1-4 MiB) in front of the first entry.
func genProgram(rnd *rand.Rand, hugeSize int) program {
	p := program{Slot: []int{50, 50, 64, 100}[rnd.Intn(4)], Profile: []string{"big", "big", "medium", "plain"}[rnd.Intn(4)]}
	model := map[string][]vdesc{}
	salt := 0
	nTx := 3 + rnd.Intn(4)
	for t := 0; t < nTx; t++ {
		nOps := 1 + rnd.Intn(3)
		var tx []op
		for o := 0; o < nOps; o++ {
			key := keyPool[rnd.Intn(len(keyPool))]
			old, exists := model[key]
			var q op
			q.Key = key
			if !exists {
				q.Kind = "add"
				if rnd.Intn(5) == 0 {
					q.Kind = "upsert"
				}
				q.Class = "new"
				q.Values = genValues(rnd, pickCount(rnd), &salt)
			} else {
				c := rnd.Intn(100)
				switch {
				case c < 25: // remove
					q.Kind, q.Class = "remove", "remove"
				default:
					q.Kind = "update"
					if rnd.Intn(5) == 0 {
						q.Kind = "upsert"
					}
					switch u := rnd.Intn(5); u {
					case 0: // fewer values
						n := 1
						if len(old) > 2 {
							n = 1 + rnd.Intn(len(old)-1)
						}
						if n >= len(old) {
							q.Class = "same-count"
						} else {
							q.Class = "fewer-values"
						}
						q.Values = genValues(rnd, n, &salt)
					case 1: // more values
						q.Class = "more-values"
						q.Values = genValues(rnd, len(old)+1+rnd.Intn(4), &salt)
					case 2: // same count, shorter contents
						q.Class = "same-count-shorter"
						q.Values = make([]vdesc, len(old))
						for i, ov := range old {
							salt++
							q.Values[i] = vdesc{Kind: ov.Kind, Size: 1 + ov.Size/3, Salt: salt}
						}
					case 3: // same count, longer contents
						q.Class = "same-count-longer"
						q.Values = make([]vdesc, len(old))
						for i, ov := range old {
							salt++
							n := ov.Size*2 + 300
							if n > 1<<20 {
								n = ov.Size + 1
							}
							q.Values[i] = vdesc{Kind: ov.Kind, Size: n, Salt: salt}
						}
					default:
						q.Class = "fresh"
						q.Values = genValues(rnd, pickCount(rnd), &salt)
						switch {
						case len(q.Values) < len(old):
							q.Class = "fewer-values"
						case len(q.Values) > len(old):
							q.Class = "more-values"
						default:
							q.Class = "same-count"
						}
					}
				}
			}
			if q.Kind == "remove" {
				delete(model, key)
			} else {
				model[key] = q.Values
			}
			tx = append(tx, q)
		}
		p.Txns = append(p.Txns, tx)
	}
	if hugeSize > 0 {
		// the first op is always an add/upsert of a new key; later ops that derive sizes from it
		// (same-count-shorter/longer) were computed from the original sizes and stay as generated.
		v := p.Txns[0][0].Values
		v[0] = vdesc{Kind: "ascii", Size: hugeSize, Salt: v[0].Salt}
	}
	return p
}

// sizeClass: the only size boundary with a meaning for the reader is the decoder's minimum read size.
func sizeClass(n int) string {
	if n <= readBuf {
		return "chunk-upto-512B"
	}
	return "chunk-over-512B"
}

// fpClass is the finer class used for fingerprints only.
func fpClass(n int) string {
	switch {
	case n <= 64:
		return "t"
	case n <= readBuf:
		return "s"
	case n <= 8<<10:
		return "m"
	case n <= 512<<10:
		return "b"
	}
	return "h"
}

// summary of an op for fingerprints / replay details (no payloads).
func (p program) fingerprint() string {
	h := sha1.New()
	for _, tx := range p.Txns {
		for _, o := range tx {
			fmt.Fprintf(h, "%s/%s/%s/%d[", o.Kind, o.Key, o.Class, len(o.Values))
			for _, v := range o.Values {
				fmt.Fprintf(h, "%s:%s,", v.Kind, fpClass(len(v.encoded())))
			}
			fmt.Fprint(h, "];")
		}
		fmt.Fprint(h, "|")
	}
	fmt.Fprintf(h, "slot=%d/%s", p.Slot, p.Profile)
	return hex.EncodeToString(h.Sum(nil))[:16]
}

// nontrivial: some entry had >= 2 chunks with at least one chunk longer than the decoder's first
// read, and some op updated or removed an existing entry.
func (p program) nontrivial() bool {
	multi, mutate := false, false
	for _, tx := range p.Txns {
		for _, o := range tx {
			if o.Class != "new" {
				mutate = true
			}
			if len(o.Values) >= 2 {
				for _, v := range o.Values {
					if len(v.encoded()) > readBuf {
						multi = true
					}
				}
			}
		}
	}
	return multi && mutate
}

type runner struct {
	r     *report.Run
	fired map[string]bool // signature -> already reported for the current program
}

func (x *runner) violate(sig string, detail map[string]any) {
	x.r.Count("violating_observations:"+sig, 1)
	if x.fired[sig] {
		return
	}
	x.fired[sig] = true
	if os.Getenv("C31_DEBUG") != "" && !strings.Contains(sig, "previous-value") {
		d := map[string]any{}
		for k, v := range detail {
			d[k] = v
		}
		b, _ := json.Marshal(d)
		fmt.Println("DEBUG", sig, string(b))
	}
	x.r.Violation(sig, detail)
}

func normalize(v any) any {
	b, _ := json.Marshal(v)
	var out any
	_ = json.Unmarshal(b, &out)
	return out
}

func brief(v any) string {
	b, _ := json.Marshal(v)
	if len(b) > 60 {
		return fmt.Sprintf("%s...(%d bytes json)", b[:60], len(b))
	}
	return string(b)
}

const storeName = "c31strm"

// runProgram executes one program in a fresh database folder. It stops at the first transaction
// after which the chunk oracle found the store and the model apart: everything observed later would
// be a consequence of that divergence, not a new observation.
func (x *runner) runProgram(idx int, p program) {
	r := x.r
	x.fired = map[string]bool{}
	dir := env.Scratch("c31")
	defer env.Remove(dir)
	db := sopx.NewDB(dir)
	model := map[string][]vdesc{}
	lastTouch := map[string]string{} // key -> class of the op that touched it last (for signatures)
	base := func(ti int) map[string]any {
		return map[string]any{"seed": r.Seed, "tier": r.Tier, "program_index": idx, "program": p, "after_transaction": ti}
	}

	for ti, tx := range p.Txns {
		t, err := db.Begin(sop.ForWriting)
		if err != nil {
			r.Inconclusive("begin-failed")
			return
		}
		var s *sd.StreamingDataStore[string]
		if ti == 0 {
			s, err = infs.NewStreamingDataStore[string](sopx.Ctx, p.options(), t, nil)
		} else {
			s, err = infs.OpenStreamingDataStore[string](sopx.Ctx, storeName, t, nil)
		}
		if err != nil {
			t.Rollback(sopx.Ctx)
			r.Broken("open streaming store (program %d, tx %d): %v", idx, ti, err)
			return
		}
		for k := range lastTouch {
			lastTouch[k] = "untouched"
		}
		// A transaction made of Remove calls only is its own scenario class: SOP decides "is there
		// anything to commit" from the tracked items, and removes are tracked differently per profile.
		removeOnly := true
		for _, o := range tx {
			if o.Kind != "remove" {
				removeOnly = false
			}
		}
		for oi, o := range tx {
			failed := func(what string, err error) {
				d := base(ti)
				d["op_index"], d["what"], d["error"] = oi, what, fmt.Sprint(err)
				x.violate("C31:write:"+o.Kind+"-"+o.Class+":"+what, d)
			}
			switch o.Kind {
			case "remove":
				ok, err := s.Remove(sopx.Ctx, o.Key)
				if err != nil || !ok {
					failed("remove-of-existing-entry-failed", err)
					t.Rollback(sopx.Ctx)
					return
				}
				delete(model, o.Key)
				lastTouch[o.Key] = "remove"
				if removeOnly {
					lastTouch[o.Key] = "remove-only-tx-" + p.Profile
				}
			default:
				var enc *sd.Encoder[string]
				var err error
				switch o.Kind {
				case "add":
					enc, err = s.Add(sopx.Ctx, o.Key)
				case "update":
					enc, err = s.Update(sopx.Ctx, o.Key)
				case "upsert":
					enc, err = s.Upsert(sopx.Ctx, o.Key)
				}
				if err != nil || enc == nil {
					failed("no-encoder", err)
					t.Rollback(sopx.Ctx)
					return
				}
				for _, v := range o.Values {
					if err := enc.Encode(v.value()); err != nil {
						failed("encode-error", err)
						t.Rollback(sopx.Ctx)
						return
					}
					r.Count("values_encoded", 1)
				}
				if err := enc.Close(); err != nil {
					failed("close-error", err)
					t.Rollback(sopx.Ctx)
					return
				}
				model[o.Key] = o.Values
				lastTouch[o.Key] = o.Kind + "-" + o.Class
			}
			r.Count("ops:"+o.Kind, 1)
		}
		if err := t.Commit(sopx.Ctx); err != nil {
			// a single writer on a private folder; the statement is about content, not about commit success
			r.Inconclusive("commit-failed")
			r.Set("last_commit_error", err.Error())
			return
		}
		r.Count("transactions", 1)
		if removeOnly {
			r.Count("remove_only_transactions:"+p.Profile, 1)
		}
		if !x.verify(db, model, lastTouch, base(ti)) {
			r.Count("programs_stopped_after_divergence", 1)
			return
		}
	}
}

// verify returns false when the chunk oracle found the store and the model apart.
func (x *runner) verify(db sopx.DB, model map[string][]vdesc, lastTouch map[string]string, detail map[string]any) bool {
	r := x.r
	with := func(kv ...any) map[string]any {
		d := map[string]any{}
		for k, v := range detail {
			d[k] = v
		}
		for i := 0; i+1 < len(kv); i += 2 {
			d[kv[i].(string)] = kv[i+1]
		}
		return d
	}
	t, err := db.Begin(sop.ForReading)
	if err != nil {
		r.Inconclusive("begin-failed")
		return false
	}
	defer t.Rollback(sopx.Ctx)
	s, err := infs.OpenStreamingDataStore[string](sopx.Ctx, storeName, t, nil)
	if err != nil {
		r.Broken("re-open streaming store: %v", err)
		return false
	}

	// ---- (2) chunk oracle first (it does not depend on the reader) ----
	type chunk struct {
		idx  int
		body []byte
		err  string
	}
	got := map[string][]chunk{}
	nChunks := 0
	// SOP's B-tree wrapper rolls the transaction back on any error, so a chunk whose body cannot be
	// fetched ends the scan: keys after it are unobserved (neither judged nor counted as agreeing).
	aborted, abortKey := false, ""
	ok, err := s.BtreeInterface.First(sopx.Ctx)
	for ok && err == nil {
		k := s.BtreeInterface.GetCurrentKey().Key
		c := chunk{idx: k.ChunkIndex}
		b, verr := s.BtreeInterface.GetCurrentValue(sopx.Ctx)
		if verr != nil {
			c.err = verr.Error() // the item exists but its body cannot be fetched
		} else {
			c.body = append([]byte(nil), b...)
		}
		got[k.Key] = append(got[k.Key], c)
		nChunks++
		if verr != nil {
			aborted, abortKey = true, k.Key
			break
		}
		ok, err = s.BtreeInterface.Next(sopx.Ctx)
	}
	if err != nil {
		x.violate("C31:chunks:scan:navigation-error", with("error", err.Error()))
		return false
	}
	r.Count("chunks_scanned", int64(nChunks))
	if int64(nChunks) != s.BtreeInterface.Count() {
		// Count is C06's subject; recorded, not judged here.
		r.Count("count_differs_from_scan", 1)
	}
	keys := map[string]bool{}
	for k := range got {
		keys[k] = true
	}
	for k := range model {
		keys[k] = true
	}
	sorted := make([]string, 0, len(keys))
	for k := range keys {
		sorted = append(sorted, k)
	}
	sort.Strings(sorted)
	chunkOK := map[string]bool{}
	agree := true
	for _, k := range sorted {
		if aborted && k > abortKey {
			r.Count("entries_unobserved_after_fetch_error", 1)
			continue
		}
		touch := lastTouch[k]
		if touch == "" {
			touch = "never-written"
		}
		cs := got[k]
		sort.Slice(cs, func(i, j int) bool { return cs[i].idx < cs[j].idx })
		var have bytes.Buffer
		idxs := make([]int, 0, len(cs))
		unreadable := ""
		for _, c := range cs {
			have.Write(c.body)
			idxs = append(idxs, c.idx)
			if c.err != "" && unreadable == "" {
				unreadable = c.err
			}
		}
		var want bytes.Buffer
		for _, v := range model[k] {
			want.Write(v.encoded())
		}
		r.Count("entries_chunk_checked", 1)
		_, live := model[k]
		if live && len(cs) == len(model[k]) {
			r.Count("entries_with_one_chunk_per_value", 1)
		}
		outcome := ""
		switch {
		case !live && len(cs) > 0:
			outcome = "leftover-chunks" // chunks of an entry that was removed (or never written)
		case unreadable != "":
			outcome = "unreadable-chunk"
		case bytes.Equal(have.Bytes(), want.Bytes()):
		case bytes.HasPrefix(have.Bytes(), want.Bytes()):
			outcome = "leftover-chunks"
		case bytes.HasPrefix(want.Bytes(), have.Bytes()):
			outcome = "missing-chunks"
		default:
			outcome = "content-mismatch"
		}
		if outcome == "" {
			chunkOK[k] = true
			continue
		}
		agree = false
		if len(idxs) > 12 {
			idxs = append(idxs[:6], idxs[len(idxs)-6:]...)
		}
		x.violate("C31:chunks:"+touch+":"+outcome, with("key", k, "chunk_indexes_present", idxs, "chunks_present", len(cs),
			"values_in_model", len(model[k]), "bytes_present", have.Len(), "bytes_expected", want.Len(), "fetch_error", unreadable))
	}

	if aborted {
		return false
	}
	// ---- (1) decode oracle, for the keys on which the chunk oracle agreed with the model ----
	for _, k := range keyPool {
		vals, live := model[k]
		if !chunkOK[k] && (live || len(got[k]) > 0) {
			continue // already reported by the chunk oracle
		}
		touch := lastTouch[k]
		if touch == "" {
			touch = "never-written"
		}
		found, err := s.FindOne(sopx.Ctx, k)
		if err != nil {
			x.violate("C31:decode:find-after-"+touch+":error", with("key", k, "error", err.Error()))
			continue
		}
		if found != live {
			x.violate(fmt.Sprintf("C31:decode:find-after-%s:found=%v-live=%v", touch, found, live), with("key", k))
			continue
		}
		if !live {
			continue
		}
		dec, err := s.GetCurrentValue(sopx.Ctx)
		if err != nil {
			x.violate("C31:decode:get-current-value:error", with("key", k, "error", err.Error()))
			continue
		}
		r.Count("entries_decoded", 1)
		prevClass := ""
		var prev any
		intact := true
		for i := 0; i <= len(vals); i++ {
			var g any
			err := dec.Decode(&g)
			if i == len(vals) { // the sequence must end here
				if err == io.EOF {
					break
				}
				intact = false
				if err != nil {
					x.violate("C31:decode:at-end:error-instead-of-eof", with("key", k, "values", len(vals), "error", err.Error()))
				} else if i > 0 && reflect.DeepEqual(g, prev) {
					x.violate("C31:decode:after-"+prevClass+":previous-value-returned-again", with("key", k, "value_index", i, "values", len(vals),
						"expected", "io.EOF", "got", brief(g), "previous_chunk_bytes", len(vals[i-1].encoded())))
				} else {
					x.violate("C31:decode:at-end:extra-value", with("key", k, "values", len(vals), "got", brief(g)))
				}
				break
			}
			want := normalize(vals[i].value())
			cls := sizeClass(len(vals[i].encoded()))
			if err != nil {
				intact = false
				oc := "error"
				if err == io.EOF {
					oc = "early-eof"
				}
				x.violate("C31:decode:"+cls+":"+oc, with("key", k, "value_index", i, "values", len(vals), "error", err.Error()))
				break
			}
			r.Count("values_decoded", 1)
			if !reflect.DeepEqual(g, want) {
				intact = false
				if i > 0 && reflect.DeepEqual(g, prev) {
					x.violate("C31:decode:after-"+prevClass+":previous-value-returned-again", with("key", k, "value_index", i, "values", len(vals),
						"expected", brief(want), "got", brief(g), "previous_chunk_bytes", len(vals[i-1].encoded())))
				} else {
					x.violate("C31:decode:"+cls+":wrong-value", with("key", k, "value_index", i, "values", len(vals), "expected", brief(want), "got", brief(g)))
				}
				break // the stream position is unknown from here on
			}
			prev, prevClass = want, cls
		}
		if intact {
			r.Count("entries_decoded_intact", 1)
		}
	}
	return agree
}

// fixedPrograms: the minimal shapes, always run first (independent of the seed).
func fixedPrograms() []program {
	a := func(size, salt int) vdesc { return vdesc{Kind: "ascii", Size: size, Salt: salt} }
	mk := func(profile string, txs ...[]op) program { return program{Slot: 50, Profile: profile, Txns: txs} }
	var ps []program
	// chunk length = payload + 3. 509 -> 512 (fits the decoder's first read), 510 -> 513 (does not).
	for _, n := range []int{1, 509, 510, 3000} {
		ps = append(ps, mk("big", []op{{Kind: "add", Key: "k", Class: "new", Values: []vdesc{a(n, 1)}}}))
		ps = append(ps, mk("big", []op{{Kind: "add", Key: "k", Class: "new", Values: []vdesc{a(n, 1), a(1, 2)}}}))
	}
	for _, prof := range []string{"big", "medium", "plain"} {
		// update longer -> shorter and shorter -> longer with neighbours present, remove the middle
		// key together with another op, re-add it, then remove it in a transaction of its own.
		ps = append(ps, mk(prof,
			[]op{{Kind: "add", Key: "k", Class: "new", Values: []vdesc{a(5, 1)}},
				{Kind: "add", Key: "k1", Class: "new", Values: []vdesc{a(5, 2), a(6, 3), a(7, 4), a(8, 5)}},
				{Kind: "add", Key: "k10", Class: "new", Values: []vdesc{a(5, 6), a(5, 7)}}},
			[]op{{Kind: "update", Key: "k1", Class: "fewer-values", Values: []vdesc{a(9, 8)}}},
			[]op{{Kind: "update", Key: "k1", Class: "more-values", Values: []vdesc{a(3, 9), a(3, 10), a(3, 11), a(3, 12), a(3, 13), a(3, 14)}}},
			[]op{{Kind: "update", Key: "k1", Class: "same-count-shorter", Values: []vdesc{a(1, 15), a(1, 16), a(1, 17), a(1, 18), a(1, 19), a(1, 20)}}},
			[]op{{Kind: "update", Key: "k1", Class: "same-count-longer", Values: []vdesc{a(700, 21), a(2, 22), a(700, 23), a(2, 24), a(2, 25), a(2, 26)}}},
			[]op{{Kind: "remove", Key: "k1", Class: "remove"}, {Kind: "add", Key: "zz", Class: "new", Values: []vdesc{a(2, 27)}}},
			[]op{{Kind: "add", Key: "k1", Class: "new", Values: []vdesc{a(4, 28), a(4, 29)}}},
			[]op{{Kind: "remove", Key: "k1", Class: "remove"}},
			[]op{{Kind: "add", Key: "k1", Class: "new", Values: []vdesc{a(4, 30)}}},
		))
	}
	return ps
}

func Run(r *report.Run) int {
	rnd := env.Rand(r.Seed, "c31")
	x := &runner{r: r}
	var progs []program
	progs = append(progs, fixedPrograms()...)
	n := r.Pick(36, 300)
	hugeSizes := []int{4<<20 - 3, 1<<20 - 2, 2<<20 - 4, 4<<20 - 2, 1 << 20} // chunk lengths 4 MiB, 1 MiB+1, 2 MiB-1, 4 MiB+1, 1 MiB+3
	for i := 0; i < n; i++ {
		huge := 0
		if i%20 == 0 { // 2 programs in the quick tier, 15 in the thorough tier
			huge = hugeSizes[(i/20)%len(hugeSizes)]
		}
		progs = append(progs, genProgram(rnd, huge))
	}
	for i, p := range progs {
		t0 := time.Now()
		x.runProgram(i, p)
		nt := p.nontrivial()
		r.Eval(p.fingerprint(), nt)
		clear(encMemo)
		if os.Getenv("C31_DEBUG") != "" {
			nb := 0
			for _, tx := range p.Txns {
				for _, o := range tx {
					for _, v := range o.Values {
						nb += v.Size
					}
				}
			}
			fmt.Printf("DEBUG program %d profile=%s txns=%d bytes=%d took %v\n", i, p.Profile, len(p.Txns), nb, time.Since(t0))
		}
		if nt {
			r.Sample(map[string]any{"program_index": i, "program": p})
		}
	}
	r.Set("programs", len(progs))
	return r.Finish(rule, assumptions, 20)
}

const rule = "programs of 3-6 transactions x 1-3 ops (add/update/upsert/remove) over 7 prefix-related string keys, value counts 1..140 and encoded sizes 1 B..4 MiB with classes around 512 B (json.Decoder's first read), its buffer-growth sizes and KiB multiples, plus 11 fixed minimal programs; fingerprint = hash of (op, key, relation to previous content, value kinds and chunk-size classes, slot length, store profile); non-trivial = some entry has >= 2 values with a chunk > 512 B AND some op updates/removes an existing entry; after every commit a new transaction decodes every entry (+ EOF) and scans the underlying B-tree's chunks"

var assumptions = []string{
	"standalone database (one folder, in-memory L2); store profiles: sop.BigData (what the library's own streaming tests use; half of the programs), sop.MediumData, and separate-segment-uncached; slot length 50..100",
	"single writer; every Encoder is closed; values are valid UTF-8 JSON values (strings, records)",
	"chunk oracle compares concatenated chunk bodies per key, not chunk boundaries",
}
