package c31

import (
	"fmt"
	"testing"

	"github.com/sharedcode/sop"

	"verifharness/kit/env"
	"verifharness/kit/sopx"
)

func TestProbePlainBtreeRemoveOnly(t *testing.T) {
	env.Quiet()
	defer env.Cleanup()
	for _, prof := range sopx.Profiles {
		dir := env.Scratch("c31p")
		db := sopx.NewDB(dir)
		tr, _ := db.Begin(sop.ForWriting)
		b, err := sopx.New[string, string](db, tr, sopx.Options("s", 8, true, prof))
		if err != nil {
			t.Fatal(err)
		}
		for i := 0; i < 3; i++ {
			b.Add(sopx.Ctx, fmt.Sprint("k", i), "v")
		}
		if err := tr.Commit(sopx.Ctx); err != nil {
			t.Fatal(err)
		}
		tr, _ = db.Begin(sop.ForWriting)
		b, _ = sopx.Open[string, string](db, tr, "s")
		ok, err := b.Remove(sopx.Ctx, "k1")
		cerr := tr.Commit(sopx.Ctx)
		d := sopx.DumpDB(db)
		fmt.Printf("profile=%s remove=%v,%v commit=%v -> count=%d items=%v err=%q\n", prof, ok, err, cerr, d.By["s"].Count, d.By["s"].Items, d.By["s"].Err)
	}
}
