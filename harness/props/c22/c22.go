// Package c22: registry block writes survive a crash as either the old or the new block.
//
// E-CRASH on one registry block. A VICTIM child process performs one single-handle registry write
// (update / locked update / add / remove) with a wrapper installed in the exported seam
// fs.DirectIOSim; the wrapper exits the process (os.Exit(77)) at a planned point of the block write
//
//	before-backup   after the pre-write read of the block returned, i.e. before the .cow backup exists
//	before-write    at entry of the block WriteAt: the backup is written, the block is still old
//	torn-write(k)   only the first k bytes of the new block reach the file (plain pwrite), then exit
//	after-write     the block WriteAt returned, the backup has not been removed yet
//	none            the write completes (control)
//
// and, for the backup file (written through fs.NewFileIO, not through the seam), a torn backup is
// produced post mortem by truncating the .cow left by a before-write crash.
//
// Concurrent-reader half: the victim is PAUSED at a point (it creates a "reached" file and blocks until
// the parent creates a "release" file); a read-only registry instance in the parent (own L2 cache =
// another process as far as the registry is concerned; registry lookups take no locks) looks up
// ANOTHER id of the same block; then the victim is released and crashes as planned.
//
// Oracle, evaluated by FRESH registry instances (fresh L2 caches) after the victim is dead:
//   - every lookup returns without error;
//   - every id of the block reads as its old or its new handle; ids the write did not touch read
//     unchanged; no id is lost; the written id reads as exactly its old or exactly its new handle
//     (never a mixture of the two), and reads the same through a second fresh instance;
//   - the concurrent reader itself got the correct handle of the other id without error;
//   - finally the raw block on disk equals the old image or the new image (the property's observation
//     points name the raw block bytes; this is judged last and has its own outcome class).
//
// Not asserted: whether a .cow file is left behind; anything about multi-handle writes (each block
// write is judged on its own); lost-update races between a LIVE writer and a restoring reader (no
// process dies there, outside the statement).
package c22

import (
	"bytes"
	"context"
	"encoding/json"
	"fmt"
	"math/rand"
	"os"
	"path/filepath"
	"strings"
	"sync"
	"syscall"
	"time"
	"unsafe"

	"github.com/sharedcode/sop"
	"github.com/sharedcode/sop/fs"

	"verifharness/kit/env"
	"verifharness/kit/proc"
	"verifharness/kit/regx"
	"verifharness/kit/report"
)

const table = "tbl"

// Scenario is what the victim child receives.
type Scenario struct {
	Base    string     `json:"base"`
	Mod     int        `json:"mod"`
	Op      string     `json:"op"` // update | updatelocked | add | remove
	Handle  sop.Handle `json:"handle"`
	Pause   string     `json:"pause"` // "" | before-backup | before-write | mid-write | after-write
	Crash   string     `json:"crash"` // none | before-backup | before-write | torn-write | after-write
	Torn    int        `json:"torn"`
	Reached string     `json:"reached_file"`
	Release string     `json:"release_file"`
}

func init() { proc.Register("c22-victim", victim) }

type wrap struct {
	inner         fs.DirectIO
	sc            *Scenario
	reads, writes int
}

func (w *wrap) Open(ctx context.Context, filename string, flag int, perm os.FileMode) (*os.File, error) {
	return w.inner.Open(ctx, filename, flag, perm)
}
func (w *wrap) Close(f *os.File) error { return w.inner.Close(f) }

func (w *wrap) at(site string) {
	if w.sc.Pause == site {
		_ = os.WriteFile(w.sc.Reached, []byte(site), 0o644)
		for i := 0; ; i++ {
			if _, err := os.Stat(w.sc.Release); err == nil {
				break
			}
			if i > 60000 {
				fmt.Println("release never came")
				os.Exit(proc.ExitHarness)
			}
			time.Sleep(time.Millisecond)
		}
	}
	if w.sc.Crash == site || (site == "mid-write" && w.sc.Crash == "torn-write") {
		fmt.Println("crash@" + site)
		os.Exit(proc.ExitCrash)
	}
}

func (w *wrap) ReadAt(ctx context.Context, f *os.File, b []byte, off int64) (int, error) {
	n, err := w.inner.ReadAt(ctx, f, b, off)
	w.reads++
	fmt.Printf("call ReadAt#%d off=%d n=%d\n", w.reads, off, n)
	if w.reads == 2 {
		// the read inside updateFileBlockRegion: the next thing the writer does is create the backup
		w.at("before-backup")
	}
	return n, err
}

func (w *wrap) WriteAt(ctx context.Context, f *os.File, b []byte, off int64) (int, error) {
	w.writes++
	fmt.Printf("call WriteAt#%d off=%d len=%d\n", w.writes, off, len(b))
	if w.writes == 1 {
		w.at("before-write")
		if w.sc.Crash == "torn-write" {
			// a torn write: the first k bytes of the new block reach the file, then the process dies.
			// (plain buffered pwrite on a second descriptor; O_DIRECT would refuse an unaligned length)
			g, err := os.OpenFile(f.Name(), os.O_WRONLY, 0)
			if err != nil {
				fmt.Println("torn open:", err)
				os.Exit(proc.ExitHarness)
			}
			if w.sc.Torn > 0 {
				if _, err := g.WriteAt(b[:w.sc.Torn], off); err != nil {
					fmt.Println("torn write:", err)
					os.Exit(proc.ExitHarness)
				}
			}
			_ = g.Sync()
			// drop the (now clean) pages so no cached copy of the torn block outlives the victim
			_, _, _ = syscall.Syscall6(syscall.SYS_FADVISE64, g.Fd(), 0, 0, 4 /* POSIX_FADV_DONTNEED */, 0, 0)
			_ = g.Close()
			w.at("mid-write") // pauses if planned, then exits 77
		}
	}
	n, err := w.inner.WriteAt(ctx, f, b, off)
	if w.writes == 1 {
		w.at("after-write")
	}
	return n, err
}

func victim(args []string) int {
	if len(args) != 1 {
		return proc.ExitHarness
	}
	raw, err := os.ReadFile(args[0])
	if err != nil {
		return proc.ExitHarness
	}
	var sc Scenario
	if err := json.Unmarshal(raw, &sc); err != nil {
		fmt.Println("bad scenario:", err)
		return proc.ExitHarness
	}
	fs.DirectIOSim = &wrap{inner: fs.NewDirectIO(), sc: &sc}
	rg, err := regx.Open(sc.Base, table, sc.Mod, true)
	if err != nil {
		fmt.Println("open:", err)
		return proc.ExitHarness
	}
	switch sc.Op {
	case "update":
		err = rg.UpdateNoLocks(false, sc.Handle)
	case "updatelocked":
		err = rg.Update(sc.Handle)
	case "add":
		err = rg.Add(sc.Handle)
	case "remove":
		err = rg.Remove(sc.Handle.LogicalID)
	default:
		return proc.ExitHarness
	}
	rg.Close()
	fmt.Printf("op-returned err=%v\n", err)
	if err != nil {
		return 3
	}
	if sc.Crash != "none" {
		return proc.ExitNotReached
	}
	return proc.ExitOK
}

// ---- parent side ----

// layoutSpec is the content every case starts from: 10 ids of one block, each in its own ideal slot.
var baseSlots = []int{0, 1, 2, 20, 33, 34, 50, 63, 64, 65}

type world struct {
	Mod, Block int
	IDs        []sop.UUID
	Old        map[sop.UUID]sop.Handle
}

func mkHandle(id sop.UUID, rnd *rand.Rand) sop.Handle {
	h := sop.Handle{LogicalID: id, Version: int32(rnd.Int31())}
	rnd.Read(h.PhysicalIDA[:])
	rnd.Read(h.PhysicalIDB[:])
	h.IsActiveIDB = rnd.Intn(2) == 0
	h.WorkInProgressTimestamp = rnd.Int63()
	return h
}

func newWorld(seed int64, mod, block int) *world {
	rnd := env.Rand(seed, fmt.Sprintf("c22-world-%d-%d", mod, block))
	w := &world{Mod: mod, Block: block, Old: map[sop.UUID]sop.Handle{}}
	for i, s := range baseSlots {
		id := regx.MakeID(mod, block, s, uint32(10+i))
		w.IDs = append(w.IDs, id)
		w.Old[id] = mkHandle(id, rnd)
	}
	return w
}

// opSpec is one kind of single-handle write.
type opSpec struct {
	Name   string // e.g. update@1
	Op     string
	Slot   int // slot the write lands in
	Handle sop.Handle
	Other  sop.UUID // the id the concurrent reader looks up
}

func (w *world) ops(seed int64, thorough bool) []opSpec {
	rnd := env.Rand(seed, fmt.Sprintf("c22-ops-%d", w.Mod))
	idAt := func(slot int) sop.UUID {
		for i, s := range baseSlots {
			if s == slot {
				return w.IDs[i]
			}
		}
		panic("no id at slot")
	}
	var out []opSpec
	upd := func(op string, slot, otherSlot int) {
		out = append(out, opSpec{Name: fmt.Sprintf("%s@%d", op, slot), Op: op, Slot: slot, Handle: mkHandle(idAt(slot), rnd), Other: idAt(otherSlot)})
	}
	upd("update", 1, 64)
	upd("updatelocked", 65, 0)
	addID := regx.MakeID(w.Mod, w.Block, 40, 777)
	out = append(out, opSpec{Name: "add@40", Op: "add", Slot: 40, Handle: mkHandle(addID, rnd), Other: idAt(2)})
	out = append(out, opSpec{Name: "remove@2", Op: "remove", Slot: 2, Handle: sop.Handle{LogicalID: idAt(2)}, Other: idAt(33)})
	if thorough {
		upd("update", 0, 65)
		upd("update", 33, 34)
		upd("updatelocked", 34, 33)
		// an add whose ideal slot (0) is taken: lands in the first free slot (3)
		add2 := regx.MakeID(w.Mod, w.Block, 0, 778)
		out = append(out, opSpec{Name: "add@3(displaced)", Op: "add", Slot: 3, Handle: mkHandle(add2, rnd), Other: idAt(0)})
		out = append(out, opSpec{Name: "remove@65", Op: "remove", Slot: 65, Handle: sop.Handle{LogicalID: idAt(65)}, Other: idAt(1)})
	}
	return out
}

func (w *world) newMap(o opSpec) map[sop.UUID]sop.Handle {
	m := map[sop.UUID]sop.Handle{}
	for k, v := range w.Old {
		m[k] = v
	}
	if o.Op == "remove" {
		delete(m, o.Handle.LogicalID)
	} else {
		m[o.Handle.LogicalID] = o.Handle
	}
	return m
}

// Case is one crash experiment.
type Case struct {
	Mod      int    `json:"mod"`
	Block    int    `json:"block"`
	Op       string `json:"op"`
	Pause    string `json:"pause,omitempty"`
	Crash    string `json:"crash"`
	Torn     int    `json:"torn_prefix_bytes"`
	CowTrunc int    `json:"backup_truncated_to"` // -1: backup file left as the crash left it
	op       opSpec
	w        *world
	bNew     []byte
}

func segPath(base string) string { return filepath.Join(base, table, table+"-1.reg") }
func cowPath(base string, block int) string {
	return filepath.Join(base, table, fmt.Sprintf("%s-1_%d.cow", table, block*regx.BlockSize))
}
func readBlock(base string, block int) ([]byte, error) {
	b, err := directRead(segPath(base), int64(block)*regx.BlockSize)
	if err == nil && b == nil {
		err = fmt.Errorf("segment file ends before block %d", block)
	}
	return b, err
}

// ---- harness-side block I/O: O_DIRECT like the registry itself, so that the page cache never sits
// between what the registry wrote and what the harness inspects (mixing buffered and direct I/O on
// one file is not guaranteed coherent) ----

func alignedBlock() []byte {
	b := make([]byte, 2*regx.BlockSize)
	off := int(uintptr(unsafe.Pointer(&b[0])) & (regx.BlockSize - 1))
	if off != 0 {
		off = regx.BlockSize - off
	}
	return b[off : off+regx.BlockSize : off+regx.BlockSize]
}

// directRead returns the 4096-byte block at byte offset off; (nil, nil) when the file ends before it.
func directRead(path string, off int64) ([]byte, error) {
	fd, err := syscall.Open(path, syscall.O_RDONLY|syscall.O_DIRECT, 0)
	if err != nil {
		return nil, err
	}
	defer syscall.Close(fd)
	buf := alignedBlock()
	n, err := syscall.Pread(fd, buf, off)
	if err != nil {
		return nil, err
	}
	if n == 0 {
		return nil, nil
	}
	if n != regx.BlockSize {
		return nil, fmt.Errorf("short direct read: %d bytes at %d of %s", n, off, path)
	}
	out := make([]byte, regx.BlockSize)
	copy(out, buf)
	return out, nil
}

func directWrite(path string, off int64, data []byte) error {
	fd, err := syscall.Open(path, syscall.O_WRONLY|syscall.O_DIRECT, 0)
	if err != nil {
		return err
	}
	defer syscall.Close(fd)
	buf := alignedBlock()
	copy(buf, data)
	n, err := syscall.Pwrite(fd, buf, off)
	if err != nil {
		return err
	}
	if n != regx.BlockSize {
		return fmt.Errorf("short direct write: %d", n)
	}
	return nil
}

// setup writes the world's content through the real registry (in the parent, no seam installed).
func (w *world) setup(base string) ([]byte, error) {
	rg, err := regx.Open(base, table, w.Mod, true)
	if err != nil {
		return nil, err
	}
	for _, id := range w.IDs {
		if err := rg.Add(w.Old[id]); err != nil {
			rg.Close()
			return nil, err
		}
	}
	rg.Close()
	return readBlock(base, w.Block)
}

type outcome struct {
	exit           int
	census         string
	pauseSeen      bool
	cowAtPark      bool
	cowAfterReader bool
	readerErr      string
	readerOK       bool
	preBlock       []byte
	cowSizePre     int64 // -1 = no backup file when the post-crash readers start
	finalBlock     []byte
	r1, r2         map[sop.UUID]sop.Handle
	r1err          string
	r2err          string
	inconclusive   string
	broken         string
}

func getAll(base string, mod int, ids []sop.UUID) (map[sop.UUID]sop.Handle, string) {
	rg, err := regx.Open(base, table, mod, true)
	if err != nil {
		return nil, "open: " + err.Error()
	}
	defer rg.Close()
	out := map[sop.UUID]sop.Handle{}
	for _, id := range ids {
		got, err := rg.Get(id)
		if err != nil {
			return out, fmt.Sprintf("Get(%v): %v", id, err)
		}
		if h, ok := got[id]; ok {
			out[id] = h
		}
	}
	return out, ""
}

func runCase(c *Case, bOld []byte) (o outcome) {
	base := env.Scratch("c22")
	defer env.Remove(base)
	logDir := filepath.Join(base, "_log")
	_ = os.MkdirAll(logDir, 0o755)
	got, err := c.w.setup(base)
	if err != nil || !bytes.Equal(got, bOld) {
		o.broken = fmt.Sprintf("setup: %v (image equal to reference: %v)", err, bytes.Equal(got, bOld))
		return
	}
	sc := Scenario{Base: base, Mod: c.Mod, Op: c.op.Op, Handle: c.op.Handle, Pause: c.Pause, Crash: c.Crash, Torn: c.Torn,
		Reached: filepath.Join(logDir, "reached"), Release: filepath.Join(logDir, "release")}
	scFile := filepath.Join(logDir, "scenario.json")
	b, _ := json.Marshal(sc)
	_ = os.WriteFile(scFile, b, 0o644) // the case is on disk before the child starts
	var res proc.Result
	if c.Pause == "" {
		res = proc.Run(logDir, 120, nil, "c22-victim", scFile)
	} else {
		done := make(chan proc.Result, 1)
		go func() { done <- proc.Run(logDir, 120, nil, "c22-victim", scFile) }()
		// wait (poll, no deadline in the oracle: a victim that never parks is an inconclusive case)
		parked := false
	wait:
		for i := 0; i < 100000; i++ {
			if _, err := os.Stat(sc.Reached); err == nil {
				parked = true
				break
			}
			select {
			case res = <-done:
				break wait
			default:
			}
			time.Sleep(time.Millisecond)
		}
		if !parked {
			o.exit = res.Code
			o.inconclusive = "victim-never-parked"
			_ = os.WriteFile(sc.Release, nil, 0o644)
			return
		}
		o.pauseSeen = true
		_, e1 := os.Stat(cowPath(base, c.Block))
		o.cowAtPark = e1 == nil
		// the concurrent reader: read-only instance, fresh L2 cache, looks up ANOTHER id of the block
		rd, err := regx.Open(base, table, c.Mod, false)
		if err != nil {
			o.broken = "reader open: " + err.Error()
		} else {
			got, err := rd.Get(c.op.Other)
			rd.Close()
			switch {
			case err != nil:
				o.readerErr = err.Error()
			case got[c.op.Other] == c.w.Old[c.op.Other]:
				o.readerOK = true
			default:
				o.readerErr = fmt.Sprintf("wrong handle %+v", got[c.op.Other])
			}
		}
		_, e2 := os.Stat(cowPath(base, c.Block))
		o.cowAfterReader = e2 == nil
		_ = os.WriteFile(sc.Release, nil, 0o644)
		res = <-done
	}
	o.exit = res.Code
	o.census = string(res.Out())
	want := proc.ExitCrash
	if c.Crash == "none" {
		want = proc.ExitOK
	}
	if res.Code != want {
		o.inconclusive = fmt.Sprintf("victim-exit-%d-instead-of-%d", res.Code, want)
		return
	}
	// post-mortem manipulation of the backup file (torn backup)
	cp := cowPath(base, c.Block)
	if c.CowTrunc >= 0 {
		st, err := os.Stat(cp)
		if err != nil || st.Size() != regx.BlockSize {
			o.broken = fmt.Sprintf("expected a complete backup file to truncate: %v", err)
			return
		}
		if err := os.Truncate(cp, int64(c.CowTrunc)); err != nil {
			o.broken = err.Error()
			return
		}
	}
	o.cowSizePre = -1
	if st, err := os.Stat(cp); err == nil {
		o.cowSizePre = st.Size()
	}
	o.preBlock, _ = readBlock(base, c.Block)
	ids := append([]sop.UUID(nil), c.w.IDs...)
	if c.op.Op == "add" {
		ids = append(ids, c.op.Handle.LogicalID)
	}
	o.r1, o.r1err = getAll(base, c.Mod, ids)
	o.r2, o.r2err = getAll(base, c.Mod, ids)
	o.finalBlock, _ = readBlock(base, c.Block)
	return
}

// tornClass names a torn image relative to the old and new images (classification of the crash site).
func tornClass(pre, bOld, bNew []byte) string {
	switch {
	case bytes.Equal(pre, bOld):
		return "image=old"
	case bytes.Equal(pre, bNew):
		return "image=new"
	}
	data := regx.BlockSize - 4
	if bytes.Equal(pre[:data], bNew[:data]) {
		return "data-new-checksum-not"
	}
	if bytes.Equal(pre[:data], bOld[:data]) {
		return "data-old-checksum-not"
	}
	return "entry-partly-written"
}

func siteLabel(c *Case, pre, bOld, bNew []byte) string {
	switch c.Crash {
	case "before-write":
		if c.CowTrunc >= 0 {
			return "crash@after-backup/torn-backup"
		}
		return "crash@after-backup"
	case "torn-write":
		return "crash@torn-write/" + tornClass(pre, bOld, bNew)
	case "none":
		return "completed"
	}
	return "crash@" + c.Crash
}

func scenarioLabel(c *Case) string {
	if c.Pause == "" {
		return "solo"
	}
	return "reader@" + c.Pause
}

func hexHead(b []byte, slot int) string {
	if b == nil {
		return ""
	}
	return fmt.Sprintf("slot %d bytes: %x | checksum bytes: %x", slot, b[slot*regx.SlotSize:(slot+1)*regx.SlotSize], b[regx.BlockSize-4:])
}

func judge(r *report.Run, c *Case, o outcome, bOld []byte) {
	site := "unclassified"
	if o.preBlock != nil {
		site = siteLabel(c, o.preBlock, bOld, c.bNew)
	}
	fp := fmt.Sprintf("mod=%d:%s:%s:%s:torn=%d:cow=%d", c.Mod, c.op.Name, scenarioLabel(c), site, c.Torn, c.CowTrunc)
	if o.broken != "" {
		r.Broken("%s: %s", fp, o.broken)
		return
	}
	if o.inconclusive != "" {
		r.Eval(fp, false)
		r.Inconclusive(o.inconclusive)
		return
	}
	r.Eval(fp, true)
	r.Count("victims_"+c.Crash, 1)
	if c.Pause != "" {
		r.Count("concurrent_reader_lookups", 1)
		if o.cowAtPark && !o.cowAfterReader {
			r.Count("live_backup_deleted_by_concurrent_reader", 1)
		}
	}
	newM := c.w.newMap(c.op)
	target := c.op.Handle.LogicalID
	detail := func(extra map[string]any) map[string]any {
		extra["case"] = c
		extra["op"] = c.op.Name
		extra["written_handle"] = c.op.Handle
		extra["written_slot"] = c.op.Slot
		extra["world"] = map[string]any{"ids": c.w.IDs, "slots": baseSlots, "seed_note": "handles derive from VERIF_SEED (env.Rand(seed, c22-world-<mod>-<block>))"}
		extra["victim_calls"] = strings.Split(strings.TrimSpace(o.census), "\n")
		if c.Pause != "" {
			extra["backup_file_present_when_victim_parked"] = o.cowAtPark
			extra["backup_file_present_after_concurrent_reader_lookup"] = o.cowAfterReader
		}
		extra["backup_file_size_when_readers_started"] = o.cowSizePre
		extra["block_when_readers_started"] = tornClass(o.preBlock, bOld, c.bNew)
		extra["old_image"] = hexHead(bOld, c.op.Slot)
		extra["new_image"] = hexHead(c.bNew, c.op.Slot)
		extra["image_when_readers_started"] = hexHead(o.preBlock, c.op.Slot)
		extra["final_image"] = hexHead(o.finalBlock, c.op.Slot)
		return extra
	}
	sig := func(outcome string) string { return fmt.Sprintf("C22:%s:%s:%s", scenarioLabel(c), site, outcome) }

	if c.Pause != "" && !o.readerOK {
		r.Violation(sig("concurrent-reader-failed"), detail(map[string]any{"reader": o.readerErr}))
		return
	}
	if o.r1err != "" || o.r2err != "" {
		r.Violation(sig("reader-error"), detail(map[string]any{"first_reader": o.r1err, "second_reader": o.r2err}))
		return
	}
	for _, id := range append(append([]sop.UUID(nil), c.w.IDs...), target) {
		oldH, inOld := c.w.Old[id]
		newH, inNew := newM[id]
		got, found := o.r1[id]
		isOld := found == inOld && (!found || got == oldH)
		isNew := found == inNew && (!found || got == newH)
		if isOld || isNew {
			continue
		}
		out := "untouched-id-changed"
		switch {
		case id == target && found:
			out = "mixture-served"
		case id == target:
			out = "written-id-lost"
		case !found:
			out = "untouched-id-lost"
		}
		r.Violation(sig(out), detail(map[string]any{"id": id, "observed_found": found, "observed": got, "old": oldH, "old_present": inOld, "new": newH, "new_present": inNew}))
		return
	}
	g1, f1 := o.r1[target]
	g2, f2 := o.r2[target]
	if f1 != f2 || g1 != g2 {
		r.Violation(sig("two-fresh-readers-disagree"), detail(map[string]any{"first": g1, "first_found": f1, "second": g2, "second_found": f2}))
		return
	}
	if !bytes.Equal(o.finalBlock, bOld) && !bytes.Equal(o.finalBlock, c.bNew) {
		r.Violation(sig("raw-block-neither-old-nor-new"), detail(map[string]any{"final_block_class": tornClass(o.finalBlock, bOld, c.bNew)}))
		return
	}
	state := "old"
	if bytes.Equal(o.finalBlock, c.bNew) {
		state = "new"
	}
	r.Count("recovered_as_"+state, 1)
}

func Run(r *report.Run) int {
	type wspec struct{ mod, block int }
	worlds := []wspec{{1, 0}}
	if r.Thorough() {
		worlds = []wspec{{1, 0}, {2, 1}, {250, 249}}
	}
	var cases []*Case
	refOld := map[*world][]byte{}
	for _, ws := range worlds {
		w := newWorld(r.Seed, ws.mod, ws.block)
		// reference old image
		base := env.Scratch("c22-ref")
		bOld, err := w.setup(base)
		env.Remove(base)
		if err != nil {
			r.Broken("reference setup: %v", err)
			return r.Finish(rule, assumptions, 1)
		}
		refOld[w] = bOld
		for _, op := range w.ops(r.Seed, r.Thorough()) {
			// control: the write completes; gives the new image and the census of seam calls
			ctl := &Case{Mod: w.Mod, Block: w.Block, Op: op.Name, Crash: "none", CowTrunc: -1, op: op, w: w}
			o := runCase(ctl, bOld)
			calls := []string{}
			for _, l := range strings.Split(o.census, "\n") {
				if strings.HasPrefix(l, "call ") {
					calls = append(calls, strings.Fields(l)[1])
				}
			}
			if o.broken != "" || o.inconclusive != "" || strings.Join(calls, ",") != "ReadAt#1,ReadAt#2,WriteAt#1" {
				r.Broken("control run of %s: broken=%q inconclusive=%q seam calls=%v (expected ReadAt#1,ReadAt#2,WriteAt#1)", op.Name, o.broken, o.inconclusive, calls)
				return r.Finish(rule, assumptions, 1)
			}
			ctl.bNew = o.finalBlock
			if bytes.Equal(ctl.bNew, bOld) {
				r.Broken("control run of %s left the block unchanged", op.Name)
				return r.Finish(rule, assumptions, 1)
			}
			judge(r, ctl, o, bOld)
			r.Set("seam_calls_of_one_block_write", calls)
			mk := func(pause, crash string, torn, cowTrunc int) {
				cases = append(cases, &Case{Mod: w.Mod, Block: w.Block, Op: op.Name, Pause: pause, Crash: crash, Torn: torn, CowTrunc: cowTrunc, op: op, w: w, bNew: ctl.bNew})
			}
			so := op.Slot * regx.SlotSize
			torns := []int{0, 1, 62, 100, 2048, 4092, 4095, so + 20, so + 40}
			if r.Thorough() {
				torns = append(torns, so+1, so+16, so+33, so+61, so+62, 4093, 4094)
			}
			seenT := map[int]bool{}
			var uniq []int
			for _, k := range torns {
				if !seenT[k] && k >= 0 && k < regx.BlockSize {
					seenT[k] = true
					uniq = append(uniq, k)
				}
			}
			torns = uniq
			// solo crashes
			mk("", "before-backup", 0, -1)
			mk("", "before-write", 0, -1)
			for _, t := range []int{0, 1, 100, 2048, 4095} {
				mk("", "before-write", 0, t) // torn backup, produced post mortem
			}
			for _, k := range torns {
				mk("", "torn-write", k, -1)
			}
			mk("", "after-write", 0, -1)
			// with a concurrent reader while the victim is parked
			mk("before-backup", "before-write", 0, -1)
			mk("before-backup", "torn-write", so+40, -1)
			mk("before-write", "before-write", 0, -1)
			for _, k := range torns {
				mk("before-write", "torn-write", k, -1)
			}
			mk("before-write", "after-write", 0, -1)
			mk("before-write", "none", 0, -1)
			for _, k := range []int{so + 20, 2048, 4092} {
				mk("mid-write", "torn-write", k, -1)
			}
			mk("after-write", "after-write", 0, -1)
			mk("after-write", "none", 0, -1)
		}
	}
	r.Set("planned_cases", len(cases))
	for i := 0; i < 3 && i < len(cases); i++ {
		r.Sample(cases[i*7%len(cases)])
	}
	outs := make([]outcome, len(cases))
	var wg sync.WaitGroup
	ch := make(chan int)
	for g := 0; g < 8; g++ {
		wg.Add(1)
		go func() {
			defer wg.Done()
			for i := range ch {
				outs[i] = runCase(cases[i], refOld[cases[i].w])
			}
		}()
	}
	for i := range cases {
		ch <- i
	}
	close(ch)
	wg.Wait()
	hit := 0
	for i, c := range cases {
		if outs[i].inconclusive == "" && outs[i].broken == "" {
			hit++
		}
		judge(r, c, outs[i], refOld[c.w])
	}
	r.Set("planned_crashes_hit", fmt.Sprintf("%d of %d", hit, len(cases)))
	if hit*100 < len(cases)*95 {
		r.Broken("only %d of %d planned crash cases reached their site", hit, len(cases))
	}
	return r.Finish(rule, assumptions, r.Pick(40, 200))
}

const rule = "case = (block content of 10 ids, one single-handle write: update / locked update / add / remove at a chosen slot, pause site or none, crash site, torn prefix length, post-mortem backup truncation); crash sites = before-backup, after-backup (= entry of the block WriteAt), torn backup (5 lengths), torn write (prefix lengths 0,1,62,100,2048,4092,4095 and slot-relative +20,+40; more in thorough), after-write, completed; each also with a concurrent read-only lookup of another id while the victim is parked before-backup / before-write / mid-write / after-write; fingerprint = (mod, write, solo|reader@site, crash site with the class of the torn image, torn length, backup truncation); non-trivial = the victim child exited with code 77 at the planned site (0 for the completed control) and parked where planned"

var assumptions = []string{
	"crash = os.Exit(77) of a child process between two calls visible at the fs.DirectIOSim seam, optionally with only a prefix of the block written by a plain pwrite; no write reordering or lost un-synced data below the syscall layer",
	"a torn backup is produced post mortem by truncating the complete .cow left by a crash at entry of the block write",
	"readers are fresh fs.NewRegistry instances with fresh in-memory L2 caches in the parent process (registry lookups take no locks, so the lock service in use does not matter to the reader path); the post-crash readers are read-write instances so that a restore is written back",
	"registry files on ext4 with O_DIRECT",
}
