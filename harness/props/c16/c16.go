// Package c16: external two-phase participants follow SOP's commit outcome.
package c16

import (
	"context"
	"errors"
	"fmt"
	"sync"
	"time"

	"github.com/sharedcode/sop"

	"verifharness/kit/deco"
	"verifharness/kit/env"
	"verifharness/kit/mirror"
	"verifharness/kit/report"
	"verifharness/kit/sopx"
	"verifharness/kit/txn"
)

// participant is a scripted sop.TwoPhaseCommitTransaction that logs every call.
type participant struct {
	name   string
	failAt string // "" | begin | phase1 | phase2 | rollback
	log    *[]string
	mu     *sync.Mutex
	begun  bool
}

var errScripted = errors.New("verif: scripted participant failure")

func (p *participant) rec(call string) error {
	p.mu.Lock()
	*p.log = append(*p.log, p.name+"."+call)
	p.mu.Unlock()
	if p.failAt == call {
		return errScripted
	}
	return nil
}
func (p *participant) Begin(ctx context.Context) error {
	err := p.rec("begin")
	if err == nil {
		p.begun = true
	}
	return err
}
func (p *participant) Phase1Commit(ctx context.Context) error          { return p.rec("phase1") }
func (p *participant) Phase2Commit(ctx context.Context) error          { return p.rec("phase2") }
func (p *participant) Rollback(ctx context.Context, err error) error   { return p.rec("rollback") }
func (p *participant) HasBegun() bool                                  { return p.begun }
func (p *participant) GetMode() sop.TransactionMode                    { return sop.ForWriting }
func (p *participant) GetStores(ctx context.Context) ([]string, error) { return nil, nil }
func (p *participant) Close() error                                    { return nil }
func (p *participant) GetID() sop.UUID                                 { return sop.NilUUID }
func (p *participant) CommitMaxDuration() time.Duration                { return time.Minute }
func (p *participant) OnCommit(func(ctx context.Context) error)        {}

type failure struct {
	Who  string `json:"who"`  // sop | p0 | p1 | p2
	Step string `json:"step"` // begin | phase1 | phase2 | rollback
}

type caseT struct {
	N     int       `json:"participants"`
	Fails []failure `json:"failures"`
}

func cases() []caseT {
	var cs []caseT
	for n := 0; n <= 3; n++ {
		cs = append(cs, caseT{N: n})
		whos := []string{"sop"}
		for i := 0; i < n; i++ {
			whos = append(whos, fmt.Sprintf("p%d", i))
		}
		for _, w := range whos {
			steps := []string{"begin", "phase1", "phase2", "rollback"}
			if w == "sop" {
				steps = []string{"phase1", "phase2"}
			}
			for _, st := range steps {
				cs = append(cs, caseT{N: n, Fails: []failure{{w, st}}})
			}
		}
		// pairs: an early failure plus a rollback failure of some participant
		for _, w := range whos {
			for i := 0; i < n; i++ {
				rb := fmt.Sprintf("p%d", i)
				for _, st := range []string{"phase1", "phase2"} {
					if w != "sop" && st == "phase2" {
						continue // participant phase-2 errors are ignored by design; no rollback follows
					}
					if w == rb {
						continue
					}
					cs = append(cs, caseT{N: n, Fails: []failure{{w, st}, {rb, "rollback"}}})
				}
			}
		}
		// two participants failing phase1
		if n >= 2 {
			cs = append(cs, caseT{N: n, Fails: []failure{{"p0", "phase1"}, {"p1", "phase1"}}})
		}
	}
	return cs
}

func Run(r *report.Run) int {
	mirror.InstallGlobals()
	sop.RetryStartDuration = time.Millisecond
	ctx := context.Background()
	all := cases()
	for ci, c := range all {
		dir := env.Scratch("c16")
		db := sopx.NewDB(dir)
		specs := []txn.Spec{{Name: "alpha", Slot: 4, Profile: sopx.Profiles[ci%len(sopx.Profiles)]}}
		basep, before := txn.Baseline(specs, 6)
		if err := txn.Commit(txn.Public{DB: db}, basep, time.Minute); err != nil {
			r.Inconclusive("baseline")
			continue
		}
		prog := txn.Program{Ops: []txn.Op{{Store: "alpha", Kind: "add", K: txn.Key(5), V: "x"}, {Store: "alpha", Kind: "update", K: txn.Key(10), V: "y"}, {Store: "alpha", Kind: "remove", K: txn.Key(20)}}}
		after := before.Apply(prog)
		var log []string
		var mu sync.Mutex
		t, err := mirror.NewTransaction(ctx, dir, sop.ForWriting, time.Minute)
		if err != nil {
			r.Inconclusive("mirror")
			continue
		}
		failOf := map[string]string{}
		for _, f := range c.Fails {
			failOf[f.Who] = f.Step
		}
		var parts []*participant
		for i := 0; i < c.N; i++ {
			p := &participant{name: fmt.Sprintf("p%d", i), failAt: failOf[fmt.Sprintf("p%d", i)], log: &log, mu: &mu}
			parts = append(parts, p)
			t.AddPhasedTransaction(p)
		}
		fp := fmt.Sprintf("n=%d:%v", c.N, c.Fails)
		beginErr := t.Begin(ctx)
		var commitErr error
		sopFault := failOf["sop"]
		if beginErr == nil {
			mir := txn.Mirror{Dir: dir}
			if rr, err := txn.Run(mir, t, prog); err != nil || rr != nil {
				r.Inconclusive("program")
				t.Rollback(ctx)
				env.Remove(dir)
				continue
			}
			var plan *deco.Plan
			switch sopFault {
			case "phase1":
				plan = deco.NewPlan("tlog.Add(2)", 1, deco.FailBefore)
			case "phase2":
				plan = deco.NewPlan("tlog.Add(11)", 1, deco.FailBefore)
			default:
				plan = deco.NewPlan("", 0, deco.None)
			}
			deco.Install(plan)
			plan.Arm()
			commitErr = t.Commit(ctx)
			plan.Disarm()
			deco.Install(nil)
			if sopFault != "" && plan.Fired() == 0 {
				r.Inconclusive("sop-fault-site-not-reached")
				env.Remove(dir)
				continue
			}
		} else {
			// a failed Begin: the caller abandons the transaction
			t.Rollback(ctx)
		}
		dump := sopx.DumpDB(db)
		// ---- oracle ----
		early := false // a failure before the point where participants' phase 2 may run
		beginFail := false
		for _, f := range c.Fails {
			if f.Step == "begin" {
				beginFail, early = true, true
			}
			if f.Step == "phase1" || (f.Who == "sop" && f.Step == "phase2") {
				early = true
			}
		}
		count := func(call string) int {
			n := 0
			for _, l := range log {
				if len(l) > 3 && l[3:] == call {
					n++
				}
			}
			return n
		}
		detail := map[string]any{"case": c, "calls": log, "begin_err": fmt.Sprint(beginErr), "commit_err": fmt.Sprint(commitErr)}
		r.Eval(fp, true)
		if ci < 4 || ci == len(all)/2 {
			r.Sample(detail)
		}
		site := fmt.Sprintf("%v", c.Fails)
		if len(c.Fails) > 0 {
			site = c.Fails[0].Who[:1] + "-" + c.Fails[0].Step
			if len(c.Fails) > 1 {
				site += "+" + c.Fails[1].Who[:1] + "-" + c.Fails[1].Step
			}
		} else {
			site = "none"
		}
		if early {
			if count("phase2") > 0 {
				r.Violation(fmt.Sprintf("C16:n%d:%s:participant-phase2-ran-after-early-failure", c.N, site), detail)
			}
			if d := txn.DiffContent(dump, before.Dump()); d != "" {
				detail["diff"] = d
				r.Violation(fmt.Sprintf("C16:n%d:%s:sop-changes-not-rolled-back", c.N, site), detail)
			}
			if !beginFail {
				if commitErr == nil {
					r.Violation(fmt.Sprintf("C16:n%d:%s:commit-reported-success", c.N, site), detail)
				}
				for _, p := range parts {
					got := false
					for _, l := range log {
						if l == p.name+".rollback" {
							got = true
						}
					}
					if !got {
						r.Violation(fmt.Sprintf("C16:n%d:%s:participant-not-asked-to-roll-back", c.N, site), detail)
						break
					}
				}
			}
		} else {
			// nothing failed before phase 2 of the participants: SOP committed, every participant's phase 2 ran
			if commitErr != nil {
				r.Violation(fmt.Sprintf("C16:n%d:%s:commit-error-without-early-failure", c.N, site), detail)
			} else {
				if d := txn.DiffContent(dump, after.Dump()); d != "" {
					detail["diff"] = d
					r.Violation(fmt.Sprintf("C16:n%d:%s:committed-but-not-visible", c.N, site), detail)
				}
				if count("phase2") != c.N {
					r.Violation(fmt.Sprintf("C16:n%d:%s:participant-phase2-missing", c.N, site), detail)
				}
				// phase-2 calls must come after every phase-1 call
				lastP1, firstP2 := -1, len(log)
				for i, l := range log {
					if len(l) > 3 && l[3:] == "phase1" {
						lastP1 = i
					}
					if len(l) > 3 && l[3:] == "phase2" && i < firstP2 {
						firstP2 = i
					}
				}
				if firstP2 < lastP1 {
					r.Violation(fmt.Sprintf("C16:n%d:%s:phase2-before-all-phase1", c.N, site), detail)
				}
			}
		}
		env.Remove(dir)
	}
	r.SetExhaustive(true)
	r.Set("domain", "participants 0..3 x {no failure, single failure of SOP phase1/phase2 or of any participant at begin/phase1/phase2/rollback, early failure + a participant rollback failure, two participant phase-1 failures}")
	return r.Finish(rule, assumptions, 30)
}

const rule = "exhaustive product of 0..3 scripted participants attached with AddPhasedTransaction and the failing call(s): none; one failure of SOP (phase 1 or phase 2, injected through the mirror-path transaction log) or of any participant in Begin/Phase1/Phase2/Rollback; an early failure combined with a participant's Rollback failure; two phase-1 failures; oracle over the participants' call log, Commit's result and the store dump: no participant phase 2 after an early failure, SOP's store reads 'before' and every participant got Rollback (for a Begin failure only: no phase 2, data unchanged); without early failure Commit is nil, data is 'after', every participant's phase 2 ran after all phase 1 calls; fingerprint = the case; every case is non-trivial"

var assumptions = []string{"SOP phase-1/phase-2 faults injected at tlog.Add(2) / tlog.Add(11) through the mirror path", "participants are scripted in-memory objects", "a failed Begin is followed by the caller's Rollback"}
