// Package c01: a committed transaction's changes appear all-or-nothing across every store.
package c01

import (
	"fmt"
	"strings"

	"verifharness/kit/report"
	"verifharness/kit/sopx"
	"verifharness/kit/txn"
	"verifharness/props/atom"
)

// Plan builds the worker configs for a tier.
func Plan(r *report.Run, retry bool, forms []string) []atom.Config {
	shapes := []string{"S3-leaf-insert", "S4-split", "S6-updates", "S7-removes", "S1-newstore", "S9-multistore", "S10-create-and-change", "S0-first-root"}
	profiles := []sopx.Profile{sopx.InNode, sopx.Separate}
	slots := []int{4, 2}
	reps := 1
	if r.Thorough() {
		shapes = txn.Shapes
		profiles = sopx.Profiles
		slots = []int{2, 4, 8}
		reps = 3
	}
	var cfgs []atom.Config
	n := 0
	for rep := 0; rep < reps; rep++ {
		for _, sh := range shapes {
			cfgs = append(cfgs, atom.Config{Seed: r.Seed, Prog: n, Shape: sh, Forms: forms, Retry: retry,
				Profile: string(profiles[n%len(profiles)]), Slot: slots[n%len(slots)]})
			n++
		}
	}
	// the shapes that modify existing nodes once more over an AGED store (every baseline node already
	// updated by an earlier commit); quick: updates and removes, thorough: all of them
	for _, sh := range shapes {
		if !r.Thorough() && sh != "S6-updates" && sh != "S7-removes" {
			continue
		}
		if sh == "S1-newstore" {
			continue
		}
		cfgs = append(cfgs, atom.Config{Seed: r.Seed, Prog: n, Shape: sh, Forms: forms, Retry: retry, Aged: true,
			Profile: string(profiles[(n+1)%len(profiles)]), Slot: slots[n%len(slots)]})
		n++
	}
	return cfgs
}

func outcomeClass(diff string) string {
	switch {
	case strings.Contains(diff, "COUNT-ONLY"):
		return "count-only-mismatch"
	case strings.Contains(diff, "store sets differ"):
		return "store-set-differs"
	case strings.Contains(diff, "unreadable") || strings.Contains(diff, "dump failed"):
		return "unreadable"
	}
	return "items-differ"
}

func Run(r *report.Run) int {
	forms := []string{"fail-before"}
	if r.Thorough() {
		forms = []string{"fail-before", "fail-after", "refuse"}
	}
	cfgs := Plan(r, false, forms)
	results, cold := atom.Sweep(r, cfgs, 16)
	shapesSeen := map[string]bool{}
	planned, reached := 0, 0
	for _, res := range results {
		if res.Harness != "" {
			r.Inconclusive("harness:" + firstWords(res.Harness))
			continue
		}
		shapesSeen[res.Shape] = true
		if res.Program != nil {
			r.Sample(map[string]any{"shape": res.Shape, "program": res.Program, "census_sites": len(res.Census), "census_head": head(res.Census, 12)})
			r.Count("census_sites", int64(len(res.Census)))
		}
		faulted := res.Site != ""
		if faulted {
			planned++
			if res.Fired == 0 {
				r.Inconclusive("site-not-reached")
				r.Eval(fmt.Sprintf("%s#%d:%s:%s", res.Shape, res.Prog, res.Site, res.Form), false)
				continue
			}
			reached++
		}
		r.Eval(fmt.Sprintf("%s#%d:%s:%s", res.Shape, res.Prog, res.Site, res.Form), true)
		if res.Committed {
			r.Count("commit_returned_nil", 1)
		} else {
			r.Count("commit_returned_error_or_rollback", 1)
		}
		site := res.Label + "/" + res.Form
		if !faulted {
			site = res.Form
		}
		if res.WarmDiff != "" {
			kind := "failed-but-not-before"
			if res.Committed {
				kind = "committed-but-not-after"
			}
			r.Violation(fmt.Sprintf("C01:%s:%s:%s-%s-warm", res.Shape, site, kind, outcomeClass(res.WarmDiff)), res)
		}
		if d := cold[res.Dir]; d != "" {
			kind := "failed-but-not-before"
			if res.Committed {
				kind = "committed-but-not-after"
			}
			det := map[string]any{"case": res, "cold_diff": d}
			r.Violation(fmt.Sprintf("C01:%s:%s:%s-%s-cold", res.Shape, site, kind, outcomeClass(d)), det)
		}
	}
	r.Count("fault_sites_planned", int64(planned))
	r.Count("fault_sites_reached", int64(reached))
	if planned > 0 && reached*100 < planned*95 {
		r.Broken("only %d of %d planned fault sites were reached (<95%%)", reached, planned)
	}
	for _, c := range cfgs {
		if !shapesSeen[c.Shape] {
			r.Broken("shape %s produced no usable case", c.Shape)
		}
	}
	return r.Finish(rule, assumptions, 50)
}

const rule = "seeded multi-store programs (shapes S1..S9 of DESIGN §4) on a 9-item baseline; per program one fault-free commit, one explicit rollback and one run per (label, ordinal) site reached between 'Commit called' and 'Commit returned' (census of decorator calls on BlobStore/Registry/StoreRepository/TransactionLog/PriorityLog/L2Cache/DirectIO) with the injected fault forms; oracle = logical dump (store set, count, ordered items, backward scan) equals model-after iff Commit returned nil else model-before, observed warm in-process and cold from a fresh child process; fingerprint = (shape, site, form); non-trivial = the planned site was reached (fault fired)"

var assumptions = []string{"mirror path: common.NewTwoPhaseCommitTransaction wired exactly as infs.NewTwoPhaseCommitTransaction with decorated interfaces", "standalone mode, in-memory L2 cache, one fault per run, backend healthy again during rollback", "sop.RetryStartDuration shortened to 1ms (retry counts unchanged)"}

func firstWords(s string) string {
	f := strings.Fields(s)
	if len(f) > 4 {
		f = f[:4]
	}
	return strings.Join(f, " ")
}

func head(s []string, n int) []string {
	if len(s) > n {
		return s[:n]
	}
	return s
}
