// Package c30: JSON map-key stores order keys consistently, regardless of comparison history.
//
// Statement: "For JSON document keys, the ordering given by an index specification or by the default
// field-wise order is a consistent total preorder. It gives the same result for the same two keys no
// matter which keys were compared earlier, so every process sees one order for a store."
//
// Three parts:
//
//	A (indexspec)  jsondb.IndexSpecification.Comparer called directly. One FRESH IndexSpecification per
//	               comparison history; the result for a probe pair (a,b) after any history must have the
//	               sign it has with an empty history; on one continuing comparer (what one process sees)
//	               the result matrix over a key universe must be reflexive, antisymmetric up to
//	               equivalence (sign(cmp(a,b)) == -sign(cmp(b,a))) and transitive.
//	B (store)      a real jsondb map-key store (index-spec and default field-wise comparer; the latter is
//	               only reachable through a store) is written by one opening and read/extended by later
//	               openings (fresh transaction + OpenJsonBtreeMapKey = fresh comparer state, exactly the
//	               state a second process has). Asserted: every committed key is found by every later
//	               opening whatever it looked up before; the scan order of the first opening's keys is the
//	               same in every opening; the item count matches; for index-spec stores the final scan is
//	               sorted with respect to the pairwise comparer (fresh spec per pair).
//	C (mixed)      key universes in which one field holds DIFFERENT JSON types in different keys.
//
// Reading used (the weaker one):
//   - asserted domain = "uniform" universes: every field has ONE JSON type (bool, number or string)
//     across the keys of a store, and may additionally be null or missing in some keys. This is the least
//     the statement's quantifier ("null/missing, bool, number, string fields") can mean.
//   - universes of part C (a field that is a number in one key and a string in another) are executed and
//     their would-be signatures are RECORDED in the evidence (mixed_type_observations) but never alarmed:
//     whether schema-less mixing is inside "JSON-typed keys" is the stronger reading.
//   - nothing is asserted about WHICH order results (ascending/descending, where null sorts, whether
//     numbers sort numerically): only consistency and history independence.
//   - only the sign of a comparison result is used. Numbers are float64 (what JSON decoding yields), no
//     NaN/Inf (not representable in JSON).
//   - part B asserts "found", never "found at a particular position": with a preorder, Find may land on any
//     equivalent key.
package c30

import (
	"encoding/json"
	"fmt"
	"math/rand"
	"sort"
	"strings"

	"github.com/sharedcode/sop"
	"github.com/sharedcode/sop/jsondb"

	"verifharness/kit/env"
	"verifharness/kit/report"
	"verifharness/kit/sopx"
)

// ---------------------------------------------------------------------------------------------
// keys, kinds, universes
// ---------------------------------------------------------------------------------------------

type key = map[string]any

type missingT struct{}

var missing = missingT{} // marker: the field is absent from the key

var pools = map[string][]any{
	"number": {-5.0, -0.5, 0.0, 2.5, 9.0, 10.0, 100.0, 1e21},
	"string": {"", "a", "B", "b", "10", "9"},
	"bool":   {false, true},
}

func kindOf(v any, present bool) string {
	if !present {
		return "missing"
	}
	switch v.(type) {
	case nil:
		return "null"
	case bool:
		return "bool"
	case float64:
		return "number"
	case string:
		return "string"
	}
	return fmt.Sprintf("%T", v)
}

func keyString(k key) string {
	b, _ := json.Marshal(k) // map keys sorted: canonical
	return string(b)
}

func mkKey(fields []string, vals []any) key {
	k := key{}
	for i, f := range fields {
		if _, isMissing := vals[i].(missingT); isMissing {
			continue
		}
		k[f] = vals[i]
	}
	return k
}

// fieldProfile names what one field holds across a universe: the non-null kinds joined with "|", plus
// "+null" when some key has it null or missing.
func fieldProfile(u []key, f string) string {
	kinds := map[string]bool{}
	null := false
	for _, k := range u {
		v, ok := k[f]
		switch kd := kindOf(v, ok); kd {
		case "null", "missing":
			null = true
		default:
			kinds[kd] = true
		}
	}
	ks := []string{}
	for k := range kinds {
		ks = append(ks, k)
	}
	sort.Strings(ks)
	p := strings.Join(ks, "|")
	if p == "" {
		p = "none"
	}
	if null {
		p += "+null"
	}
	return p
}

// decidingField: the first index field on which a and b differ (null and missing are the same value for
// an index lookup); "" when they agree on every index field.
func decidingField(fields []string, a, b key) string {
	for _, f := range fields {
		if a[f] != b[f] {
			return f
		}
	}
	return ""
}

type specDef struct {
	fields []string
	asc    []bool
}

func (s specDef) fresh() *jsondb.IndexSpecification {
	fs := make([]jsondb.IndexFieldSpecification, len(s.fields))
	for i := range fs {
		fs[i] = jsondb.IndexFieldSpecification{FieldName: s.fields[i], AscendingSortOrder: s.asc[i]}
	}
	return jsondb.NewIndexSpecification(fs)
}

func (s specDef) String() string {
	p := []string{}
	for i := range s.fields {
		d := "asc"
		if !s.asc[i] {
			d = "desc"
		}
		p = append(p, s.fields[i]+" "+d)
	}
	return "[" + strings.Join(p, ", ") + "]"
}

func (s specDef) json() string {
	b, _ := json.Marshal(s.fresh())
	return string(b)
}

type universe struct {
	spec    specDef
	keys    []key
	mixed   bool   // part C
	shape   string // kinds per field as generated, e.g. "number+null,string"
	profile map[string]string
}

// genUniverse draws up to n distinct keys; fieldKinds[i] lists the value kinds field i may take
// ("number","string","bool","null","missing").
func genUniverse(rnd *rand.Rand, spec specDef, fieldKinds [][]string, n int, fixed []key) universe {
	u := universe{spec: spec, profile: map[string]string{}}
	seen := map[string]bool{}
	add := func(k key) {
		if s := keyString(k); !seen[s] {
			seen[s] = true
			u.keys = append(u.keys, k)
		}
	}
	for _, k := range fixed {
		add(k)
	}
	for tries := 0; len(u.keys) < n && tries < 20*n; tries++ {
		vals := make([]any, len(spec.fields))
		for i := range spec.fields {
			kd := fieldKinds[i][rnd.Intn(len(fieldKinds[i]))]
			switch kd {
			case "null":
				vals[i] = nil
			case "missing":
				vals[i] = missing
			default:
				vals[i] = pools[kd][rnd.Intn(len(pools[kd]))]
			}
		}
		add(mkKey(spec.fields, vals))
	}
	shapes := []string{}
	for i, f := range spec.fields {
		u.profile[f] = fieldProfile(u.keys, f)
		if strings.Contains(strings.TrimSuffix(u.profile[f], "+null"), "|") {
			u.mixed = true
		}
		_ = i
		shapes = append(shapes, u.profile[f])
	}
	u.shape = strings.Join(shapes, ",")
	return u
}

func sign(c int) int {
	switch {
	case c < 0:
		return -1
	case c > 0:
		return 1
	}
	return 0
}

// ---------------------------------------------------------------------------------------------
// sink: alarm (uniform) or record (mixed)
// ---------------------------------------------------------------------------------------------

type sink struct {
	r          *report.Run
	perSig     map[string]int
	perVariant map[string]int
	written    map[string]int
	mixed      map[string]int
}

// report alarms (uniform universes) or records (mixed universes). variant names the sub-class of the
// witness (e.g. the JSON kinds of the two compared values): at most 2 witnesses per variant and 8 per
// signature are written out, so that the replay files show every distinct way a signature was reached.
func (s *sink) report(mixedUniverse bool, sig, variant string, detail func() map[string]any) {
	if mixedUniverse {
		s.mixed[sig]++
		return
	}
	s.perSig[sig]++
	s.perVariant[sig+"|"+variant]++
	if s.perVariant[sig+"|"+variant] > 2 || s.written[sig] >= 8 {
		return
	}
	s.written[sig]++
	d := detail()
	d["seed"] = s.r.Seed
	d["variant"] = variant
	s.r.Violation(sig, d)
}

// ---------------------------------------------------------------------------------------------
// part A / C: the index-specification comparer called directly
// ---------------------------------------------------------------------------------------------

type pair struct{ a, b int }

func (s *sink) checkComparer(u universe, rnd *rand.Rand, extraHistories int) {
	r := s.r
	n := len(u.keys)
	scen := "indexspec"
	cmpAfter := func(h []pair, a, b int) int {
		is := u.spec.fresh()
		for _, p := range h {
			is.Comparer(u.keys[p.a], u.keys[p.b])
		}
		return sign(is.Comparer(u.keys[a], u.keys[b]))
	}
	inputCls := func(a, b int) string {
		f := decidingField(u.spec.fields, u.keys[a], u.keys[b])
		if f == "" {
			return "equal-on-index-fields"
		}
		return u.profile[f]
	}
	// pairKinds: JSON kinds of the two values of the deciding field, e.g. "number~number", "null~string"
	pairKinds := func(a, b int) string {
		f := decidingField(u.spec.fields, u.keys[a], u.keys[b])
		if f == "" {
			return "equal"
		}
		va, oka := u.keys[a][f]
		vb, okb := u.keys[b][f]
		ks := []string{kindOf(va, oka), kindOf(vb, okb)}
		sort.Strings(ks)
		return ks[0] + "~" + ks[1]
	}
	hist := func(h []pair) []string {
		out := []string{}
		for _, p := range h {
			out = append(out, "cmp("+keyString(u.keys[p.a])+", "+keyString(u.keys[p.b])+")")
		}
		return out
	}
	// R0: result with an empty history (a fresh comparer per pair)
	r0 := make([][]int, n)
	for a := 0; a < n; a++ {
		r0[a] = make([]int, n)
		for b := 0; b < n; b++ {
			r0[a][b] = cmpAfter(nil, a, b)
		}
	}
	// 1. history independence: every length-1 history (all n*n first comparisons) plus seeded longer ones
	histories := [][]pair{}
	for a := 0; a < n; a++ {
		for b := 0; b < n; b++ {
			histories = append(histories, []pair{{a, b}})
		}
	}
	for i := 0; i < extraHistories; i++ {
		h := make([]pair, 2+rnd.Intn(4))
		for j := range h {
			h[j] = pair{rnd.Intn(n), rnd.Intn(n)}
		}
		histories = append(histories, h)
	}
	for _, h := range histories {
		first := u.keys[h[0].a]
		hcls := []string{}
		for _, f := range u.spec.fields {
			v, ok := first[f]
			hcls = append(hcls, kindOf(v, ok))
		}
		for a := 0; a < n; a++ {
			for b := 0; b < n; b++ {
				got := cmpAfter(h, a, b)
				nontrivial := a != b && !(len(h) == 1 && h[0] == pair{a, b})
				r.Eval(scen+"|"+u.shape+"|history|first-x="+strings.Join(hcls, ",")+"|pair="+inputCls(a, b)+b2s(u.mixed, "|mixed"), nontrivial)
				if got != r0[a][b] {
					s.report(u.mixed, "C30:"+scen+":"+inputCls(a, b)+":history-dependent", pairKinds(a, b), func() map[string]any {
						return map[string]any{"spec": u.spec.String(), "a": keyString(u.keys[a]), "b": keyString(u.keys[b]),
							"cmp(a,b) on a fresh IndexSpecification": r0[a][b], "cmp(a,b) after history": got, "history (same fresh IndexSpecification)": hist(h),
							"universe": u.shape}
					})
				}
			}
		}
		r.Count("histories", 1)
	}
	// 2. preorder axioms on ONE continuing comparer per starting history: the matrix one process sees
	starts := [][]pair{nil}
	for a := 0; a < n; a++ {
		starts = append(starts, []pair{{a, (a + 1) % n}})
	}
	for _, h := range starts {
		is := u.spec.fresh()
		for _, p := range h {
			is.Comparer(u.keys[p.a], u.keys[p.b])
		}
		m := make([][]int, n)
		for a := 0; a < n; a++ {
			m[a] = make([]int, n)
			for b := 0; b < n; b++ {
				m[a][b] = sign(is.Comparer(u.keys[a], u.keys[b]))
			}
		}
		// the same comparer asked again must answer the same (it has seen everything by now)
		for a := 0; a < n; a++ {
			for b := 0; b < n; b++ {
				if again := sign(is.Comparer(u.keys[a], u.keys[b])); again != m[a][b] {
					s.report(u.mixed, "C30:"+scen+":"+inputCls(a, b)+":history-dependent", "same-comparer-asked-twice/"+pairKinds(a, b), func() map[string]any {
						return map[string]any{"spec": u.spec.String(), "a": keyString(u.keys[a]), "b": keyString(u.keys[b]), "first answer": m[a][b], "second answer of the same comparer": again, "start history": hist(h), "universe": u.shape}
					})
				}
			}
		}
		for a := 0; a < n; a++ {
			r.Eval(scen+"|"+u.shape+"|axioms|reflexive"+b2s(u.mixed, "|mixed"), true)
			if m[a][a] != 0 {
				s.report(u.mixed, "C30:"+scen+":"+u.profile[u.spec.fields[0]]+":reflexivity", "-", func() map[string]any {
					return map[string]any{"spec": u.spec.String(), "a": keyString(u.keys[a]), "cmp(a,a)": m[a][a], "start history": hist(h)}
				})
			}
			for b := a + 1; b < n; b++ {
				r.Eval(scen+"|"+u.shape+"|axioms|antisymmetric|"+inputCls(a, b)+b2s(u.mixed, "|mixed"), true)
				if m[a][b] != -m[b][a] {
					s.report(u.mixed, "C30:"+scen+":"+inputCls(a, b)+":antisymmetry", pairKinds(a, b), func() map[string]any {
						return map[string]any{"spec": u.spec.String(), "a": keyString(u.keys[a]), "b": keyString(u.keys[b]), "cmp(a,b)": m[a][b], "cmp(b,a)": m[b][a], "start history": hist(h), "universe": u.shape}
					})
				}
			}
		}
		for a := 0; a < n; a++ {
			for b := 0; b < n; b++ {
				if m[a][b] > 0 {
					continue
				}
				for c := 0; c < n; c++ {
					if m[b][c] > 0 {
						continue
					}
					r.Eval(scen+"|"+u.shape+"|axioms|transitive|"+inputCls(a, c)+b2s(u.mixed, "|mixed"), a != b && b != c && a != c)
					if m[a][c] > 0 {
						s.report(u.mixed, "C30:"+scen+":"+inputCls(a, c)+":transitivity", pairKinds(a, b)+"/"+pairKinds(b, c), func() map[string]any {
							return map[string]any{"spec": u.spec.String(), "a": keyString(u.keys[a]), "b": keyString(u.keys[b]), "c": keyString(u.keys[c]),
								"cmp(a,b)": m[a][b], "cmp(b,c)": m[b][c], "cmp(a,c)": m[a][c], "start history": hist(h), "universe": u.shape}
						})
					}
				}
			}
		}
		r.Count("axiom_matrices", 1)
	}
}

func b2s(b bool, s string) string {
	if b {
		return s
	}
	return ""
}

// ---------------------------------------------------------------------------------------------
// part B: a real store seen by several openings
// ---------------------------------------------------------------------------------------------

type storeCase struct {
	name     string
	kind     string  // "store-indexspec" | "store-default"
	spec     specDef // index spec (store-indexspec) / field list (store-default, all fields compared)
	profile  string  // e.g. "number+null" (fingerprint)
	sigClass string  // input class of the signature, see storeSigClass
	k1, k2   []key   // added by opening 1 / opening 2
	probe2   []int   // order in which opening 2 looks up k1
	probe3   []int   // order in which opening 3 looks up k1+k2
	slot     int
	mixed    bool
}

// storeSigClass: the input class used in store-level signatures. An index specification cannot tell a
// null field from a missing one (both read as nil), the default field-wise comparer can (it takes its
// field list from a key), hence the finer split there.
func storeSigClass(kind, nullVariant string, mixed bool) string {
	switch {
	case mixed:
		return "mixed-type-field"
	case nullVariant == "":
		return "non-null-field"
	case kind == "store-indexspec":
		return "nullable-field"
	}
	return nullVariant + "-field"
}

func scan(j *jsondb.JsonDBMapKey) ([]string, error) {
	out := []string{}
	ok, err := j.First(sopx.Ctx)
	for ok && err == nil {
		out = append(out, keyString(j.BtreeInterface.GetCurrentKey().Key))
		ok, err = j.Next(sopx.Ctx)
	}
	return out, err
}

func (s *sink) runStore(sc storeCase) {
	r := s.r
	fp := sc.kind + "|" + sc.profile + fmt.Sprintf("|slot=%d|first-added=%s|first-probe2=%s", sc.slot, kindsOf(sc.spec.fields, sc.k1[0]), kindsOf(sc.spec.fields, sc.k1[sc.probe2[0]]))
	defer func() {
		if p := recover(); p != nil {
			r.Inconclusive(fmt.Sprintf("panic in store scenario: %v", p))
		}
	}()
	dir := env.Scratch("c30")
	defer env.Remove(dir)
	d := sopx.NewDB(dir)
	specJSON := ""
	if sc.kind == "store-indexspec" {
		specJSON = sc.spec.json()
	}
	all := append(append([]key{}, sc.k1...), sc.k2...)
	detail := func(extra map[string]any) func() map[string]any {
		return func() map[string]any {
			m := map[string]any{"scenario": sc.name, "store": sc.kind, "index_spec": specJSON, "slot_length": sc.slot,
				"opening1_adds": keyStrings(sc.k1), "opening2_lookup_order": idxKeys(sc.k1, sc.probe2), "opening2_adds": keyStrings(sc.k2), "opening3_lookup_order": idxKeys(all, sc.probe3)}
			for k, v := range extra {
				m[k] = v
			}
			return m
		}
	}
	fail := func(step string, err error) {
		r.Inconclusive("store step failed: " + step)
		r.Set("last_store_error", fmt.Sprintf("%s: %s: %v", sc.name, step, err))
	}
	val := any("v")
	// opening 1: create, add k1, scan, commit
	t1, err := d.Begin(sop.ForWriting)
	if err != nil {
		fail("begin1", err)
		return
	}
	j1, err := jsondb.NewJsonBtreeMapKey(sopx.Ctx, d.Opts, sop.StoreOptions{Name: "c30", SlotLength: sc.slot, IsValueDataInNodeSegment: true}, t1, specJSON)
	if err != nil {
		t1.Rollback(sopx.Ctx)
		fail("new", err)
		return
	}
	for _, k := range sc.k1 {
		if ok, err := j1.Add(sopx.Ctx, []jsondb.Item[key, any]{{Key: k, Value: &val}}); err != nil || !ok {
			t1.Rollback(sopx.Ctx)
			fail("add1", err)
			return
		}
	}
	scan1, err := scan(j1)
	if err != nil {
		t1.Rollback(sopx.Ctx)
		fail("scan1", err)
		return
	}
	if err := t1.Commit(sopx.Ctx); err != nil {
		fail("commit1", err)
		return
	}
	// opening 2: fresh comparer state; look up every committed key, scan, add k2, commit
	t2, err := d.Begin(sop.ForWriting)
	if err != nil {
		fail("begin2", err)
		return
	}
	j2, err := jsondb.OpenJsonBtreeMapKey(sopx.Ctx, d.Opts, "c30", t2)
	if err != nil {
		t2.Rollback(sopx.Ctx)
		fail("open2", err)
		return
	}
	for n, i := range sc.probe2 {
		found, err := j2.Find(sopx.Ctx, sc.k1[i], false)
		if err != nil {
			t2.Rollback(sopx.Ctx)
			fail("find2", err)
			return
		}
		r.Count("store_lookups", 1)
		if !found {
			s.report(sc.mixed, "C30:"+sc.kind+":"+sc.sigClass+":committed-key-not-found", sc.profile, detail(map[string]any{"opening": 2, "lookup_number": n + 1, "key_not_found": keyString(sc.k1[i]), "scan_seen_by_opening1": scan1}))
		}
	}
	scan2, err := scan(j2)
	if err != nil {
		t2.Rollback(sopx.Ctx)
		fail("scan2", err)
		return
	}
	if strings.Join(scan1, "\n") != strings.Join(scan2, "\n") {
		s.report(sc.mixed, "C30:"+sc.kind+":"+sc.sigClass+":scan-order-differs-between-openings", sc.profile, detail(map[string]any{"scan_opening1": scan1, "scan_opening2": scan2}))
	}
	for _, k := range sc.k2 {
		if ok, err := j2.Add(sopx.Ctx, []jsondb.Item[key, any]{{Key: k, Value: &val}}); err != nil || !ok {
			t2.Rollback(sopx.Ctx)
			fail("add2", err)
			return
		}
	}
	if err := t2.Commit(sopx.Ctx); err != nil {
		fail("commit2", err)
		return
	}
	// opening 3: fresh comparer state again; every committed key found; scan
	t3, err := d.Begin(sop.ForReading)
	if err != nil {
		fail("begin3", err)
		return
	}
	defer t3.Rollback(sopx.Ctx)
	j3, err := jsondb.OpenJsonBtreeMapKey(sopx.Ctx, d.Opts, "c30", t3)
	if err != nil {
		fail("open3", err)
		return
	}
	scan3, err := scan(j3) // scanning first does not consult the comparer
	if err != nil {
		fail("scan3", err)
		return
	}
	for n, i := range sc.probe3 {
		found, err := j3.Find(sopx.Ctx, all[i], false)
		if err != nil {
			fail("find3", err)
			return
		}
		r.Count("store_lookups", 1)
		if !found {
			s.report(sc.mixed, "C30:"+sc.kind+":"+sc.sigClass+":committed-key-not-found", sc.profile, detail(map[string]any{"opening": 3, "lookup_number": n + 1, "key_not_found": keyString(all[i]), "scan_seen_by_opening3": scan3}))
		}
	}
	if len(scan3) != len(all) || j3.Count() != int64(len(all)) {
		s.report(sc.mixed, "C30:"+sc.kind+":"+sc.sigClass+":item-count-mismatch", sc.profile, detail(map[string]any{"added": len(all), "scanned": len(scan3), "count": j3.Count()}))
	}
	in1 := map[string]bool{}
	for _, k := range sc.k1 {
		in1[keyString(k)] = true
	}
	sub := []string{}
	for _, k := range scan3 {
		if in1[k] {
			sub = append(sub, k)
		}
	}
	if strings.Join(sub, "\n") != strings.Join(scan1, "\n") {
		s.report(sc.mixed, "C30:"+sc.kind+":"+sc.sigClass+":scan-order-differs-between-openings", sc.profile, detail(map[string]any{"scan_opening1": scan1, "scan_opening3_restricted_to_opening1_keys": sub}))
	}
	if sc.kind == "store-indexspec" {
		// the final scan must be non-decreasing for the comparer (a fresh index specification per pair)
		byStr := map[string]key{}
		for _, k := range all {
			byStr[keyString(k)] = k
		}
	outer:
		for i := 0; i < len(scan3); i++ {
			for k := i + 1; k < len(scan3); k++ {
				a, b := byStr[scan3[i]], byStr[scan3[k]]
				if a == nil || b == nil {
					continue
				}
				if c := sign(sc.spec.fresh().Comparer(a, b)); c > 0 {
					s.report(sc.mixed, "C30:"+sc.kind+":"+sc.sigClass+":scan-not-sorted-for-comparer", sc.profile, detail(map[string]any{"scan_opening3": scan3, "earlier": scan3[i], "later": scan3[k], "cmp(earlier,later) on a fresh IndexSpecification": c}))
					break outer
				}
			}
		}
	}
	r.Eval(fp+b2s(sc.mixed, "|mixed"), len(sc.k1) >= 3 && len(sc.k2) >= 1)
	r.Count("store_scenarios", 1)
}

func kindsOf(fields []string, k key) string {
	out := []string{}
	for _, f := range fields {
		v, ok := k[f]
		out = append(out, kindOf(v, ok))
	}
	return strings.Join(out, ",")
}

func keyStrings(ks []key) []string {
	out := []string{}
	for _, k := range ks {
		out = append(out, keyString(k))
	}
	return out
}

func idxKeys(ks []key, idx []int) []string {
	out := []string{}
	for _, i := range idx {
		out = append(out, keyString(ks[i]))
	}
	return out
}

// ---------------------------------------------------------------------------------------------
// case lists
// ---------------------------------------------------------------------------------------------

func num(vs ...any) []key {
	out := []key{}
	for _, v := range vs {
		out = append(out, mkKey([]string{"a"}, []any{v}))
	}
	return out
}

func buildUniverses(rnd *rand.Rand, perShape int, size int) []universe {
	var us []universe
	one := func(asc bool) specDef { return specDef{fields: []string{"a"}, asc: []bool{asc}} }
	two := func(a1, a2 bool) specDef { return specDef{fields: []string{"a", "b"}, asc: []bool{a1, a2}} }
	nullish := [][]string{nil, {"null"}, {"missing"}, {"null", "missing"}}
	kinds := []string{"number", "string", "bool"}
	// uniform, one field: every kind x every null variant x asc/desc; the first universe of each shape is fixed
	fixed := map[string][]key{
		"number": num(10.0, 9.0, nil, 0.0, -5.0, 100.0),
		"string": num("", "a", nil, "b", "10", "9"),
		"bool":   num(false, true, nil),
	}
	for _, kd := range kinds {
		for ni, nl := range nullish {
			for _, asc := range []bool{true, false} {
				for i := 0; i < perShape; i++ {
					fk := append([]string{kd, kd, kd}, nl...)
					var fx []key
					if i == 0 && ni == 1 {
						fx = fixed[kd]
					}
					us = append(us, genUniverse(rnd, one(asc), [][]string{fk}, size, fx))
				}
			}
		}
	}
	// uniform, two fields: kinds x kinds, nulls in the first, the second, both or neither
	for _, k1 := range kinds {
		for _, k2 := range kinds {
			for v := 0; v < 4; v++ {
				f1, f2 := []string{k1, k1, k1}, []string{k2, k2, k2}
				if v&1 != 0 {
					f1 = append(f1, "null", "missing")
				}
				if v&2 != 0 {
					f2 = append(f2, "null", "missing")
				}
				for i := 0; i < perShape; i++ {
					us = append(us, genUniverse(rnd, two(rnd.Intn(2) == 0, rnd.Intn(2) == 0), [][]string{f1, f2}, size, nil))
				}
			}
		}
	}
	// part C, mixed: a field holds several JSON types
	mixes := [][]string{{"number", "string"}, {"number", "bool"}, {"string", "bool"}, {"number", "string", "bool", "null", "missing"}}
	for _, mx := range mixes {
		for i := 0; i < perShape; i++ {
			us = append(us, genUniverse(rnd, one(true), [][]string{mx}, size, nil))
			us = append(us, genUniverse(rnd, two(true, false), [][]string{mx, {"number", "null"}}, size, nil))
		}
	}
	return us
}

func perm(rnd *rand.Rand, n int, first int) []int {
	p := rnd.Perm(n)
	if first >= 0 {
		for i, v := range p {
			if v == first {
				p[0], p[i] = p[i], p[0]
			}
		}
	}
	return p
}

func buildStoreCases(rnd *rand.Rand, perShape int) []storeCase {
	var out []storeCase
	a := []string{"a"}
	// fixed scenarios (independent of the seed): opening 1 sees numbers first, opening 2's first comparison
	// has the null/missing key on the stored side (it is the middle item of the root node)
	fixedNum := func(nullV any) ([]key, []key) {
		return []key{{"a": -5.0}, {"a": -3.0}, {"a": -1.0}, mkKey(a, []any{nullV}), {"a": 9.0}, {"a": 10.0}, {"a": 100.0}}, []key{{"a": 50.0}, {"a": 7.0}}
	}
	for _, kind := range []string{"store-indexspec", "store-default"} {
		for _, nv := range []struct {
			n string
			v any
		}{{"null", nil}, {"missing", missing}} {
			k1, k2 := fixedNum(nv.v)
			out = append(out, storeCase{name: "fixed-number+" + nv.n + "/" + kind, kind: kind, spec: specDef{fields: a, asc: []bool{true}}, profile: "number+" + nv.n, sigClass: storeSigClass(kind, nv.n, false),
				k1: k1, k2: k2, probe2: []int{4, 5, 6, 0, 1, 2, 3}, probe3: []int{8, 7, 6, 5, 4, 3, 2, 1, 0}, slot: 20})
		}
	}
	// generated scenarios: kind x null variant x store kind x slot length
	nulls := []string{"", "null", "missing"}
	for _, kind := range []string{"store-indexspec", "store-default"} {
		for _, kd := range []string{"number", "string", "bool"} {
			for _, nl := range nulls {
				for i := 0; i < perShape; i++ {
					fields := []string{"a", "b"}
					fk := []string{kd, kd, kd}
					if nl != "" {
						fk = append(fk, nl)
					}
					spec := specDef{fields: fields, asc: []bool{rnd.Intn(2) == 0, rnd.Intn(2) == 0}}
					n := 9 + rnd.Intn(6)
					if kd == "bool" {
						n = 6
					}
					u := genUniverse(rnd, spec, [][]string{fk, fk}, n, nil)
					if len(u.keys) < 4 {
						continue
					}
					rnd.Shuffle(len(u.keys), func(i, j int) { u.keys[i], u.keys[j] = u.keys[j], u.keys[i] })
					cut := len(u.keys) - 1 - rnd.Intn(len(u.keys)/3+1)
					k1, k2 := u.keys[:cut], u.keys[cut:]
					// which key opening 2 asks for first: alternate between a key with a null/missing field and any key
					first := -1
					if i%2 == 0 {
						for x, k := range k1 {
							if kk := kindsOf(fields, k); strings.Contains(kk, "null") || strings.Contains(kk, "missing") {
								first = x
								break
							}
						}
					}
					profile := kd
					if nl != "" {
						profile += "+" + nl
					}
					out = append(out, storeCase{name: fmt.Sprintf("gen-%s-%s-%d", kind, profile, i), kind: kind, spec: spec, profile: profile, sigClass: storeSigClass(kind, nl, false),
						k1: k1, k2: k2, probe2: perm(rnd, len(k1), first), probe3: perm(rnd, len(u.keys), -1), slot: []int{4, 8, 20}[rnd.Intn(3)]})
				}
			}
		}
	}
	// part C at store level: one field, number and string mixed
	for i := 0; i < perShape; i++ {
		spec := specDef{fields: a, asc: []bool{true}}
		u := genUniverse(rnd, spec, [][]string{{"number", "string"}}, 10, nil)
		cut := len(u.keys) - 2
		for _, kind := range []string{"store-indexspec", "store-default"} {
			out = append(out, storeCase{name: fmt.Sprintf("mixed-%s-%d", kind, i), kind: kind, spec: spec, profile: "number|string", sigClass: storeSigClass(kind, "", true), mixed: true,
				k1: u.keys[:cut], k2: u.keys[cut:], probe2: perm(rnd, cut, -1), probe3: perm(rnd, len(u.keys), -1), slot: 4})
		}
	}
	return out
}

// ---------------------------------------------------------------------------------------------

func Run(r *report.Run) int {
	rnd := env.Rand(r.Seed, "c30")
	s := &sink{r: r, perSig: map[string]int{}, perVariant: map[string]int{}, written: map[string]int{}, mixed: map[string]int{}}

	us := buildUniverses(rnd, r.Pick(2, 8), r.Pick(8, 11))
	shapes := map[string]int{}
	for i, u := range us {
		if len(u.keys) < 2 {
			continue
		}
		shapes[u.shape]++
		s.checkComparer(u, rnd, r.Pick(10, 60))
		if i == 2 || i == len(us)-1 {
			r.Sample(map[string]any{"part": "comparer", "spec": u.spec.String(), "universe_shape": u.shape, "mixed": u.mixed, "keys": keyStrings(u.keys)})
		}
	}
	r.Set("universe_shapes", shapes)
	r.Count("universes", int64(len(us)))

	cases := buildStoreCases(rnd, r.Pick(2, 8))
	for i, sc := range cases {
		s.runStore(sc)
		if i == 0 || i == 5 {
			r.Sample(map[string]any{"part": "store", "scenario": sc.name, "kind": sc.kind, "profile": sc.profile, "slot_length": sc.slot, "opening1_adds": keyStrings(sc.k1), "opening2_adds": keyStrings(sc.k2)})
		}
	}

	// planned class list: every uniform one-field shape and every store profile must have run
	for _, kd := range []string{"number", "string", "bool"} {
		for _, suffix := range []string{"", "+null"} {
			if shapes[kd+suffix] == 0 {
				r.Broken("planned universe shape never generated: %s", kd+suffix)
			}
		}
	}
	if got := r.Counter("store_scenarios"); got < int64(len(cases))*9/10 {
		r.Broken("only %d of %d store scenarios completed", got, len(cases))
	}
	obs, sigs := []string{}, []string{}
	for k, v := range s.mixed {
		obs = append(obs, fmt.Sprintf("%s x%d", k, v))
	}
	for k, v := range s.perSig {
		sigs = append(sigs, fmt.Sprintf("%s x%d", k, v))
	}
	sort.Strings(obs)
	sort.Strings(sigs)
	r.Set("mixed_type_observations(not asserted)", obs)
	r.Set("violations_per_signature", sigs)
	return r.Finish(rule, assumptions, 200)
}

const rule = "comparer part: key universes per (index spec of 1-2 fields asc/desc) x (field kind bool/number/string) x (null / missing / both / neither), fixed edge universes plus seeded ones; per universe EVERY length-1 comparison history (all n*n first comparisons) and seeded longer histories, each replayed on a fresh IndexSpecification before EVERY probe pair; preorder axioms over all pairs/triples on one continuing comparer per starting history. fingerprint = (universe shape, kinds of the first-compared key's index fields, profile of the probe pair's deciding field); non-trivial = probe pair of two different keys that is not itself the history. store part: one store per scenario, three openings (create+add / lookup+scan+add / scan+lookup), fingerprint = (store kind, field profile, slot length, kinds of first added key, kinds of first looked-up key); non-trivial = >= 3 keys from opening 1 and >= 1 from opening 2"

var assumptions = []string{
	"asserted domain: every field has one JSON type across a universe, optionally null/missing in some keys; mixed-type fields are executed but only recorded (mixed_type_observations)",
	"numbers are float64, no NaN/Inf; only the sign of comparison results is used; no claim about which order results",
	"a second opening (new transaction + OpenJsonBtreeMapKey) in the same OS process stands for a second process: the comparer state lives in the JsonDBMapKey / IndexSpecification instance, which is fresh per opening",
	"standalone database (in-memory L2 cache), store with values in the node segment, non-unique keys",
}
