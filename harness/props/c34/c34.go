// Package c34: access-control decisions respect the system, ownership and grant rules.
//
// The oracle is written from the property statement, not from rbac.go:
//
//	R1  core system resources ("SOP", "LongTermMemory") can never be written or deleted, by anyone;
//	R2  system-visibility resources are accessible only to system callers;
//	R3  otherwise an action is allowed ONLY to admins, the owner, holders of a role grant or of a user
//	    grant for it, or - read and list only - anyone on a public resource;
//	R4  the UI capability map always agrees with the enforcement decision.
//
// Reading used (the weaker one where the statement is ambiguous):
//   - R1..R3 are "only"/"never" clauses, i.e. NECESSARY conditions for an allow. The check alarms when
//     the real code ALLOWS something the statement forbids. The converse ("an entitled caller is
//     denied") is not demanded by the statement; it is measured and recorded in the evidence
//     (counter entitled_but_denied) but never alarmed.
//   - a grant "for" an action is a grant list containing that action or the wildcard "*".
//   - "owner" needs a non-empty OwnerID equal to the caller's user id (an unowned resource has no owner).
//   - empty-string visibility and empty user ids are not generated (the statement does not define them).
//   - R1 needs a resource name, so it is asserted on CheckPolicy / EnforcePolicy / CanPerformAction and
//     on the capability map, not on Authorize (which receives no name).
//   - R4: "enforcement decision" = CheckPolicy(...) == nil. CanPerformAction, EnforcePolicy and
//     ResolveRBACMap (blueprint without custom evaluator, local access from the callback, asset id =
//     resource name) must all equal it, capability by capability.
package c34

import (
	"context"
	"fmt"
	"sort"
	"strings"
	"sync"

	"github.com/sharedcode/sop"

	"verifharness/kit/report"
)

var actions = []sop.Action{sop.ActionRead, sop.ActionWrite, sop.ActionDelete, sop.ActionList, sop.ActionAISelect}

const customRole = "Auditor"

type caller struct {
	auth  sop.AuthContext
	label string
}

type grantMap struct {
	m     map[string][]string
	label string
}

// ---------------------------------------------------------------------------------------------
// oracle (from the statement)
// ---------------------------------------------------------------------------------------------

func covers(list []string, a sop.Action) bool {
	for _, g := range list {
		if g == string(a) || g == "*" {
			return true
		}
	}
	return false
}

type verdict struct {
	forbidden bool   // the statement forbids an allow
	why       string // which rule forbids it
	entitled  bool   // the statement names this caller among those an allow may go to
	// abstract class of the case
	core, admin, owner, roleGrant, userGrant, publicRL bool
}

// decide evaluates the statement. named=false for APIs that receive no resource name (R1 not applicable).
func decide(c sop.AuthContext, named bool, resource string, acc sop.ResourceAccess, a sop.Action) verdict {
	v := verdict{}
	v.core = named && (resource == "SOP" || resource == "LongTermMemory")
	for _, role := range c.Roles {
		if role == "Admin" {
			v.admin = true
		}
		if covers(acc.Roles[role], a) {
			v.roleGrant = true
		}
	}
	v.owner = acc.OwnerID != "" && acc.OwnerID == c.UserID
	v.userGrant = covers(acc.Users[c.UserID], a)
	v.publicRL = acc.Visibility == "public" && (a == "read" || a == "list")

	if v.core && (a == "write" || a == "delete") {
		v.forbidden, v.why = true, "core-resource-"+string(a)
		return v
	}
	if acc.Visibility == "system" {
		if !c.IsSystem {
			v.forbidden, v.why = true, "system-visibility-non-system-caller"
		} else {
			v.entitled = true
		}
		return v
	}
	if v.admin || v.owner || v.roleGrant || v.userGrant || v.publicRL {
		v.entitled = true
		return v
	}
	// the input class names visibility and action so that e.g. "public allows write" and "private allows
	// read" are different signatures
	v.forbidden, v.why = true, "no-entitlement/"+string(acc.Visibility)+"/"+string(a)
	return v
}

// classKey is the abstract class of one case (the fingerprint).
type classKey struct {
	vis                                 sop.Visibility
	act                                 sop.Action
	core, sys, admin, owner, role, user bool
	why                                 string
}

func (k classKey) String() string {
	forb := "-"
	if k.why != "" {
		forb = "forbidden:" + k.why
	}
	return "vis=" + string(k.vis) + "|act=" + string(k.act) + "|core=" + b2s(k.core, "y") + "|sys=" + b2s(k.sys, "y") +
		"|" + b2s(k.admin, "admin") + b2s(k.owner, "owner") + b2s(k.role, "role") + b2s(k.user, "user") + "|" + forb
}

func b2s(b bool, s string) string {
	if b {
		return s
	}
	return "-"
}

// ---------------------------------------------------------------------------------------------
// domain
// ---------------------------------------------------------------------------------------------

func subsets(items []string) [][]string {
	out := [][]string{}
	for mask := 0; mask < 1<<len(items); mask++ {
		s := []string{}
		for i, it := range items {
			if mask&(1<<i) != 0 {
				s = append(s, it)
			}
		}
		out = append(out, s)
	}
	return out
}

func permutations(s []string) [][]string {
	if len(s) <= 1 {
		return [][]string{append([]string{}, s...)}
	}
	out := [][]string{}
	for i := range s {
		rest := append(append([]string{}, s[:i]...), s[i+1:]...)
		for _, p := range permutations(rest) {
			out = append(out, append([]string{s[i]}, p...))
		}
	}
	return out
}

func buildCallers(users []string, everyOrder bool) []caller {
	var out []caller
	for _, rs := range subsets([]string{sop.RoleAdmin, sop.RoleUser, sop.RoleGuest, customRole}) {
		orders := [][]string{rs}
		if everyOrder {
			orders = permutations(rs) // the role list is a list: every order of every role set
		}
		for _, roles := range orders {
			for _, u := range users {
				for _, sys := range []bool{false, true} {
					var rl []string
					if len(roles) > 0 {
						rl = roles
					}
					out = append(out, caller{auth: sop.AuthContext{UserID: u, Roles: rl, IsSystem: sys},
						label: fmt.Sprintf("user=%s roles=%v system=%v", u, roles, sys)})
				}
			}
		}
	}
	return out
}

// grantLists: the shapes a grant list can take relative to the five actions.
func grantLists(thorough bool) [][]string {
	ls := [][]string{{}, {"*"}, {"read", "write"}, {"delete", "list", "ai_select"}}
	for _, a := range actions {
		ls = append(ls, []string{string(a)})
	}
	if thorough {
		ls = append(ls, []string{"*", "read"}, []string{"write", "write"}, []string{"read", "list"}, []string{"write", "delete"}, []string{"ai_select", "read", "delete"})
	}
	return ls
}

func buildGrants(keys []string, thorough bool) []grantMap {
	out := []grantMap{{m: nil, label: "none"}}
	ls := grantLists(thorough)
	for _, k := range keys {
		for _, l := range ls {
			out = append(out, grantMap{m: map[string][]string{k: l}, label: fmt.Sprintf("{%s:%v}", k, l)})
		}
	}
	// two holders with different grants
	out = append(out, grantMap{m: map[string][]string{keys[0]: {"read"}, keys[1]: {"write"}}, label: fmt.Sprintf("{%s:[read] %s:[write]}", keys[0], keys[1])})
	if thorough {
		out = append(out, grantMap{m: map[string][]string{keys[0]: {"delete"}, keys[1]: {"*"}, keys[2]: {"list"}}, label: fmt.Sprintf("{%s:[delete] %s:[*] %s:[list]}", keys[0], keys[1], keys[2])})
	}
	return out
}

const blueprintType = "verif-c34-asset"

// ---------------------------------------------------------------------------------------------
// the check
// ---------------------------------------------------------------------------------------------

type tally struct {
	mu     sync.Mutex
	perSig map[string]int
}

// violate reports the first 3 witnesses per signature (detail is built only for those) and counts the rest.
func (t *tally) violate(r *report.Run, sig string, detail func() map[string]any) {
	t.mu.Lock()
	t.perSig[sig]++
	n := t.perSig[sig]
	t.mu.Unlock()
	if n > 3 {
		return
	}
	r.Violation(sig, detail())
}

// block is one completely enumerated product; the domain of a run is the union of its blocks.
type block struct {
	name       string
	callers    []caller
	resources  []string
	owners     []string
	roleGrants []grantMap
	userGrants []grantMap
}

var visibilities = []sop.Visibility{sop.VisibilityPublic, sop.VisibilityPrivate, sop.VisibilitySystem, "internal"}

func (b block) size() int64 {
	return int64(len(b.callers)) * int64(len(b.resources)) * int64(len(visibilities)) * int64(len(b.owners)) * int64(len(b.roleGrants)) * int64(len(b.userGrants)) * int64(len(actions))
}

func Run(r *report.Run) int {
	roleKeys := []string{sop.RoleUser, customRole, sop.RoleGuest, "Nobody", sop.RoleAdmin}
	userKeys := []string{"alice", "bob", "nobody"}
	base := block{name: "base",
		callers:    buildCallers([]string{"alice", "bob"}, false),
		resources:  []string{"SOP", "LongTermMemory", "notes"},
		owners:     []string{"", "alice", "carol"}, // unowned, owned by caller alice (= not by caller bob), owned by a third party
		roleGrants: buildGrants(roleKeys, false), userGrants: buildGrants(userKeys, false)}
	blocks := []block{base}
	if r.Thorough() {
		// wide: more grant-list shapes, a user nobody grants to, a name that merely resembles a core resource
		wide := block{name: "wide-grants",
			callers:    buildCallers([]string{"alice", "bob", "zed"}, false),
			resources:  []string{"SOP", "LongTermMemory", "notes", "sop_notes"},
			owners:     []string{"", "alice", "carol"},
			roleGrants: buildGrants(roleKeys, true), userGrants: buildGrants(userKeys, true)}
		// orders: the role list in every order of every role set
		orders := base
		orders.name = "role-orders"
		orders.callers = buildCallers([]string{"alice", "bob", "zed"}, true)
		blocks = []block{wide, orders}
	}

	// a blueprint without custom evaluator: ResolveRBACMap must then fall back to the enforcement path
	sop.RegisterAssetRBAC(sop.AssetBlueprint{AssetType: blueprintType, Description: "verif C34", Actions: actions})

	t := &tally{perSig: map[string]int{}}
	var wg sync.WaitGroup
	sem := make(chan struct{}, 16)
	var cases, entitledDenied, allowed, denied, forbiddenCases, planned int64
	var cmu sync.Mutex
	classSeen := map[string]int64{}
	domain := []map[string]any{}

	for _, blk := range blocks {
		planned += blk.size()
		domain = append(domain, map[string]any{"block": blk.name, "callers": len(blk.callers), "resources": blk.resources, "visibilities": visibilities, "owners": blk.owners,
			"role_grant_maps": len(blk.roleGrants), "user_grant_maps": len(blk.userGrants), "actions": actions, "product": blk.size()})
		for ci := range blk.callers {
			wg.Add(1)
			sem <- struct{}{}
			go func(blk block, c caller) {
				defer wg.Done()
				defer func() { <-sem }()
				ctx := sop.ContextWithAuth(context.Background(), c.auth)
				local := map[classKey]int64{}
				var lc, lEnt, lAllow, lDeny, lForb int64
				for _, res := range blk.resources {
					for _, vis := range visibilities {
						for _, own := range blk.owners {
							for _, rg := range blk.roleGrants {
								for _, ug := range blk.userGrants {
									acc := sop.ResourceAccess{Visibility: vis, OwnerID: own, Roles: rg.m, Users: ug.m}
									uiMap := sop.ResolveRBACMap(ctx, blueprintType, sop.EntitlementContext{AssetID: res, UserID: c.auth.UserID}, func() sop.ResourceAccess { return acc })
									if len(uiMap) != len(actions) {
										t.violate(r, "C34:ui-map:capability-missing", func() map[string]any {
											return map[string]any{"caller": c.label, "resource": res, "access": describe(acc, rg, ug), "map": fmt.Sprint(uiMap)}
										})
									}
									for _, a := range actions {
										lc++
										want := decide(c.auth, true, res, acc, a)
										errCheck := sop.CheckPolicy(ctx, res, acc, a)
										errEnforce := sop.EnforcePolicy(ctx, res, acc, a)
										can := sop.CanPerformAction(ctx, res, acc, a)
										authz := sop.Authorize(ctx, acc, a)
										ui, uiOK := uiMap[sop.ActionToUICapability(a)]
										enforced := errCheck == nil

										local[classKey{vis, a, want.core, c.auth.IsSystem, want.admin, want.owner, want.roleGrant, want.userGrant, want.why}]++
										if want.forbidden {
											lForb++
										}
										if enforced {
											lAllow++
										} else {
											lDeny++
										}
										detail := func() map[string]any {
											return map[string]any{"block": blk.name, "caller": c.label, "resource": res, "access": describe(acc, rg, ug), "action": string(a),
												"statement_forbids": want.forbidden, "rule": want.why,
												"CheckPolicy": fmt.Sprint(errCheck), "EnforcePolicy": fmt.Sprint(errEnforce), "CanPerformAction": can, "Authorize": authz, "ui_capability": ui}
										}
										// R1..R3 on the named enforcement entry points
										if want.forbidden {
											if enforced {
												t.violate(r, "C34:CheckPolicy:"+want.why+":allowed", detail)
											}
											if errEnforce == nil {
												t.violate(r, "C34:EnforcePolicy:"+want.why+":allowed", detail)
											}
											if can {
												t.violate(r, "C34:CanPerformAction:"+want.why+":allowed", detail)
											}
											if uiOK && ui {
												t.violate(r, "C34:ui-map:"+want.why+":allowed", detail)
											}
										} else if !enforced {
											lEnt++ // entitled but denied: recorded, not alarmed (see package comment)
										}
										// R2, R3 on the local-ACL entry point (it receives no resource name, so R1 does not apply)
										if authz {
											if wantAuth := decide(c.auth, false, "", acc, a); wantAuth.forbidden {
												t.violate(r, "C34:Authorize:"+wantAuth.why+":allowed", func() map[string]any {
													m := detail()
													m["rule"], m["statement_forbids"], m["note"] = wantAuth.why, true, "Authorize receives no resource name: judged on access and caller only"
													return m
												})
											}
										}
										// R4: every UI-facing answer equals the enforcement decision
										if can != enforced {
											t.violate(r, "C34:ui-agreement:CanPerformAction-vs-CheckPolicy:"+agree(can, enforced), detail)
										}
										if (errEnforce == nil) != enforced {
											t.violate(r, "C34:ui-agreement:EnforcePolicy-vs-CheckPolicy:"+agree(errEnforce == nil, enforced), detail)
										}
										if uiOK && ui != enforced {
											t.violate(r, "C34:ui-agreement:ResolveRBACMap-vs-CheckPolicy:"+agree(ui, enforced), detail)
										}
									}
								}
							}
						}
					}
				}
				cmu.Lock()
				cases += lc
				entitledDenied += lEnt
				allowed += lAllow
				denied += lDeny
				forbiddenCases += lForb
				for k, v := range local {
					classSeen[k.String()] += v
				}
				cmu.Unlock()
			}(blk, blk.callers[ci])
		}
	}
	wg.Wait()
	callers := base.callers

	// one Eval per executed case; cases of one abstract class share a fingerprint
	for cls, n := range classSeen {
		for i := int64(0); i < n; i++ {
			r.Eval(cls, true)
		}
	}
	r.Count("cases", cases)
	r.Count("cases_statement_forbids", forbiddenCases)
	r.Count("enforcement_allowed", allowed)
	r.Count("enforcement_denied", denied)
	r.Count("entitled_but_denied(not asserted)", entitledDenied)
	r.Set("domain_blocks", domain)
	if cases != planned {
		r.Broken("domain not enumerated completely: %d of %d cases", cases, planned)
	} else {
		r.SetExhaustive(true) // every block of the finite abstract domain was enumerated completely
	}
	// planned class list: every rule of the statement must have been exercised in both directions
	need := map[string]bool{"forbidden:core-resource-write": false, "forbidden:core-resource-delete": false, "forbidden:system-visibility-non-system-caller": false, "forbidden:no-entitlement/public/write": false, "forbidden:no-entitlement/private/read": false, "forbidden:no-entitlement/internal/list": false,
		"admin": false, "owner": false, "role": false, "user": false, "vis=public|act=read": false, "vis=public|act=list": false, "vis=internal": false}
	for cls := range classSeen {
		for k := range need {
			if strings.Contains(cls, k) {
				need[k] = true
			}
		}
	}
	for k, ok := range need {
		if !ok {
			r.Broken("planned class never exercised: %s", k)
		}
	}
	r.Sample(map[string]any{"caller": callers[1].label, "resource": "SOP", "visibility": "public", "action": "write", "statement": "forbidden (core resource)", "CheckPolicy": fmt.Sprint(sop.CheckPolicy(sop.ContextWithAuth(context.Background(), callers[1].auth), "SOP", sop.ResourceAccess{Visibility: "public"}, "write"))})
	r.Sample(map[string]any{"caller": callers[0].label, "resource": "notes", "visibility": "public", "action": "read", "statement": "may be allowed (public read)", "CheckPolicy": fmt.Sprint(sop.CheckPolicy(sop.ContextWithAuth(context.Background(), callers[0].auth), "notes", sop.ResourceAccess{Visibility: "public"}, "read"))})
	r.Sample(map[string]any{"caller": callers[0].label, "resource": "notes", "visibility": "system", "action": "read", "statement": "forbidden (system visibility, non-system caller)", "CheckPolicy": fmt.Sprint(sop.CheckPolicy(sop.ContextWithAuth(context.Background(), callers[0].auth), "notes", sop.ResourceAccess{Visibility: "system"}, "read"))})
	sigs := []string{}
	for s, n := range t.perSig {
		sigs = append(sigs, fmt.Sprintf("%s x%d", s, n))
	}
	sort.Strings(sigs)
	r.Set("violations_per_signature", sigs)
	return r.Finish(rule, assumptions, 100)
}

func agree(ui, enforced bool) string {
	if ui && !enforced {
		return "ui-allows-enforcement-denies"
	}
	return "ui-denies-enforcement-allows"
}

func describe(acc sop.ResourceAccess, rg, ug grantMap) string {
	return fmt.Sprintf("visibility=%s owner=%q roles=%s users=%s", acc.Visibility, acc.OwnerID, rg.label, ug.label)
}

const rule = "complete enumeration of each product block (quick: base; thorough: wide-grants = more grant-list shapes, a third user, a look-alike resource name; role-orders = base with every ORDER of every role set): callers (every subset of {Admin,User,Guest,Auditor} x user ids x system flag) x resource names {SOP, LongTermMemory, notes} x visibility {public, private, system, internal(unknown)} x owner {none, caller alice, a third party} x role-grant maps x user-grant maps (none / one holder with each of: empty list, *, each single action, two multi-action lists / two holders) x the five actions. Per case: CheckPolicy, EnforcePolicy, CanPerformAction, Authorize and the ResolveRBACMap capability against the statement's oracle. fingerprint = (visibility, action, core?, system caller?, admin/owner/role-grant/user-grant flags, forbidding rule); every case is non-trivial (it reaches the decision functions)"

var assumptions = []string{
	"only allows that the statement forbids are alarmed; denials of entitled callers are counted, not alarmed",
	"wildcard grant \"*\" counts as a grant for every action",
	"empty visibility, empty user ids not generated; resource names compared exactly",
	"ResolveRBACMap exercised through a registered blueprint without custom evaluator (evaluators registered by tools/httpserver live in package main and are not reachable)",
}
