// Package c13: committing changes never alters or corrupts a store's configuration.
//
// Statement (properties.jsonl C13): whatever name, description and options a store was created with,
// committing changes to it only changes its item count and timestamp; reopening it always yields the
// original configuration and the correct count.
//
// Shape of the check (public path only: database.BeginTransaction / NewBtree / OpenBtree via kit/sopx):
//   - the parent process only generates cases and classifies results; every SOP call runs in a child
//     process (kit/proc), because a corrupted storeinfo.txt can make the library allocate terabytes
//     (slot_length overwritten with a millisecond timestamp) and such a death must name its case;
//   - "c13-hist" children run the histories (create, 3..10 commits with adds/removes) and observe after
//     every commit (a) <folder>/<store>/storeinfo.txt decoded as JSON sop.StoreInfo - the on-disk truth
//     that the store-info cache hides - and (b) a reopen through a new read transaction (warm caches);
//   - a "c13-cold" child (a process that never saw the folders) reopens every store once more.
//
// Oracle: every StoreInfo field except count and timestamp equals the value the store had right after
// creation (GetStoreInfo() in the creating transaction); schema / key_fields / value_fields are the
// fields the B-tree infers on the first add (btree.inferSchemaOfFirst) and are only required to never
// change once they were seen non-empty; count == number of items the model holds == number of items a
// scan returns. Name, description, is_unique and leaf_load_balancing must also equal what was requested
// (no normalisation rule applies to them). Timestamp is not judged.
//
// Weaker readings chosen on purpose: a name the API rejects at creation is not a violation (a name is
// also a folder name); a commit that returns an error ends the case without verdict (inconclusive).
package c13

import (
	"bufio"
	"context"
	"encoding/json"
	"fmt"
	"os"
	"path/filepath"
	"runtime/debug"
	"sort"
	"strings"
	"sync"
	"syscall"
	"time"

	"github.com/sharedcode/sop"
	"github.com/sharedcode/sop/btree"

	"verifharness/kit/env"
	"verifharness/kit/proc"
	"verifharness/kit/report"
	"verifharness/kit/sopx"
)

func init() {
	proc.Register("c13-hist", histChild)
	proc.Register("c13-cold", coldChild)
}

// ---------------------------------------------------------------------------------------------
// cases

type caseSpec struct {
	Idx     int    `json:"idx"`
	Dir     string `json:"dir"`
	Name    string `json:"name"`
	Desc    string `json:"desc"`
	Slot    int    `json:"slot"`
	Unique  bool   `json:"unique"`
	Profile string `json:"profile"`
	LLB     bool   `json:"llb"`
	Cache   int    `json:"cache"`  // 0 default, 1 uniform 10m TTL, 2 mixed, 3 value cache disabled
	Custom  bool   `json:"custom"` // CustomData mentioning the metadata field names
	Commits int    `json:"commits"`
	Seed    int64  `json:"seed"` // run seed; the history is a pure function of (Seed, Idx)
}

func (c caseSpec) inputClass() string { return inputClass(c.Name, c.Desc) }

var metaKeys = []string{"count", "timestamp", "slot_length", "is_unique", "description", "registry_table", "blob_table", "root_node_id", "name"}

// inputClass classifies a (name, description) pair from the input itself, so that the signature of a
// violation names the kind of text that triggered it.
// triggers lists in which of the two shapes a name/description carries the raw bytes "count" or
// "timestamp" once JSON-encoded: the string IS the key, or it ENDS in a double quote followed by the
// key (its encoding then ends in  \"count"  ). These are the only two shapes possible, because every
// other double quote inside an encoded string is preceded by a backslash.
func triggers(name, desc string) []string {
	var out []string
	for _, f := range []struct{ field, v string }{{"name", name}, {"desc", desc}} {
		for _, k := range []string{"count", "timestamp"} {
			if f.v == k {
				out = append(out, f.field+"-eq-"+k)
			} else if strings.HasSuffix(f.v, `"`+k) {
				out = append(out, f.field+"-endsq-"+k)
			}
		}
	}
	return out
}

func inputClass(name, desc string) string {
	if len(triggers(name, desc)) > 0 {
		return "key-shaped-text"
	}
	for _, k := range metaKeys {
		if name == k {
			return "name-eq-other-key"
		}
	}
	for _, k := range metaKeys {
		if desc == k {
			return "desc-eq-other-key"
		}
	}
	both := name + "\x00" + desc
	if strings.Contains(both, `"count"`) || strings.Contains(both, `"timestamp"`) {
		return "mentions-quoted-key"
	}
	for _, k := range metaKeys {
		if strings.Contains(both, k) {
			return "mentions-key"
		}
	}
	if strings.ContainsAny(both, `"{}:,[]\`) {
		return "json-punct"
	}
	for _, r := range both {
		if r > 127 {
			return "unicode"
		}
	}
	return "plain"
}

// tokens the random text generator mixes.
var tokens = []string{
	"count", "timestamp", `"count"`, `"timestamp"`, `count":7`, `"count":`, `"count":7,`, `},{`, "slot_length", `"slot_length":2`,
	`"`, `:`, `,`, `{`, `}`, `\`, ` `, `  `, "7", "-1", "orders", "s", "x", "Kunden", "счёт", "数量", "ø", "é", "🗄", "\t", "_", "-", ".", "'",
	"is_unique", "description", "registry_table", "true", "null",
}

func genText(rnd interface{ Intn(int) int }, maxTokens int) string {
	n := 1 + rnd.Intn(maxTokens)
	var b strings.Builder
	for i := 0; i < n; i++ {
		b.WriteString(tokens[rnd.Intn(len(tokens))])
	}
	return b.String()
}

// usableName: what the harness is willing to ask for as a store name. A store name is a folder name
// and a registry file prefix, so path separators, NUL, dot names, over-long names and names that
// collide with the database's own files are left out (not the subject of C13).
func usableName(s string) bool {
	if s == "" || s == "." || s == ".." || len(s) > 100 || strings.ContainsAny(s, "/\x00") {
		return false
	}
	switch s {
	case "translogs", "storelist.txt", "reghashmod.txt", "dboptions.json":
		return false
	}
	return strings.TrimSpace(s) != ""
}

// coreNames / coreDescs: always present in every run.
var coreNames = []string{
	"count", "timestamp", "slot_length", `"count"`, `count":7`, `},{`, `"count":7,"x":"`, "is_unique", "name",
	"orders", "my store", " count", "count ", "Count", "счёт", "数量count", "cøunt", "count\t", `a"count"b`, `\"count\"`, "timestamp_r", "root_node_id",
	`x"count`, `"timestamp`, `"slot_length`,
}
var coreDescs = []string{
	"count", "timestamp", `"count"`, `"count":`, `"count":7`, `count":7`, `},{`, `{"count":1,"timestamp":2}`, "slot_length",
	"", "an ordinary description", "ünïcödé 数量 🗄", `\`, `\"count\":9`, "count timestamp", `","count":99,"timestamp":1,"x":"`,
	`see "count`, `x"timestamp`, `"count" and "timestamp`,
}

func buildCases(r *report.Run) []caseSpec {
	rnd := env.Rand(r.Seed, "c13-cases")
	total := r.Pick(60, 1500)
	profiles := []string{string(sopx.InNode), string(sopx.Separate), string(sopx.SepCached), string(sopx.SepActive)}
	slots := []int{2, 4, 8, 5, 0, 64}
	var cases []caseSpec
	add := func(name, desc string) {
		if !usableName(name) {
			return
		}
		if len(desc) > 1000 {
			desc = desc[:1000]
		}
		i := len(cases)
		cases = append(cases, caseSpec{
			Idx: i, Name: name, Desc: desc,
			// option combinations cycle deterministically so that every combination class appears,
			// offset by a PRNG draw so that different seeds pair them with different texts.
			Slot: slots[(i+rnd.Intn(len(slots)))%len(slots)], Unique: rnd.Intn(2) == 0,
			Profile: profiles[(i+rnd.Intn(4))%4], LLB: rnd.Intn(2) == 0, Cache: rnd.Intn(4), Custom: rnd.Intn(3) == 0,
			Commits: 3 + rnd.Intn(8), Seed: r.Seed,
		})
	}
	// core: every core name with a PRNG-chosen description; every core description with a plain name.
	for _, n := range coreNames {
		add(n, coreDescs[rnd.Intn(len(coreDescs))])
	}
	for i, d := range coreDescs {
		add(fmt.Sprintf("store%d", i), d)
	}
	// the four exact-key pairs with an ordinary counterpart (so the class is attributable)
	add("count", "plain text")
	add("timestamp", "plain text")
	if r.Thorough() {
		// core texts under every value-placement profile
		for _, p := range profiles {
			for _, n := range coreNames {
				add(n, coreDescs[rnd.Intn(len(coreDescs))])
				cases[len(cases)-1].Profile = p
			}
			for i, d := range coreDescs {
				add(fmt.Sprintf("p%s%d", p, i), d)
				cases[len(cases)-1].Profile = p
			}
		}
	}
	for len(cases) < total {
		var n, d string
		switch rnd.Intn(4) {
		case 0:
			n, d = genText(rnd, 4), genText(rnd, 8)
		case 1:
			n, d = fmt.Sprintf("t%d", len(cases)), genText(rnd, 12)
		case 2:
			n, d = genText(rnd, 3), coreDescs[rnd.Intn(len(coreDescs))]
		default:
			n, d = coreNames[rnd.Intn(len(coreNames))], genText(rnd, 6)
		}
		add(n, d)
	}
	return cases
}

func (c caseSpec) options() sop.StoreOptions {
	so := sopx.Options(c.Name, c.Slot, c.Unique, sopx.Profile(c.Profile))
	so.Description = c.Desc
	so.LeafLoadBalancing = c.LLB
	switch c.Cache {
	case 1:
		so.CacheConfig = sop.NewStoreCacheConfig(10*time.Minute, true)
	case 2:
		so.CacheConfig = &sop.StoreCacheConfig{
			RegistryCacheDuration: 20 * time.Minute, IsRegistryCacheTTL: true,
			NodeCacheDuration: 7 * time.Minute, ValueDataCacheDuration: 6 * time.Minute, IsValueDataCacheTTL: true,
			StoreInfoCacheDuration: 9 * time.Minute,
		}
	case 3:
		so.CacheConfig = &sop.StoreCacheConfig{ValueDataCacheDuration: -1, StoreInfoCacheDuration: 6 * time.Minute, IsStoreInfoCacheTTL: true}
	}
	if c.Custom {
		so.CustomData = map[string]any{"count": 7, "timestamp": "12", "note": `"count":1,"slot_length":3`, "nested": map[string]any{"count": []any{1, "x"}}}
	}
	return so
}

func (c caseSpec) fingerprint() string {
	slot := "even"
	switch {
	case c.Slot == 0:
		slot = "default"
	case c.Slot%2 == 1:
		slot = "odd"
	}
	cls := c.inputClass()
	if tr := triggers(c.Name, c.Desc); len(tr) > 0 {
		cls = strings.Join(tr, "+")
	}
	return fmt.Sprintf("%s|%s|u=%v|slot=%s|llb=%v|cache=%d|custom=%v", cls, c.Profile, c.Unique, slot, c.LLB, c.Cache, c.Custom)
}

// ---------------------------------------------------------------------------------------------
// oracle helpers (shared by both child roles)

type finding struct {
	Sig    string         `json:"sig"`
	Detail map[string]any `json:"detail"`
}

// exempt fields of the configuration comparison.
var notConfig = map[string]bool{"count": true, "timestamp": true, "schema": true, "key_fields": true, "value_fields": true}
var inferred = []string{"schema", "key_fields", "value_fields"}

func asMap(si sop.StoreInfo) map[string]any {
	b, _ := json.Marshal(si)
	m := map[string]any{}
	_ = json.Unmarshal(b, &m)
	return m
}

// configDiff returns the JSON field names whose value differs between the baseline and got,
// ignoring count/timestamp and the inferred schema fields.
func configDiff(base, got sop.StoreInfo) []string {
	a, b := asMap(base), asMap(got)
	keys := map[string]bool{}
	for k := range a {
		keys[k] = true
	}
	for k := range b {
		keys[k] = true
	}
	var out []string
	for k := range keys {
		if notConfig[k] {
			continue
		}
		x, _ := json.Marshal(a[k])
		y, _ := json.Marshal(b[k])
		if string(x) != string(y) {
			out = append(out, k)
		}
	}
	sort.Strings(out)
	return out
}

// judge compares one observation with the baseline and the model count and appends findings.
type judgeCtx struct {
	c        caseSpec
	base     sop.StoreInfo
	inferred map[string]string // first non-empty JSON of each inferred field
	seen     map[string]bool   // signatures already reported for this case
	out      *[]finding
}

func (j *judgeCtx) report(observer, outcome string, detail map[string]any) {
	sig := fmt.Sprintf("C13:%s:%s:%s", j.c.inputClass(), observer, outcome)
	if j.seen[sig] {
		return
	}
	j.seen[sig] = true
	detail["case"] = j.c
	detail["observer"] = observer
	detail["key_shaped"] = triggers(j.c.Name, j.c.Desc)
	*j.out = append(*j.out, finding{sig, detail})
}

func (j *judgeCtx) judge(observer string, commit int, got sop.StoreInfo, modelCount int64, extra map[string]any) {
	for _, f := range configDiff(j.base, got) {
		a, b := asMap(j.base)[f], asMap(got)[f]
		j.report(observer, f+"-altered", map[string]any{"after_commit": commit, "field": f, "created_with": a, "observed": b, "extra": extra})
	}
	gm := asMap(got)
	for _, f := range inferred {
		v, ok := gm[f]
		if !ok || v == nil {
			continue
		}
		b, _ := json.Marshal(v)
		if prev, ok := j.inferred[f]; ok && prev != string(b) {
			j.report(observer, f+"-altered", map[string]any{"after_commit": commit, "field": f, "first_seen": prev, "observed": string(b)})
		} else if !ok {
			j.inferred[f] = string(b)
		}
	}
	if got.Count != modelCount {
		j.report(observer, "count-wrong", map[string]any{"after_commit": commit, "items_in_store": modelCount, "observed_count": got.Count, "extra": extra})
	}
}

func limitAddressSpace() {
	// A corrupted slot_length makes btree.New allocate slot arrays of that length; fail fast instead of
	// letting the kernel overcommit.
	lim := syscall.Rlimit{Cur: 24 << 30, Max: 24 << 30}
	_ = syscall.Setrlimit(syscall.RLIMIT_AS, &lim)
	debug.SetGCPercent(100)
}

// ---------------------------------------------------------------------------------------------
// child role 1: histories

type histResult struct {
	Idx         int               `json:"idx"`
	Created     bool              `json:"created"`
	CreateErr   string            `json:"create_err,omitempty"`
	Baseline    *sop.StoreInfo    `json:"baseline,omitempty"`
	Inferred    map[string]string `json:"inferred,omitempty"`
	Commits     int               `json:"commits"`       // commits that returned nil
	CountChange int               `json:"count_changes"` // commits that changed the item count
	FastPath    int               `json:"fast_path"`     // count-changing commits after the first one
	CommitErr   string            `json:"commit_err,omitempty"`
	ModelCount  int64             `json:"model_count"`
	DiskObs     int               `json:"disk_obs"`
	WarmObs     int               `json:"warm_obs"`
	Findings    []finding         `json:"findings"`
	Steps       []string          `json:"steps"`
	Diverged    []string          `json:"diverged,omitempty"` // commits whose effect differed from the requested operations (side observation)
	Panic       string            `json:"panic,omitempty"`
}

type line struct {
	Begin *int        `json:"begin,omitempty"`
	Hist  *histResult `json:"hist,omitempty"`
	Cold  *coldResult `json:"cold,omitempty"`
}

func readCases(path string) ([]caseSpec, error) {
	b, err := os.ReadFile(path)
	if err != nil {
		return nil, err
	}
	var cs []caseSpec
	return cs, json.Unmarshal(b, &cs)
}

func emit(w *bufio.Writer, l line) {
	b, _ := json.Marshal(l)
	w.Write(b)
	w.WriteByte('\n')
	w.Flush()
}

func histChild(args []string) int {
	if len(args) < 1 {
		return proc.ExitHarness
	}
	limitAddressSpace()
	cases, err := readCases(args[0])
	if err != nil {
		fmt.Fprintln(os.Stderr, err)
		return proc.ExitHarness
	}
	w := bufio.NewWriter(os.Stdout)
	for _, c := range cases {
		idx := c.Idx
		emit(w, line{Begin: &idx})
		res := runHistory(c)
		emit(w, line{Hist: &res})
	}
	return proc.ExitOK
}

func readDisk(c caseSpec) (sop.StoreInfo, string, error) {
	var si sop.StoreInfo
	raw, err := os.ReadFile(filepath.Join(c.Dir, c.Name, "storeinfo.txt"))
	if err != nil {
		return si, "", err
	}
	return si, string(raw), json.Unmarshal(raw, &si)
}

func runHistory(c caseSpec) (res histResult) {
	res.Idx = c.Idx
	res.Findings = []finding{}
	defer func() {
		if p := recover(); p != nil {
			res.Panic = fmt.Sprintf("%v\n%s", p, debug.Stack())
		}
	}()
	rnd := env.Rand(c.Seed, fmt.Sprintf("c13-hist-%d", c.Idx))
	d := sopx.NewDB(c.Dir)
	j := &judgeCtx{c: c, inferred: map[string]string{}, seen: map[string]bool{}, out: &res.Findings}

	model := map[string]int{} // key -> multiplicity
	var modelCount int64
	nextKey := 0
	existing := func() []string {
		ks := make([]string, 0, len(model))
		for k := range model {
			ks = append(ks, k)
		}
		sort.Strings(ks)
		return ks
	}

	for commit := 1; commit <= c.Commits; commit++ {
		t, err := d.Begin(sop.ForWriting)
		if err != nil {
			res.CommitErr = fmt.Sprintf("commit %d: begin: %v", commit, err)
			return
		}
		var addFn func(k, v string) (bool, error)
		var rmFn func(k string) (bool, error)
		if commit == 1 {
			bt, err := sopx.New[string, string](d, t, c.options())
			if err != nil {
				_ = t.Rollback(sopx.Ctx)
				res.CreateErr = err.Error()
				return
			}
			res.Created = true
			base := bt.GetStoreInfo()
			res.Baseline = &base
			j.base = base
			// what was asked for must be what the store reports, for the fields without a normalisation rule
			if base.Name != c.Name {
				j.report("create", "name-altered", map[string]any{"requested": c.Name, "observed": base.Name})
			}
			if base.Description != c.Desc {
				j.report("create", "description-altered", map[string]any{"requested": c.Desc, "observed": base.Description})
			}
			if base.IsUnique != c.Unique {
				j.report("create", "is_unique-altered", map[string]any{"requested": c.Unique, "observed": base.IsUnique})
			}
			if base.LeafLoadBalancing != c.LLB {
				j.report("create", "leaf_load_balancing-altered", map[string]any{"requested": c.LLB, "observed": base.LeafLoadBalancing})
			}
			if c.Slot >= 2 && c.Slot%2 == 0 && base.SlotLength != c.Slot {
				j.report("create", "slot_length-altered", map[string]any{"requested": c.Slot, "observed": base.SlotLength})
			}
			// StoreRepository.Add has already written the file: it must carry the same configuration.
			if si, raw, err := readDisk(c); err != nil {
				j.report("disk-after-create", "storeinfo-undecodable", map[string]any{"err": err.Error(), "raw": raw})
			} else {
				j.judge("disk-after-create", 0, si, 0, map[string]any{"raw": raw})
			}
			addFn = func(k, v string) (bool, error) { return bt.Add(sopx.Ctx, k, v) }
			rmFn = func(k string) (bool, error) { return bt.Remove(sopx.Ctx, k) }
		} else {
			bt, err := sopx.Open[string, string](d, t, c.Name)
			if err != nil {
				_ = t.Rollback(sopx.Ctx)
				j.report("reopen-writer", "open-failed", map[string]any{"after_commit": commit - 1, "err": err.Error()})
				res.CommitErr = fmt.Sprintf("commit %d: open: %v", commit, err)
				return
			}
			addFn = func(k, v string) (bool, error) { return bt.Add(sopx.Ctx, k, v) }
			rmFn = func(k string) (bool, error) { return bt.Remove(sopx.Ctx, k) }
		}

		// the step: a mix of adds and removes; most steps change the count, some empty the store,
		// a few leave the count unchanged (equal adds and removes) or do nothing (creation only).
		before := modelCount
		kind := rnd.Intn(10)
		nAdd, nRm := 1+rnd.Intn(5), 0
		ks := existing()
		switch {
		case commit == 1 && kind < 3:
			nAdd = 0 // creation-only first commit
		case kind == 0 && len(ks) > 0:
			nAdd, nRm = 0, len(ks)*4 // remove everything (multiplicities included)
		case kind == 1 && len(ks) > 0:
			nAdd, nRm = 1, 1
		case kind < 6 && len(ks) > 0:
			nRm = 1 + rnd.Intn(len(ks))
		}
		step := fmt.Sprintf("commit %d:", commit)
		for i := 0; i < nRm; i++ {
			ks = existing()
			if len(ks) == 0 {
				break
			}
			k := ks[rnd.Intn(len(ks))]
			ok, err := rmFn(k)
			if err != nil {
				res.CommitErr = fmt.Sprintf("commit %d: remove %q: %v", commit, k, err)
				return
			}
			if ok {
				model[k]--
				if model[k] == 0 {
					delete(model, k)
				}
				modelCount--
				step += " -" + k
			}
		}
		for i := 0; i < nAdd; i++ {
			k := fmt.Sprintf("k%04d", nextKey)
			ks = existing()
			if !c.Unique && len(ks) > 0 && rnd.Intn(4) == 0 {
				k = ks[rnd.Intn(len(ks))] // duplicate key in a non-unique store
			} else {
				nextKey++
			}
			ok, err := addFn(k, fmt.Sprintf("v%d-%d %s", commit, i, `"count":1`))
			if err != nil {
				res.CommitErr = fmt.Sprintf("commit %d: add %q: %v", commit, k, err)
				return
			}
			if ok {
				model[k]++
				modelCount++
				step += " +" + k
			}
		}
		if err := t.Commit(sopx.Ctx); err != nil {
			res.CommitErr = fmt.Sprintf("commit %d: %v", commit, err)
			res.Steps = append(res.Steps, step+" => "+err.Error())
			return
		}
		res.Steps = append(res.Steps, step)
		res.Commits++
		if modelCount != before {
			res.CountChange++
			if res.CountChange > 1 {
				res.FastPath++
			}
		}
		res.ModelCount = modelCount

		// observer (b) first, because its scan says how many items the store really holds now:
		// reopen through a new transaction of this process (warm caches).
		items := modelCount
		func() {
			rt, err := d.Begin(sop.ForReading)
			if err != nil {
				j.report("reopen-warm", "open-failed", map[string]any{"after_commit": commit, "err": "begin: " + err.Error()})
				return
			}
			defer rt.Rollback(sopx.Ctx)
			bt, err := sopx.Open[string, string](d, rt, c.Name)
			if err != nil {
				j.report("reopen-warm", "open-failed", map[string]any{"after_commit": commit, "err": err.Error()})
				return
			}
			keys, err := scanKeys(bt)
			if err != nil {
				j.report("reopen-warm", "scan-failed", map[string]any{"after_commit": commit, "err": err.Error()})
			} else {
				// Whether the commit applied exactly the requested adds/removes is NOT C13's subject
				// (atomicity/durability properties own that). A divergence is recorded as a side
				// observation and the model is re-synchronised with what the store holds, so that
				// "correct count" keeps meaning "count == number of items in the store".
				actual := map[string]int{}
				for _, k := range keys {
					actual[k]++
				}
				same := len(actual) == len(model)
				for k, n := range model {
					if actual[k] != n {
						same = false
					}
				}
				if !same {
					res.Diverged = append(res.Diverged, fmt.Sprintf("after %q (profile %s): store holds %d items, requested operations give %d", step, c.Profile, len(keys), modelCount))
					model = actual
					modelCount = int64(len(keys))
					res.ModelCount = modelCount
				}
				items = int64(len(keys))
			}
			j.judge("reopen-warm", commit, bt.GetStoreInfo(), items, map[string]any{"steps": res.Steps})
			if n := bt.Count(); n != items {
				j.report("reopen-warm", "count-wrong", map[string]any{"after_commit": commit, "items_in_store": items, "Count()": n})
			}
			res.WarmObs++
		}()

		// observer (a): the file on disk
		if si, raw, err := readDisk(c); err != nil {
			j.report("disk", "storeinfo-undecodable", map[string]any{"after_commit": commit, "err": err.Error(), "raw": raw, "steps": res.Steps})
		} else {
			j.judge("disk", commit, si, items, map[string]any{"raw": raw, "steps": res.Steps})
		}
		res.DiskObs++
	}
	res.Inferred = j.inferred
	return
}

type scanner interface {
	First(ctx context.Context) (bool, error)
	Next(ctx context.Context) (bool, error)
	GetCurrentKey() btree.Item[string, string]
}

// scanKeys walks the store forward and returns the keys it holds (with multiplicity).
func scanKeys(b scanner) ([]string, error) {
	var keys []string
	ok, err := b.First(sopx.Ctx)
	for ok && err == nil {
		keys = append(keys, b.GetCurrentKey().Key)
		if len(keys) > 1_000_000 {
			return keys, fmt.Errorf("scan does not terminate")
		}
		ok, err = b.Next(sopx.Ctx)
	}
	return keys, err
}

// ---------------------------------------------------------------------------------------------
// child role 2: cold reopen

type coldCase struct {
	Case       caseSpec          `json:"case"`
	Baseline   sop.StoreInfo     `json:"baseline"`
	Inferred   map[string]string `json:"inferred"`
	ModelCount int64             `json:"model_count"`
}

type coldResult struct {
	Idx      int       `json:"idx"`
	Findings []finding `json:"findings"`
	Observed bool      `json:"observed"`
}

func coldChild(args []string) int {
	if len(args) < 1 {
		return proc.ExitHarness
	}
	limitAddressSpace()
	b, err := os.ReadFile(args[0])
	if err != nil {
		return proc.ExitHarness
	}
	var cases []coldCase
	if err := json.Unmarshal(b, &cases); err != nil {
		return proc.ExitHarness
	}
	w := bufio.NewWriter(os.Stdout)
	for _, cc := range cases {
		idx := cc.Case.Idx
		emit(w, line{Begin: &idx})
		res := coldOne(cc)
		emit(w, line{Cold: &res})
	}
	return proc.ExitOK
}

func coldOne(cc coldCase) (res coldResult) {
	res.Idx = cc.Case.Idx
	res.Findings = []finding{}
	inf := map[string]string{}
	for k, v := range cc.Inferred {
		inf[k] = v
	}
	j := &judgeCtx{c: cc.Case, base: cc.Baseline, inferred: inf, seen: map[string]bool{}, out: &res.Findings}
	defer func() {
		if p := recover(); p != nil {
			j.report("reopen-cold", "panic", map[string]any{"panic": fmt.Sprint(p), "stack": string(debug.Stack())})
		}
	}()
	d := sopx.NewDB(cc.Case.Dir)
	t, err := d.Begin(sop.ForReading)
	if err != nil {
		j.report("reopen-cold", "open-failed", map[string]any{"err": "begin: " + err.Error()})
		return
	}
	defer t.Rollback(sopx.Ctx)
	bt, err := sopx.Open[string, string](d, t, cc.Case.Name)
	if err != nil {
		raw, _ := os.ReadFile(filepath.Join(cc.Case.Dir, cc.Case.Name, "storeinfo.txt"))
		j.report("reopen-cold", "open-failed", map[string]any{"err": err.Error(), "raw": string(raw)})
		return
	}
	si := bt.GetStoreInfo()
	j.judge("reopen-cold", -1, si, cc.ModelCount, map[string]any{})
	res.Observed = true
	if bt.Count() != cc.ModelCount {
		j.report("reopen-cold", "count-wrong", map[string]any{"items_in_store": cc.ModelCount, "observed_count": bt.Count()})
	}
	if len(configDiff(cc.Baseline, si)) > 0 {
		return // scanning a store opened with an altered slot length is not informative
	}
	keys, err := scanKeys(bt)
	if err != nil {
		j.report("reopen-cold", "scan-failed", map[string]any{"err": err.Error()})
	} else if int64(len(keys)) != cc.ModelCount {
		// the cold process sees a different number of items than the warm one did: not a
		// configuration matter, but "reopening yields the correct count" cannot be decided then
		j.report("reopen-cold", "scan-mismatch", map[string]any{"scanned": len(keys), "items_seen_warm": cc.ModelCount})
	}
	return
}

// ---------------------------------------------------------------------------------------------
// parent

const rule = "case = (store name, description, option combination, seeded history of 3..10 commits with adds/removes); " +
	"names/descriptions mix ordinary text with the metadata field names and JSON punctuation; fingerprint = (input class of the texts, " +
	"value-placement profile, unique, slot class, leaf load balancing, cache-config variant, custom data); non-trivial = the store was created, " +
	">= 2 commits changed the item count (so the in-place count/timestamp patch ran after the first full write), and the disk, warm-reopen " +
	"and cold-process observers all ran"

var assumptions = []string{
	"public path only (database.BeginTransaction / NewBtree / OpenBtree), standalone in-memory L2 cache, one scratch folder per store",
	"all SOP calls run in child processes; the cold observer is one process that never touched the folders before",
	"names containing '/' or NUL, dot names, names > 100 bytes and names colliding with the database's own files are not generated; a name rejected at creation is not a violation",
	"timestamp is not judged; schema/key_fields/value_fields (inferred by the B-tree on the first add) must only stay stable once seen",
}

func runChildren[T any](r *report.Run, logDir, role string, payloads []T, idxOf func(T) int, workers, batch int,
	onLine func(line), onDeath func(idx int, res proc.Result)) {
	type job struct{ items []T }
	jobs := make(chan job, len(payloads))
	for i := 0; i < len(payloads); i += batch {
		e := i + batch
		if e > len(payloads) {
			e = len(payloads)
		}
		jobs <- job{payloads[i:e]}
	}
	close(jobs)
	var wg sync.WaitGroup
	var mu sync.Mutex
	var fileSeq int
	for wk := 0; wk < workers; wk++ {
		wg.Add(1)
		go func() {
			defer wg.Done()
			for jb := range jobs {
				items := jb.items
				for len(items) > 0 {
					mu.Lock()
					fileSeq++
					fn := filepath.Join(logDir, fmt.Sprintf("%s-%d.json", role, fileSeq))
					mu.Unlock()
					b, _ := json.Marshal(items)
					if err := os.WriteFile(fn, b, 0o644); err != nil {
						r.Broken("cannot write case file: %v", err)
						return
					}
					res := proc.Run(logDir, 300, nil, role, fn)
					// parse output
					done := map[int]bool{}
					begun := -1
					sc := bufio.NewScanner(strings.NewReader(string(res.Out())))
					sc.Buffer(make([]byte, 1<<20), 64<<20)
					for sc.Scan() {
						var l line
						if json.Unmarshal(sc.Bytes(), &l) != nil {
							continue // library noise on stdout
						}
						if l.Begin != nil {
							begun = *l.Begin
							continue
						}
						if l.Hist != nil {
							done[l.Hist.Idx] = true
						}
						if l.Cold != nil {
							done[l.Cold.Idx] = true
						}
						mu.Lock()
						onLine(l)
						mu.Unlock()
					}
					// which items remain?
					var rest []T
					died := -1
					for _, it := range items {
						if done[idxOf(it)] {
							continue
						}
						if idxOf(it) == begun && died < 0 {
							died = begun
							continue
						}
						rest = append(rest, it)
					}
					if died >= 0 {
						mu.Lock()
						onDeath(died, res)
						mu.Unlock()
					} else if len(rest) == len(items) {
						// the child made no progress at all: harness problem
						r.Broken("child %s made no progress (exit %d): %s", role, res.Code, tail(string(res.Err()), 400))
						return
					}
					items = rest
				}
			}
		}()
	}
	wg.Wait()
}

func tail(s string, n int) string {
	if len(s) > n {
		return s[len(s)-n:]
	}
	return s
}

func head(s string, n int) string {
	if len(s) > n {
		return s[:n]
	}
	return s
}

func Run(r *report.Run) int {
	cases := buildCases(r)
	logDir := env.Scratch("c13-log")
	for i := range cases {
		cases[i].Dir = env.Scratch("c13")
	}
	byIdx := map[int]caseSpec{}
	for _, c := range cases {
		byIdx[c.Idx] = c
	}
	workers := 8
	hist := map[int]*histResult{}
	type vio struct {
		sig    string
		detail map[string]any
	}
	var vios []vio
	addFindings := func(fs []finding) {
		for _, f := range fs {
			f.Detail["seed"] = r.Seed
			vios = append(vios, vio{f.Sig, f.Detail})
		}
	}

	// 1. histories
	runChildren(r, logDir, "c13-hist", cases, func(c caseSpec) int { return c.Idx }, workers, r.Pick(8, 25),
		func(l line) {
			if l.Hist == nil {
				return
			}
			hist[l.Hist.Idx] = l.Hist
			addFindings(l.Hist.Findings)
		},
		func(idx int, res proc.Result) {
			// the process running this history died (fatal error / signal): no verdict for the case,
			// the stderr head is kept so that the cause can be read.
			r.Inconclusive("history-process-died")
			r.Set(fmt.Sprintf("died_history_%d", idx), map[string]any{"case": byIdx[idx], "exit": res.Code, "stderr": head(string(res.Err()), 600)})
		})

	// 2. cold reopen of every store that was created and whose history ran to its end
	var colds []coldCase
	for _, c := range cases {
		h := hist[c.Idx]
		if h == nil || !h.Created || h.Baseline == nil || h.Commits == 0 {
			continue
		}
		colds = append(colds, coldCase{Case: c, Baseline: *h.Baseline, Inferred: h.Inferred, ModelCount: h.ModelCount})
	}
	coldSeen := map[int]bool{}
	runChildren(r, logDir, "c13-cold", colds, func(c coldCase) int { return c.Case.Idx }, workers, r.Pick(16, 100),
		func(l line) {
			if l.Cold == nil {
				return
			}
			coldSeen[l.Cold.Idx] = true
			addFindings(l.Cold.Findings)
		},
		func(idx int, res proc.Result) {
			// "Reopening it always yields the original configuration": a process that dies while
			// reopening the store did not yield it.
			coldSeen[idx] = true
			c := byIdx[idx]
			raw, _ := os.ReadFile(filepath.Join(c.Dir, c.Name, "storeinfo.txt"))
			vios = append(vios, vio{fmt.Sprintf("C13:%s:reopen-cold:process-died", c.inputClass()),
				map[string]any{"case": c, "seed": r.Seed, "exit": res.Code, "stderr": head(string(res.Err()), 800), "raw": string(raw), "steps": hist[idx].Steps}})
		})

	// 3. accounting
	sort.SliceStable(vios, func(i, j int) bool { return vios[i].sig < vios[j].sig })
	inputsBySig := map[string][]map[string]string{}
	for _, v := range vios {
		r.Violation(v.sig, v.detail)
		if len(inputsBySig[v.sig]) < 3 {
			switch c := v.detail["case"].(type) {
			case caseSpec:
				inputsBySig[v.sig] = append(inputsBySig[v.sig], map[string]string{"name": c.Name, "description": c.Desc, "profile": c.Profile})
			case map[string]any:
				inputsBySig[v.sig] = append(inputsBySig[v.sig], map[string]string{"name": fmt.Sprint(c["name"]), "description": fmt.Sprint(c["desc"]), "profile": fmt.Sprint(c["profile"])})
			}
		}
	}
	r.Set("violating_inputs_by_signature", inputsBySig)
	var created, rejected, commitErr, panics int64
	classes := map[string]int{}
	for _, c := range cases {
		h := hist[c.Idx]
		if h == nil {
			r.Eval(c.fingerprint(), false)
			continue
		}
		if tr := triggers(c.Name, c.Desc); len(tr) > 0 {
			classes[strings.Join(tr, "+")]++
		} else {
			classes[c.inputClass()]++
		}
		r.Count("commits", int64(h.Commits))
		r.Count("count_changing_commits", int64(h.CountChange))
		r.Count("fast_path_commits", int64(h.FastPath))
		r.Count("disk_observations", int64(h.DiskObs))
		r.Count("warm_observations", int64(h.WarmObs))
		if len(h.Diverged) > 0 {
			// side observation, not judged by C13 (see runHistory)
			r.Count("commits_whose_effect_diverged_from_request", int64(len(h.Diverged)))
			r.Set(fmt.Sprintf("side_observation_diverged_%d", c.Idx), h.Diverged)
		}
		switch {
		case h.Panic != "":
			panics++
			r.Inconclusive("history-panicked")
			r.Set(fmt.Sprintf("panic_history_%d", c.Idx), map[string]any{"case": c, "panic": head(h.Panic, 600)})
		case !h.Created:
			rejected++
			r.Set(fmt.Sprintf("rejected_%d", c.Idx), map[string]any{"name": c.Name, "err": head(h.CreateErr, 200)})
		case h.CommitErr != "":
			commitErr++
			r.Inconclusive("commit-error")
			r.Set(fmt.Sprintf("commit_error_%d", c.Idx), map[string]any{"case": c, "err": head(h.CommitErr, 300)})
		}
		if h.Created {
			created++
		}
		nontrivial := h.Created && h.CountChange >= 2 && h.DiskObs > 0 && h.WarmObs > 0 && coldSeen[c.Idx]
		r.Eval(c.fingerprint(), nontrivial)
		r.Sample(map[string]any{"name": c.Name, "description": c.Desc, "options": c.fingerprint(), "steps": h.Steps, "final_count": h.ModelCount})
	}
	r.Count("stores_created", created)
	r.Count("creations_rejected", rejected)
	r.Count("cold_observations", int64(len(coldSeen)))
	r.Set("input_classes", classes)
	// remove the scratch folders in parallel (1500 small trees take minutes when removed one by one)
	{
		ch := make(chan string, len(cases))
		for _, c := range cases {
			ch <- c.Dir
		}
		close(ch)
		var wg sync.WaitGroup
		for i := 0; i < 16; i++ {
			wg.Add(1)
			go func() {
				defer wg.Done()
				for d := range ch {
					env.Remove(d)
				}
			}()
		}
		wg.Wait()
	}
	if created < int64(len(cases))/2 {
		r.Broken("only %d of %d stores could be created", created, len(cases))
	}
	return r.Finish(rule, assumptions, 20)
}
