// Package c35: session tokens of tools/httpserver cannot be forged, outlive expiry, or survive logout.
//
// tools/httpserver is a `package main`, so the monitors live in /verif/overlay/c35_test.go, which
// `go test -overlay` compiles INTO that package without editing the tree. This driver only writes
// the overlay JSON, runs `go test` as a subprocess (workspace mode: no -mod=mod, no GOWORK=off),
// relays the C35-VIOLATION lines through report.Run (so known-findings matching works), replays the
// measured case classes from the C35-SUMMARY line and rewrites the evidence file in the standard way.
package c35

import (
	"bufio"
	"bytes"
	"context"
	"encoding/json"
	"fmt"
	"os"
	"os/exec"
	"path/filepath"
	"strconv"
	"strings"
	"time"

	"verifharness/kit/env"
	"verifharness/kit/report"
)

const (
	overlaySrc = "/verif/overlay/c35_test.go"
	testName   = "zz_verif_c35_test.go"
)

type summary struct {
	Evaluations     int64            `json:"evaluations"`
	Trivial         int64            `json:"trivial"`
	Fingerprints    map[string]int64 `json:"fingerprints"`
	Samples         []any            `json:"samples"`
	Counters        map[string]int64 `json:"counters"`
	ViolationCounts map[string]int64 `json:"violation_counts"`
	SanityFailures  int              `json:"sanity_failures"`
	Rule            string           `json:"rule"`
	Assumptions     []string         `json:"assumptions"`
	WallS           float64          `json:"wall_s"`
}

const fallbackRule = "go test -overlay of /verif/overlay/c35_test.go inside package main of tools/httpserver (no summary was produced by this run)"

// repoRoot: /repo, or a scratch copy for sensitivity runs (VERIF_C35_REPO).
func repoRoot() string {
	if p := os.Getenv("VERIF_C35_REPO"); p != "" {
		return p
	}
	return "/repo"
}

// gitStatus: tracked/untracked changes under tools/httpserver only (other agents or the maintainer may
// legitimately change other parts of the tree while this check runs).
func gitStatus(repo string) (string, bool) {
	if _, err := os.Stat(filepath.Join(repo, ".git")); err != nil {
		return "", false
	}
	out, err := exec.Command("git", "--no-optional-locks", "-C", repo, "status", "--short", "--", "tools/httpserver").Output()
	if err != nil {
		return "", false
	}
	return string(out), true
}

func Run(r *report.Run) int {
	repo := repoRoot()
	scratch := env.Scratch("c35")
	overlay := filepath.Join(scratch, "overlay.json")
	ob, _ := json.Marshal(map[string]any{"Replace": map[string]string{
		filepath.Join(repo, "tools", "httpserver", testName): overlaySrc,
	}})
	if err := os.WriteFile(overlay, ob, 0o644); err != nil {
		r.Broken("cannot write overlay json: %v", err)
		return r.Finish(fallbackRule, nil, 2)
	}
	gobin := "go1.26.8"
	if _, err := exec.LookPath(gobin); err != nil {
		gobin = "go"
	}
	before, haveGit := gitStatus(repo)

	// environment of the subprocess: workspace mode of the repo => no GOFLAGS=-mod=mod, no GOWORK
	var cenv []string
	for _, kv := range os.Environ() {
		k := kv
		if i := strings.IndexByte(kv, '='); i >= 0 {
			k = kv[:i]
		}
		switch k {
		case "GOFLAGS", "GOWORK", "SOP_SESSION_SECRET", "VERIF_SEED", "VERIF_TIER", "VERIF_C35_DB", "VERIF_C35_EVIDENCE",
			"GOPROXY", "GOSUMDB", "GOTOOLCHAIN":
			continue
		}
		cenv = append(cenv, kv)
	}
	cenv = append(cenv, "GOPROXY=off", "GOSUMDB=off", "GOTOOLCHAIN=local",
		"VERIF_SEED="+strconv.FormatInt(r.Seed, 10), "VERIF_TIER="+r.Tier,
		"VERIF_C35_DB="+filepath.Join(scratch, "db"),
		"VERIF_C35_EVIDENCE="+filepath.Join(report.VerifRoot, "evidence", "C35.json"))

	// hang protection only (never a verdict): a timeout makes the run broken
	limit := time.Duration(r.Pick(8, 30)) * time.Minute
	ctx, cancel := context.WithTimeout(context.Background(), limit)
	defer cancel()
	cmd := exec.CommandContext(ctx, gobin, "test", "-tags", "verif", "-count=1", "-v", "-timeout", limit.String(),
		"-overlay", overlay, "-run", "^TestVerifC35$", "./tools/httpserver")
	cmd.Dir = repo
	cmd.Env = cenv
	var stdout, stderr bytes.Buffer
	cmd.Stdout, cmd.Stderr = &stdout, &stderr
	t0 := time.Now()
	runErr := cmd.Run()
	r.Set("go_test_wall_s", time.Since(t0).Seconds())
	r.Set("go_test_cmd", strings.Join(cmd.Args, " ")+" (cwd "+repo+")")

	var sum *summary
	ran, passed := false, false
	sc := bufio.NewScanner(&stdout)
	sc.Buffer(make([]byte, 1<<20), 64<<20)
	for sc.Scan() {
		line := sc.Text()
		switch {
		case strings.HasPrefix(line, "C35-VIOLATION "):
			rest := strings.TrimPrefix(line, "C35-VIOLATION ")
			sig, det := "", ""
			if i := strings.Index(rest, " detail="); i >= 0 {
				sig, det = strings.TrimPrefix(rest[:i], "signature="), rest[i+len(" detail="):]
			} else {
				sig = strings.TrimPrefix(rest, "signature=")
			}
			var detail any
			if json.Unmarshal([]byte(det), &detail) != nil {
				detail = det
			}
			r.Violation(sig, detail)
			r.Count("violation_lines", 1)
		case strings.HasPrefix(line, "C35-SANITY "):
			r.Broken("monitor precondition failed (verdicts would be vacuous): %s", strings.TrimPrefix(line, "C35-SANITY "))
		case strings.HasPrefix(line, "C35-SUMMARY "):
			var s summary
			if err := json.Unmarshal([]byte(strings.TrimPrefix(line, "C35-SUMMARY ")), &s); err != nil {
				r.Broken("unparsable C35-SUMMARY: %v", err)
			} else {
				sum = &s
			}
		case strings.HasPrefix(line, "=== RUN   TestVerifC35"):
			ran = true
		case strings.HasPrefix(line, "--- PASS: TestVerifC35"):
			passed = true
		}
	}
	tail := func(b []byte) string {
		if len(b) > 3000 {
			b = b[len(b)-3000:]
		}
		return string(b)
	}
	if runErr != nil {
		r.Broken("go test failed (%v); stderr tail: %s; stdout tail: %s", runErr, tail(stderr.Bytes()), tail(stdout.Bytes()))
	} else if !ran || !passed {
		r.Broken("TestVerifC35 did not run to PASS (ran=%v passed=%v); stdout tail: %s", ran, passed, tail(stdout.Bytes()))
	}
	if haveGit {
		if after, ok := gitStatus(repo); ok && after != before {
			r.Broken("the repository tree changed during the run: before=%q after=%q", before, after)
		}
	}
	if sum == nil {
		if runErr == nil {
			r.Broken("no C35-SUMMARY line in the test output")
		}
		return r.Finish(fallbackRule, nil, 2)
	}
	// replay the measured case classes into the run
	for fp, n := range sum.Fingerprints {
		for i := int64(0); i < n; i++ {
			r.Eval(fp, true)
		}
	}
	for i := int64(0); i < sum.Trivial; i++ {
		r.Eval("trivial", false)
	}
	for _, s := range sum.Samples {
		r.Sample(s)
	}
	for k, v := range sum.Counters {
		r.Count(k, v)
	}
	for k, v := range sum.ViolationCounts {
		r.Count("violating_cases:"+k, v)
	}
	r.Set("test_wall_s", sum.WallS)
	if got := fmt.Sprint(sum.Evaluations); got != fmt.Sprint(sumEvals(sum)) {
		r.Broken("summary inconsistent: evaluations=%s but classes+trivial=%d", got, sumEvals(sum))
	}
	return r.Finish(sum.Rule, sum.Assumptions, 60)
}

func sumEvals(s *summary) int64 {
	n := s.Trivial
	for _, v := range s.Fingerprints {
		n += v
	}
	return n
}
