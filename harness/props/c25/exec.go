package c25

// Child-process executor shared by C25 and C26.
//
// The parent writes a batch file (seed + case list), starts `child <role> batch start progress results
// scratch`, and the child appends one line to the progress file BEFORE every case and one JSON line to
// the results file AFTER it. A child that dies (a panic in a library goroutine cannot be recovered by
// the caller) therefore names the case that killed it; the parent records outcome "died" for that case
// and restarts the child at the next one.

import (
	"bufio"
	"bytes"
	"context"
	"crypto/md5"
	"encoding/json"
	"fmt"
	"io/fs"
	"os"
	"path/filepath"
	"regexp"
	"runtime"
	"sort"
	"strconv"
	"strings"
	"sync"
	"time"

	"github.com/sharedcode/sop"
	sopfs "github.com/sharedcode/sop/fs"

	"verifharness/kit/env"
	"verifharness/kit/proc"
	"verifharness/kit/report"
)

// Damage kinds. The shard file observed on disk is <1 pad-count byte><16 byte md5 of the shard><shard>.
const (
	KMissing   = "missing"   // file removed
	KZero      = "zero"      // truncated to 0 bytes
	KShort     = "short"     // truncated to 1..16 bytes (inside the header)
	KEmpty     = "empty"     // truncated to exactly the 17 header bytes
	KTruncated = "truncated" // header intact, shard bytes cut short
	KGrown     = "grown"     // one byte appended
	KCorrupt   = "corrupt"   // bit flip inside the shard bytes
	KBadSum    = "badsum"    // bit flip inside the stored md5
	KBadPad    = "badpad"    // bit flip inside the pad-count byte
)

const HeaderSize = 17 // observed at set-up, not assumed: the child refuses to run if the files look different

// Damage is one change to one shard file.
type Damage struct {
	Shard int    `json:"shard"`
	Kind  string `json:"kind"`
	Len   int    `json:"len,omitempty"` // resulting file length (truncation kinds, grown)
	Off   int    `json:"off,omitempty"` // byte offset inside the shard file (flip kinds)
	Bit   int    `json:"bit,omitempty"` // bit number (flip kinds)
}

// Case is one executable case. Fam: "read" (damage, GetOne), "write" (Add with failing shard writes,
// then GetOne), "repair" (damage, GetOne with repair on, compare files, further damages).
type Case struct {
	Idx    int        `json:"idx"`
	Fam    string     `json:"fam"`
	D      int        `json:"d"`
	P      int        `json:"p"`
	Size   int        `json:"size"`
	Repair bool       `json:"repair"`
	Dmg    []Damage   `json:"dmg,omitempty"`
	Fail   []int      `json:"fail,omitempty"` // write family: shard folders whose write fails
	Mode   string     `json:"mode,omitempty"` // write family: "writefile" | "mkdir"
	More   [][]Damage `json:"more,omitempty"` // repair family: further damage sets, each tried on the post-repair state
}

// ShardDiff says how one shard file differs from the originally written one.
type ShardDiff struct {
	Shard int    `json:"shard"`
	How   string `json:"how"`
}

// MoreResult is the outcome of one further-damage read.
type MoreResult struct {
	Dmg     []Damage `json:"dmg"`
	Outcome string   `json:"outcome"`
	Msg     string   `json:"msg,omitempty"`
}

// Result of one case. Outcome: ok (bytes equal) | error | wrong (different bytes, nil error) |
// panic (recovered on the calling goroutine) | died (the child process was killed by the case).
type Result struct {
	Idx     int    `json:"idx"`
	Outcome string `json:"outcome"`
	Msg     string `json:"msg,omitempty"`
	GotLen  int    `json:"got_len,omitempty"`
	Applied int    `json:"applied"` // damages that really changed a file

	AddNil   bool   `json:"add_nil,omitempty"`
	AddErr   string `json:"add_err,omitempty"`
	Injected int    `json:"injected,omitempty"` // failures the injected FileIO really returned
	OnDisk   int    `json:"on_disk,omitempty"`  // shard files present after Add

	NoRepairOutcome string       `json:"norepair_outcome,omitempty"` // repair family: same damage read with repair off (only when the first read failed)
	Unrepaired      []ShardDiff  `json:"unrepaired,omitempty"`
	More            []MoreResult `json:"more,omitempty"`
	Stderr          string       `json:"stderr,omitempty"` // died: head of the child's stderr
	Phase2          bool         `json:"phase2,omitempty"` // died: the repair-family case had already passed its first read
}

type batchFile struct {
	Seed  int64  `json:"seed"`
	Cases []Case `json:"cases"`
}

// BlobBytes is the blob content of a group: a pure function of seed and (d, p, size).
func BlobBytes(seed int64, d, p, size int) []byte {
	rnd := env.Rand(seed, fmt.Sprintf("c25-blob/%d/%d/%d", d, p, size))
	b := make([]byte, size)
	rnd.Read(b)
	return b
}

func blobID(seed int64, d, p, size int) sop.UUID {
	rnd := env.Rand(seed, fmt.Sprintf("c25-id/%d/%d/%d", d, p, size))
	var id sop.UUID
	rnd.Read(id[:])
	return id
}

// ShardLen is the length of one shard's payload: ceil(size/d).
func ShardLen(d, size int) int { return (size + d - 1) / d }

const table = "tbl"

func init() { proc.Register("c25-batch", ChildMain) }

const exitChildHarness = 3 // NOT 2: the Go runtime exits with 2 on an unrecovered panic

// ---------------------------------------------------------------------------------------------
// child side

type group struct {
	key      string
	d, p     int
	size     int
	dirs     []string
	store    sop.BlobStore // repair flag as requested by the case
	storeNoR sop.BlobStore // same folders, repair off
	id       sop.UUID
	data     []byte
	paths    []string // shard file per folder, discovered by walking the folder
	pristine [][]byte
}

func cfgFor(d, p int, dirs []string, repair bool) map[string]sop.ErasureCodingConfig {
	return map[string]sop.ErasureCodingConfig{table: {
		DataShardsCount: d, ParityShardsCount: p, BaseFolderPathsAcrossDrives: dirs, RepairCorruptedShards: repair,
	}}
}

func payload(id sop.UUID, data []byte) []sop.BlobsPayload[sop.KeyValuePair[sop.UUID, []byte]] {
	return []sop.BlobsPayload[sop.KeyValuePair[sop.UUID, []byte]]{{
		BlobTable: table, Blobs: []sop.KeyValuePair[sop.UUID, []byte]{{Key: id, Value: data}},
	}}
}

func mkDirs(root string, n int) ([]string, error) {
	dirs := make([]string, n)
	for i := range dirs {
		dirs[i] = filepath.Join(root, fmt.Sprintf("drive%d", i))
		if err := os.MkdirAll(dirs[i], 0o755); err != nil {
			return nil, err
		}
	}
	return dirs, nil
}

// filesUnder lists the regular files below dir.
func filesUnder(dir string) []string {
	var out []string
	_ = filepath.WalkDir(dir, func(p string, de fs.DirEntry, err error) error {
		if err == nil && de.Type().IsRegular() {
			out = append(out, p)
		}
		return nil
	})
	sort.Strings(out)
	return out
}

var (
	groupSeq  int
	childBase = 1
)

func setupGroup(seed int64, scratch string, c Case) (*group, error) {
	n := c.D + c.P
	groupSeq++
	root := filepath.Join(scratch, fmt.Sprintf("p%d-g%d", os.Getpid(), groupSeq))
	dirs, err := mkDirs(root, n)
	if err != nil {
		return nil, err
	}
	g := &group{key: GroupKey(c), d: c.D, p: c.P, size: c.Size, dirs: dirs,
		id: blobID(seed, c.D, c.P, c.Size), data: BlobBytes(seed, c.D, c.P, c.Size)}
	if g.store, err = sopfs.NewBlobStoreWithEC(sopfs.DefaultToFilePath, sopfs.NewFileIO(), cfgFor(c.D, c.P, dirs, c.Repair)); err != nil {
		return nil, fmt.Errorf("NewBlobStoreWithEC: %v", err)
	}
	if g.storeNoR, err = sopfs.NewBlobStoreWithEC(sopfs.DefaultToFilePath, sopfs.NewFileIO(), cfgFor(c.D, c.P, dirs, false)); err != nil {
		return nil, fmt.Errorf("NewBlobStoreWithEC: %v", err)
	}
	if err := g.store.Add(context.Background(), payload(g.id, g.data)); err != nil {
		return nil, fmt.Errorf("pristine Add failed: %v", err)
	}
	// Observe the layout: exactly one shard file per drive folder; header = pad count + md5 of the rest.
	s := ShardLen(c.D, c.Size)
	wantPad := (c.D - c.Size%c.D) % c.D
	for i, dir := range dirs {
		fl := filesUnder(dir)
		if len(fl) != 1 {
			return nil, fmt.Errorf("layout: drive %d holds %d files, expected 1: %v", i, len(fl), fl)
		}
		b, err := os.ReadFile(fl[0])
		if err != nil {
			return nil, err
		}
		if len(b) != HeaderSize+s {
			return nil, fmt.Errorf("layout: shard %d file is %d bytes, expected %d+%d", i, len(b), HeaderSize, s)
		}
		sum := md5.Sum(b[HeaderSize:])
		if !bytes.Equal(sum[:], b[1:HeaderSize]) || int(b[0]) != wantPad {
			return nil, fmt.Errorf("layout: shard %d header is not <pad=%d><md5 of shard>", i, wantPad)
		}
		if !strings.HasSuffix(fl[0], fmt.Sprintf("_%d", i)) {
			return nil, fmt.Errorf("layout: shard file %s in drive %d does not end in _%d", fl[0], i, i)
		}
		g.paths = append(g.paths, fl[0])
		g.pristine = append(g.pristine, b)
	}
	// The data shards, concatenated and cut to size, are the blob (systematic code): cross-check of our reading of the format.
	var cat []byte
	for i := 0; i < c.D; i++ {
		cat = append(cat, g.pristine[i][HeaderSize:]...)
	}
	if !bytes.Equal(cat[:c.Size], g.data) {
		return nil, fmt.Errorf("layout: data shards do not concatenate to the blob")
	}
	return g, nil
}

// GroupKey names the (d, p, size, repair) group of a case.
func GroupKey(c Case) string { return fmt.Sprintf("%d/%d/%d/%v", c.D, c.P, c.Size, c.Repair) }

// damaged returns the bytes a damage turns `cur` into (nil, true = remove the file).
func damaged(cur []byte, present bool, dm Damage) (out []byte, remove bool, err error) {
	switch dm.Kind {
	case KMissing:
		return nil, true, nil
	case KZero, KShort, KEmpty, KTruncated:
		if !present || dm.Len >= len(cur) {
			return cur, !present, nil // nothing left to cut: no-op on an already shorter/missing file
		}
		return append([]byte{}, cur[:dm.Len]...), false, nil
	case KGrown:
		if !present {
			return cur, true, nil
		}
		return append(append([]byte{}, cur...), 0x5a), false, nil
	case KCorrupt, KBadSum, KBadPad:
		if !present || dm.Off >= len(cur) {
			return cur, !present, nil
		}
		b := append([]byte{}, cur...)
		b[dm.Off] ^= 1 << uint(dm.Bit)
		return b, false, nil
	}
	return nil, false, fmt.Errorf("unknown damage kind %q", dm.Kind)
}

func readState(path string) ([]byte, bool) {
	b, err := os.ReadFile(path)
	if err != nil {
		return nil, false
	}
	return b, true
}

func writeState(path string, b []byte, present bool) error {
	if !present {
		err := os.Remove(path)
		if err != nil && !os.IsNotExist(err) {
			return err
		}
		return nil
	}
	return putFile(path, b)
}

// putFile makes the file hold exactly b. It overwrites in place and only changes the length when
// needed (fewer journalled metadata operations than truncate-and-rewrite; the scratch disk is shared).
func putFile(path string, b []byte) error {
	f, err := os.OpenFile(path, os.O_WRONLY|os.O_CREATE, 0o644)
	if err != nil {
		return err
	}
	defer f.Close()
	st, err := f.Stat()
	if err != nil {
		return err
	}
	if st.Size() != int64(len(b)) {
		if err := f.Truncate(int64(len(b))); err != nil {
			return err
		}
	}
	if len(b) > 0 {
		if _, err := f.WriteAt(b, 0); err != nil {
			return err
		}
	}
	return nil
}

// applyDamage changes the files; returns how many files really changed.
func (g *group) applyDamage(dmg []Damage) (int, error) {
	applied := 0
	for _, dm := range dmg {
		if dm.Shard < 0 || dm.Shard >= len(g.paths) {
			return applied, fmt.Errorf("damage names shard %d of %d", dm.Shard, len(g.paths))
		}
		cur, present := readState(g.paths[dm.Shard])
		out, remove, err := damaged(cur, present, dm)
		if err != nil {
			return applied, err
		}
		if (remove && !present) || (!remove && present && bytes.Equal(out, cur)) {
			continue // no change
		}
		if err := writeState(g.paths[dm.Shard], out, !remove); err != nil {
			return applied, err
		}
		applied++
	}
	return applied, nil
}

func (g *group) restorePristine(shards []int) error {
	for _, i := range shards {
		if err := putFile(g.paths[i], g.pristine[i]); err != nil {
			return err
		}
	}
	return nil
}

// removeExtras deletes files in the drive folders that are not the shard files found at set-up
// (a repair that writes into the wrong place must not leak into the next case).
func (g *group) removeExtras() {
	for i, dir := range g.dirs {
		for _, f := range filesUnder(dir) {
			if f != g.paths[i] {
				os.Remove(f)
			}
		}
	}
}

func allShards(n int) []int {
	s := make([]int, n)
	for i := range s {
		s[i] = i
	}
	return s
}

// get calls GetOne and classifies the outcome. A panic on the calling goroutine is recovered and
// reported as "panic" (a caller that does not recover dies); a panic on a library goroutine kills
// this child and is seen by the parent.
func get(st sop.BlobStore, id sop.UUID, want []byte) (outcome, msg string, gotLen int) {
	var got []byte
	var err error
	func() {
		defer func() {
			if x := recover(); x != nil {
				outcome, msg = "panic", fmt.Sprint(x)
			}
		}()
		got, err = st.GetOne(context.Background(), table, id)
	}()
	settle()
	switch {
	case outcome == "panic":
		return
	case err != nil:
		return "error", err.Error(), 0
	case bytes.Equal(got, want):
		return "ok", "", len(got)
	}
	return "wrong", fmt.Sprintf("got %d bytes, stored %d bytes, first difference at %d", len(got), len(want), firstDiff(got, want)), len(got)
}

// settle waits until the goroutines the library call started are gone. A worker goroutine that
// panics first runs errgroup's deferred Done (so GetOne returns normally, with that shard treated
// as unreadable) and only then kills the process; without this wait the death would be logged
// against the NEXT case. A dying goroutine never leaves, so the child simply dies in here.
// The base line is the goroutine count at child start, before any library call.
// Not part of any verdict: if something else keeps a goroutine alive the wait gives up after ~3 s.
func settle() {
	for i := 0; runtime.NumGoroutine() > childBase && i < 30000; i++ {
		if i < 100 {
			runtime.Gosched()
		} else {
			time.Sleep(100 * time.Microsecond)
		}
	}
}

func firstDiff(a, b []byte) int {
	n := min(len(a), len(b))
	for i := 0; i < n; i++ {
		if a[i] != b[i] {
			return i
		}
	}
	return n
}

func (g *group) diffFromPristine() []ShardDiff {
	var out []ShardDiff
	for i, p := range g.paths {
		cur, present := readState(p)
		switch {
		case !present:
			out = append(out, ShardDiff{i, "missing"})
		case len(cur) != len(g.pristine[i]):
			out = append(out, ShardDiff{i, fmt.Sprintf("length %d, written %d", len(cur), len(g.pristine[i]))})
		case !bytes.Equal(cur, g.pristine[i]):
			out = append(out, ShardDiff{i, fmt.Sprintf("differs at byte %d", firstDiff(cur, g.pristine[i]))})
		}
	}
	// A shard of this blob written into the wrong place would show up as an extra file.
	for i, dir := range g.dirs {
		if fl := filesUnder(dir); len(fl) > 1 || (len(fl) == 1 && fl[0] != g.paths[i]) {
			out = append(out, ShardDiff{i, fmt.Sprintf("unexpected files in drive folder: %v", fl)})
		}
	}
	return out
}

func (g *group) runRead(c Case) (Result, error) {
	res := Result{Idx: c.Idx}
	var touched []int
	for _, dm := range c.Dmg {
		touched = append(touched, dm.Shard)
	}
	n, err := g.applyDamage(c.Dmg)
	if err != nil {
		return res, err
	}
	res.Applied = n
	res.Outcome, res.Msg, res.GotLen = get(g.store, g.id, g.data)
	if c.Repair {
		touched = allShards(len(g.paths))
		g.removeExtras()
	}
	return res, g.restorePristine(touched)
}

func (g *group) runRepair(c Case, pos int, prog *os.File) (Result, error) {
	res := Result{Idx: c.Idx}
	n, err := g.applyDamage(c.Dmg)
	if err != nil {
		return res, err
	}
	res.Applied = n
	res.Outcome, res.Msg, res.GotLen = get(g.store, g.id, g.data)
	all := allShards(len(g.paths))
	if res.Outcome != "ok" {
		// Precondition of C26 (a successful read) not met. Tell apart "the read fails anyway" (C25's
		// business) from "the read fails only because repair is on".
		if err := g.restorePristine(all); err != nil {
			return res, err
		}
		if _, err := g.applyDamage(c.Dmg); err != nil {
			return res, err
		}
		res.NoRepairOutcome, _, _ = get(g.storeNoR, g.id, g.data)
		g.removeExtras()
		return res, g.restorePristine(all)
	}
	res.Unrepaired = g.diffFromPristine()
	appendLine(prog, fmt.Sprintf("PHASE2 %d first read ok, %d shard files differ from the written ones", pos, len(res.Unrepaired)))
	// Snapshot the post-repair state; every further-damage set starts from it.
	type st struct {
		b       []byte
		present bool
	}
	post := make([]st, len(g.paths))
	for i, p := range g.paths {
		post[i].b, post[i].present = readState(p)
	}
	for _, more := range c.More {
		if _, err := g.applyDamage(more); err != nil {
			return res, err
		}
		o, m, _ := get(g.store, g.id, g.data)
		res.More = append(res.More, MoreResult{Dmg: more, Outcome: o, Msg: m})
		for i, p := range g.paths {
			if err := writeState(p, post[i].b, post[i].present); err != nil {
				return res, err
			}
		}
	}
	g.removeExtras()
	return res, g.restorePristine(all)
}

// failIO fails shard writes below chosen drive folders; everything else is the real FileIO.
type failIO struct {
	sopfs.FileIO
	prefixes []string
	mode     string
	mu       sync.Mutex
	injected int
}

func (f *failIO) hit(name string) bool {
	for _, p := range f.prefixes {
		if strings.HasPrefix(name, p+string(os.PathSeparator)) {
			f.mu.Lock()
			f.injected++
			f.mu.Unlock()
			return true
		}
	}
	return false
}

func (f *failIO) WriteFile(ctx context.Context, name string, data []byte, perm os.FileMode) error {
	if f.mode == "writefile" && f.hit(name) {
		return fmt.Errorf("verif: injected shard write failure: %s", name)
	}
	return f.FileIO.WriteFile(ctx, name, data, perm)
}

func (f *failIO) MkdirAll(ctx context.Context, path string, perm os.FileMode) error {
	if f.mode == "mkdir" && f.hit(path) {
		return fmt.Errorf("verif: injected shard folder creation failure: %s", path)
	}
	return f.FileIO.MkdirAll(ctx, path, perm)
}

func runWrite(seed int64, scratch string, c Case) (Result, error) {
	res := Result{Idx: c.Idx}
	groupSeq++
	root := filepath.Join(scratch, fmt.Sprintf("p%d-w%d", os.Getpid(), groupSeq))
	defer os.RemoveAll(root)
	dirs, err := mkDirs(root, c.D+c.P)
	if err != nil {
		return res, err
	}
	fio := &failIO{FileIO: sopfs.NewFileIO(), mode: c.Mode}
	for _, i := range c.Fail {
		fio.prefixes = append(fio.prefixes, dirs[i])
	}
	st, err := sopfs.NewBlobStoreWithEC(sopfs.DefaultToFilePath, fio, cfgFor(c.D, c.P, dirs, c.Repair))
	if err != nil {
		return res, err
	}
	id, data := blobID(seed, c.D, c.P, c.Size), BlobBytes(seed, c.D, c.P, c.Size)
	var addErr error
	func() {
		defer func() {
			if x := recover(); x != nil {
				res.Outcome, res.Msg = "panic", "Add: "+fmt.Sprint(x)
			}
		}()
		addErr = st.Add(context.Background(), payload(id, data))
	}()
	settle()
	if res.Outcome == "panic" {
		return res, nil
	}
	res.AddNil = addErr == nil
	if addErr != nil {
		res.AddErr = addErr.Error()
	}
	res.Injected = fio.injected
	for _, d := range dirs {
		res.OnDisk += len(filesUnder(d))
	}
	if addErr == nil {
		// Read back through a store with the plain FileIO: what a later reader would see.
		rd, err := sopfs.NewBlobStoreWithEC(sopfs.DefaultToFilePath, sopfs.NewFileIO(), cfgFor(c.D, c.P, dirs, false))
		if err != nil {
			return res, err
		}
		res.Outcome, res.Msg, res.GotLen = get(rd, id, data)
	} else {
		res.Outcome = "add-error"
	}
	return res, nil
}

func appendLine(f *os.File, s string) error {
	_, err := f.WriteString(s + "\n")
	return err
}

// ChildMain: args = batchFile startPos progressFile resultsFile scratchDir.
func ChildMain(args []string) int {
	if len(args) != 5 {
		fmt.Fprintln(os.Stderr, "c25 child: bad arguments")
		return exitChildHarness
	}
	fail := func(format string, a ...any) int {
		fmt.Fprintf(os.Stderr, "HARNESS: "+format+"\n", a...)
		return exitChildHarness
	}
	raw, err := os.ReadFile(args[0])
	if err != nil {
		return fail("%v", err)
	}
	var bf batchFile
	if err := json.Unmarshal(raw, &bf); err != nil {
		return fail("%v", err)
	}
	start, _ := strconv.Atoi(args[1])
	prog, err := os.OpenFile(args[2], os.O_APPEND|os.O_CREATE|os.O_WRONLY, 0o644)
	if err != nil {
		return fail("%v", err)
	}
	out, err := os.OpenFile(args[3], os.O_APPEND|os.O_CREATE|os.O_WRONLY, 0o644)
	if err != nil {
		return fail("%v", err)
	}
	scratch := args[4]
	childBase = runtime.NumGoroutine()
	// Leftovers of a predecessor that died in this batch's folder are dropped first.
	os.RemoveAll(scratch)
	if err := os.MkdirAll(scratch, 0o755); err != nil {
		return fail("%v", err)
	}
	var g *group
	for pos := start; pos < len(bf.Cases); pos++ {
		c := bf.Cases[pos]
		var res Result
		if c.Fam == "write" {
			d, _ := json.Marshal(c)
			appendLine(prog, fmt.Sprintf("START %d %s", pos, d))
			res, err = runWrite(bf.Seed, scratch, c)
		} else {
			if g == nil || g.key != GroupKey(c) {
				appendLine(prog, fmt.Sprintf("SETUP %d %s", pos, GroupKey(c)))
				if g != nil {
					os.RemoveAll(filepath.Dir(g.dirs[0]))
				}
				if g, err = setupGroup(bf.Seed, scratch, c); err != nil {
					return fail("set-up of group %s: %v", GroupKey(c), err)
				}
			}
			d, _ := json.Marshal(c)
			appendLine(prog, fmt.Sprintf("START %d %s", pos, d))
			if c.Fam == "repair" {
				res, err = g.runRepair(c, pos, prog)
			} else {
				res, err = g.runRead(c)
			}
		}
		if err != nil {
			return fail("case %d: %v", pos, err)
		}
		b, _ := json.Marshal(res)
		if err := appendLine(out, string(b)); err != nil {
			return fail("%v", err)
		}
	}
	return 0
}

// ---------------------------------------------------------------------------------------------
// parent side

var reCrash = regexp.MustCompile(`(?m)^(panic: .*|fatal error: .*)$`)

// Exec runs the cases in child processes (batches in parallel) and returns one Result per case,
// indexed like cases. Cases whose child timed out are left with Outcome "" and counted inconclusive.
func Exec(r *report.Run, role string, cases []Case, batchSize int) []Result {
	for i := range cases {
		cases[i].Idx = i
	}
	results := make([]Result, len(cases))
	logDir := env.Scratch(strings.ToLower(r.ID) + "-log")
	scratch := env.Scratch(strings.ToLower(r.ID) + "-data")

	// Batches never split a group more than needed: cut at batchSize, cases are already ordered by group.
	type batch struct{ lo, hi int }
	var batches []batch
	for lo := 0; lo < len(cases); lo += batchSize {
		batches = append(batches, batch{lo, min(lo+batchSize, len(cases))})
	}
	workers := min(runtime.NumCPU(), 12)
	if workers < 1 {
		workers = 1
	}
	var wg sync.WaitGroup
	ch := make(chan int)
	var deaths, children int64
	var mu sync.Mutex
	for w := 0; w < workers; w++ {
		wg.Add(1)
		go func() {
			defer wg.Done()
			for bi := range ch {
				b := batches[bi]
				sub := cases[b.lo:b.hi]
				bfile := filepath.Join(logDir, fmt.Sprintf("batch-%d.json", bi))
				raw, _ := json.Marshal(batchFile{Seed: r.Seed, Cases: sub})
				if err := os.WriteFile(bfile, raw, 0o644); err != nil {
					r.Broken("cannot write batch file: %v", err)
					continue
				}
				prog := filepath.Join(logDir, fmt.Sprintf("batch-%d.progress", bi))
				resf := filepath.Join(logDir, fmt.Sprintf("batch-%d.results", bi))
				pos := 0
				for pos < len(sub) {
					pr := proc.Run(logDir, 300, []string{"GOMAXPROCS=2"}, role, bfile, strconv.Itoa(pos), prog, resf, filepath.Join(scratch, fmt.Sprintf("b%d", bi)))
					mu.Lock()
					children++
					mu.Unlock()
					if pr.Code == 0 {
						break
					}
					stderr := string(pr.Err())
					if pr.Code == proc.ExitTimeout {
						r.Inconclusive("child timeout")
						break
					}
					crash := reCrash.FindString(stderr)
					lastKind, lastPos := lastProgress(prog)
					if pr.Code == exitChildHarness || crash == "" || (lastKind != "START" && lastKind != "PHASE2") || lastPos < pos {
						r.Broken("child of batch %d ended with code %d at %s %d: %s", bi, pr.Code, lastKind, lastPos, head(stderr, 600))
						break
					}
					// The child died inside case lastPos.
					mu.Lock()
					deaths++
					mu.Unlock()
					results[b.lo+lastPos] = Result{Idx: b.lo + lastPos, Outcome: "died", Msg: crash, Applied: -1, Stderr: head(stderr, 1500), Phase2: lastKind == "PHASE2"}
					pos = lastPos + 1
					os.Remove(pr.Stdout)
					os.Remove(pr.Stderr)
				}
				// Collect what the children wrote.
				f, err := os.Open(resf)
				if err != nil {
					continue
				}
				sc := bufio.NewScanner(f)
				sc.Buffer(make([]byte, 1<<20), 1<<26)
				for sc.Scan() {
					var res Result
					if json.Unmarshal(sc.Bytes(), &res) == nil && res.Idx >= b.lo && res.Idx < b.hi {
						results[res.Idx] = res
					}
				}
				f.Close()
			}
		}()
	}
	for bi := range batches {
		ch <- bi
	}
	close(ch)
	wg.Wait()
	r.Count("child_processes", children)
	r.Count("child_deaths", deaths)
	missing := 0
	for i := range results {
		if results[i].Outcome == "" {
			missing++
		}
	}
	if missing > 0 {
		r.Count("cases_without_result", int64(missing))
	}
	env.Remove(scratch)
	env.Remove(logDir)
	return results
}

func lastProgress(path string) (kind string, pos int) {
	b, err := os.ReadFile(path)
	if err != nil {
		return "", -1
	}
	lines := strings.Split(strings.TrimRight(string(b), "\n"), "\n")
	f := strings.SplitN(lines[len(lines)-1], " ", 3)
	if len(f) < 2 {
		return "", -1
	}
	pos, err = strconv.Atoi(f[1])
	if err != nil {
		return "", -1
	}
	return f[0], pos
}

func head(s string, n int) string {
	if len(s) > n {
		return s[:n] + "…"
	}
	return s
}
