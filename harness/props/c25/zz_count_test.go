package c25

import (
	"fmt"
	"testing"

	"verifharness/kit/report"
)

func TestCount(t *testing.T) {
	for _, tier := range []string{"quick", "thorough"} {
		r := report.New("C25", "x", tier)
		cases, _ := genCases(r)
		m := map[string]int{}
		lethal := 0
		for _, c := range cases {
			k := fmt.Sprintf("%s repair=%v sizeIdx=%v", c.Fam, c.Repair, c.Size == c.D+1)
			m[k]++
			for _, d := range c.Dmg {
				if d.Kind == KZero || d.Kind == KShort {
					lethal++
					break
				}
			}
		}
		fmt.Println(tier, len(cases), "lethal", lethal, m)
	}
}
