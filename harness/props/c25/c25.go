// Package c25: erasure-coded blobs survive up to the configured number of damaged shards.
//
// Real code under observation: fs.NewBlobStoreWithEC(...).Add / GetOne over d+p scratch "drive"
// folders. The check writes a blob, looks at the shard files the library produced (one per drive,
// <pad byte><md5><shard>), damages a chosen subset of them in chosen ways, reads the blob back and
// compares with the stored bytes. Shard-write failures are injected through a wrapping fs.FileIO.
// Every case runs in a child process that logs the case before running it, because a panic on one
// of GetOne's worker goroutines cannot be recovered by any caller.
//
// Oracle (the statement, nothing more):
//
//	k <= p damaged shards  => GetOne returns exactly the stored bytes
//	k >  p damaged shards  => GetOne returns an error, or the stored bytes; never other bytes
//	always                 => no panic / process death
//	Add returns nil        <=> at most p shard writes failed (and then the blob reads back)
package c25

import (
	"fmt"
	"regexp"
	"sort"
	"strings"
	"time"

	"verifharness/kit/env"
	"verifharness/kit/report"
)

// Config is one (data, parity) pair.
type Config struct{ D, P int }

func (c Config) String() string { return fmt.Sprintf("d%dp%d", c.D, c.P) }

// AllConfigs is the stated domain {1..4} x {1..3}.
func AllConfigs() []Config {
	var out []Config
	for d := 1; d <= 4; d++ {
		for p := 1; p <= 3; p++ {
			out = append(out, Config{d, p})
		}
	}
	return out
}

// ProductKinds are the damage kinds combined freely in the subset x kind product.
var ProductKinds = []string{KMissing, KShort, KEmpty, KTruncated, KCorrupt, KBadSum, KBadPad}

// BodyKinds are the kinds that leave the 17 header bytes in place.
var BodyKinds = []string{KMissing, KEmpty, KTruncated, KCorrupt, KBadSum, KBadPad}

// MkDamage returns the representative damage of a kind for one shard; ok=false when the kind does
// not exist for this geometry (a 1-byte shard cannot be cut "partially"). All parameters are fixed
// functions of the geometry, so the product has the same shape for every seed (the seed drives the
// blob content, one data-flip position per shard in the sweep, and the sampled mixed assignments).
func MkDamage(seed int64, d, p, size, shard int, kind string) (Damage, bool) {
	s := ShardLen(d, size)
	dm := Damage{Shard: shard, Kind: kind}
	switch kind {
	case KMissing:
	case KZero:
		dm.Len = 0
	case KShort:
		dm.Len = 9
	case KEmpty:
		dm.Len = HeaderSize
	case KTruncated:
		if s < 2 {
			return dm, false
		}
		dm.Len = HeaderSize + s/2
	case KGrown:
		dm.Len = HeaderSize + s + 1
	case KCorrupt:
		// a different byte column per shard whenever the shard has more than one byte
		dm.Off, dm.Bit = HeaderSize+(shard*7+3)%s, (shard*3+1)%8
	case KBadSum:
		dm.Off, dm.Bit = 1+(shard*5+2)%(HeaderSize-1), (shard*3+2)%8
	case KBadPad:
		dm.Off, dm.Bit = 0, 0
	default:
		return dm, false
	}
	return dm, true
}

// DmgKey is the canonical text of a damage list (sorted by shard).
func DmgKey(dmg []Damage) string {
	s := append([]Damage{}, dmg...)
	sort.Slice(s, func(i, j int) bool { return s[i].Shard < s[j].Shard })
	var b strings.Builder
	for i, d := range s {
		if i > 0 {
			b.WriteByte(',')
		}
		fmt.Fprintf(&b, "%d:%s", d.Shard, d.Kind)
		switch d.Kind {
		case KZero, KShort, KEmpty, KTruncated, KGrown:
			fmt.Fprintf(&b, "@%d", d.Len)
		case KCorrupt, KBadSum, KBadPad:
			fmt.Fprintf(&b, "@%d.%d", d.Off, d.Bit)
		}
	}
	return b.String()
}

// KindSet is the sorted set of kinds in a damage list, joined by "+".
func KindSet(dmg []Damage) string {
	m := map[string]bool{}
	for _, d := range dmg {
		m[d.Kind] = true
	}
	var ks []string
	for k := range m {
		ks = append(ks, k)
	}
	sort.Strings(ks)
	if len(ks) == 0 {
		return "none"
	}
	return strings.Join(ks, "+")
}

// SigKinds names the damage class of a violation signature from its smallest culprit. It is KindSet
// with the kinds that reach the same code site folded together, so that one root cause gets one
// signature (the evidence detail keeps the literal kinds):
//   - zero -> short: any file shorter than the 17 header bytes is sliced at the same line;
//   - truncated, grown -> wronglen: a shard whose header is in place but whose length differs from its
//     siblings' ("empty" = exactly the header stays apart: the coder takes a 0-length shard as absent);
//   - for the outcome "wrong-bytes", missing shards are left out of the name when another kind is
//     present: an absent file contributes no bytes, it only removes redundancy or makes the decoder
//     look at the next shard, and the kind that supplied the wrong bytes is the one to name;
//   - a culprit that needs a pad-count flip to produce wrong bytes or a panic is named "badpad" alone.
func SigKinds(dmg []Damage, class string) string {
	m := map[string]bool{}
	for _, d := range dmg {
		k := d.Kind
		switch k {
		case KZero:
			k = KShort
		case KTruncated, KGrown:
			k = "wronglen"
		}
		m[k] = true
	}
	if class == "wrong-bytes" && len(m) > 1 {
		delete(m, KMissing)
	}
	if (class == "wrong-bytes" || class == "panic") && m[KBadPad] {
		// The culprit is minimal, so the pad-count flip is necessary for the violation. The pad count is
		// the one byte of a shard file that no checksum covers; whatever else is damaged can only have
		// taken away the shards whose (good) pad count would have been used instead.
		m = map[string]bool{KBadPad: true}
	}
	var ks []string
	for k := range m {
		ks = append(ks, k)
	}
	sort.Strings(ks)
	if len(ks) == 0 {
		return "none"
	}
	return strings.Join(ks, "+")
}

// Subsets returns every k-element subset of {0..n-1} in lexicographic order.
func Subsets(n, k int) [][]int {
	var out [][]int
	cur := make([]int, 0, k)
	var rec func(start int)
	rec = func(start int) {
		if len(cur) == k {
			out = append(out, append([]int{}, cur...))
			return
		}
		for i := start; i < n; i++ {
			cur = append(cur, i)
			rec(i + 1)
			cur = cur[:len(cur)-1]
		}
	}
	rec(0)
	return out
}

// CaseSet collects damage lists of one group without duplicates, closed under taking sub-lists
// (so that for every failing case its smaller sub-damages were run too and the smallest culprit
// can be named).
type CaseSet struct {
	seen map[string]bool
	List [][]Damage
}

func NewCaseSet() *CaseSet { return &CaseSet{seen: map[string]bool{}} }

func (cs *CaseSet) add1(dmg []Damage) {
	k := DmgKey(dmg)
	if cs.seen[k] {
		return
	}
	cs.seen[k] = true
	cs.List = append(cs.List, append([]Damage{}, dmg...))
}

// Add inserts dmg and all its non-empty proper sub-lists.
func (cs *CaseSet) Add(dmg []Damage) {
	n := len(dmg)
	for mask := 1; mask < 1<<n; mask++ {
		var sub []Damage
		for i := 0; i < n; i++ {
			if mask&(1<<i) != 0 {
				sub = append(sub, dmg[i])
			}
		}
		cs.add1(sub)
	}
}

// Product fills cs with: every subset of at most maxK shards x every assignment of kinds when that
// is at most budget lists; otherwise every subset x every uniform assignment (all shards the same
// kind), and - when samples > 0 - every ordered pair of kinds on three fixed shard pairs plus `samples`
// seed-chosen mixed assignments per subset. Returns whether the product was complete.
func Product(cs *CaseSet, seed int64, c Config, size, maxK int, kinds []string, budget, samples int) bool {
	n := c.D + c.P
	var usable []string
	for _, k := range kinds {
		if _, ok := MkDamage(seed, c.D, c.P, size, 0, k); ok {
			usable = append(usable, k)
		}
	}
	total := 0
	for k := 1; k <= maxK; k++ {
		t := len(Subsets(n, k))
		for i := 0; i < k; i++ {
			t *= len(usable)
		}
		total += t
	}
	mk := func(sub []int, pick func(i int) string) []Damage {
		out := make([]Damage, len(sub))
		for i, sh := range sub {
			out[i], _ = MkDamage(seed, c.D, c.P, size, sh, pick(i))
		}
		return out
	}
	full := total <= budget
	rnd := env.Rand(seed, fmt.Sprintf("c25-sample/%d/%d/%d", c.D, c.P, size))
	for k := 1; k <= maxK; k++ {
		for _, sub := range Subsets(n, k) {
			if full {
				idx := make([]int, k)
				for {
					cs.add1(mk(sub, func(i int) string { return usable[idx[i]] }))
					j := k - 1
					for ; j >= 0; j-- {
						idx[j]++
						if idx[j] < len(usable) {
							break
						}
						idx[j] = 0
					}
					if j < 0 {
						break
					}
				}
				continue
			}
			for _, kind := range usable {
				cs.Add(mk(sub, func(int) string { return kind }))
			}
			// every ordered pair of kinds on three fixed shard pairs: first two, first+last, last data+first parity
			if samples > 0 && k == 2 && ((sub[0] == 0 && (sub[1] == 1 || sub[1] == n-1)) || (sub[0] == c.D-1 && sub[1] == c.D)) {
				for _, a := range usable {
					for _, b := range usable {
						cs.Add(mk(sub, func(i int) string { return []string{a, b}[i] }))
					}
				}
			}
			if k > 1 {
				for s := 0; s < samples; s++ {
					pick := make([]string, k)
					for i := range pick {
						pick[i] = usable[rnd.Intn(len(usable))]
					}
					cs.Add(mk(sub, func(i int) string { return pick[i] }))
				}
			}
		}
	}
	return full
}

// Sweep: one damaged shard (always within parity, p >= 1), many parameter values of each kind, for
// every shard index. cutLens are the truncation lengths below the 17 header bytes to include (each
// of them kills the reading process on the unchanged library, so their number is bounded by the
// caller); allBody adds every length from 17 to the full length; lean (quick tier) keeps 3 of the 8
// pad-byte bits and 2 of the 3 md5/data flip positions.
func Sweep(cs *CaseSet, seed int64, c Config, size int, cutLens []int, allBody, lean bool) {
	s := ShardLen(c.D, size)
	full := HeaderSize + s
	for sh := 0; sh < c.D+c.P; sh++ {
		cs.add1([]Damage{{Shard: sh, Kind: KMissing}})
		lens := map[int]bool{HeaderSize: true, HeaderSize + 1: true, HeaderSize + s/2: true, full - 1: true}
		if !lean || sh == 0 || sh == c.D || sh == c.D+c.P-1 { // quick: first data, first parity, last shard
			for _, l := range cutLens {
				lens[l] = true
			}
		}
		if allBody {
			for l := HeaderSize; l < full; l++ {
				lens[l] = true
			}
		}
		var ll []int
		for l := range lens {
			if l >= 0 && l < full {
				ll = append(ll, l)
			}
		}
		sort.Ints(ll)
		for _, l := range ll {
			kind := KTruncated
			switch {
			case l == 0:
				kind = KZero
			case l < HeaderSize:
				kind = KShort
			case l == HeaderSize:
				kind = KEmpty
			}
			cs.add1([]Damage{{Shard: sh, Kind: kind, Len: l}})
		}
		cs.add1([]Damage{{Shard: sh, Kind: KGrown, Len: full + 1}})
		for bit := 0; bit < 8; bit++ {
			if lean && bit > 1 && bit < 7 {
				continue
			}
			cs.add1([]Damage{{Shard: sh, Kind: KBadPad, Off: 0, Bit: bit}})
		}
		rnd := env.Rand(seed, fmt.Sprintf("c25-sweep/%d/%d/%d/%d", c.D, c.P, size, sh))
		sums := [][2]int{{1, 0}, {16, 7}, {8, 3}}
		data := [][2]int{{HeaderSize, 0}, {HeaderSize + rnd.Intn(s), rnd.Intn(8)}, {full - 1, 7}}
		if lean {
			sums, data = sums[:2], data[:2]
		}
		for _, ob := range sums {
			cs.add1([]Damage{{Shard: sh, Kind: KBadSum, Off: ob[0], Bit: ob[1]}})
		}
		for _, ob := range data {
			cs.add1([]Damage{{Shard: sh, Kind: KCorrupt, Off: ob[0], Bit: ob[1]}})
		}
	}
}

// SizeList: sizes around multiples of d, a few mid sizes, and up to 64 KiB + 1.
func SizeList(d int, thorough bool) []int {
	var raw []int
	if thorough {
		raw = []int{1, d - 1, d, d + 1, 2*d - 1, 2 * d, 2*d + 1, 255, 4096, 4097, 65535, 65536, 65537}
	} else {
		raw = []int{1, d + 1, 2 * d, 65537}
	}
	seen := map[int]bool{}
	var out []int
	for _, s := range raw {
		if s > 0 && !seen[s] {
			seen[s] = true
			out = append(out, s)
		}
	}
	sort.Ints(out)
	return out
}

// SizeClass: multiple of d or not; 1-byte shards; big.
func SizeClass(d, size int) string {
	c := "nonmult"
	if size%d == 0 {
		c = "mult"
	}
	switch {
	case size <= d:
		c += "-1byteShard"
	case size >= 4096:
		c += "-big"
	}
	return c
}

var (
	reDigits = regexp.MustCompile(`[0-9]+`)
	rePath   = regexp.MustCompile(`/[^\s:,]+`)
)

// MsgClass strips paths and numbers from an error/panic text.
func MsgClass(s string) string {
	if i := strings.IndexByte(s, '\n'); i >= 0 {
		s = s[:i]
	}
	return reDigits.ReplaceAllString(rePath.ReplaceAllString(s, "<path>"), "#")
}

type verdict struct {
	c       Case
	res     Result
	class   string // panic | wrong-bytes | error
	culprit []Damage
	sig     string
}

func outcomeClass(o string) string {
	switch o {
	case "panic", "died":
		return "panic"
	case "wrong":
		return "wrong-bytes"
	case "error":
		return "error"
	}
	return o
}

// Emitter reports violations smallest-first with a cap per signature (the rest is counted).
type Emitter struct {
	r     *report.Run
	items []emit
}

type emit struct {
	sig    string
	weight int
	detail any
	brief  string
}

func NewEmitter(r *report.Run) *Emitter { return &Emitter{r: r} }

func (e *Emitter) Add(sig string, weight int, detail any, brief string) {
	e.items = append(e.items, emit{sig, weight, detail, brief})
}

// Flush emits at most perSig violations per signature, smallest weight first; all are counted.
func (e *Emitter) Flush(perSig int) {
	sort.SliceStable(e.items, func(i, j int) bool {
		if e.items[i].sig != e.items[j].sig {
			return e.items[i].sig < e.items[j].sig
		}
		return e.items[i].weight < e.items[j].weight
	})
	by := map[string]int{}
	smallest := map[string]string{}
	for _, it := range e.items {
		by[it.sig]++
		if by[it.sig] == 1 {
			smallest[it.sig] = it.brief
		}
		if by[it.sig] <= perSig {
			e.r.Violation(it.sig, it.detail)
		}
	}
	e.r.Set("violating_cases_by_signature", by)
	e.r.Set("smallest_case_by_signature", smallest)
	e.r.Count("violating_cases", int64(len(e.items)))
}

const (
	rule = "case = (d,p) in {1..4}x{1..3} x blob size x set of damaged shard files x damage kind per shard [x repair flag], or (d,p) x size x set of failing shard writes x failure mode. " +
		"Enumerated per (d,p,size): a single-shard sweep for every shard index (missing; truncation lengths incl. 0, inside the 17-byte header, exactly 17, partial; one byte appended; pad-byte bits; md5 bits; data bits); " +
		"every subset of at most p+1 shards x every assignment of {missing, empty(=17B), truncated, corrupt(data bit), badsum(md5 bit), badpad(pad-count bit)} where that product fits the per-group budget, " +
		"else every subset x every uniform assignment + every ordered kind pair on three fixed shard pairs + seed-sampled mixed assignments (closed under sub-damage); always the boundary mixes (p shards removed + one more shard damaged in each kind, first-p and last-p variants); other sizes: every subset x uniform kinds; " +
		"header cuts (<17B, they kill the reader on the unchanged library) in the sweep, in uniform subsets and in the full mixed product of small (d,p) only; a strided subset of the same reads with repair on; " +
		"every subset (sizes 0..d+p) of failing shard writes x {WriteFile fails, MkdirAll fails} (quick: MkdirAll mode at p and p+1 failures only). " +
		"Distinct class = family:(d,p):size class:repair flag:relation of damage count to p:kind set (read) or family:(d,p):size class:mode:failure count (write). " +
		"Non-trivial = at least one shard file really changed on disk (resp. at least one injected write failure really returned) and the case produced a verdict."
)

var assumptions = []string{
	"damage is applied to shard files at rest between Add and GetOne; no concurrent writer",
	"one blob per store folder set; table-specific EC config",
	"shard-write failure = FileIO.WriteFile (or MkdirAll of the shard folder) returns an error and leaves no file; torn writes are covered as truncated shard files on the read side only",
	"a panic recovered on the calling goroutine and a child process killed by the case are both 'the read crashes the process'",
	"zero-length blobs are only asserted on if Add accepts them",
	"real local filesystem under /tmp, not separate drives",
}

// Run is the C25 check.
func Run(r *report.Run) int {
	t0 := time.Now()
	cases, complete := genCases(r)
	r.Count("cases_planned", int64(len(cases)))
	t1 := time.Now()
	results := Exec(r, "c25-batch", cases, r.Pick(60, 150))
	t2 := time.Now()
	judge(r, cases, results)
	r.Set("phase_seconds", map[string]float64{"generate": t1.Sub(t0).Seconds(), "execute": t2.Sub(t1).Seconds(), "judge": time.Since(t2).Seconds()})
	r.Set("product_complete_for_every_group", complete)
	// exhaustive stays false: bit positions and truncation lengths are representatives, and large groups are sampled.
	return r.Finish(rule, assumptions, r.Pick(900, 2000))
}

func allCutLens() []int {
	var l []int
	for i := 0; i < HeaderSize; i++ {
		l = append(l, i)
	}
	return l
}

// genCases: the planned case list, a pure function of seed and tier.
//
// Cost note: a shard file shorter than its 17-byte header makes a GetOne worker goroutine panic on
// the unchanged library, which kills the child (one process start per such case, ~0.1-0.3 s).
// The header-cut kinds (zero, short) are therefore enumerated where they are cheap to bound - the
// single-shard sweep, uniform subsets, and the full mixed product of the small (d,p) - and the
// big mixed products use the six kinds that leave the header in place.
func genCases(r *report.Run) ([]Case, bool) {
	var cases []Case
	complete := true
	budget := r.Pick(100, 6000)
	samples := r.Pick(1, 6)
	lean := !r.Thorough()
	cutMixed := map[Config]bool{{2, 1}: true} // full product including "short"
	if r.Thorough() {
		cutMixed[Config{1, 1}], cutMixed[Config{1, 2}], cutMixed[Config{3, 1}], cutMixed[Config{2, 2}] = true, true, true, true
	}
	for _, cfg := range AllConfigs() {
		n := cfg.D + cfg.P
		sizes := SizeList(cfg.D, r.Thorough())
		// mixed-kind product sizes: one non-multiple of d (quick); plus 1 byte (thorough)
		prod := map[int]bool{cfg.D + 1: true}
		cutSizes := map[int][]int{cfg.D + 1: {0, 9}}
		if r.Thorough() {
			prod[1] = true
			cutSizes[cfg.D+1] = allCutLens()
			cutSizes[1], cutSizes[4097], cutSizes[65537] = []int{0, 1, 16}, []int{0, 9}, []int{0, 16}
		} else if cfg == (Config{2, 1}) {
			cutSizes[cfg.D+1] = allCutLens()
		}
		for _, size := range sizes {
			var prev *CaseSet
			for _, repair := range []bool{false, true} {
				cs := NewCaseSet()
				if !repair {
					Sweep(cs, r.Seed, cfg, size, cutSizes[size], ShardLen(cfg.D, size) <= 4, lean)
					switch {
					case prod[size]:
						if !Product(cs, r.Seed, cfg, size, cfg.P+1, BodyKinds, budget, samples) {
							complete = false
						}
						if size == cfg.D+1 {
							// Boundary mixes, fixed for every seed and (d,p): p shards removed and one more shard
							// damaged in each kind - the smallest damage beyond parity that leaves d readable
							// files. Once with the first p shards removed (the damaged one is then the first
							// file the decoder sees), once with the last p removed and shard 0 damaged.
							for _, kind := range BodyKinds[1:] {
								for _, front := range []bool{true, false} {
									var dmg []Damage
									odd := cfg.P
									if !front {
										odd = 0
									}
									for i := 0; i < cfg.P; i++ {
										sh := i
										if !front {
											sh = n - 1 - i
										}
										dmg = append(dmg, Damage{Shard: sh, Kind: KMissing})
									}
									if dm, ok := MkDamage(r.Seed, cfg.D, cfg.P, size, odd, kind); ok {
										cs.Add(append(dmg, dm))
									}
								}
							}
							if cutMixed[cfg] {
								Product(cs, r.Seed, cfg, size, cfg.P+1, ProductKinds, 1<<30, 0)
							} else if r.Thorough() {
								Product(cs, r.Seed, cfg, size, cfg.P+1, []string{KShort}, 0, 0) // uniform "short" subsets
							}
						}
					case lean && size == 1:
						// quick: 1-byte shards get the single-shard sweep only
					case lean:
						Product(cs, r.Seed, cfg, size, cfg.P+1, []string{KMissing, KTruncated, KCorrupt, KBadPad}, 0, 0)
					default:
						Product(cs, r.Seed, cfg, size, cfg.P+1, BodyKinds, 0, 0) // every subset x uniform kinds
					}
				} else {
					// the same reads with auto-repair on: an evenly strided subset of the repair-off list of
					// this size (header cuts left out, except one), so every one of them has a repair-off twin
					if size != cfg.D+1 && !(r.Thorough() && size == 4097) {
						continue
					}
					var pool [][]Damage
					for _, dmg := range prev.List {
						cut := false
						for _, dm := range dmg {
							cut = cut || dm.Kind == KZero || dm.Kind == KShort
						}
						if !cut || (len(dmg) == 1 && dmg[0].Shard == n-1 && dmg[0].Len == 9) {
							pool = append(pool, dmg)
						}
					}
					limit := r.Pick(100, 1200)
					stride := (len(pool) + limit - 1) / limit
					for i := 0; i < len(pool); i += max(stride, 1) {
						cs.add1(pool[i])
					}
				}
				prev = cs
				cases = append(cases, Case{Fam: "read", D: cfg.D, P: cfg.P, Size: size, Repair: repair}) // undamaged baseline
				for _, dmg := range cs.List {
					cases = append(cases, Case{Fam: "read", D: cfg.D, P: cfg.P, Size: size, Repair: repair, Dmg: dmg})
				}
			}
		}
		// write failures: every subset of the d+p shard folders x {WriteFile fails, MkdirAll fails} x two sizes.
		// quick: the MkdirAll mode only at the boundary (p and p+1 failures), the 4097-byte blob only for d+p <= 4.
		for _, size := range []int{cfg.D + 1, 4097} {
			for _, mode := range []string{"writefile", "mkdir"} {
				if lean && size == 4097 && (mode == "mkdir" || n > 4) {
					continue
				}
				for k := 0; k <= n; k++ {
					if lean && mode == "mkdir" && k != cfg.P && k != cfg.P+1 {
						continue
					}
					for _, sub := range Subsets(n, k) {
						cases = append(cases, Case{Fam: "write", D: cfg.D, P: cfg.P, Size: size, Fail: sub, Mode: mode})
					}
				}
			}
		}
		// zero-length blob: asserted on only if Add accepts it
		cases = append(cases, Case{Fam: "write", D: cfg.D, P: cfg.P, Size: 0, Mode: "writefile"})
	}
	return cases, complete
}

func judge(r *report.Run, cases []Case, results []Result) {
	em := NewEmitter(r)
	// index of violating read cases for naming the smallest culprit
	type key struct{ group, dmg string }
	bad := map[key]*verdict{}
	var verdicts []*verdict
	outcomes := map[string]int64{}
	samples := 0
	for i, c := range cases {
		res := results[i]
		if res.Outcome == "" {
			r.Inconclusive("no result (child timed out or run broken)")
			continue
		}
		cfg := Config{c.D, c.P}
		switch c.Fam {
		case "read":
			k := len(c.Dmg)
			if res.Outcome != "died" && res.Applied != k {
				r.Broken("case %d: %d of %d damages changed a file (%s)", i, res.Applied, k, DmgKey(c.Dmg))
				continue
			}
			rel := "within"
			if k > c.P {
				rel = "over"
			}
			if k == 0 {
				rel = "undamaged"
			}
			outcomes["read:"+rel+":"+outcomeClass(res.Outcome)]++
			r.Eval(fmt.Sprintf("read:%s:%s:repair=%v:%s:%s", cfg, SizeClass(c.D, c.Size), c.Repair, rel, KindSet(c.Dmg)), k > 0)
			if samples < 3 && k == 2 {
				samples++
				r.Sample(map[string]any{"case": c, "result": res})
			}
			violates := res.Outcome == "panic" || res.Outcome == "died" || res.Outcome == "wrong" || (res.Outcome == "error" && k <= c.P)
			if !violates {
				continue
			}
			v := &verdict{c: c, res: res, class: outcomeClass(res.Outcome)}
			bad[key{GroupKey(c), DmgKey(c.Dmg)}] = v
			verdicts = append(verdicts, v)
		case "write":
			f := len(c.Fail)
			if c.Size == 0 {
				r.Eval("write:empty-blob", false)
				if res.AddNil {
					r.Set("zero_length_blob_"+cfg.String(), "accepted by Add; read back: "+res.Outcome)
					if res.Outcome != "ok" {
						em.Add(fmt.Sprintf("C25:%s:empty-blob:readback-%s", cfg, outcomeClass(res.Outcome)), 0, map[string]any{"case": c, "result": res, "seed": r.Seed}, "size=0")
					}
				} else {
					r.Set("zero_length_blob_"+cfg.String(), "rejected by Add (not asserted on): "+res.AddErr+res.Msg)
				}
				continue
			}
			if res.Outcome != "died" && res.Outcome != "panic" && res.Injected != f {
				r.Inconclusive(fmt.Sprintf("write case: %d injected failures returned, %d planned", res.Injected, f))
				continue
			}
			r.Eval(fmt.Sprintf("write:%s:%s:%s:fail=%d", cfg, SizeClass(c.D, c.Size), c.Mode, f), f > 0)
			if samples < 5 && f == c.P+1 {
				samples++
				r.Sample(map[string]any{"case": c, "result": res})
			}
			det := map[string]any{"case": c, "result": res, "seed": r.Seed,
				"expected": fmt.Sprintf("Add returns nil iff failing shard writes (%d) <= p (%d); when nil the blob reads back", f, c.P),
				"replay":   "fs.NewBlobStoreWithEC over d+p fresh folders with a FileIO whose " + c.Mode + " fails below the folders listed in case.fail; Add one blob of case.size bytes"}
			w := f*100 + c.D + c.P
			brief := fmt.Sprintf("size=%d mode=%s fail=%v add_err=%q readback=%s %s", c.Size, c.Mode, c.Fail, res.AddErr, res.Outcome, res.Msg)
			switch {
			case res.Outcome == "died" || res.Outcome == "panic":
				outcomes["write:panic"]++
				em.Add(fmt.Sprintf("C25:%s:write-%s:panic", cfg, c.Mode), w, det, brief)
			case f <= c.P && !res.AddNil:
				outcomes["write:error-within-parity"]++
				em.Add(fmt.Sprintf("C25:%s:write-%s:error-within-parity", cfg, c.Mode), w, det, brief)
			case f > c.P && res.AddNil:
				outcomes["write:nil-beyond-parity"]++
				em.Add(fmt.Sprintf("C25:%s:write-%s:nil-beyond-parity", cfg, c.Mode), w, det, brief)
			case res.AddNil && res.Outcome != "ok":
				outcomes["write:readback-"+outcomeClass(res.Outcome)]++
				em.Add(fmt.Sprintf("C25:%s:write-%s:readback-%s", cfg, c.Mode, outcomeClass(res.Outcome)), w, det, brief)
			default:
				if res.AddNil {
					outcomes["write:nil+readback-ok"]++
				} else {
					outcomes["write:error-beyond-parity"]++
				}
			}
		}
	}
	// Name each violating read by its smallest violating sub-damage with the same outcome and message
	// class. Reads with repair on are a subset of the reads with repair off: when the twin fails the
	// same way it is the same defect and gets the same signature; otherwise the signature says "/repair-on".
	sort.SliceStable(verdicts, func(i, j int) bool { return !verdicts[i].c.Repair && verdicts[j].c.Repair })
	for _, v := range verdicts {
		if v.c.Repair {
			twin := v.c
			twin.Repair = false
			if w, ok := bad[key{GroupKey(twin), DmgKey(v.c.Dmg)}]; ok && w.class == v.class {
				v.culprit, v.sig = w.culprit, w.sig
			}
		}
		if v.sig == "" {
			v.culprit = v.c.Dmg
			n := len(v.c.Dmg)
			best := -1
			for mask := 1; mask < (1<<n)-1; mask++ {
				var sub []Damage
				for i := 0; i < n; i++ {
					if mask&(1<<i) != 0 {
						sub = append(sub, v.c.Dmg[i])
					}
				}
				if best >= 0 && len(sub) >= best {
					continue
				}
				if w, ok := bad[key{GroupKey(v.c), DmgKey(sub)}]; ok && w.class == v.class && MsgClass(w.res.Msg) == MsgClass(v.res.Msg) {
					v.culprit, best = sub, len(sub)
				}
			}
			suffix := ""
			if len(v.culprit) > v.c.P {
				suffix = "/over"
			}
			if v.c.Repair {
				suffix += "/repair-on"
			}
			v.sig = fmt.Sprintf("C25:%s:%s%s:%s", Config{v.c.D, v.c.P}, SigKinds(v.culprit, v.class), suffix, v.class)
		}
		exp := "exactly the stored bytes (damaged shards <= p)"
		if len(v.c.Dmg) > v.c.P {
			exp = "an error or the stored bytes (damaged shards > p), never other bytes, never a crash"
		}
		em.Add(v.sig, len(v.c.Dmg)*1000000+(v.c.D+v.c.P)*100000+min(v.c.Size, 99999), map[string]any{
			"case": v.c, "result": v.res, "seed": r.Seed, "smallest_culprit": v.culprit, "expected": exp,
			"observed": v.res.Outcome + ": " + v.res.Msg,
			"replay": "fs.NewBlobStoreWithEC(fs.DefaultToFilePath, fs.NewFileIO(), {tbl: d,p,folders,repair}); Add one blob of case.size bytes (any content); " +
				"apply case.dmg to the files <folder i>/tbl/<4-level>/<uuid>_<i> (len = truncate to, off/bit = flip); GetOne",
		}, fmt.Sprintf("size=%d repair=%v dmg=[%s] -> %s: %s", v.c.Size, v.c.Repair, DmgKey(v.c.Dmg), v.res.Outcome, head(v.res.Msg, 160)))
	}
	em.Flush(3)
	for k, v := range outcomes {
		r.Count("outcome/"+k, v)
	}
}
