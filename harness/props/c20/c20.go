// Package c20: caches never serve stale data (strictly alternating write / read phases; clustered mode
// over the kit/resp RESP stub with several long-lived processes, standalone mode in one process).
package c20

import (
	"bufio"
	"context"
	"encoding/json"
	"fmt"
	"io"
	"os"
	"os/exec"
	"strconv"
	"strings"
	"sync"
	"sync/atomic"
	"time"

	"github.com/sharedcode/sop"
	"github.com/sharedcode/sop/cache"
	"github.com/sharedcode/sop/database"

	"verifharness/kit/env"
	"verifharness/kit/proc"
	"verifharness/kit/report"
	"verifharness/kit/resp"
	"verifharness/kit/sopx"
)

func init() { proc.Register("c20-node", node) }

type nodeCfg struct {
	Dir      string `json:"dir"`
	Redis    string `json:"redis"` // "" = standalone
	L1Min    int    `json:"l1min"`
	L1Max    int    `json:"l1max"`
	ShardCap int    `json:"shardcap"`
	CacheMin int    `json:"cache_min"` // store cache duration in minutes (0 = none)
	TTL      bool   `json:"ttl"`
	Profile  string `json:"profile"`
	Slot     int    `json:"slot"`
}

type cmd struct {
	Cmd   string            `json:"cmd"`             // init | write | read | clear | quit
	Vals  map[string]string `json:"vals,omitempty"`  // updates of existing keys
	Adds  map[string]string `json:"adds,omitempty"`  // new keys
	Adds2 map[string]string `json:"adds2,omitempty"` // write2: new keys of the second, concurrent transaction
	Gate  bool              `json:"gate,omitempty"`  // write2: hold the first committer at the store-info lock until the other finished
	Keys  []string          `json:"keys,omitempty"`
}

type reply struct {
	OK    bool              `json:"ok"`
	OK2   bool              `json:"ok2,omitempty"`
	Held  bool              `json:"held,omitempty"` // write2: a committer was held at the store-info lock until the other finished
	Err   string            `json:"err,omitempty"`
	Vals  map[string]string `json:"vals,omitempty"`
	Count int64             `json:"count"` // Count() as the reader's transaction reports it
	Scan  int               `json:"scan"`  // items found by an ordered scan
}

func (c nodeCfg) db() sopx.DB {
	d := sopx.DB{Dir: c.Dir, Opts: sop.DatabaseOptions{StoresFolders: []string{c.Dir}, CacheType: sop.InMemory}}
	if c.Redis != "" {
		d.Opts.CacheType = sop.Redis
		d.Opts.RedisConfig = resp.Config(c.Redis)
	}
	return d
}

// node is the long-lived child: one JSON command per stdin line, one JSON reply per stdout line.
func node(args []string) int {
	var c nodeCfg
	if json.Unmarshal([]byte(args[0]), &c) != nil {
		return proc.ExitHarness
	}
	if c.L1Max > 0 {
		cache.DefaultMinCapacity, cache.DefaultMaxCapacity = c.L1Min, c.L1Max
		cache.DefaultStandaloneMinCapacity, cache.DefaultStandaloneMaxCapacity = c.L1Min, c.L1Max
	}
	if c.ShardCap > 0 {
		cache.DefaultInMemoryCacheShardCapacity = c.ShardCap
	}
	db := c.db()
	ctx := context.Background()
	var gate *gateL2
	if c.Redis == "" {
		// standalone: the in-memory L2 behind a gate that can hold the FIRST of two concurrent committers
		// at the store-info lock until the other one has finished (write2)
		gate = &gateL2{L2Cache: cache.NewL2InMemoryCache()}
		cache.GetGlobalL1Cache(gate)
		sop.RegisterL2CacheFactory(sop.InMemory, func(sop.TransactionOptions) sop.L2Cache { return gate })
	}
	in := bufio.NewScanner(os.Stdin)
	in.Buffer(make([]byte, 1<<20), 1<<24)
	out := bufio.NewWriter(os.Stdout)
	say := func(r reply) {
		b, _ := json.Marshal(r)
		out.Write(b)
		out.WriteByte('\n')
		out.Flush()
	}
	for in.Scan() {
		var m cmd
		if json.Unmarshal(in.Bytes(), &m) != nil {
			say(reply{Err: "bad command"})
			continue
		}
		switch m.Cmd {
		case "quit":
			return 0
		case "clear":
			l2 := sop.GetL2Cache(sop.TransactionOptions{CacheType: db.Opts.CacheType, RedisConfig: db.Opts.RedisConfig})
			if l2 != nil {
				l2.Clear(ctx)
			}
			say(reply{OK: true})
		case "write2":
			one := func(vals, adds map[string]string) error {
				t, err := database.BeginTransaction(ctx, db.Opts, sop.ForWriting, time.Minute)
				if err != nil {
					return err
				}
				b, err := sopx.Open[string, string](db, t, "s")
				if err != nil {
					t.Rollback(ctx)
					return err
				}
				for k, v := range vals {
					if ok, err := b.Update(ctx, k, v); err != nil || !ok {
						t.Rollback(ctx)
						return fmt.Errorf("update %s: ok=%v err=%v", k, ok, err)
					}
				}
				for k, v := range adds {
					if ok, err := b.Add(ctx, k, v); err != nil || !ok {
						t.Rollback(ctx)
						return fmt.Errorf("add %s: ok=%v err=%v", k, ok, err)
					}
				}
				cctx, cancel := context.WithTimeout(ctx, 20*time.Second)
				defer cancel()
				return t.Commit(cctx)
			}
			var e1, e2 error
			var wg sync.WaitGroup
			wg.Add(2)
			anyDone := make(chan struct{}, 2)
			var g *gateState
			if gate != nil && m.Gate {
				g = gate.arm()
			}
			go func() { defer wg.Done(); e1 = one(m.Vals, m.Adds); anyDone <- struct{}{} }()
			go func() { defer wg.Done(); e2 = one(nil, m.Adds2); anyDone <- struct{}{} }()
			held := false
			if g != nil {
				// the committer that reaches the store-info lock first (its store-info timestamp is already
				// stamped) is held until the other one has finished its commit
				select {
				case <-g.reached:
					held = true
					select {
					case <-anyDone:
					case <-time.After(15 * time.Second):
					}
				case <-anyDone:
				}
				gate.release(g)
			}
			wg.Wait()
			rp := reply{OK: e1 == nil, OK2: e2 == nil, Held: held}
			if e1 != nil {
				rp.Err = "commit: " + e1.Error()
			}
			if e1 == nil && e2 != nil {
				rp.Err = "" // first committed; second failed: reported through ok2
			}
			if !rp.OK && rp.Err == "" {
				rp.Err = "commit failed"
			}
			say(rp)
		case "init", "write":
			t, err := database.BeginTransaction(ctx, db.Opts, sop.ForWriting, time.Minute)
			if err != nil {
				say(reply{Err: "begin: " + err.Error()})
				continue
			}
			so := sopx.Options("s", c.Slot, true, sopx.Profile(c.Profile))
			d := time.Duration(c.CacheMin) * time.Minute
			so.CacheConfig = &sop.StoreCacheConfig{RegistryCacheDuration: d, IsRegistryCacheTTL: c.TTL, NodeCacheDuration: d, IsNodeCacheTTL: c.TTL,
				ValueDataCacheDuration: d, IsValueDataCacheTTL: c.TTL, StoreInfoCacheDuration: d, IsStoreInfoCacheTTL: c.TTL}
			var bErr error
			if m.Cmd == "init" {
				b, err := sopx.New[string, string](db, t, so)
				bErr = err
				if err == nil {
					for k, v := range m.Vals {
						if _, err := b.Add(ctx, k, v); err != nil {
							bErr = err
						}
					}
				}
			} else {
				b, err := sopx.Open[string, string](db, t, "s")
				bErr = err
				if err == nil {
					for k, v := range m.Vals {
						ok, err := b.Update(ctx, k, v)
						if err != nil || !ok {
							bErr = fmt.Errorf("update %s: ok=%v err=%v", k, ok, err)
						}
					}
					for k, v := range m.Adds {
						ok, err := b.Add(ctx, k, v)
						if err != nil || !ok {
							bErr = fmt.Errorf("add %s: ok=%v err=%v", k, ok, err)
						}
					}
				}
			}
			if bErr != nil {
				t.Rollback(ctx)
				say(reply{Err: bErr.Error()})
				continue
			}
			cctx, cancel := context.WithTimeout(ctx, 20*time.Second)
			err = t.Commit(cctx)
			cancel()
			if err != nil {
				say(reply{Err: "commit: " + err.Error()})
			} else {
				say(reply{OK: true})
			}
		case "read":
			t, err := database.BeginTransaction(ctx, db.Opts, sop.ForReading, time.Minute)
			if err != nil {
				say(reply{Err: "begin: " + err.Error()})
				continue
			}
			b, err := sopx.Open[string, string](db, t, "s")
			if err != nil {
				t.Rollback(ctx)
				say(reply{Err: "open: " + err.Error()})
				continue
			}
			vals := map[string]string{}
			var rerr error
			for _, k := range m.Keys {
				ok, err := b.Find(ctx, k, false)
				if err != nil {
					rerr = err
					break
				}
				if !ok {
					vals[k] = "<absent>"
					continue
				}
				v, err := b.GetCurrentValue(ctx)
				if err != nil {
					rerr = err
					break
				}
				vals[k] = v
			}
			cnt := b.Count()
			scan := 0
			if rerr == nil {
				ok, err := b.First(ctx)
				for ok && err == nil {
					scan++
					ok, err = b.Next(ctx)
				}
				rerr = err
			}
			if rerr != nil {
				t.Rollback(ctx)
				say(reply{Err: "read: " + rerr.Error()})
				continue
			}
			// SOP validates what a ForReading transaction read when it commits (optimistic reads): only
			// values of a reader whose Commit returned nil are judged.
			cctx, cancel := context.WithTimeout(ctx, 10*time.Second)
			cerr := t.Commit(cctx)
			cancel()
			if cerr != nil {
				say(reply{Err: "reader-commit: " + cerr.Error()})
			} else {
				say(reply{OK: true, Vals: vals, Count: cnt, Scan: scan})
			}
		}
	}
	return 0
}

// gateL2 passes everything through to the in-memory L2 cache; when armed, the first DualLock on the
// store-info lock key of store "s" blocks until released.
type gateL2 struct {
	sop.L2Cache
	cur atomic.Pointer[gateState]
}

type gateState struct {
	taken   atomic.Bool
	reached chan struct{}
	open    chan struct{}
}

func (g *gateL2) arm() *gateState {
	st := &gateState{reached: make(chan struct{}), open: make(chan struct{})}
	g.cur.Store(st)
	return st
}

func (g *gateL2) release(st *gateState) {
	g.cur.CompareAndSwap(st, nil)
	close(st.open)
}

func (g *gateL2) DualLock(ctx context.Context, d time.Duration, lk []*sop.LockKey) (bool, sop.UUID, error) {
	if st := g.cur.Load(); st != nil && len(lk) == 1 && strings.HasPrefix(lk[0].Key, "lock:") && strings.HasSuffix(lk[0].Key, ":s") {
		if st.taken.CompareAndSwap(false, true) {
			close(st.reached)
			<-st.open
		}
	}
	return g.L2Cache.DualLock(ctx, d, lk)
}

// child handle in the orchestrator.
type child struct {
	cmd *exec.Cmd
	in  io.WriteCloser
	out *bufio.Scanner
	mu  sync.Mutex
}

func start(c nodeCfg) (*child, error) {
	self := os.Getenv("VERIF_BIN")
	if self == "" {
		self, _ = os.Executable()
	}
	j, _ := json.Marshal(c)
	cm := exec.Command("timeout", "-s", "QUIT", "600", self, "child", "c20-node", string(j))
	in, _ := cm.StdinPipe()
	outp, _ := cm.StdoutPipe()
	cm.Stderr = io.Discard
	if err := cm.Start(); err != nil {
		return nil, err
	}
	sc := bufio.NewScanner(outp)
	sc.Buffer(make([]byte, 1<<20), 1<<24)
	return &child{cmd: cm, in: in, out: sc}, nil
}

func (c *child) do(m cmd) reply {
	c.mu.Lock()
	defer c.mu.Unlock()
	b, _ := json.Marshal(m)
	c.in.Write(append(b, '\n'))
	done := make(chan reply, 1)
	go func() {
		for c.out.Scan() {
			var r reply
			if json.Unmarshal(c.out.Bytes(), &r) == nil && (r.OK || r.Err != "") {
				done <- r
				return
			}
		}
		done <- reply{Err: "child closed its output"}
	}()
	select {
	case r := <-done:
		return r
	case <-time.After(60 * time.Second):
		return reply{Err: "child did not answer within 60 s"}
	}
}

func (c *child) stop() {
	c.do(cmd{Cmd: "quit"})
	c.in.Close()
	c.cmd.Wait()
}

type config struct {
	Mode     string
	CacheMin int
	TTL      bool
	L1Max    int
	ShardCap int
	Profile  string
}

func configs(thorough bool) []config {
	var cs []config
	durs := []int{0, 5, 60}
	for i, mode := range []string{"standalone", "clustered"} {
		for j, d := range durs {
			cs = append(cs, config{Mode: mode, CacheMin: d, TTL: (i+j)%2 == 0, L1Max: []int{4, 2, 0}[j], ShardCap: []int{2, 0, 4}[j], Profile: []string{"innode", "sepcached", "separate"}[(i+j)%3]})
		}
	}
	if thorough {
		for _, mode := range []string{"standalone", "clustered"} {
			for _, d := range durs {
				for _, ttl := range []bool{true, false} {
					for _, l1 := range []int{2, 4} {
						cs = append(cs, config{Mode: mode, CacheMin: d, TTL: ttl, L1Max: l1, ShardCap: 1 + l1/2, Profile: []string{"innode", "sepcached", "sepactive", "separate"}[(d+l1)%4]})
					}
				}
			}
		}
	}
	return cs
}

func Run(r *report.Run) int {
	phases := r.Pick(24, 150)
	cs := configs(r.Thorough())
	var wg sync.WaitGroup
	sem := make(chan struct{}, 6)
	for ci, cf := range cs {
		wg.Add(1)
		sem <- struct{}{}
		go func(ci int, cf config) {
			defer wg.Done()
			defer func() { <-sem }()
			runConfig(r, ci, cf, phases)
		}(ci, cf)
	}
	wg.Wait()
	return r.Finish(rule, assumptions, 40)
}

func runConfig(r *report.Run, ci int, cf config, phases int) {
	rnd := env.Rand(r.Seed, fmt.Sprintf("c20-%d", ci))
	dir := env.Scratch("c20")
	defer env.Remove(dir)
	nc := nodeCfg{Dir: dir, L1Min: 1, L1Max: cf.L1Max, ShardCap: cf.ShardCap, CacheMin: cf.CacheMin, TTL: cf.TTL, Profile: cf.Profile, Slot: 4}
	var srv *resp.Server
	if cf.Mode == "clustered" {
		var err error
		srv, err = resp.Start()
		if err != nil {
			r.Inconclusive("resp-stub")
			return
		}
		defer srv.Close()
		nc.Redis = srv.Addr()
		nc.ShardCap = 0
	}
	nWriters, nReaders := 1, 1
	if cf.Mode == "clustered" {
		nWriters, nReaders = 2, 2
	}
	var writers, readers []*child
	for i := 0; i < nWriters+nReaders; i++ {
		c, err := start(nc)
		if err != nil {
			r.Inconclusive("child-start")
			return
		}
		defer c.stop()
		if i < nWriters {
			writers = append(writers, c)
		} else {
			readers = append(readers, c)
		}
	}
	if cf.Mode == "standalone" {
		// standalone mode is single-process by design: the one process plays writer and reader
		readers = writers
	} else {
		// processes that also write keep their own L1 handle/node caches: they read as well
		readers = append(readers, writers...)
	}
	keys := []string{}
	latest := map[string]string{}
	for k := 0; k < 8; k++ {
		key := fmt.Sprintf("k%02d", k*3)
		keys = append(keys, key)
		latest[key] = "v0." + key
	}
	if rp := writers[0].do(cmd{Cmd: "init", Vals: latest}); !rp.OK {
		r.Inconclusive("init-failed:" + rp.Err)
		return
	}
	cfgName := fmt.Sprintf("%s:cache%dmin:ttl=%v:l1max=%d:shard=%d:%s", cf.Mode, cf.CacheMin, cf.TTL, cf.L1Max, cf.ShardCap, cf.Profile)
	// warm every reader
	for _, rd := range readers {
		rd.do(cmd{Cmd: "read", Keys: keys})
	}
	addedBy := map[string]int{}
	for n := 1; n <= phases; n++ {
		w := writers[n%len(writers)]
		vals := map[string]string{}
		for _, k := range keys {
			if rnd.Intn(3) == 0 {
				vals[k] = fmt.Sprintf("v%d.%s", n, k)
			}
		}
		if len(vals) == 0 {
			vals[keys[rnd.Intn(len(keys))]] = fmt.Sprintf("v%d.x", n)
		}
		var rp reply
		if n%3 == 0 {
			// two overlapping, non-conflicting writer commits: one adds keys at the low end, the other at
			// the high end of the key space (different leaves); both must have returned before the reads
			addsA := map[string]string{fmt.Sprintf("a%03d", n): fmt.Sprintf("v%d.a", n)}
			addsB := map[string]string{fmt.Sprintf("z%03d", n): fmt.Sprintf("v%d.z", n)}
			w2 := writers[(n+1)%len(writers)]
			var rpB reply
			var wg2 sync.WaitGroup
			wg2.Add(1)
			if w2 == w {
				// standalone: both transactions run concurrently inside the one process
				rp = w.do(cmd{Cmd: "write2", Vals: vals, Adds: addsA, Adds2: addsB, Gate: true})
				rpB = reply{OK: rp.OK2}
				if rp.Held && rp.OK && rp.OK2 {
					r.Count("standalone_overlaps_where_the_first_committer_was_held_at_the_store_info_lock_until_the_second_finished(both committed)", 1)
				}
				wg2.Done()
			} else {
				go func() { defer wg2.Done(); rpB = w2.do(cmd{Cmd: "write", Adds: addsB}) }()
				rp = w.do(cmd{Cmd: "write", Vals: vals, Adds: addsA})
			}
			wg2.Wait()
			if rp.OK {
				for k, v := range addsA {
					latest[k] = v
					keys = append(keys, k)
					addedBy[k] = n % len(writers)
				}
			}
			if rpB.OK {
				for k, v := range addsB {
					latest[k] = v
					keys = append(keys, k)
					addedBy[k] = (n + 1) % len(writers)
				}
			}
		} else {
			rp = w.do(cmd{Cmd: "write", Vals: vals})
		}
		if !rp.OK && strings.Contains(rp.Err, "ok=false") && strings.HasPrefix(rp.Err, "update ") {
			// a writer transaction's Find/Update did not see a key that an earlier phase committed
			// not judged: the writer had not committed; SOP validates reads at commit time (the harness
			// aborts the transaction here). Observed because the process-local L1 handle cache of a process
			// that writes is refreshed only by its own commits.
			r.Count("writer_find_missed_a_committed_key_before_commit(observed, not judged)", 1)
			_ = addedBy
		}
		if !rp.OK {
			r.Count("void_phases(writer commit failed)", 1)
			reason := rp.Err
			if len(reason) > 70 {
				reason = reason[:70]
			}
			r.Inconclusive("phase-void:" + cf.Mode + ":" + reason)
			continue
		}
		for k, v := range vals {
			latest[k] = v
		}
		// optional disturbance at the phase boundary
		dist := "none"
		switch rnd.Intn(6) {
		case 0:
			dist = "clear"
			if srv != nil {
				resp.Do(srv.Addr(), "FLUSHDB")
			} else {
				w.do(cmd{Cmd: "clear"})
			}
		case 1:
			if srv != nil {
				dist = "advance"
				srv.Advance(time.Duration(1+rnd.Intn(90)) * time.Minute)
			}
		}
		for ri, rd := range readers {
			rr := rd.do(cmd{Cmd: "read", Keys: keys})
			fp := fmt.Sprintf("%s:phase%d:reader%d:%s", cfgName, n, ri, dist)
			if !rr.OK {
				r.Eval(fp, false)
				if strings.HasPrefix(rr.Err, "reader-commit:") {
					r.Count("reader_commits_refused(stale read caught by commit-time validation)", 1)
					r.Inconclusive("reader-commit-refused")
				} else {
					r.Inconclusive("reader-error")
					r.Count("reader_errors", 1)
				}
				continue
			}
			r.Eval(fp, true)
			r.Count("reads_checked", int64(len(keys)))
			if rr.Count != int64(len(latest)) {
				r.Violation(fmt.Sprintf("C20:%s:cache%dmin/ttl=%v/%s:stale-count", cf.Mode, cf.CacheMin, cf.TTL, cf.Profile),
					map[string]any{"config": cfgName, "phase": n, "reader": ri, "disturbance": dist, "count": rr.Count, "scan": rr.Scan, "committed_items": len(latest), "seed": r.Seed})
			}
			if rr.Scan != len(latest) {
				r.Violation(fmt.Sprintf("C20:%s:cache%dmin/ttl=%v/%s:stale-scan", cf.Mode, cf.CacheMin, cf.TTL, cf.Profile),
					map[string]any{"config": cfgName, "phase": n, "reader": ri, "disturbance": dist, "count": rr.Count, "scan": rr.Scan, "committed_items": len(latest), "seed": r.Seed})
			}
			for _, k := range keys {
				if rr.Vals[k] != latest[k] {
					cls := "stale-value"
					if rr.Vals[k] == "<absent>" {
						cls = "committed-item-absent"
					}
					r.Violation(fmt.Sprintf("C20:%s:cache%dmin/ttl=%v/%s:%s", cf.Mode, cf.CacheMin, cf.TTL, cf.Profile, cls),
						map[string]any{"config": cfgName, "phase": n, "reader": ri, "disturbance": dist, "key": k, "read": rr.Vals[k], "latest_committed": latest[k], "seed": r.Seed})
					break
				}
			}
		}
		if n == 1 && ci < 3 {
			r.Sample(map[string]any{"config": cfgName, "phase": n, "written": vals, "disturbance": dist})
		}
	}
}

var _ = strconv.Itoa

const rule = "strictly alternating phases per cache configuration: one writer transaction updates a random subset of 8 keys to value n and its Commit returns; optionally the L2 cache is cleared (FLUSHDB / Clear) or the Redis stub's virtual clock is advanced by 1-90 minutes; then EVERY reader (warm from earlier phases; clustered mode: two reader and two writer OS processes sharing the RESP stub; standalone: the single process with its in-memory L2) reads all keys, Count() and a full scan in a new ForReading transaction, COMMITS it (SOP validates optimistic reads at commit; a refused reader commit is counted, not judged) and must have seen the latest committed value of each key and the committed number of items; every third phase has two writers (different processes in clustered mode; two goroutines in standalone mode, where the committer that reaches the store-info lock first is held there until the other has finished, so the later-stamped commit lands first) adding keys at opposite ends of the key space with overlapping commits; configurations vary cache durations (none / 5 min / 60 min), TTL on/off, L1 capacity 2-4 entries, in-memory shard capacity 2-4 and value placement; fingerprint = (configuration, phase, reader, disturbance); non-trivial = the reader answered"

var assumptions = []string{"Redis = RESP stub (kit/resp) with a virtual clock", "no concurrent phase decides: reads start after the writer's Commit returned", "standalone mode is single-process by design"}
