// Package c10: no live item or node ever refers to deleted or partially written data.
package c10

import (
	"fmt"
	"strings"

	"verifharness/kit/report"
	"verifharness/props/hist"
)

func Run(r *report.Run) int {
	results := hist.RunWorkers(r, "c10", r.Pick(24, 300))
	nodes := int64(0)
	for i, res := range results {
		if res.Harness != "" {
			r.Inconclusive("harness")
			continue
		}
		r.Eval(res.Hash, res.Failed >= 1 && res.NodeDeleting >= 1)
		for _, sw := range res.Walk.By {
			nodes += int64(sw.NodesReached)
			r.Count("items_walked", int64(sw.ItemsReached))
			r.Count("value_blobs_loaded", int64(sw.ValueBlobs))
		}
		r.Count("transactions", int64(res.Txns))
		r.Count("interleaved_conflicting_pairs", int64(res.Interleaved))
		r.Count("faults_fired", int64(res.FaultsFired))
		if i < 2 {
			r.Sample(map[string]any{"profiles": res.Profiles, "txns": res.Txns, "committed": res.Committed, "failed": res.Failed, "rolled_back": res.RolledBack, "log_tail": tail(res.Log, 8)})
		}
		prof := strings.Join(res.Profiles, "+")
		for name, sw := range res.Walk.By {
			seen := map[string]bool{}
			for _, p := range sw.Problems {
				cls := "node-blob-missing"
				switch {
				case strings.Contains(p, "value blob") && strings.Contains(p, "missing"):
					cls = "value-blob-missing"
				case strings.Contains(p, "undecodable"):
					cls = "blob-undecodable"
				case strings.Contains(p, "no registry entry"):
					cls = "node-without-registry-entry"
				case strings.Contains(p, "checksum"):
					cls = "registry-block-bad-checksum"
				case strings.Contains(p, "storeinfo"):
					cls = "storeinfo-unreadable"
				}
				if !seen[cls] {
					seen[cls] = true
					r.Violation(fmt.Sprintf("C10:history:%s:%s", res.Profiles[idx(name)], cls), map[string]any{"store": name, "profiles": prof, "problem": p, "all": sw.Problems, "log": res.Log})
				}
			}
		}
		if res.APIProblem != "" {
			sp := prof
			if strings.HasPrefix(res.APIProblem, "store a:") {
				sp = res.Profiles[0]
			} else if strings.HasPrefix(res.APIProblem, "store b:") {
				sp = res.Profiles[1]
			}
			r.Violation("C10:history:"+sp+":api-scan-failed", map[string]any{"problem": res.APIProblem, "log": res.Log})
		} else if res.ModelDiff != "" {
			r.Count("histories_whose_final_state_differs_from_model(not judged here; C01/C07)", 1)
		}
	}
	r.Count("nodes_walked", nodes)
	if nodes < 200 {
		r.Broken("walker reached only %d nodes", nodes)
	}
	return r.Finish(rule, assumptions, 5)
}

func idx(name string) int {
	if name == "b" {
		return 1
	}
	return 0
}

func tail(s []string, n int) []string {
	if len(s) > n {
		return s[len(s)-n:]
	}
	return s
}

const rule = "histories of 20-45 writer transactions (mirror path, shapes S2..S9) over two stores whose value placements cycle through in-node / separate / globally cached / actively persisted, mixing commits, voluntary rollbacks and commits with one injected failure at a random call site (pre- and post-commit-point); afterwards the raw disk walker follows every root -> handle -> active blob -> children and every out-of-node value, and a public-API scan fetches every value; oracle: every reachable node and value loads and decodes; fingerprint = history id + profiles; non-trivial = >=1 failed and >=1 node-deleting transaction"

var assumptions = []string{"crash-free histories here; crash + recovery histories are walked by C08", "walker uses SOP only to decode handles/JSON, never to look up"}
