// Package c29: the built-in key comparison (btree.Compare, btree.CoerceComparer) is a total order
// that agrees with the natural order of every supported primitive key type.
//
// Reading of the statement used here (the weaker one wherever it is ambiguous):
//   - "supported key type" = the types the comparer names explicitly (the type switch in
//     btree/comparer.go == btree.IsPrimitive plus []any): all int/uint widths, uintptr, float32/64,
//     string, uuid.UUID, sop.UUID, time.Time, []byte, []string, []int, []float64, []float32 and []any
//     whose elements are again such values (position-wise the same type in both operands, i.e. a
//     composite key). Slices of other element types ([]int64, []time.Time, ...) fall into the
//     comparer's "%v" string fallback; "slices of these" is satisfiable through []any, so those are NOT
//     generated as cases (they are probed once and only recorded in the evidence, never alarmed).
//   - Both operands always have the same dynamic type (mixed-type operands are outside the statement).
//   - NaN: the statement only demands a total order with NaN included. Any placement of NaN is accepted;
//     "agrees with natural order" is asserted only for pairs whose natural order is defined (no NaN in
//     the deciding position). Reflexivity, antisymmetry and transitivity are asserted WITH NaN.
//   - antisymmetry is asserted as sign(cmp(a,b)) == -sign(cmp(b,a)); cmp(a,b)==0 for naturally equal
//     but not identical values (+0/-0, one instant in two time zones, nil/empty slice) is accepted (it is
//     what the natural order says).
//   - only the sign of the result is used (not the magnitude).
package c29

import (
	"fmt"
	"math"
	"math/rand"
	"sort"
	"strings"
	"time"

	"github.com/google/uuid"
	"github.com/sharedcode/sop"
	"github.com/sharedcode/sop/btree"

	"verifharness/kit/env"
	"verifharness/kit/report"
)

// ---------------------------------------------------------------------------------------------
// natural order oracle (independent of the code under test: written with <, ==, Before/After)
// ---------------------------------------------------------------------------------------------

func ord[T int | int8 | int16 | int32 | int64 | uint | uint8 | uint16 | uint32 | uint64 | uintptr | float32 | float64 | string](x, y T) (int, bool) {
	if x != x || y != y { // NaN: natural order undefined
		return 0, false
	}
	switch {
	case x < y:
		return -1, true
	case y < x:
		return 1, true
	}
	return 0, true
}

func lex[T any](x, y []T, elem func(a, b T) (int, bool)) (int, bool) {
	for i := 0; i < len(x) && i < len(y); i++ {
		c, ok := elem(x[i], y[i])
		if !ok {
			return 0, false
		}
		if c != 0 {
			return c, true
		}
	}
	return ord(len(x), len(y))
}

// natural returns the sign the natural order assigns to (a,b) and whether it is defined.
// a and b have the same dynamic type by construction.
func natural(a, b any) (int, bool) {
	switch x := a.(type) {
	case int:
		return ord(x, b.(int))
	case int8:
		return ord(x, b.(int8))
	case int16:
		return ord(x, b.(int16))
	case int32:
		return ord(x, b.(int32))
	case int64:
		return ord(x, b.(int64))
	case uint:
		return ord(x, b.(uint))
	case uint8:
		return ord(x, b.(uint8))
	case uint16:
		return ord(x, b.(uint16))
	case uint32:
		return ord(x, b.(uint32))
	case uint64:
		return ord(x, b.(uint64))
	case uintptr:
		return ord(x, b.(uintptr))
	case float32:
		return ord(x, b.(float32))
	case float64:
		return ord(x, b.(float64))
	case string:
		return ord(x, b.(string))
	case uuid.UUID:
		y := b.(uuid.UUID)
		return lex(x[:], y[:], ord[uint8])
	case sop.UUID:
		y := b.(sop.UUID)
		return lex(x[:], y[:], ord[uint8])
	case time.Time:
		y := b.(time.Time)
		switch {
		case x.Before(y):
			return -1, true
		case x.After(y):
			return 1, true
		}
		return 0, true
	case []byte:
		return lex(x, b.([]byte), ord[uint8])
	case []string:
		return lex(x, b.([]string), ord[string])
	case []int:
		return lex(x, b.([]int), ord[int])
	case []float64:
		return lex(x, b.([]float64), ord[float64])
	case []float32:
		return lex(x, b.([]float32), ord[float32])
	case []any:
		return lex(x, b.([]any), natural)
	}
	panic(fmt.Sprintf("c29: oracle has no natural order for %T", a))
}

// ---------------------------------------------------------------------------------------------
// value pools
// ---------------------------------------------------------------------------------------------

type val struct {
	v   any
	cls string // value class used in the fingerprint
	nan bool   // contains a NaN somewhere
}

type pool struct {
	name string
	vals []val
}

func intCls[T int | int8 | int16 | int32 | int64](v, lo, hi T) string {
	switch {
	case v == lo:
		return "min"
	case v == hi:
		return "max"
	case v < 0:
		return "neg"
	case v == 0:
		return "zero"
	}
	return "pos"
}

func uintCls[T uint | uint8 | uint16 | uint32 | uint64 | uintptr](v, hi T) string {
	switch {
	case v == 0:
		return "zero"
	case v == hi:
		return "max"
	}
	return "pos"
}

func f64Cls(f float64) string {
	switch {
	case f != f:
		return "nan"
	case math.IsInf(f, -1):
		return "-inf"
	case math.IsInf(f, 1):
		return "+inf"
	case f == 0 && math.Signbit(f):
		return "-0"
	case f == 0:
		return "+0"
	case f < 0:
		return "neg"
	}
	return "pos"
}

func signedPool[T int | int8 | int16 | int32 | int64](name string, lo, hi T, rnd *rand.Rand, extra int) pool {
	p := pool{name: name}
	for _, v := range []T{lo, lo + 1, -2, -1, 0, 1, 2, hi - 1, hi, 0, hi} { // two deliberate duplicates
		p.vals = append(p.vals, val{v: v, cls: intCls(v, lo, hi)})
	}
	for i := 0; i < extra; i++ {
		v := T(rnd.Uint64())
		p.vals = append(p.vals, val{v: v, cls: intCls(v, lo, hi)})
	}
	return p
}

func unsignedPool[T uint | uint8 | uint16 | uint32 | uint64 | uintptr](name string, hi T, rnd *rand.Rand, extra int) pool {
	p := pool{name: name}
	for _, v := range []T{0, 1, 2, hi / 2, hi/2 + 1, hi - 1, hi, 0, hi} {
		p.vals = append(p.vals, val{v: v, cls: uintCls(v, hi)})
	}
	for i := 0; i < extra; i++ {
		v := T(rnd.Uint64())
		p.vals = append(p.vals, val{v: v, cls: uintCls(v, hi)})
	}
	return p
}

func f64Values(rnd *rand.Rand, extra int) []float64 {
	vs := []float64{
		math.NaN(), math.Float64frombits(0xfff8000000000001), math.Float64frombits(0x7ff0000000000001), // three NaN payloads (quiet, negative quiet, signalling)
		math.Inf(-1), -math.MaxFloat64, -1.5, -1, -math.SmallestNonzeroFloat64, math.Copysign(0, -1), 0,
		math.SmallestNonzeroFloat64, 1, 1.5, math.MaxFloat64, math.Inf(1), 1, math.Copysign(0, -1),
	}
	for i := 0; i < extra; i++ {
		switch i % 3 {
		case 0:
			vs = append(vs, math.Float64frombits(rnd.Uint64())) // any bit pattern (may be NaN)
		case 1:
			vs = append(vs, rnd.NormFloat64()*1e3)
		default:
			vs = append(vs, float64(rnd.Intn(7)-3))
		}
	}
	return vs
}

func f32Values(rnd *rand.Rand, extra int) []float32 {
	vs := []float32{
		float32(math.NaN()), math.Float32frombits(0xffc00001), math.Float32frombits(0x7f800001),
		float32(math.Inf(-1)), -math.MaxFloat32, -1.5, -1, -math.SmallestNonzeroFloat32, float32(math.Copysign(0, -1)), 0,
		math.SmallestNonzeroFloat32, 1, 1.5, math.MaxFloat32, float32(math.Inf(1)), 1, float32(math.Copysign(0, -1)),
	}
	for i := 0; i < extra; i++ {
		switch i % 3 {
		case 0:
			vs = append(vs, math.Float32frombits(rnd.Uint32()))
		case 1:
			vs = append(vs, float32(rnd.NormFloat64()*1e3))
		default:
			vs = append(vs, float32(rnd.Intn(7)-3))
		}
	}
	return vs
}

func strValues(rnd *rand.Rand, extra int) []string {
	vs := []string{"", "\x00", "\x00\x00", "A", "a", "a\x00", "aa", "ab", "b", "Z", "z", "\x7f", "\x80", "\xff", "\xff\xff", "é", "é", "日本", "日本語", "10", "9", "a", ""}
	for i := 0; i < extra; i++ {
		n := rnd.Intn(5)
		b := make([]byte, n)
		for j := range b {
			b[j] = []byte{0, 'a', 'b', 0xff, 0x80, '1'}[rnd.Intn(6)]
		}
		vs = append(vs, string(b))
	}
	return vs
}

func strCls(s string) string {
	switch {
	case s == "":
		return "empty"
	case strings.IndexFunc(s, func(r rune) bool { return r == 0xFFFD || r >= 0x80 }) >= 0:
		return "high"
	case strings.ContainsRune(s, 0):
		return "nul"
	}
	return "ascii"
}

func uuidValues(rnd *rand.Rand, extra int) [][16]byte {
	var zero, max, lowOne, highOne, mid [16]byte
	for i := range max {
		max[i] = 0xff
	}
	lowOne[15] = 1
	highOne[0] = 1
	mid[0], mid[15] = 0x80, 0x7f
	vs := [][16]byte{zero, lowOne, highOne, mid, max, zero, max}
	for i := 0; i < extra; i++ {
		var u [16]byte
		rnd.Read(u[:])
		if i%2 == 0 { // share a long prefix with an earlier value so the deciding byte is late
			copy(u[:], vs[rnd.Intn(len(vs))][:12])
		}
		vs = append(vs, u)
	}
	return vs
}

func uuidCls(u [16]byte) string {
	z, m := true, true
	for _, b := range u {
		z = z && b == 0
		m = m && b == 0xff
	}
	switch {
	case z:
		return "nil"
	case m:
		return "max"
	}
	return "other"
}

func timeValues(rnd *rand.Rand, extra int) []time.Time {
	east := time.FixedZone("east", 5*3600+1800)
	west := time.FixedZone("west", -11*3600)
	base := time.Unix(1_700_000_000, 500).UTC()
	vs := []time.Time{
		{}, time.Unix(0, 0).UTC(), time.Unix(0, 0).In(east), time.Unix(0, 1).UTC(), time.Unix(-1, 999_999_999).UTC(),
		base, base.In(east), base.In(west), base.Add(time.Nanosecond), base.Add(-time.Nanosecond).In(west),
		time.Date(9999, 12, 31, 23, 59, 59, 999_999_999, time.UTC), time.Date(1, 1, 1, 0, 0, 0, 1, time.UTC),
		time.Date(-5000, 1, 1, 0, 0, 0, 0, time.UTC), time.Date(1969, 12, 31, 23, 59, 59, 0, west),
	}
	for i := 0; i < extra; i++ {
		t := time.Unix(rnd.Int63n(4e9)-2e9, rnd.Int63n(1e9))
		switch i % 3 {
		case 0:
			t = t.UTC()
		case 1:
			t = t.In(east)
		default:
			t = t.In(west)
		}
		vs = append(vs, t)
	}
	return vs
}

func timeCls(t time.Time) string {
	switch {
	case t.IsZero():
		return "zero"
	case t.Location() == time.UTC:
		return "utc"
	}
	return "zoned"
}

func lenCls(n int, isNil bool) string {
	switch {
	case isNil:
		return "nil"
	case n == 0:
		return "empty"
	case n == 1:
		return "len1"
	}
	return "lenN"
}

// sliceOf builds slices over a small alphabet so that long common prefixes and ties are frequent.
func sliceOf[T any](rnd *rand.Rand, alphabet []T, maxLen int) []T {
	n := rnd.Intn(maxLen + 1)
	s := make([]T, n)
	for i := range s {
		s[i] = alphabet[rnd.Intn(len(alphabet))]
	}
	return s
}

func hasNaN64(s []float64) bool {
	for _, f := range s {
		if f != f {
			return true
		}
	}
	return false
}
func hasNaN32(s []float32) bool {
	for _, f := range s {
		if f != f {
			return true
		}
	}
	return false
}

// elemGen produces one element of a composite ([]any) key at a fixed position.
type elemGen struct {
	name string
	gen  func(rnd *rand.Rand) val
}

func pick(p pool) elemGen {
	return elemGen{name: p.name, gen: func(rnd *rand.Rand) val { return p.vals[rnd.Intn(len(p.vals))] }}
}

// few narrows a pool to k values so equal prefixes are frequent.
func few(p pool, idx ...int) pool {
	q := pool{name: p.name}
	for _, i := range idx {
		q.vals = append(q.vals, p.vals[i%len(p.vals)])
	}
	return q
}

// anySchema generates []any values whose i-th element comes from schema[i]; the length varies from 0
// to len(schema), so two values always have the same type at every shared position.
func anySchema(name string, schema []elemGen) elemGen {
	return elemGen{name: name, gen: func(rnd *rand.Rand) val {
		n := rnd.Intn(len(schema) + 1)
		if rnd.Intn(3) == 0 {
			n = len(schema)
		}
		out := make([]any, n)
		v := val{}
		for i := 0; i < n; i++ {
			e := schema[i].gen(rnd)
			out[i] = e.v
			v.nan = v.nan || e.nan
		}
		isNil := false
		if n == 0 && rnd.Intn(2) == 0 {
			out, isNil = nil, true
		}
		v.v = out
		v.cls = lenCls(n, isNil)
		if v.nan {
			v.cls += "+nan"
		}
		return v
	}}
}

func buildPools(rnd *rand.Rand, extra, sliceN int) []pool {
	var ps []pool
	ps = append(ps,
		signedPool[int]("int", math.MinInt, math.MaxInt, rnd, extra),
		signedPool[int8]("int8", math.MinInt8, math.MaxInt8, rnd, extra),
		signedPool[int16]("int16", math.MinInt16, math.MaxInt16, rnd, extra),
		signedPool[int32]("int32", math.MinInt32, math.MaxInt32, rnd, extra),
		signedPool[int64]("int64", math.MinInt64, math.MaxInt64, rnd, extra),
		unsignedPool[uint]("uint", math.MaxUint, rnd, extra),
		unsignedPool[uint8]("uint8", math.MaxUint8, rnd, extra),
		unsignedPool[uint16]("uint16", math.MaxUint16, rnd, extra),
		unsignedPool[uint32]("uint32", math.MaxUint32, rnd, extra),
		unsignedPool[uint64]("uint64", math.MaxUint64, rnd, extra),
		unsignedPool[uintptr]("uintptr", ^uintptr(0), rnd, extra),
	)
	f64 := pool{name: "float64"}
	f64s := f64Values(rnd, extra)
	for _, f := range f64s {
		f64.vals = append(f64.vals, val{v: f, cls: f64Cls(f), nan: f != f})
	}
	f32 := pool{name: "float32"}
	f32s := f32Values(rnd, extra)
	for _, f := range f32s {
		f32.vals = append(f32.vals, val{v: f, cls: f64Cls(float64(f)), nan: f != f})
	}
	str := pool{name: "string"}
	strs := strValues(rnd, extra)
	for _, s := range strs {
		str.vals = append(str.vals, val{v: s, cls: strCls(s)})
	}
	gu, su := pool{name: "uuid.UUID"}, pool{name: "sop.UUID"}
	for _, u := range uuidValues(rnd, extra) {
		gu.vals = append(gu.vals, val{v: uuid.UUID(u), cls: uuidCls(u)})
		su.vals = append(su.vals, val{v: sop.UUID(u), cls: uuidCls(u)})
	}
	tm := pool{name: "time.Time"}
	for _, t := range timeValues(rnd, extra) {
		tm.vals = append(tm.vals, val{v: t, cls: timeCls(t)})
	}
	ps = append(ps, f32, f64, str, gu, su, tm)

	// typed slices
	bs := pool{name: "[]byte"}
	bs.vals = append(bs.vals, val{v: []byte(nil), cls: "nil"}, val{v: []byte{}, cls: "empty"}, val{v: []byte{0}, cls: "len1"}, val{v: []byte{0, 0}, cls: "lenN"}, val{v: []byte{0xff}, cls: "len1"}, val{v: []byte{0x7f, 0x80}, cls: "lenN"})
	ss := pool{name: "[]string"}
	ss.vals = append(ss.vals, val{v: []string(nil), cls: "nil"}, val{v: []string{}, cls: "empty"}, val{v: []string{""}, cls: "len1"}, val{v: []string{"", ""}, cls: "lenN"}, val{v: []string{"a", "b"}, cls: "lenN"}, val{v: []string{"ab"}, cls: "len1"}, val{v: []string{"a"}, cls: "len1"})
	is := pool{name: "[]int"}
	is.vals = append(is.vals, val{v: []int(nil), cls: "nil"}, val{v: []int{}, cls: "empty"}, val{v: []int{math.MinInt}, cls: "len1"}, val{v: []int{math.MaxInt}, cls: "len1"}, val{v: []int{0, math.MinInt}, cls: "lenN"}, val{v: []int{0}, cls: "len1"}, val{v: []int{10}, cls: "len1"}, val{v: []int{9}, cls: "len1"})
	nan, negz := math.NaN(), math.Copysign(0, -1)
	fs := pool{name: "[]float64"}
	for _, s := range [][]float64{nil, {}, {nan}, {nan, 1}, {nan, 2}, {1, nan}, {1, nan, 0}, {negz}, {0}, {negz, 1}, {0, 2}, {1}, {2}, {1, 2}, {math.Inf(-1)}, {math.Inf(1)}, {10}, {9}} {
		fs.vals = append(fs.vals, val{v: s, cls: lenCls(len(s), s == nil), nan: hasNaN64(s)})
	}
	nan32, negz32 := float32(math.NaN()), float32(math.Copysign(0, -1))
	fs32 := pool{name: "[]float32"}
	for _, s := range [][]float32{nil, {}, {nan32}, {nan32, 1}, {nan32, 2}, {1, nan32}, {1, nan32, 0}, {negz32}, {0}, {negz32, 1}, {0, 2}, {1}, {2}, {1, 2}, {float32(math.Inf(-1))}, {float32(math.Inf(1))}, {10}, {9}} {
		fs32.vals = append(fs32.vals, val{v: s, cls: lenCls(len(s), s == nil), nan: hasNaN32(s)})
	}
	f64alpha := []float64{nan, negz, 0, 1, 2, -1, math.Inf(1)}
	f32alpha := []float32{nan32, negz32, 0, 1, 2, -1, float32(math.Inf(1))}
	for i := 0; i < sliceN; i++ {
		b := sliceOf(rnd, []byte{0, 1, 0x7f, 0x80, 0xff}, 4)
		bs.vals = append(bs.vals, val{v: b, cls: lenCls(len(b), false)})
		s := sliceOf(rnd, []string{"", "a", "ab", "b", "\xff"}, 4)
		ss.vals = append(ss.vals, val{v: s, cls: lenCls(len(s), false)})
		n := sliceOf(rnd, []int{math.MinInt, -1, 0, 1, math.MaxInt}, 4)
		is.vals = append(is.vals, val{v: n, cls: lenCls(len(n), false)})
		f := sliceOf(rnd, f64alpha, 4)
		fs.vals = append(fs.vals, val{v: f, cls: lenCls(len(f), false), nan: hasNaN64(f)})
		g := sliceOf(rnd, f32alpha, 4)
		fs32.vals = append(fs32.vals, val{v: g, cls: lenCls(len(g), false), nan: hasNaN32(g)})
	}
	for _, p := range []*pool{&fs, &fs32} {
		for i := range p.vals {
			if p.vals[i].nan {
				p.vals[i].cls += "+nan"
			}
		}
	}
	ps = append(ps, bs, ss, is, fs, fs32)

	// composite keys: []any with a fixed element type per position, nesting up to depth 3
	intFew := few(ps[0], 0, 3, 4, 5, 8)                      // min,-1,0,1,max
	f64Few := few(f64, 0, 3, 6, 8, 9, 11, 14)                // NaN,-Inf,-1,-0,+0,1,+Inf
	f32Few := few(f32, 0, 6, 8, 9, 11)                       // NaN,-1,-0,+0,1
	strFew := few(str, 0, 4, 6, 7, 13)                       // "", a, aa, ab, \xff
	guFew, suFew := few(gu, 0, 1, 2, 4), few(su, 0, 1, 2, 4) // nil, low, high, max
	tmFew := few(tm, 0, 1, 2, 3, 5, 6)
	inner := anySchema("[]any<int,string>", []elemGen{pick(intFew), pick(strFew)})
	deep := anySchema("[]any<[]any<float64>>", []elemGen{anySchema("[]any<float64>", []elemGen{pick(f64Few), pick(f64Few)})})
	schemas := []elemGen{
		anySchema("[]any<int,int,int>", []elemGen{pick(intFew), pick(intFew), pick(intFew)}),
		anySchema("[]any<string,float64>", []elemGen{pick(strFew), pick(f64Few)}),
		anySchema("[]any<float64,float64>", []elemGen{pick(f64Few), pick(f64Few)}),
		anySchema("[]any<[]any<int,string>,int>", []elemGen{inner, pick(intFew)}),
		anySchema("[]any<[]float64,string>", []elemGen{pick(few(fs, 0, 1, 2, 3, 7, 8, 11, 13)), pick(strFew)}),
		anySchema("[]any<uuid.UUID,time.Time>", []elemGen{pick(guFew), pick(tmFew)}),
		anySchema("[]any<sop.UUID,[]byte>", []elemGen{pick(suFew), pick(few(bs, 0, 1, 2, 3, 4))}),
		anySchema("[]any<[]any<[]any<float64>>,float32>", []elemGen{deep, pick(f32Few)}),
		anySchema("[]any<[]string,[]int,uint8>", []elemGen{pick(few(ss, 0, 1, 2, 4, 6)), pick(few(is, 0, 1, 2, 3, 5)), pick(few(ps[6], 0, 1, 6))}),
	}
	for _, sc := range schemas {
		p := pool{name: sc.name}
		seen := map[string]bool{}
		for i := 0; i < 14+sliceN; i++ {
			v := sc.gen(rnd)
			k := show(v.v)
			if seen[k] && i%4 != 0 { // keep some duplicates (distinct slice headers, equal content)
				continue
			}
			seen[k] = true
			p.vals = append(p.vals, v)
		}
		ps = append(ps, p)
	}
	return ps
}

// show renders a value for replay files (JSON cannot carry NaN/Inf, so everything is a string).
func show(v any) string {
	switch x := v.(type) {
	case float64:
		return fmt.Sprintf("float64(%v bits=%#016x)", x, math.Float64bits(x))
	case float32:
		return fmt.Sprintf("float32(%v bits=%#08x)", x, math.Float32bits(x))
	case time.Time:
		return fmt.Sprintf("time(%s)", x.Format(time.RFC3339Nano))
	case []any:
		if x == nil {
			return "[]any(nil)"
		}
		parts := make([]string, len(x))
		for i := range x {
			parts[i] = show(x[i])
		}
		return "[]any{" + strings.Join(parts, ", ") + "}"
	case []float64:
		if x == nil {
			return "[]float64(nil)"
		}
		parts := make([]string, len(x))
		for i := range x {
			parts[i] = show(x[i])
		}
		return "[]float64{" + strings.Join(parts, ", ") + "}"
	case []float32:
		if x == nil {
			return "[]float32(nil)"
		}
		parts := make([]string, len(x))
		for i := range x {
			parts[i] = show(x[i])
		}
		return "[]float32{" + strings.Join(parts, ", ") + "}"
	}
	return fmt.Sprintf("%T(%#v)", v, v)
}

func sign(c int) int {
	switch {
	case c < 0:
		return -1
	case c > 0:
		return 1
	}
	return 0
}

// ---------------------------------------------------------------------------------------------
// the check
// ---------------------------------------------------------------------------------------------

type checker struct {
	r        *report.Run
	perSig   map[string]int
	axiomHit map[string]int64 // "<fn>|<type>|<axiom>" -> evaluations
}

func (c *checker) violate(sig string, detail map[string]any) {
	c.perSig[sig]++
	if c.perSig[sig] > 5 { // keep replay files small: the first 5 witnesses per signature
		c.r.Count("violations_beyond_first_5_per_signature", 1)
		return
	}
	detail["seed"] = c.r.Seed
	c.r.Violation(sig, detail)
}

// run checks one comparison function over one pool.
func (c *checker) run(fn string, how string, f func(a, b any) int, p pool) {
	n := len(p.vals)
	m := make([][]int, n)
	inputCls := func(idx ...int) string {
		for _, i := range idx {
			if p.vals[i].nan {
				return p.name + "/nan"
			}
		}
		return p.name
	}
	// pairs: the result matrix, purity, reflexivity on identical and on equal-but-distinct values, natural order
	for i := 0; i < n; i++ {
		m[i] = make([]int, n)
		for j := 0; j < n; j++ {
			a, b := p.vals[i], p.vals[j]
			m[i][j] = sign(f(a.v, b.v))
			if again := sign(f(a.v, b.v)); again != m[i][j] {
				c.violate("C29:"+fn+":"+inputCls(i, j)+":not-deterministic", map[string]any{"how": how, "a": show(a.v), "b": show(b.v), "first": m[i][j], "second": again})
			}
			c.r.Eval(fn+"|"+p.name+"|pair|"+a.cls+"~"+b.cls, true)
			if i == j {
				c.axiomHit[fn+"|"+p.name+"|reflexive"]++
				if m[i][j] != 0 {
					c.violate("C29:"+fn+":"+inputCls(i)+":reflexivity", map[string]any{"how": how, "a": show(a.v), "cmp(a,a)": m[i][j], "expected": 0})
				}
			}
			if nat, ok := natural(a.v, b.v); ok {
				c.axiomHit[fn+"|"+p.name+"|natural"]++
				if nat != m[i][j] {
					c.violate("C29:"+fn+":"+inputCls(i, j)+":natural-order", map[string]any{"how": how, "a": show(a.v), "b": show(b.v), "cmp(a,b)": m[i][j], "natural": nat})
				}
			} else {
				c.r.Count("pairs_with_undefined_natural_order(NaN)", 1)
			}
		}
	}
	for i := 0; i < n; i++ {
		for j := i + 1; j < n; j++ {
			c.axiomHit[fn+"|"+p.name+"|antisymmetric"]++
			if m[i][j] != -m[j][i] {
				c.violate("C29:"+fn+":"+inputCls(i, j)+":antisymmetry", map[string]any{"how": how, "a": show(p.vals[i].v), "b": show(p.vals[j].v), "cmp(a,b)": m[i][j], "cmp(b,a)": m[j][i]})
			}
		}
	}
	// triples: a<=b and b<=c imply a<=c (with antisymmetry over all ordered triples this is the whole of
	// transitivity, including transitivity of the equivalence cmp==0)
	for i := 0; i < n; i++ {
		for j := 0; j < n; j++ {
			if m[i][j] > 0 {
				continue
			}
			for k := 0; k < n; k++ {
				if m[j][k] > 0 {
					continue
				}
				c.axiomHit[fn+"|"+p.name+"|transitive"]++
				c.r.Eval(fn+"|"+p.name+"|triple|"+p.vals[i].cls+"<="+p.vals[j].cls+"<="+p.vals[k].cls, i != j && j != k && i != k)
				if m[i][k] > 0 {
					c.violate("C29:"+fn+":"+inputCls(i, j, k)+":transitivity", map[string]any{"how": how,
						"a": show(p.vals[i].v), "b": show(p.vals[j].v), "c": show(p.vals[k].v),
						"cmp(a,b)": m[i][j], "cmp(b,c)": m[j][k], "cmp(a,c)": m[i][k]})
				}
			}
		}
	}
}

func Run(r *report.Run) int {
	rnd := env.Rand(r.Seed, "c29")
	pools := buildPools(rnd, r.Pick(16, 60), r.Pick(20, 80))
	c := &checker{r: r, perSig: map[string]int{}, axiomHit: map[string]int64{}}

	names := []string{}
	for _, p := range pools {
		names = append(names, p.name)
		c.run("Compare", "btree.Compare(a,b)", btree.Compare, p)
		// CoerceComparer: the comparer is chosen from one sample of the type; any value of the type may be
		// that sample (first, a middle one, last; for floats the first is NaN, for slices the first is nil).
		seen := map[int]bool{}
		for _, si := range []int{0, len(p.vals) / 2, len(p.vals) - 1} {
			if seen[si] {
				continue
			}
			seen[si] = true
			cf := btree.CoerceComparer(p.vals[si].v)
			c.run("CoerceComparer", "btree.CoerceComparer("+show(p.vals[si].v)+")(a,b)", cf, p)
		}
		r.Count("values:"+p.name, int64(len(p.vals)))
	}
	r.Set("types_covered", names)

	// planned class list = every (function, type, axiom); each must have been exercised
	missing := []string{}
	for _, fn := range []string{"Compare", "CoerceComparer"} {
		for _, p := range pools {
			for _, ax := range []string{"reflexive", "natural", "antisymmetric", "transitive"} {
				if c.axiomHit[fn+"|"+p.name+"|"+ax] == 0 {
					missing = append(missing, fn+"|"+p.name+"|"+ax)
				}
			}
		}
	}
	if len(missing) > 0 {
		r.Broken("planned classes not exercised: %v", missing)
	}
	var tot = map[string]int64{}
	for k, v := range c.axiomHit {
		tot[k[strings.LastIndex(k, "|")+1:]] += v
	}
	for ax, v := range tot {
		r.Count("checked_"+ax, v)
	}

	// Not asserted, only recorded: slices of element types the comparer does not name fall back to a
	// "%v" string comparison (e.g. []int64{10} sorts before []int64{9}). See package comment.
	r.Set("observation_unlisted_slice_types_not_asserted", map[string]any{
		"Compare([]int64{10},[]int64{9})":   btree.Compare([]int64{10}, []int64{9}),
		"Compare([]uint16{10},[]uint16{9})": btree.Compare([]uint16{10}, []uint16{9}),
		"note":                              "outside the asserted domain: the statement's 'slices of these' is covered through []any and the typed slices the comparer names",
	})
	for i, p := range pools {
		if i == 12 || i == 22 { // float64, a composite pool
			vs := []string{}
			for _, v := range p.vals[:min(6, len(p.vals))] {
				vs = append(vs, show(v.v))
			}
			r.Sample(map[string]any{"type": p.name, "first_values": vs})
		}
	}
	sigs := []string{}
	for s, n := range c.perSig {
		sigs = append(sigs, fmt.Sprintf("%s x%d", s, n))
	}
	sort.Strings(sigs)
	r.Set("violations_per_signature", sigs)
	return r.Finish(rule, assumptions, 300)
}

const rule = "per supported key type a pool of edge values (extremes, 0, +-0, three NaN payloads, +-Inf, empty/NUL/high-byte strings, nil/max UUIDs, one instant in several zones, nil/empty/prefix slices, nested []any composite keys up to depth 3, deliberate equal duplicates) plus seeded random values; for btree.Compare and for btree.CoerceComparer(sample) with 3 samples per type: ALL ordered pairs (determinism, reflexivity, antisymmetry, agreement with the natural order when it is defined) and ALL ordered triples (transitivity). fingerprint = (function, type, pair|triple, value classes of the operands); a pair is always non-trivial, a triple is non-trivial when its three pool indexes are distinct"

var assumptions = []string{
	"supported key types = the types named in btree/comparer.go's type switch (btree.IsPrimitive + []any); both operands of the same dynamic type; []any operands have the same type at every shared position",
	"NaN may be placed anywhere as long as the order axioms hold; natural-order agreement asserted only where no NaN decides",
	"only the sign of the comparison result is used",
}
