// Package c03: uncommitted and rolled-back writes are never visible to other transactions.
package c03

import (
	"context"
	"encoding/json"
	"fmt"
	"strings"
	"sync/atomic"
	"time"

	"github.com/sharedcode/sop"
	"github.com/sharedcode/sop/cache"

	"verifharness/kit/deco"
	"verifharness/kit/env"
	"verifharness/kit/mirror"
	"verifharness/kit/par"
	"verifharness/kit/proc"
	"verifharness/kit/report"
	"verifharness/kit/sopx"
	"verifharness/kit/txn"
)

func init() { proc.Register("c03-worker", func(a []string) int { return par.Serve(a, round) }) }

// one round = (shape, profile, outcome, reader mode); it parks the writer at every census site in turn.
type combo struct {
	Shape   string
	Profile sopx.Profile
	Slot    int
	Outcome string // commit | fail
	Reader  string // reading | nocheck
}

func combos(thorough bool) []combo {
	shapes := []string{"S6-updates", "S4-split", "S7-removes"}
	profs := []sopx.Profile{sopx.InNode, sopx.Separate}
	readers := []string{"reading"}
	if thorough {
		shapes = []string{"S6-updates", "S4-split", "S7-removes", "S3-leaf-insert", "S8-mixed", "S5-rootsplit", "S2-emptied-root"}
		profs = sopx.Profiles
		readers = []string{"reading", "nocheck"}
	}
	var cs []combo
	i := 0
	for _, sh := range shapes {
		for _, out := range []string{"commit", "fail"} {
			for _, rd := range readers {
				// profiles are spread over the combos in quick, fully crossed in thorough
				if thorough {
					for _, p := range profs {
						cs = append(cs, combo{sh, p, []int{2, 4, 8}[i%3], out, rd})
						i++
					}
				} else {
					cs = append(cs, combo{sh, profs[i%len(profs)], []int{4, 2}[i%2], out, rd})
					i++
				}
			}
		}
	}
	return cs
}

type SiteRes struct {
	Site      string `json:"site"`
	Phase     string `json:"phase"` // before-commit-point | flip-window | after-commit-point
	Parked    bool   `json:"parked"`
	ReadDiff  string `json:"read_diff,omitempty"` // reader's observation vs what it must see
	Expect    string `json:"expect"`
	FinalDiff string `json:"final_diff,omitempty"`
	WriterErr string `json:"writer_err,omitempty"`
	Harness   string `json:"harness,omitempty"`
	// the second reader of the same parked site: data entries of the L2 cache and the L1 node / handle
	// caches evicted first (locks kept), so it reads the registry, store info and blobs from disk
	ColdRead    bool   `json:"cold_read,omitempty"`
	ColdEvicted int    `json:"cold_evicted_keys,omitempty"`
	ColdDiff    string `json:"cold_read_diff,omitempty"`
}

type RoundRes struct {
	Combo   combo        `json:"combo"`
	Program *txn.Program `json:"program,omitempty"`
	Census  []string     `json:"census,omitempty"`
	Sites   []SiteRes    `json:"sites"`
	Harness string       `json:"harness,omitempty"`
}

func setup(c combo, seed int64, idx int) (dir string, db sopx.DB, before, after txn.Model, prog txn.Program, err error) {
	dir = env.Scratch("c03")
	db = sopx.NewDB(dir)
	specs := []txn.Spec{{Name: "alpha", Slot: c.Slot, Profile: c.Profile}}
	basep, b := txn.Baseline(specs, 9)
	if err = txn.Commit(txn.Public{DB: db}, basep, time.Minute); err != nil {
		return
	}
	rnd := env.Rand(seed, fmt.Sprintf("c03-%d-%s", idx, c.Shape))
	prog = txn.Gen(rnd, c.Shape, b, specs, fmt.Sprintf("w%d", idx))
	return dir, db, b, b.Apply(prog), prog, nil
}

// read runs the reader with a watchdog: a reader that never returns (it loops inside the library on an
// inconsistent tree) is recorded as an unreadable store; the spinning goroutine is abandoned.
func read(db sopx.DB, mode string) (d sopx.Dump) {
	done := make(chan sopx.Dump, 1)
	go func() { done <- readRaw(db, mode) }()
	select {
	case d = <-done:
		return d
	case <-time.After(15 * time.Second):
		hung.Store(true)
		return sopx.Dump{Stores: []string{"alpha"}, By: map[string]sopx.StoreDump{"alpha": {Err: "reader hung: no answer within 15 s"}}}
	}
}

var hung atomic.Bool

func readRaw(db sopx.DB, mode string) (d sopx.Dump) {
	m := sop.ForReading
	if mode == "nocheck" {
		m = sop.NoCheck
	}
	d = sopx.Dump{By: map[string]sopx.StoreDump{}, Stores: []string{"alpha"}}
	defer func() {
		// a reader that panics inside the library (inconsistent tree) is recorded as an unreadable store
		if rec := recover(); rec != nil {
			d.By["alpha"] = sopx.StoreDump{Err: fmt.Sprintf("reader panicked: %v", rec)}
		}
	}()
	t, err := db.Begin(m, time.Minute)
	if err != nil {
		d.Err = err.Error()
		return d
	}
	defer t.Rollback(context.Background())
	b, err := sopx.Open[string, string](db, t, "alpha")
	if err != nil {
		d.By["alpha"] = sopx.StoreDump{Err: err.Error()}
		return d
	}
	d.By["alpha"] = sopx.ScanStore(b)
	return d
}

// InflightRes is one round of the in-flight half: a writer that has done its work but not committed.
type InflightRes struct {
	Shape    string       `json:"shape"`
	Profile  string       `json:"profile"`
	Slot     int          `json:"slot"`
	Ending   string       `json:"ending"` // rollback | commit
	L1Max    int          `json:"l1_max"`
	Cleared  bool         `json:"l2_cleared_and_rescanned"`
	Program  *txn.Program `json:"program,omitempty"`
	InFlight string       `json:"diff_while_in_flight,omitempty"`
	Final    string       `json:"diff_after_end,omitempty"`
	Harness  string       `json:"harness,omitempty"`
}

// inflight: the "while the writer is in flight" and "after it aborts" clauses under CACHE PRESSURE. The
// process-wide L1 node cache is tiny (2-4 entries), so nodes the writer reads are L1 misses served from
// the L2 cache (after an optional L2 clear + full scan they got there through the blob-load path). The
// writer runs its whole program and stays open; a reader of another session must see the pre-writer
// state; the writer then rolls back (or commits) and a reader must see before (after).
func inflight(i int, seed int64) any {
	l1max := []int{2, 3, 4}[i%3]
	cache.DefaultMinCapacity, cache.DefaultMaxCapacity = 1, l1max
	cache.DefaultStandaloneMinCapacity, cache.DefaultStandaloneMaxCapacity = 1, l1max
	mirror.InstallGlobals()
	sop.RetryStartDuration = time.Millisecond
	shapes := []string{"S6-updates", "S7-removes", "S4-split", "S8-mixed", "S3-leaf-insert"}
	c := combo{Shape: shapes[i%len(shapes)], Profile: sopx.Profiles[(i/2)%4], Slot: []int{2, 4}[(i/3)%2]}
	res := InflightRes{Shape: c.Shape, Profile: string(c.Profile), Slot: c.Slot, Ending: []string{"rollback", "rollback", "commit"}[i%3], L1Max: l1max, Cleared: i%2 == 0}
	dir, db, before, after, prog, err := setup(c, seed, 1000+i)
	if err != nil {
		res.Harness = err.Error()
		return res
	}
	defer env.Remove(dir)
	res.Program = &prog
	if res.Cleared {
		if l2 := sop.GetL2Cache(sop.TransactionOptions{CacheType: sop.InMemory}); l2 != nil {
			l2.Clear(context.Background())
		}
	}
	if d := txn.DiffContent(read(db, "reading"), before.Dump()); d != "" {
		res.Harness = "warm-up scan differs from the baseline: " + d
		return res
	}
	pub := txn.Public{DB: db}
	wt, err := pub.Begin(sop.ForWriting, time.Minute)
	if err != nil {
		res.Harness = err.Error()
		return res
	}
	if r, err := txn.Run(pub, wt, prog); err != nil || r != nil {
		wt.Rollback(context.Background())
		res.Harness = fmt.Sprintf("program: %v %+v", err, r)
		return res
	}
	res.InFlight = txn.DiffContent(read(db, "reading"), before.Dump())
	final := before
	if res.Ending == "commit" {
		if err := wt.Commit(context.Background()); err != nil {
			res.Harness = "commit: " + err.Error()
			return res
		}
		final = after
	} else if err := wt.Rollback(context.Background()); err != nil {
		res.Harness = "rollback: " + err.Error()
		return res
	}
	res.Final = txn.DiffContent(read(db, "reading"), final.Dump())
	return res
}

func round(i int, seed int64, extra []string) any {
	if len(extra) > 0 && extra[0] == "inflight" {
		return inflight(i, seed)
	}
	mirror.InstallGlobals()
	sop.RetryStartDuration = time.Millisecond
	thorough := len(extra) > 0 && extra[0] == "thorough"
	cs := combos(thorough)
	c := cs[i%len(cs)]
	res := RoundRes{Combo: c}
	ctx := context.Background()
	// census
	dir, _, _, _, prog, err := setup(c, seed, i)
	if err != nil {
		res.Harness = err.Error()
		return res
	}
	res.Program = &prog
	mir := txn.Mirror{Dir: dir}
	t, err := mir.Begin(sop.ForWriting, 15*time.Minute)
	if err != nil {
		res.Harness = err.Error()
		return res
	}
	if r, err := txn.Run(mir, t, prog); err != nil || r != nil {
		res.Harness = fmt.Sprintf("program: %v %+v", err, r)
		return res
	}
	plan := deco.NewPlan("", 0, deco.None)
	deco.Install(plan)
	plan.Arm()
	cerr := t.Commit(ctx)
	plan.Disarm()
	deco.Install(nil)
	env.Remove(dir)
	if cerr != nil {
		res.Harness = "census commit: " + cerr.Error()
		return res
	}
	res.Census = plan.Trace()
	// locate the commit point: the single reg.UpdateNoLocks(true) call; the dio.WriteAt calls that
	// follow it up to the next non-dio site are the flip window.
	cp := -1
	for k, l := range res.Census {
		if l == "reg.UpdateNoLocks(true)" {
			cp = k
		}
	}
	if cp < 0 {
		res.Harness = "no commit-point call in census (shape has no updated node)"
		return res
	}
	cpEnd := cp
	for k := cp + 1; k < len(res.Census) && (strings.HasPrefix(res.Census[k], "dio.") || strings.HasPrefix(res.Census[k], "l2.Lock") || strings.HasPrefix(res.Census[k], "l2.DualLock") || strings.HasPrefix(res.Census[k], "l2.Unlock") || res.Census[k] == "l2.SetStruct[handle]"); k++ {
		cpEnd = k
	}
	counts := map[string]int{}
	for k, label := range res.Census {
		counts[label]++
		ord := counts[label]
		sr := SiteRes{Site: deco.SiteID(label, ord)}
		switch {
		case k <= cp:
			sr.Phase = "before-commit-point"
		case k <= cpEnd:
			sr.Phase = "flip-window"
		default:
			sr.Phase = "after-commit-point"
		}
		if c.Outcome == "fail" && sr.Phase == "after-commit-point" {
			continue // a failure after the commit point does not abort the transaction
		}
		dir, db, before, after, prog, err := setup(c, seed, i)
		if err != nil {
			sr.Harness = err.Error()
			res.Sites = append(res.Sites, sr)
			continue
		}
		mir := txn.Mirror{Dir: dir}
		wt, err := mir.Begin(sop.ForWriting, 15*time.Minute)
		if err != nil {
			sr.Harness = err.Error()
			res.Sites = append(res.Sites, sr)
			continue
		}
		if r, err := txn.Run(mir, wt, prog); err != nil || r != nil {
			sr.Harness = fmt.Sprintf("program: %v %+v", err, r)
			res.Sites = append(res.Sites, sr)
			continue
		}
		act := deco.Pause
		if c.Outcome == "fail" {
			act = deco.PauseFail
		}
		p := deco.NewPlan(label, ord, act)
		p.NoTrace = true
		deco.Install(p)
		p.Arm()
		done := make(chan error, 1)
		go func() { done <- wt.Commit(ctx) }()
		var werr error
		var pendingGot, pendingCold *sopx.Dump
		finished := false
		select {
		case <-p.Paused:
			sr.Parked = true
		case werr = <-done:
			finished = true
		case <-time.After(20 * time.Second):
		}
		if sr.Parked {
			// the reader runs while the writer is parked inside its commit
			expect := before
			sr.Expect = "before"
			if sr.Phase == "after-commit-point" {
				expect, sr.Expect = after, "after"
			}
			got := read(db, c.Reader)
			if sr.Phase == "flip-window" && c.Outcome == "fail" {
				// judged below, once it is known whether the injected failure really aborted the writer
				pendingGot = &got
			} else if sr.Phase == "flip-window" {
				sr.Expect = "before-or-after"
				sr.ReadDiff = eitherDiff(got, before, after)
			} else {
				sr.ReadDiff = txn.DiffContent(got, expect.Dump())
			}
			// the same site again with cold caches (entries expired / evicted, lock records kept)
			if l2, ok := sop.GetL2Cache(sop.TransactionOptions{CacheType: sop.InMemory}).(*deco.L2); ok && !hung.Load() {
				sr.ColdEvicted = l2.Cool(ctx)
				cgot := read(db, c.Reader)
				sr.ColdRead = true
				if sr.Phase == "flip-window" && c.Outcome == "fail" {
					pendingCold = &cgot
				} else if sr.Phase == "flip-window" {
					sr.ColdDiff = eitherDiff(cgot, before, after)
				} else {
					sr.ColdDiff = txn.DiffContent(cgot, expect.Dump())
				}
			}
			p.Resume()
			select {
			case werr = <-done:
				finished = true
			case <-time.After(60 * time.Second):
			}
		}
		p.Disarm()
		deco.Install(nil)
		if !finished {
			sr.Harness = "writer did not finish"
			res.Sites = append(res.Sites, sr)
			continue
		}
		if werr != nil {
			sr.WriterErr = werr.Error()
		}
		if pendingGot != nil {
			// a writer that failed inside its commit-point call and rolled back: what the reader saw
			// meanwhile must not have come from that (failed) transaction; a tolerated failure (e.g. a
			// cache refresh) means the writer committed: before or after
			sr.Expect = "before-or-after"
			if werr != nil {
				sr.Expect = "before"
				sr.ReadDiff = txn.DiffContent(*pendingGot, before.Dump())
			} else {
				sr.ReadDiff = eitherDiff(*pendingGot, before, after)
			}
		}
		if pendingCold != nil {
			if werr != nil {
				sr.ColdDiff = txn.DiffContent(*pendingCold, before.Dump())
			} else {
				sr.ColdDiff = eitherDiff(*pendingCold, before, after)
			}
		}
		// after the writer ended: committed => after, aborted => before (C03's "after it aborts" clause)
		final := before
		if werr == nil {
			final = after
		}
		sr.FinalDiff = txn.DiffContent(read(db, c.Reader), final.Dump())
		res.Sites = append(res.Sites, sr)
		env.Remove(dir)
		if hung.Load() {
			break // a spinning reader goroutine is left behind: do not pile more work on this process
		}
	}
	return res
}

// clsOf is the class the warm reader's diff was reported under ("" when it had none).
func clsOf(s SiteRes) string {
	switch {
	case s.ReadDiff == "":
		return ""
	case strings.Contains(s.ReadDiff, "COUNT-ONLY"):
		return "dirty-read-count"
	case strings.Contains(s.ReadDiff, "unreadable"):
		return "reader-failed"
	}
	return "dirty-read-items"
}

// eitherDiff is empty when got equals before or after; otherwise it says how it differs from both (or,
// when only the count is off against the pre-writer items, just that).
func eitherDiff(got sopx.Dump, before, after txn.Model) string {
	d1 := txn.DiffContent(got, before.Dump())
	if d1 == "" {
		return ""
	}
	d2 := txn.DiffContent(got, after.Dump())
	if d2 == "" {
		return ""
	}
	if strings.Contains(d1, "COUNT-ONLY") {
		return d1 // items are the pre-writer items, only the count is off
	}
	return "neither before nor after: vs before: " + d1 + " || vs after: " + d2
}

func Run(r *report.Run) int {
	tier := "quick"
	if r.Thorough() {
		tier = "thorough"
	}
	n := len(combos(r.Thorough()))
	lines, died := par.Run(r, "c03-worker", 16, n, 1700, nil, tier)
	for _, d := range died {
		r.Inconclusive("worker-died")
		r.Set("worker_death", d)
	}
	planned, parked := 0, 0
	for _, l := range lines {
		var res RoundRes
		if json.Unmarshal(l.Res, &res) != nil {
			continue
		}
		if res.Harness != "" {
			r.Inconclusive("harness:" + res.Harness)
			continue
		}
		if l.Round < 2 {
			r.Sample(map[string]any{"combo": res.Combo, "program": res.Program, "census_sites": len(res.Census)})
		}
		for _, s := range res.Sites {
			planned++
			fp := fmt.Sprintf("%s:%s:%s:%s:%s", res.Combo.Shape, res.Combo.Profile, res.Combo.Outcome, res.Combo.Reader, s.Site)
			if s.Harness != "" {
				r.Inconclusive("harness")
				r.Eval(fp, false)
				continue
			}
			if !s.Parked {
				r.Inconclusive("site-not-parked")
				r.Eval(fp, false)
				continue
			}
			parked++
			r.Eval(fp, true)
			r.Count("reads_while_writer_parked:"+s.Phase, 1)
			label := s.Site[:strings.LastIndex(s.Site, "#")]
			if s.ReadDiff != "" {
				cls := "dirty-read-items"
				if strings.Contains(s.ReadDiff, "COUNT-ONLY") {
					cls = "dirty-read-count"
				} else if strings.Contains(s.ReadDiff, "unreadable") {
					cls = "reader-failed"
				}
				if s.Phase == "after-commit-point" {
					cls = "committed-not-yet-visible-" + cls
				}
				r.Violation(fmt.Sprintf("C03:%s:%s/%s/%s:%s", res.Combo.Shape, label, s.Phase, res.Combo.Outcome, cls), map[string]any{"combo": res.Combo, "site": s, "program": res.Program})
			}
			if s.ColdRead {
				r.Count("cold_reads_while_writer_parked:"+s.Phase, 1)
				r.Count("cold_evicted_l2_keys", int64(s.ColdEvicted))
			}
			if s.ColdDiff != "" && s.ColdDiff != s.ReadDiff {
				cls := "dirty-read-items"
				if strings.Contains(s.ColdDiff, "COUNT-ONLY") {
					cls = "dirty-read-count"
				} else if strings.Contains(s.ColdDiff, "unreadable") {
					cls = "reader-failed"
				}
				if s.Phase == "after-commit-point" {
					cls = "committed-not-yet-visible-" + cls
				}
				if s.ReadDiff == "" || !strings.HasSuffix(clsOf(s), cls) {
					sig := fmt.Sprintf("C03:%s:%s/%s/%s:%s", res.Combo.Shape, label, s.Phase, res.Combo.Outcome, cls)
					if s.Phase == "flip-window" {
						// every site between the first and the last block write of the commit-point call is
						// the same window for a reader that goes to disk: one signature for all of them
						sig = fmt.Sprintf("C03:%s:cold-caches/flip-window:%s", res.Combo.Shape, cls)
					}
					r.Violation(sig, map[string]any{"combo": res.Combo, "site": s, "program": res.Program, "reader": "cold caches"})
				}
			}
			if s.FinalDiff != "" {
				cls := "aborted-writes-visible"
				if s.WriterErr == "" {
					cls = "committed-writes-not-visible"
				}
				if strings.Contains(s.FinalDiff, "COUNT-ONLY") {
					cls += "-count-only"
				}
				r.Violation(fmt.Sprintf("C03:%s:%s/%s/%s:%s", res.Combo.Shape, label, s.Phase, res.Combo.Outcome, cls), map[string]any{"combo": res.Combo, "site": s, "program": res.Program})
			}
		}
	}
	// the in-flight half: one worker process per round (the tiny L1 capacity is a process-wide setting)
	nIn := r.Pick(30, 240)
	ilines, idied := par.Run(r, "c03-worker", nIn, nIn, 600, nil, "inflight")
	for _, d := range idied {
		r.Inconclusive("inflight-worker-died")
		r.Set("inflight_worker_death", d)
	}
	for _, l := range ilines {
		var res InflightRes
		if json.Unmarshal(l.Res, &res) != nil {
			continue
		}
		fp := fmt.Sprintf("inflight:%s:%s:slot%d:l1max%d:%s:cleared=%v", res.Shape, res.Profile, res.Slot, res.L1Max, res.Ending, res.Cleared)
		if res.Harness != "" {
			r.Inconclusive("inflight-harness")
			r.Set("inflight_harness_example", res.Harness)
			r.Eval(fp, false)
			continue
		}
		r.Eval(fp, true)
		r.Count("inflight_rounds", 1)
		if l.Round < 1 {
			r.Sample(res)
		}
		if res.InFlight != "" {
			cls := "uncommitted-writes-visible-while-in-flight"
			if strings.Contains(res.InFlight, "COUNT-ONLY") {
				cls += "-count-only"
			}
			r.Violation(fmt.Sprintf("C03:%s:inflight/%s/%s:%s", res.Shape, res.Profile, res.Ending, cls), res)
		}
		if res.Final != "" {
			cls := "rolled-back-writes-visible"
			if res.Ending == "commit" {
				cls = "committed-writes-not-visible"
			}
			if strings.Contains(res.Final, "COUNT-ONLY") {
				cls += "-count-only"
			}
			r.Violation(fmt.Sprintf("C03:%s:inflight/%s/%s:%s", res.Shape, res.Profile, res.Ending, cls), res)
		}
	}
	if len(ilines) < nIn*9/10 {
		r.Broken("only %d of %d in-flight rounds reported", len(ilines), nIn)
	}
	r.Count("pause_sites_planned", int64(planned))
	r.Count("pause_sites_parked", int64(parked))
	if planned == 0 || parked*100 < planned*95 {
		r.Broken("only %d of %d planned pause sites were parked", parked, planned)
	}
	return r.Finish(rule, assumptions, 50)
}

const rule = "writer programs (shapes with updated nodes: S6 updates, S4 split, S7 removes; thorough adds S2,S3,S5,S8) on the mirror path are parked, one run per site, at EVERY decorator call site of their commit; while the writer is parked a reader transaction of another session (public path, ForReading; thorough also NoCheck) scans the store and reads Count(); it must see the pre-writer state at every site up to and including the commit-point call reg.UpdateNoLocks(true), the post state after it, and either inside the block-write window of that call when the writer goes on to commit, and the pre-writer state there too when the writer is about to fail in that window; then the writer resumes and commits, or resumes into an injected failure and rolls back, and a later reader must see after / before; at every parked site a SECOND reader runs after every data entry (nodes, values, handles, store infos) was evicted from the L2 cache and the process-wide L1 node and handle caches (lock records kept), so it resolves the store from the registry file, store info file and blobs on disk, and is judged against the same expectation; fingerprint = (shape, profile, outcome, reader mode, site); non-trivial = the reader completed while the writer was parked. IN-FLIGHT half: one process per round with a 2-4 entry L1 node cache (optionally the L2 cache cleared and the store re-scanned first, so cached nodes came through the blob-load path); a public-path writer runs its whole program and stays open while a reader of another session scans the store (must see the pre-writer state), then rolls back or commits and a reader must see before / after"

var assumptions = []string{"mirror-path writer, public-path reader, same process (shared L1/L2 caches); the cold reader's eviction removes data entries only (what TTL expiry / capacity eviction does), never lock records", "standalone in-memory L2", "shapes without an updated node (first root of an empty store) are excluded: their commit point is not the flip call"}
