// Package c02: successfully committed transactions are serializable.
package c02

import (
	"encoding/json"
	"fmt"
	"sort"
	"strings"
	"sync"
	"time"

	"github.com/anishathalye/porcupine"
	"github.com/sharedcode/sop"
	"github.com/sharedcode/sop/btree"

	"verifharness/kit/env"
	"verifharness/kit/par"
	"verifharness/kit/proc"
	"verifharness/kit/report"
	"verifharness/kit/sopx"
	"verifharness/kit/txn"
	"verifharness/props/conc"
)

func init() {
	proc.Register("c02-worker", func(a []string) int { conc.Setup(11, 20); return par.Serve(a, round) })
}

// Step is one recorded step of a transaction.
type Step struct {
	Kind string `json:"kind"` // read | rmw | add | remove
	K    string `json:"k"`
	Saw  string `json:"saw,omitempty"` // value observed (read, rmw)
	W    string `json:"w,omitempty"`   // value written (rmw, add)
	OK   bool   `json:"ok"`
}

// T is one transaction of the history.
type T struct {
	ID      string `json:"id"`
	Mode    string `json:"mode"` // W | R
	Steps   []Step `json:"steps"`
	Call    int64  `json:"call"`
	Ret     int64  `json:"ret"`
	Err     string `json:"err,omitempty"`
	Aborted bool   `json:"aborted,omitempty"`
	OpErr   string `json:"op_err,omitempty"`
}

type RoundRes struct {
	Sig        string            `json:"sig"`
	NonTrivial bool              `json:"nontrivial"`
	Init       map[string]string `json:"init"`
	Txns       []T               `json:"txns"`
	Final      map[string]string `json:"final"`
	Committed  int               `json:"committed"`
	Failed     int               `json:"failed"`
	Verdict    string            `json:"verdict"` // ok | illegal | unknown
	Problem    string            `json:"problem,omitempty"`
	Harness    string            `json:"harness,omitempty"`
	Procs      int               `json:"procs"`
	Slot       int               `json:"slot"`
	Profile    string            `json:"profile"`
}

// ageProgram rewrites every item with the value it already has.
func ageProgram(init map[string]string) txn.Program {
	var p txn.Program
	for k, v := range init {
		p.Ops = append(p.Ops, txn.Op{Store: "s", Kind: "update", K: k, V: v})
	}
	sort.Slice(p.Ops, func(a, b int) bool { return p.Ops[a].K < p.Ops[b].K })
	return p
}

func regKey(i int) string { return fmt.Sprintf("r%02d", i*7) } // spread so registers live in several nodes
func setKey(i int) string { return fmt.Sprintf("s%02d", i) }

func round(i int, seed int64, extra []string) any {
	rnd := env.Rand(seed, fmt.Sprintf("c02-%d", i))
	res := RoundRes{Procs: conc.Procs(i)}
	db, dir := conc.NewRoundDB("c02")
	defer env.Remove(dir)
	res.Slot = []int{2, 4, 4, 8}[rnd.Intn(4)]
	prof := []sopx.Profile{sopx.InNode, sopx.InNode, sopx.Separate, sopx.SepCached, sopx.SepActive}[rnd.Intn(5)]
	res.Profile = string(prof)
	nReg := 4 + rnd.Intn(5)
	nSet := 4
	// seed
	init := map[string]string{}
	seedProg := txn.Program{Create: []txn.Spec{{Name: "s", Slot: res.Slot, Profile: prof}}}
	for k := 0; k < nReg; k++ {
		init[regKey(k)] = "init." + regKey(k)
		seedProg.Ops = append(seedProg.Ops, txn.Op{Store: "s", Kind: "add", K: regKey(k), V: init[regKey(k)]})
	}
	for k := 0; k < nSet; k++ {
		init[setKey(k)] = "set." + setKey(k)
		seedProg.Ops = append(seedProg.Ops, txn.Op{Store: "s", Kind: "add", K: setKey(k), V: init[setKey(k)]})
	}
	if err := txn.Commit(txn.Public{DB: db}, seedProg, time.Minute); err != nil {
		res.Harness = "seed: " + err.Error()
		return res
	}
	if i%2 == 1 {
		// aged store: every item has been rewritten (with the value it already has) by a second committed
		// transaction, so separately stored values really live in their own blobs and are loaded lazily
		if err := txn.Commit(txn.Public{DB: db}, ageProgram(init), time.Minute); err != nil {
			res.Harness = "ageing: " + err.Error()
			return res
		}
	}
	res.Init = init
	G := 3 + rnd.Intn(5)
	scripts := make([][]func(*conc.Clock) conc.TxnRec, G)
	var results = make([][]T, G)
	tid := 0
	for g := 0; g < G; g++ {
		nT := 1 + rnd.Intn(2)
		for j := 0; j < nT; j++ {
			id := fmt.Sprintf("T%d", tid)
			tid++
			plan := genTxn(rnd, id, nReg, nSet)
			gg := g
			scripts[g] = append(scripts[g], func(clock *conc.Clock) conc.TxnRec {
				t := execTxn(db, clock, plan)
				results[gg] = append(results[gg], t)
				return conc.TxnRec{ID: t.ID, CallSeq: t.Call, RetSeq: t.Ret, Err: t.Err}
			})
		}
	}
	_, events := conc.RunRound(res.Procs, scripts)
	for g := range results {
		res.Txns = append(res.Txns, results[g]...)
	}
	sort.Slice(res.Txns, func(a, b int) bool { return res.Txns[a].Call < res.Txns[b].Call })
	var overlapped bool
	res.Sig, overlapped = conc.InterleavingSignature(events)
	// final state by a fresh reader after quiescence
	d := sopx.DumpDB(db)
	if d.Err != "" || d.By["s"].Err != "" {
		res.Verdict, res.Problem = "illegal", "final dump unreadable: "+d.Err+d.By["s"].Err
		return res
	}
	res.Final = map[string]string{}
	for _, kv := range d.By["s"].Items {
		if _, dup := res.Final[kv.K]; dup {
			res.Verdict, res.Problem = "illegal", "duplicate key in final scan: "+kv.K
			return res
		}
		res.Final[kv.K] = kv.V
	}
	var committed []T
	shared := map[string]int{}
	for _, t := range res.Txns {
		if t.Err == "" && !t.Aborted && t.OpErr == "" {
			committed = append(committed, t)
			res.Committed++
			seen := map[string]bool{}
			for _, s := range t.Steps {
				if !seen[s.K] {
					seen[s.K] = true
					shared[s.K]++
				}
			}
		} else {
			res.Failed++
		}
	}
	for _, n := range shared {
		if n >= 2 {
			res.NonTrivial = overlapped
		}
	}
	res.Verdict, res.Problem = check(init, committed, res.Final)
	if res.Verdict == "illegal" {
		res.Problem += "; " + classify(init, committed, res.Final)
	}
	return res
}

// classify explains an illegal history by comparing the final state with the union of all committed
// writes (registers get unique values, so a committed write that is absent is a lost write).
func classify(init map[string]string, committed []T, final map[string]string) string {
	lostRemove, lostUpdate, lostAdd, other := 0, 0, 0, 0
	// a committed remove that reported "not there" for a key of the initial state that no committed
	// transaction ever removed or replaced: the key was there all along
	everRemoved := map[string]bool{}
	for _, t := range committed {
		for _, s := range t.Steps {
			if (s.Kind == "remove" && s.OK) || s.Kind == "replace" {
				everRemoved[s.K] = true
			}
		}
	}
	for _, t := range committed {
		for _, s := range t.Steps {
			if _, inInit := init[s.K]; s.Kind == "remove" && !s.OK && inInit && !everRemoved[s.K] {
				return "CLASS=existing-key-reported-absent"
			}
		}
	}
	lastW := map[string]bool{}
	written := map[string]map[string]bool{}
	removed := map[string]bool{}
	for _, t := range committed {
		for _, s := range t.Steps {
			switch s.Kind {
			case "rmw", "replace":
				if written[s.K] == nil {
					written[s.K] = map[string]bool{}
				}
				written[s.K][s.W] = true
			case "add":
				lastW[s.K] = true
			case "remove":
				if s.OK {
					removed[s.K] = true
				}
			}
		}
	}
	for k := range removed {
		if _, ok := final[k]; ok {
			lostRemove++
		}
	}
	for k, ws := range written {
		if !ws[final[k]] {
			lostUpdate++
		}
	}
	for k := range lastW {
		if _, ok := final[k]; !ok {
			lostAdd++
		}
	}
	for k, v := range final {
		if iv, ok := init[k]; ok && iv == v {
			continue
		}
		if written[k][v] || lastW[k] {
			continue
		}
		other++
	}
	switch {
	case other > 0:
		return "CLASS=uncommitted-or-foreign-value-in-final-state"
	case lostUpdate > 0:
		return "CLASS=committed-update-lost"
	case lostRemove > 0:
		return "CLASS=committed-remove-lost"
	case lostAdd > 0:
		return "CLASS=committed-add-lost"
	}
	return "CLASS=read-anomaly"
}

type plannedStep struct {
	Kind string
	K    string
}
type plannedTxn struct {
	ID    string
	Mode  string
	Steps []plannedStep
	Abort bool
	Delay time.Duration
}

func genTxn(rnd interface{ Intn(int) int }, id string, nReg, nSet int) plannedTxn {
	p := plannedTxn{ID: id, Mode: "W", Delay: time.Duration(rnd.Intn(2000)) * time.Microsecond}
	switch rnd.Intn(10) {
	case 0, 1: // read-only snapshot of several registers
		p.Mode = "R"
		n := 2 + rnd.Intn(3)
		for i := 0; i < n; i++ {
			p.Steps = append(p.Steps, plannedStep{"read", regKey(rnd.Intn(nReg))})
		}
	case 2, 3, 4: // read-modify-write of 1-2 registers
		n := 1 + rnd.Intn(2)
		for i := 0; i < n; i++ {
			p.Steps = append(p.Steps, plannedStep{"rmw", regKey(rnd.Intn(nReg))})
		}
	case 5, 6: // read one register, write another (write-skew shape)
		a, b := rnd.Intn(nReg), rnd.Intn(nReg)
		p.Steps = append(p.Steps, plannedStep{"read", regKey(a)}, plannedStep{"rmw", regKey(b)})
	case 7: // blind adds of fresh keys + a register rmw
		p.Steps = append(p.Steps, plannedStep{"add", "a" + id + "x"}, plannedStep{"add", "a" + id + "y"})
		if rnd.Intn(2) == 0 {
			p.Steps = append(p.Steps, plannedStep{"rmw", regKey(rnd.Intn(nReg))})
		}
	case 8: // blind remove of a set key + read
		p.Steps = append(p.Steps, plannedStep{"remove", setKey(rnd.Intn(nSet))}, plannedStep{"read", regKey(rnd.Intn(nReg))})
	case 9:
		if rnd.Intn(2) == 0 {
			p.Steps = append(p.Steps, plannedStep{"rmw", regKey(rnd.Intn(nReg))})
			p.Abort = true
		} else {
			// replace: remove a register and add it again (a NEW item under the same key: the ABA shape)
			p.Steps = append(p.Steps, plannedStep{"replace", regKey(rnd.Intn(nReg))})
		}
	}
	// a key is touched at most once per transaction (keeps the model's replay unambiguous)
	seen := map[string]bool{}
	st := p.Steps[:0]
	for _, s := range p.Steps {
		if !seen[s.K] {
			seen[s.K] = true
			st = append(st, s)
		}
	}
	p.Steps = st
	return p
}

// live is one open transaction being driven step by step.
type live struct {
	t    T
	p    plannedTxn
	tx   sop.Transaction
	b    btree.BtreeInterface[string, string]
	n    int
	dead bool // an operation failed and the transaction was rolled back
}

func beginLive(db sopx.DB, p plannedTxn) *live {
	l := &live{t: T{ID: p.ID, Mode: p.Mode}, p: p}
	mode := sop.ForWriting
	if p.Mode == "R" {
		mode = sop.ForReading
	}
	tx, err := db.Begin(mode, 2*time.Minute)
	if err != nil {
		l.t.OpErr, l.dead = "begin: "+err.Error(), true
		return l
	}
	l.tx = tx
	l.b, err = sopx.Open[string, string](db, tx, "s")
	if err != nil {
		l.t.OpErr, l.dead = "open: "+err.Error(), true
		tx.Rollback(conc.Ctx)
	}
	return l
}

func (l *live) fail(e error) {
	l.t.OpErr, l.dead = e.Error(), true
	l.tx.Rollback(conc.Ctx)
}

// step runs one planned step; after a failed operation the transaction is rolled back (dead).
func (l *live) step(s plannedStep) {
	if l.dead {
		return
	}
	b, p := l.b, l.p
	st := Step{Kind: s.Kind, K: s.K}
	switch s.Kind {
	case "read", "rmw":
		ok, err := b.Find(conc.Ctx, s.K, false)
		if err != nil {
			l.fail(err)
			return
		}
		if !ok {
			l.fail(fmt.Errorf("register %s not found", s.K)) // registers are never removed
			return
		}
		v, err := b.GetCurrentValue(conc.Ctx)
		if err != nil {
			l.fail(err)
			return
		}
		st.Saw, st.OK = v, true
		if s.Kind == "rmw" {
			l.n++
			st.W = fmt.Sprintf("%s.%d", p.ID, l.n)
			ok, err := b.UpdateCurrentValue(conc.Ctx, st.W)
			if err != nil {
				l.fail(err)
				return
			}
			if !ok {
				l.fail(fmt.Errorf("UpdateCurrentValue(%s) returned false", s.K))
				return
			}
		}
	case "replace":
		l.n++
		st.W = fmt.Sprintf("%s.%d", p.ID, l.n)
		ok, err := b.Remove(conc.Ctx, s.K)
		if err != nil {
			l.fail(err)
			return
		}
		if !ok {
			l.fail(fmt.Errorf("register %s not found for replace", s.K))
			return
		}
		ok, err = b.Add(conc.Ctx, s.K, st.W)
		if err != nil {
			l.fail(err)
			return
		}
		st.OK = ok
		if !ok {
			l.fail(fmt.Errorf("re-add of %s returned false", s.K))
			return
		}
	case "add":
		l.n++
		st.W = fmt.Sprintf("%s.%d", p.ID, l.n)
		ok, err := b.Add(conc.Ctx, s.K, st.W)
		if err != nil {
			l.fail(err)
			return
		}
		st.OK = ok
	case "remove":
		ok, err := b.Remove(conc.Ctx, s.K)
		if err != nil {
			l.fail(err)
			return
		}
		st.OK = ok
	}
	l.t.Steps = append(l.t.Steps, st)
}

// finish commits (or voluntarily rolls back) the transaction.
func (l *live) finish(clock *conc.Clock, abort bool) T {
	if l.dead {
		return l.t
	}
	if abort {
		l.t.Aborted = true
		l.t.Call = clock.Tick()
		l.tx.Rollback(conc.Ctx)
		l.t.Ret = clock.Tick()
		return l.t
	}
	l.t.Call = clock.Tick()
	cerr := l.tx.Commit(conc.Ctx)
	l.t.Ret = clock.Tick()
	if cerr != nil {
		l.t.Err = cerr.Error()
	}
	return l.t
}

func execTxn(db sopx.DB, clock *conc.Clock, p plannedTxn) T {
	l := beginLive(db, p)
	for _, s := range p.Steps {
		l.step(s)
	}
	if l.dead {
		return l.t
	}
	time.Sleep(p.Delay)
	return l.finish(clock, p.Abort)
}

// ---- the oracle: porcupine, one operation per committed transaction, all on the same interval ----

func enc(m map[string]string) string {
	ks := make([]string, 0, len(m))
	for k := range m {
		ks = append(ks, k)
	}
	sort.Strings(ks)
	var sb strings.Builder
	for _, k := range ks {
		sb.WriteString(k + "=" + m[k] + ";")
	}
	return sb.String()
}
func dec(s string) map[string]string {
	m := map[string]string{}
	for _, kv := range strings.Split(s, ";") {
		if kv == "" {
			continue
		}
		i := strings.IndexByte(kv, '=')
		m[kv[:i]] = kv[i+1:]
	}
	return m
}

type opIn struct {
	T     *T
	Final map[string]string
}

func check(init map[string]string, committed []T, final map[string]string) (string, string) {
	model := porcupine.Model{
		Init: func() interface{} { return enc(init) },
		Step: func(state, input, output interface{}) (bool, interface{}) {
			st := dec(state.(string))
			in := input.(opIn)
			if in.T == nil { // final read-all
				if enc(st) != enc(in.Final) {
					return false, state
				}
				return true, state
			}
			for _, s := range in.T.Steps {
				switch s.Kind {
				case "read":
					if st[s.K] != s.Saw {
						return false, state
					}
				case "replace":
					st[s.K] = s.W
				case "rmw":
					if st[s.K] != s.Saw {
						return false, state
					}
					st[s.K] = s.W
				case "add":
					// Add's result is an observation too: true = the key was absent, false = it was present
					_, present := st[s.K]
					if present == s.OK {
						return false, state
					}
					if !present {
						st[s.K] = s.W
					}
				case "remove":
					// Remove's result is an observation: true = the key was there, false = it was not
					if _, present := st[s.K]; present != s.OK {
						return false, state
					}
					delete(st, s.K)
				}
			}
			return true, enc(st)
		},
		Equal: func(a, b interface{}) bool { return a.(string) == b.(string) },
		DescribeOperation: func(input, output interface{}) string {
			in := input.(opIn)
			if in.T == nil {
				return "final"
			}
			b, _ := json.Marshal(in.T.Steps)
			return in.T.ID + string(b)
		},
	}
	var ops []porcupine.Operation
	for i := range committed {
		ops = append(ops, porcupine.Operation{ClientId: i, Input: opIn{T: &committed[i]}, Call: 0, Output: nil, Return: 1})
	}
	ops = append(ops, porcupine.Operation{ClientId: len(committed), Input: opIn{Final: final}, Call: 2, Output: nil, Return: 3})
	resu, _ := porcupine.CheckOperationsVerbose(model, ops, 60*time.Second)
	switch resu {
	case porcupine.Ok:
		return "ok", ""
	case porcupine.Unknown:
		return "unknown", "porcupine timed out"
	}
	return "illegal", "no serial order of the committed transactions explains the values they read and the final state"
}

func Run(r *report.Run) int {
	rounds := r.Pick(200, 5000)
	lines, died := par.Run(r, "c02-worker", 8, rounds, 1700, nil)
	conc.ReportDeaths(r, "C02", died)
	// the three process-based halves run side by side (the timing-driven in-process half ran alone above)
	crounds, drounds, lrounds := r.Pick(48, 800), r.Pick(96, 2000), r.Pick(160, 4000)
	var clines, dlines, llines []par.Line
	var cdied, ddied, ldied []string
	var hw sync.WaitGroup
	hw.Add(3)
	go func() { defer hw.Done(); clines, cdied = par.Run(r, "c02c-worker", 5, crounds, 1700, nil) }()
	go func() { defer hw.Done(); dlines, ddied = par.Run(r, "c02c-worker", 5, drounds, 1700, nil, "directed") }()
	go func() { defer hw.Done(); llines, ldied = par.Run(r, "c02c-worker", 4, lrounds, 1700, nil, "directed-local") }()
	hw.Wait()
	conc.ReportDeaths(r, "C02", cdied)
	conc.ReportDeaths(r, "C02", ddied)
	conc.ReportDeaths(r, "C02", ldied)
	type tagged struct {
		par.Line
		mode string
	}
	var all []tagged
	for _, l := range lines {
		all = append(all, tagged{l, "inprocess"})
	}
	for _, l := range clines {
		all = append(all, tagged{l, "clustered"})
	}
	for _, l := range dlines {
		all = append(all, tagged{l, "clustered-directed"})
	}
	for _, l := range llines {
		all = append(all, tagged{l, "inprocess-directed"})
	}
	if len(llines) < lrounds*9/10 {
		r.Broken("only %d of %d in-process directed rounds reported", len(llines), lrounds)
	}
	for _, l := range all {
		var res RoundRes
		if json.Unmarshal(l.Res, &res) != nil {
			continue
		}
		if res.Harness != "" {
			r.Inconclusive("harness:" + l.mode)
			r.Set("last_harness_problem_"+l.mode, res.Harness)
			continue
		}
		r.Eval(l.mode+":"+res.Sig, res.NonTrivial)
		r.Count("committed_transactions:"+l.mode, int64(res.Committed))
		r.Count("failed_or_aborted_transactions:"+l.mode, int64(res.Failed))
		if res.NonTrivial {
			r.Count("nontrivial_rounds:"+l.mode, 1)
		}
		if l.Round < 2 {
			r.Sample(res)
		}
		switch res.Verdict {
		case "ok":
			r.Count("histories_serializable", 1)
		case "unknown":
			r.Inconclusive("checker-timeout")
		case "illegal":
			cls := "not-serializable"
			if i := strings.Index(res.Problem, "CLASS="); i >= 0 {
				cls = res.Problem[i+6:]
				if j := strings.IndexByte(cls, ';'); j >= 0 {
					cls = cls[:j] // directed rounds append their schedule after the class
				}
			}
			if strings.Contains(res.Problem, "process-crash") {
				cls = "process-crash"
			} else if strings.Contains(res.Problem, "duplicate") {
				cls = "duplicate-key"
			} else if strings.Contains(res.Problem, "unreadable") {
				cls = "final-unreadable"
			}
			r.Violation("C02:"+l.mode+":"+res.Profile+":"+cls, map[string]any{"round": l.Round, "seed": r.Seed, "history": res})
		}
	}
	if len(lines) < rounds*9/10 {
		r.Broken("only %d of %d rounds reported", len(lines), rounds)
	}
	if len(dlines) < drounds*9/10 {
		r.Broken("only %d of %d directed clustered rounds reported", len(dlines), drounds)
	}
	if len(clines) < crounds*9/10 {
		r.Broken("only %d of %d clustered rounds reported", len(clines), crounds)
	}
	return r.Finish(rule, assumptions, 10)
}

const rule = "rounds of 3-7 goroutines x 1-2 transactions (public path, ForWriting and ForReading) over 4-8 register keys spread over several nodes plus set keys: read-only snapshots, read-modify-write, read-A-write-B, blind adds of fresh keys, blind removes, replace (remove + re-add of a register in one transaction: a new item under the same key), voluntary rollbacks; PRNG delays at L2 calls and before Commit, GOMAXPROCS cycle; history = per transaction the values it read and the unique values it wrote + commit result, stamped at the harness boundary; oracle = porcupine over one operation per committed transaction, all on the same interval (any serial order allowed), plus the quiescent final scan; values read of existing keys, the found/not-found results of Add and Remove, and the final state decide; fingerprint = commit-order signature; non-trivial = >=2 committed transactions share a key and commits overlapped. CLUSTERED half: rounds of 2-3 OS processes sharing only the store folder and a Redis-protocol L2 (RESP stub), 2-3 waves of 1-3 transactions per process (same vocabulary; each process keeps its L1 cache across waves, so later waves run over caches that other processes' commits have outdated), final scan by a fresh process; same oracle; non-trivial = committed transactions of >=2 different processes touched one key. CLUSTERED-DIRECTED: same processes, every process first warms its L1 cache (reads every register, writes one), then 2-3 episodes in which the harness drives a PRNG-chosen STEP-BY-STEP interleaving (one command at a time, no timing) of 2-3 transactions living in different processes, each episode followed by a read-only transaction in every process; fingerprint = the schedule; a node process that dies with a sop frame in its trace is a violation (process-crash). INPROCESS-DIRECTED: the same harness-driven step interleavings with all participants inside one process (standalone in-memory L2, shared L1)"

var assumptions = []string{"store pre-seeded (README precondition)", "in-process half: standalone in-memory L2; clustered half: the Redis SERVER is the RESP stub of kit/resp (the adapter and go-redis client are the real ones)", "NoCheck mode is not part of the vocabulary", "porcupine timeout 60 s => inconclusive"}
