package c02

// The clustered half of C02: the transactions of one history run in SEPARATE OS PROCESSES that share
// nothing but the store folder and a Redis-protocol L2 cache (the RESP stub of kit/resp, DESIGN §3.6).
// Each process keeps its own L1 cache across the waves of a round, so later waves run over caches
// warmed (and possibly outdated) by what OTHER processes committed in the meantime. The oracle is the
// one of the in-process half: porcupine over one operation per committed transaction + the final scan,
// taken by a fresh process.

import (
	"bufio"
	"encoding/json"
	"fmt"
	"io"
	"os"
	"os/exec"
	"sort"
	"strings"
	"sync"
	"time"

	"github.com/sharedcode/sop"

	"verifharness/kit/env"
	"verifharness/kit/par"
	"verifharness/kit/proc"
	"verifharness/kit/resp"
	"verifharness/kit/sopx"
	"verifharness/kit/txn"
	"verifharness/props/conc"
)

func init() {
	proc.Register("c02c-worker", func(a []string) int {
		return par.Serve(a, func(i int, seed int64, extra []string) any {
			if len(extra) > 0 && extra[0] == "directed" {
				return roundDirected(i, seed, false)
			}
			if len(extra) > 0 && extra[0] == "directed-local" {
				return roundDirected(i, seed, true)
			}
			return roundClustered(i, seed, extra)
		})
	})
	proc.Register("c02c-node", nodeClustered)
}

type cnodeCfg struct {
	Dir   string `json:"dir"`
	Redis string `json:"redis"`
}

type ccmd struct {
	Cmd     string       `json:"cmd"` // seed | run | dump | quit
	Slot    int          `json:"slot,omitempty"`
	Profile string       `json:"profile,omitempty"`
	Init    []sopx.KV    `json:"init,omitempty"`
	Txns    []plannedTxn `json:"txns,omitempty"`
	G       int          `json:"g,omitempty"`     // goroutines the transactions are dealt to
	Plan    *plannedTxn  `json:"plan,omitempty"`  // tbegin
	ID      string       `json:"id,omitempty"`    // tstep, tfinish
	Step    *plannedStep `json:"step,omitempty"`  // tstep
	Abort   bool         `json:"abort,omitempty"` // tfinish
	Aged    bool         `json:"aged,omitempty"`  // seed: rewrite every item once more (values move to their own blobs)
}

type creply struct {
	OK    bool              `json:"ok"`
	Err   string            `json:"err,omitempty"`
	Txns  []T               `json:"txns,omitempty"`
	Final map[string]string `json:"final,omitempty"`
	Dup   string            `json:"dup,omitempty"`
}

func (c cnodeCfg) db() sopx.DB {
	return sopx.DB{Dir: c.Dir, Opts: sop.DatabaseOptions{StoresFolders: []string{c.Dir}, CacheType: sop.Redis, RedisConfig: resp.Config(c.Redis)}}
}

// nodeState is one participant (an OS process in clustered mode, a plain object in the in-process
// directed half): a database handle plus its open step-driven transactions.
type nodeState struct {
	db    sopx.DB
	clock *conc.Clock
	open  map[string]*live
}

func newNodeState(db sopx.DB) *nodeState {
	return &nodeState{db: db, clock: &conc.Clock{}, open: map[string]*live{}}
}

func (n *nodeState) handle(m ccmd) creply {
	db := n.db
	switch m.Cmd {
	case "seed":
		prog := txn.Program{Create: []txn.Spec{{Name: "s", Slot: m.Slot, Profile: sopx.Profile(m.Profile)}}}
		for _, kv := range m.Init {
			prog.Ops = append(prog.Ops, txn.Op{Store: "s", Kind: "add", K: kv.K, V: kv.V})
		}
		if err := txn.Commit(txn.Public{DB: db}, prog, time.Minute); err != nil {
			return creply{Err: err.Error()}
		}
		if m.Aged {
			init := map[string]string{}
			for _, kv := range m.Init {
				init[kv.K] = kv.V
			}
			if err := txn.Commit(txn.Public{DB: db}, ageProgram(init), time.Minute); err != nil {
				return creply{Err: "ageing: " + err.Error()}
			}
		}
		return creply{OK: true}
	case "tbegin":
		n.open[m.Plan.ID] = beginLive(db, *m.Plan)
		return creply{OK: true}
	case "tstep":
		if l := n.open[m.ID]; l != nil && m.Step != nil {
			l.step(*m.Step)
		}
		return creply{OK: true}
	case "tfinish":
		l := n.open[m.ID]
		if l == nil {
			return creply{Err: "no such transaction"}
		}
		delete(n.open, m.ID)
		return creply{OK: true, Txns: []T{l.finish(n.clock, m.Abort)}}
	case "run":
		g := m.G
		if g < 1 {
			g = 1
		}
		res := make([][]T, g)
		var wg sync.WaitGroup
		for i := 0; i < g; i++ {
			wg.Add(1)
			go func(i int) {
				defer wg.Done()
				for j := i; j < len(m.Txns); j += g {
					res[i] = append(res[i], execTxn(db, n.clock, m.Txns[j]))
				}
			}(i)
		}
		wg.Wait()
		var all []T
		for _, r := range res {
			all = append(all, r...)
		}
		return creply{OK: true, Txns: all}
	case "dump":
		d := sopx.DumpDB(db)
		if d.Err != "" || d.By["s"].Err != "" {
			return creply{Err: "final dump unreadable: " + d.Err + d.By["s"].Err}
		}
		fin := map[string]string{}
		dup := ""
		for _, kv := range d.By["s"].Items {
			if _, ok := fin[kv.K]; ok {
				dup = kv.K
			}
			fin[kv.K] = kv.V
		}
		return creply{OK: true, Final: fin, Dup: dup}
	}
	return creply{Err: "unknown command " + m.Cmd}
}

func nodeClustered(args []string) int {
	var c cnodeCfg
	if json.Unmarshal([]byte(args[0]), &c) != nil {
		return proc.ExitHarness
	}
	sop.RetryStartDuration = time.Millisecond
	st := newNodeState(c.db())
	in := bufio.NewScanner(os.Stdin)
	in.Buffer(make([]byte, 1<<20), 1<<24)
	out := bufio.NewWriter(os.Stdout)
	for in.Scan() {
		var m ccmd
		r := creply{Err: "bad command"}
		if json.Unmarshal(in.Bytes(), &m) == nil {
			if m.Cmd == "quit" {
				return 0
			}
			r = st.handle(m)
		}
		b, _ := json.Marshal(r)
		out.Write(b)
		out.WriteByte('\n')
		out.Flush()
	}
	return 0
}

// peer is what a round talks to: a child process (clustered) or an in-process participant.
type peer interface {
	do(m ccmd, wait time.Duration) creply
	crashOf() string
	stop()
}

// localPeer runs the commands in this process (standalone in-memory L2, shared L1): the in-process
// half of the directed interleavings.
type localPeer struct{ st *nodeState }

func (l *localPeer) do(m ccmd, _ time.Duration) creply { return l.st.handle(m) }
func (l *localPeer) crashOf() string                  { return "" }
func (l *localPeer) stop()                            {}

type cchild struct {
	cmd    *exec.Cmd
	in     io.WriteCloser
	out    *bufio.Scanner
	errLog string
}

// crashOf returns a one-line description when the child died inside library code (panic / fatal error
// with a sop frame in its trace), "" otherwise.
func (c *cchild) crashOf() string {
	b, err := os.ReadFile(c.errLog)
	if err != nil {
		return ""
	}
	txt := string(b)
	i := strings.Index(txt, "panic:")
	if i < 0 {
		i = strings.Index(txt, "fatal error:")
	}
	if i < 0 || !strings.Contains(txt[i:], "github.com/sharedcode/sop") {
		return ""
	}
	head := txt[i:]
	if j := strings.IndexByte(head, '\n'); j > 0 {
		head = head[:j]
	}
	var frames []string
	lines := strings.Split(txt[i:], "\n")
	for n, ln := range lines {
		if strings.HasPrefix(ln, "github.com/sharedcode/sop") && len(frames) < 4 {
			f := ln
			if k := strings.LastIndexByte(f, '('); k > 0 {
				f = f[:k]
			}
			f = strings.TrimPrefix(f, "github.com/sharedcode/sop/")
			if n+1 < len(lines) {
				loc := strings.TrimSpace(lines[n+1])
				if k := strings.LastIndexByte(loc, '/'); k >= 0 {
					loc = loc[k+1:]
				}
				if k := strings.IndexByte(loc, ' '); k > 0 {
					loc = loc[:k]
				}
				f += " " + loc
			}
			frames = append(frames, f)
		}
	}
	return head + " at " + strings.Join(frames, " <- ")
}

func startCNode(c cnodeCfg) (*cchild, error) {
	self := os.Getenv("VERIF_BIN")
	if self == "" {
		self, _ = os.Executable()
	}
	j, _ := json.Marshal(c)
	cm := exec.Command("timeout", "-s", "QUIT", "300", self, "child", "c02c-node", string(j))
	ef, err := os.CreateTemp(c.Dir, "node-stderr-*.log")
	if err != nil {
		return nil, err
	}
	cm.Stderr = ef
	defer ef.Close()
	in, err := cm.StdinPipe()
	if err != nil {
		return nil, err
	}
	op, err := cm.StdoutPipe()
	if err != nil {
		return nil, err
	}
	if err := cm.Start(); err != nil {
		return nil, err
	}
	sc := bufio.NewScanner(op)
	sc.Buffer(make([]byte, 1<<20), 1<<26)
	return &cchild{cmd: cm, in: in, out: sc, errLog: ef.Name()}, nil
}

func (c *cchild) do(m ccmd, wait time.Duration) creply {
	b, _ := json.Marshal(m)
	if _, err := c.in.Write(append(b, '\n')); err != nil {
		return creply{Err: "child gone: " + err.Error()}
	}
	done := make(chan creply, 1)
	go func() {
		if c.out.Scan() {
			var r creply
			if json.Unmarshal(c.out.Bytes(), &r) != nil {
				r = creply{Err: "bad reply"}
			}
			done <- r
			return
		}
		done <- creply{Err: "child closed its output"}
	}()
	select {
	case r := <-done:
		return r
	case <-time.After(wait):
		return creply{Err: "child did not answer in time"}
	}
}

func (c *cchild) stop() {
	b, _ := json.Marshal(ccmd{Cmd: "quit"})
	c.in.Write(append(b, '\n'))
	c.in.Close()
	done := make(chan struct{})
	go func() { c.cmd.Wait(); close(done) }()
	select {
	case <-done:
	case <-time.After(5 * time.Second):
		c.cmd.Process.Kill()
		<-done
	}
}

func roundClustered(i int, seed int64, extra []string) any {
	rnd := env.Rand(seed, fmt.Sprintf("c02c-%d", i))
	res := RoundRes{}
	dir := env.Scratch("c02c")
	defer env.Remove(dir)
	srv, err := resp.Start()
	if err != nil {
		res.Harness = "resp stub: " + err.Error()
		return res
	}
	defer srv.Close()
	if dbg := os.Getenv("VERIF_C02_DEBUG"); dbg != "" {
		srv.EnableLog(200000)
		defer func() {
			if res.Verdict == "illegal" {
				f, _ := os.Create(fmt.Sprintf("%s/c02c-%d-%d.log", dbg, seed, i))
				for _, l := range srv.CommandLog() {
					fmt.Fprintln(f, l)
				}
				b, _ := json.MarshalIndent(res, "", " ")
				f.Write(b)
				f.Close()
				exec.Command("cp", "-r", dir, fmt.Sprintf("%s/c02c-%d-%d.dir", dbg, seed, i)).Run()
			}
		}()
	}
	cfg := cnodeCfg{Dir: dir, Redis: srv.Addr()}
	res.Slot = []int{2, 4, 4, 8}[rnd.Intn(4)]
	prof := []sopx.Profile{sopx.InNode, sopx.InNode, sopx.Separate, sopx.SepCached, sopx.SepActive}[rnd.Intn(5)]
	res.Profile = string(prof)
	nReg := 4 + rnd.Intn(5)
	nSet := 4
	init := map[string]string{}
	var initKV []sopx.KV
	for k := 0; k < nReg; k++ {
		init[regKey(k)] = "init." + regKey(k)
	}
	for k := 0; k < nSet; k++ {
		init[setKey(k)] = "set." + setKey(k)
	}
	for k, v := range init {
		initKV = append(initKV, sopx.KV{K: k, V: v})
	}
	sort.Slice(initKV, func(a, b int) bool { return initKV[a].K < initKV[b].K })
	res.Init = init
	P := 2 + rnd.Intn(2)
	res.Procs = P
	var nodes []*cchild
	for p := 0; p < P; p++ {
		c, err := startCNode(cfg)
		if err != nil {
			res.Harness = "node start: " + err.Error()
			return res
		}
		defer c.stop()
		nodes = append(nodes, c)
	}
	if rp := nodes[0].do(ccmd{Cmd: "seed", Slot: res.Slot, Profile: res.Profile, Init: initKV, Aged: i%2 == 1}, 90*time.Second); !rp.OK {
		res.Harness = "seed: " + rp.Err
		return res
	}
	waves := 2 + rnd.Intn(2)
	tid := 0
	type iv struct {
		p, w int
	}
	where := map[string]iv{}
	for w := 0; w < waves; w++ {
		plans := make([][]plannedTxn, P)
		for p := 0; p < P; p++ {
			n := 1 + rnd.Intn(3)
			for j := 0; j < n; j++ {
				id := fmt.Sprintf("T%d", tid)
				tid++
				plans[p] = append(plans[p], genTxn(rnd, id, nReg, nSet))
				where[id] = iv{p, w}
			}
		}
		replies := make([]creply, P)
		var wg sync.WaitGroup
		for p := 0; p < P; p++ {
			wg.Add(1)
			go func(p int) {
				defer wg.Done()
				replies[p] = nodes[p].do(ccmd{Cmd: "run", Txns: plans[p], G: 1 + (i+p)%2}, 240*time.Second)
			}(p)
		}
		wg.Wait()
		for p := 0; p < P; p++ {
			if !replies[p].OK {
				if cr := nodes[p].crashOf(); cr != "" {
					res.Verdict, res.Problem = "illegal", "process-crash: "+cr
					return res
				}
				res.Harness = fmt.Sprintf("wave %d node %d: %s", w, p, replies[p].Err)
				return res
			}
			for _, t := range replies[p].Txns {
				t.ID = fmt.Sprintf("%s@p%dw%d", t.ID, p, w)
				res.Txns = append(res.Txns, t)
			}
		}
	}
	// final state by a FRESH process (cold L1) after quiescence
	fresh, err := startCNode(cfg)
	if err != nil {
		res.Harness = "fresh node: " + err.Error()
		return res
	}
	defer fresh.stop()
	fr := fresh.do(ccmd{Cmd: "dump"}, 90*time.Second)
	if !fr.OK {
		if fr.Err != "" && len(fr.Err) > 5 && fr.Err[:5] == "final" {
			res.Verdict, res.Problem = "illegal", fr.Err
			return res
		}
		res.Harness = "dump: " + fr.Err
		return res
	}
	if fr.Dup != "" {
		res.Verdict, res.Problem = "illegal", "duplicate key in final scan: "+fr.Dup
		return res
	}
	res.Final = fr.Final
	var committed []T
	shared := map[string]map[int]bool{}
	for _, t := range res.Txns {
		if t.Err == "" && !t.Aborted && t.OpErr == "" {
			committed = append(committed, t)
			res.Committed++
			var p, w int
			fmt.Sscanf(t.ID[len(t.ID)-4:], "p%dw%d", &p, &w)
			for _, s := range t.Steps {
				if shared[s.K] == nil {
					shared[s.K] = map[int]bool{}
				}
				shared[s.K][p] = true
			}
		} else {
			res.Failed++
		}
	}
	// non-trivial: a key was touched by committed transactions of at least two different processes
	for _, ps := range shared {
		if len(ps) >= 2 {
			res.NonTrivial = true
		}
	}
	// fingerprint: which process/wave committed what kind of steps on which key
	var parts []string
	for _, t := range committed {
		s := t.ID[len(t.ID)-4:] + ":"
		for _, st := range t.Steps {
			s += st.Kind[:2] + st.K + ","
		}
		parts = append(parts, s)
	}
	sort.Strings(parts)
	res.Sig = fmt.Sprintf("P%d/%s/%v", P, res.Profile, parts)
	res.Verdict, res.Problem = check(init, committed, res.Final)
	if res.Verdict == "illegal" {
		res.Problem += "; " + classify(init, committed, res.Final)
	}
	return res
}

// roundDirected: the same processes, but the harness drives a chosen step-by-step interleaving of two or
// three transactions that live in DIFFERENT processes (one command at a time, so the schedule is exactly
// the one chosen - no timing involved). Before it, every process runs a warm-up transaction (reads every
// register, writes one) so its L1 cache holds nodes and handles that the other processes' commits then
// outdate; after it, every process runs a read-only transaction over several registers.
func roundDirected(i int, seed int64, local bool) any {
	rnd := env.Rand(seed, fmt.Sprintf("c02d-%d-%v", i, local))
	res := RoundRes{}
	dir := env.Scratch("c02d")
	defer env.Remove(dir)
	var cfg cnodeCfg
	if !local {
		srv, err := resp.Start()
		if err != nil {
			res.Harness = "resp stub: " + err.Error()
			return res
		}
		defer srv.Close()
		cfg = cnodeCfg{Dir: dir, Redis: srv.Addr()}
	}
	newPeer := func() (peer, error) {
		if local {
			return &localPeer{st: newNodeState(sopx.NewDB(dir))}, nil
		}
		return startCNode(cfg)
	}
	res.Slot = []int{2, 2, 4, 4, 8}[rnd.Intn(5)]
	prof := []sopx.Profile{sopx.InNode, sopx.Separate, sopx.SepCached, sopx.SepActive, sopx.SepActive}[rnd.Intn(5)]
	res.Profile = string(prof)
	nReg := 4 + rnd.Intn(5)
	nSet := 4
	init := map[string]string{}
	var initKV []sopx.KV
	for k := 0; k < nReg; k++ {
		init[regKey(k)] = "init." + regKey(k)
	}
	for k := 0; k < nSet; k++ {
		init[setKey(k)] = "set." + setKey(k)
	}
	for k, v := range init {
		initKV = append(initKV, sopx.KV{K: k, V: v})
	}
	sort.Slice(initKV, func(a, b int) bool { return initKV[a].K < initKV[b].K })
	res.Init = init
	P := 2 + rnd.Intn(2)
	res.Procs = P
	var nodes []peer
	for p := 0; p < P; p++ {
		c, err := newPeer()
		if err != nil {
			res.Harness = "node start: " + err.Error()
			return res
		}
		defer c.stop()
		nodes = append(nodes, c)
	}
	if rp := nodes[0].do(ccmd{Cmd: "seed", Slot: res.Slot, Profile: res.Profile, Init: initKV, Aged: i%2 == 1}, 90*time.Second); !rp.OK {
		res.Harness = "seed: " + rp.Err
		return res
	}
	tid := 0
	newID := func() string { tid++; return fmt.Sprintf("T%d", tid) }
	var sched []string
	record := func(p int, tag string, rp creply) bool {
		if !rp.OK {
			if cr := nodes[p].crashOf(); cr != "" {
				res.Verdict, res.Problem = "illegal", "process-crash: "+cr+fmt.Sprintf("; schedule=%v", sched)
				return false
			}
			res.Harness = fmt.Sprintf("%s on p%d: %s", tag, p, rp.Err)
			return false
		}
		for _, t := range rp.Txns {
			t.ID = fmt.Sprintf("%s@p%d%s", t.ID, p, tag)
			res.Txns = append(res.Txns, t)
		}
		return true
	}
	// warm-up, one process after the other
	for p := 0; p < P; p++ {
		w := plannedTxn{ID: newID(), Mode: "W"}
		for k := 0; k < nReg; k++ {
			w.Steps = append(w.Steps, plannedStep{"read", regKey(k)})
		}
		w.Steps[rnd.Intn(nReg)].Kind = "rmw"
		if !record(p, "warm", nodes[p].do(ccmd{Cmd: "run", Txns: []plannedTxn{w}, G: 1}, 120*time.Second)) {
			return res
		}
	}
	episodes := 2 + rnd.Intn(2)
	for e := 0; e < episodes; e++ {
		// 2-3 transactions in different processes, steps interleaved by the PRNG
		n := 2
		if P > 2 && rnd.Intn(2) == 0 {
			n = 3
		}
		type actor struct {
			p    int
			plan plannedTxn
			next int // next step; len(steps) = finish
			done bool
		}
		var as []*actor
		perm := rnd.Perm(P)
		// every second episode is one of the two canonical anomaly shapes over two registers that live
		// far apart (first and last register): write skew (T1 reads A writes B, T2 reads B writes A) or a
		// fractured read (R reads A and B, W writes A and B); the other episodes are PRNG transactions
		canon := rnd.Intn(2) == 0
		regA, regB := regKey(0), regKey(nReg-1)
		if rnd.Intn(2) == 0 {
			regA, regB = regB, regA
		}
		skew := rnd.Intn(2) == 0
		for a := 0; a < n; a++ {
			pl := genTxn(rnd, newID(), nReg, nSet)
			if canon && a < 2 {
				pl = plannedTxn{ID: pl.ID, Mode: "W"}
				switch {
				case skew && a == 0:
					pl.Steps = []plannedStep{{"read", regA}, {"rmw", regB}}
				case skew:
					pl.Steps = []plannedStep{{"read", regB}, {"rmw", regA}}
				case a == 0:
					pl.Mode = "R"
					pl.Steps = []plannedStep{{"read", regA}, {"read", regB}}
				default:
					pl.Steps = []plannedStep{{"rmw", regA}, {"rmw", regB}}
				}
			}
			pl.Delay = 0
			as = append(as, &actor{p: perm[a], plan: pl})
			if !record(perm[a], "", nodes[perm[a]].do(ccmd{Cmd: "tbegin", Plan: &pl}, 60*time.Second)) {
				return res
			}
		}
		for {
			var live []*actor
			for _, a := range as {
				if !a.done {
					live = append(live, a)
				}
			}
			if len(live) == 0 {
				break
			}
			a := live[rnd.Intn(len(live))]
			if a.next < len(a.plan.Steps) {
				st := a.plan.Steps[a.next]
				a.next++
				sched = append(sched, fmt.Sprintf("p%d:%s:%s", a.p, st.Kind[:2], st.K))
				if !record(a.p, "", nodes[a.p].do(ccmd{Cmd: "tstep", ID: a.plan.ID, Step: &st}, 60*time.Second)) {
					return res
				}
				continue
			}
			a.done = true
			sched = append(sched, fmt.Sprintf("p%d:commit", a.p))
			if !record(a.p, fmt.Sprintf("e%d", e), nodes[a.p].do(ccmd{Cmd: "tfinish", ID: a.plan.ID, Abort: a.plan.Abort}, 200*time.Second)) {
				return res
			}
		}
		// afterwards: every process reads several registers in a ForReading transaction
		for p := 0; p < P; p++ {
			rd := plannedTxn{ID: newID(), Mode: "R"}
			for _, k := range rnd.Perm(nReg)[:2+rnd.Intn(nReg-1)] {
				rd.Steps = append(rd.Steps, plannedStep{"read", regKey(k)})
			}
			if !record(p, fmt.Sprintf("r%d", e), nodes[p].do(ccmd{Cmd: "run", Txns: []plannedTxn{rd}, G: 1}, 120*time.Second)) {
				return res
			}
		}
	}
	fresh, err := newPeer()
	if err != nil {
		res.Harness = "fresh node: " + err.Error()
		return res
	}
	defer fresh.stop()
	fr := fresh.do(ccmd{Cmd: "dump"}, 90*time.Second)
	if !fr.OK {
		if len(fr.Err) > 5 && fr.Err[:5] == "final" {
			res.Verdict, res.Problem = "illegal", fr.Err
			return res
		}
		res.Harness = "dump: " + fr.Err
		return res
	}
	if fr.Dup != "" {
		res.Verdict, res.Problem = "illegal", "duplicate key in final scan: "+fr.Dup
		return res
	}
	res.Final = fr.Final
	var committed []T
	for _, t := range res.Txns {
		if t.Err == "" && !t.Aborted && t.OpErr == "" {
			committed = append(committed, t)
			res.Committed++
		} else {
			res.Failed++
		}
	}
	res.NonTrivial = res.Committed >= P+2
	res.Sig = fmt.Sprintf("P%d/%s/slot%d/%v", P, res.Profile, res.Slot, sched)
	res.Verdict, res.Problem = check(init, committed, res.Final)
	if res.Verdict == "illegal" {
		res.Problem += "; " + classify(init, committed, res.Final) + fmt.Sprintf("; schedule=%v", sched)
	}
	return res
}
