// Package c04: concurrent transactions with disjoint changes to one store all commit.
package c04

import (
	"encoding/json"
	"fmt"
	"math/rand"
	"strings"
	"time"

	"github.com/sharedcode/sop"

	"verifharness/kit/env"
	"verifharness/kit/par"
	"verifharness/kit/proc"
	"verifharness/kit/report"
	"verifharness/kit/sopx"
	"verifharness/kit/txn"
	"verifharness/props/conc"
)

func init() {
	proc.Register("c04-worker", func(a []string) int { conc.Setup(7, 25); return par.Serve(a, round) })
}

// RoundRes is what a round reports.
type RoundRes struct {
	Sig         string        `json:"sig"`
	Overlapped  bool          `json:"overlapped"`
	Writers     int           `json:"writers"`
	Slot        int           `json:"slot"`
	Profile     string        `json:"profile"`
	Procs       int           `json:"procs"`
	Txns        []conc.TxnRec `json:"txns"`
	Problem     string        `json:"problem,omitempty"` // violation text
	Class       string        `json:"class,omitempty"`   // violation class
	Harness     string        `json:"harness,omitempty"`
	MaxCommitMs int64         `json:"max_commit_ms"`
}

func round(i int, seed int64, extra []string) any {
	rnd := env.Rand(seed, fmt.Sprintf("c04-%d", i))
	res := RoundRes{Procs: conc.Procs(i)}
	db, dir := conc.NewRoundDB("c04")
	defer env.Remove(dir)
	slots := []int{2, 4, 8}
	res.Slot = slots[rnd.Intn(len(slots))]
	prof := []sopx.Profile{sopx.InNode, sopx.InNode, sopx.Separate, sopx.SepCached}[rnd.Intn(4)]
	res.Profile = string(prof)
	model, err := conc.SeedStore(db, "s", res.Slot, prof, 9)
	if err != nil {
		res.Harness = "seed: " + err.Error()
		return res
	}
	W := 2 + rnd.Intn(2)
	res.Writers = W
	// disjoint key sets: writer w owns new keys with index ≡ w (mod W) inside one or two decades, so the
	// writers insert into the SAME leaves; plus disjoint updates/removes of seeded keys in some rounds.
	base := rnd.Intn(8) * 10
	expected := model.Clone()
	scripts := make([][]func(*conc.Clock) conc.TxnRec, W)
	for w := 0; w < W; w++ {
		var ops []txn.Op
		n := 1 + rnd.Intn(6)
		for j := 0; j < n; j++ {
			idx := base + 1 + ((j*W + w) % 9) + ((j*W+w)/9)*10
			k := txn.Key(idx)
			if _, ok := expected["s"][k]; ok {
				continue
			}
			v := fmt.Sprintf("w%d.%d", w, j)
			ops = append(ops, txn.Op{Store: "s", Kind: "add", K: k, V: v})
			expected["s"][k] = v
		}
		if rnd.Intn(3) == 0 { // disjoint update of a seeded key owned by this writer
			k := txn.Key(((w*3 + rnd.Intn(3)) % 9) * 10)
			if _, ok := expected["s"][k]; ok {
				v := fmt.Sprintf("w%d.u", w)
				ops = append(ops, txn.Op{Store: "s", Kind: "update", K: k, V: v})
				expected["s"][k] = v
			}
		}
		wid := fmt.Sprintf("W%d", w)
		delay := time.Duration(rnd.Intn(3000)) * time.Microsecond
		scripts[w] = []func(*conc.Clock) conc.TxnRec{func(clock *conc.Clock) conc.TxnRec {
			return runWriter(db, clock, wid, ops, delay)
		}}
	}
	recs, events := conc.RunRound(res.Procs, scripts)
	res.Txns = recs
	res.Sig, res.Overlapped = conc.InterleavingSignature(events)
	for _, r := range recs {
		if r.OpErr != "" {
			res.Class, res.Problem = "operation-failed", fmt.Sprintf("%s: %s", r.ID, r.OpErr)
			return res
		}
		if r.Err != "" {
			res.Class, res.Problem = "commit-error/"+errClass(r.Err), fmt.Sprintf("%s commit failed: %s", r.ID, r.Err)
			return res
		}
	}
	if d := txn.DiffContent(sopx.DumpDB(db), expected.Dump()); d != "" {
		res.Class, res.Problem = "union-mismatch", d
		if len(d) > 12 && containsCountOnly(d) {
			res.Class = "count-only-mismatch"
		}
	}
	return res
}

func containsCountOnly(s string) bool {
	for i := 0; i+10 <= len(s); i++ {
		if s[i:i+10] == "COUNT-ONLY" {
			return true
		}
	}
	return false
}

func runWriter(db sopx.DB, clock *conc.Clock, id string, ops []txn.Op, delay time.Duration) conc.TxnRec {
	rec := conc.TxnRec{ID: id}
	t, err := db.Begin(sop.ForWriting, 2*time.Minute)
	if err != nil {
		rec.OpErr = "begin: " + err.Error()
		return rec
	}
	rec.Begin = clock.Tick()
	r, err := txn.Run(txn.Public{DB: db}, t, txn.Program{Ops: ops})
	for _, o := range ops {
		rec.Ops = append(rec.Ops, conc.OpRec{Store: o.Store, Kind: o.Kind, K: o.K, V: o.V, OK: true})
	}
	if err != nil || r != nil {
		rec.OpErr = fmt.Sprintf("%v %+v", err, r)
		t.Rollback(conc.Ctx)
		return rec
	}
	time.Sleep(delay)
	rec.CallSeq = clock.Tick()
	t0 := time.Now()
	cerr := t.Commit(conc.Ctx)
	rec.RetSeq = clock.Tick()
	_ = t0
	if cerr != nil {
		rec.Err = cerr.Error()
	}
	return rec
}

func Run(r *report.Run) int {
	rounds := r.Pick(160, 4000)
	lines, died := par.Run(r, "c04-worker", 8, rounds, 1500, nil)
	conc.ReportDeaths(r, "C04", died)
	_ = rand.Int
	for _, l := range lines {
		var res RoundRes
		if json.Unmarshal(l.Res, &res) != nil {
			continue
		}
		if res.Harness != "" {
			r.Inconclusive("harness:" + res.Harness)
			continue
		}
		r.Eval(res.Sig, res.Overlapped)
		r.Count("committed_transactions", int64(len(res.Txns)))
		if res.Overlapped {
			r.Count("rounds_with_overlapping_commits", 1)
		}
		if l.Round < 3 {
			r.Sample(map[string]any{"round": l.Round, "writers": res.Writers, "slot": res.Slot, "profile": res.Profile, "gomaxprocs": res.Procs, "txns": res.Txns, "interleaving": res.Sig})
		}
		if res.Problem != "" {
			r.Violation(fmt.Sprintf("C04:disjoint-writers:%s:%s", res.Profile, res.Class), map[string]any{"round": l.Round, "seed": r.Seed, "result": res})
		}
	}
	if len(lines) < rounds*9/10 {
		r.Broken("only %d of %d rounds reported", len(lines), rounds)
	}
	return r.Finish(rule, assumptions, 10)
}

const rule = "rounds of 2-3 writer goroutines (public path) adding interleaved disjoint new keys into the same leaves of a seeded 9-item store (slot length 2/4/8, in-node/separate/globally-cached values), some rounds with disjoint updates; 0-3 ms PRNG delays at L2 cache calls and before Commit; GOMAXPROCS cycled 16,4,2,1; oracle: every Commit returns nil and the quiescent dump equals seed ∪ all changes with count == scan; fingerprint = hash of the cross-transaction order of commit call/return events; non-trivial = at least two commits overlapped"

var assumptions = []string{"seeded store (README precondition)", "maxTime 2 min, no injected failures (delays only)", "standalone in-memory L2, single process"}

// errClass names the kind of commit error (part of the violation signature).
func errClass(e string) string {
	switch {
	case strings.Contains(e, "failed to find item with key"):
		return "refetch-item-not-found"
	case strings.Contains(e, "detected a newer version"):
		return "refetch-newer-version"
	case strings.Contains(e, "failed to merge"):
		return "refetch-merge-failed"
	case strings.Contains(e, "exceeded retry limit"):
		return "retry-limit"
	case strings.Contains(e, "detected conflict"):
		return "item-lock-conflict"
	case strings.Contains(e, "timed out") || strings.Contains(e, "deadline"):
		return "timeout"
	case strings.Contains(e, "locks lost"):
		return "node-locks-lost"
	}
	return "other"
}
