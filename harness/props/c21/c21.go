// Package c21: the on-disk registry behaves as a map from id to handle.
//
// Differential execution (E-MODEL): generated Add / Update / UpdateNoLocks / Remove sequences on the
// real fs.NewRegistry against a map model. After EVERY operation EVERY id of the program's domain is
// looked up through a fresh registry instance with a fresh L2 cache (disk truth), one id per Get; on
// every 4th operation additionally as one batch Get through a second fresh instance.
//
// What is asserted (the statement, weaker reading where ambiguous):
//   - an operation whose documented precondition holds (Add of an absent id, Update/UpdateNoLocks/
//     Remove of a present id) returns nil;
//   - afterwards a lookup returns exactly the last written handle for each present id and nothing for
//     each absent id (so a removed id never reappears);
//   - family "offcontract": Remove / Update of an ABSENT id must not change what lookups return for any
//     OTHER id. Nothing is asserted about the error such a call returns; for the target id itself only
//     "absent, or exactly the handle just passed in" is accepted (whatever is observed is adopted).
//
// Not asserted: anything about raw disk content (duplicate slots on disk are used only to CLASSIFY a
// violation, never to raise one), which slot an entry lands in, error texts.
package c21

import (
	"crypto/sha256"
	"encoding/hex"
	"fmt"
	"math/rand"
	"sort"
	"sync"
	"syscall"
	"unsafe"

	"github.com/sharedcode/sop"
	"github.com/sharedcode/sop/encoding"

	"verifharness/kit/env"
	"verifharness/kit/regx"
	"verifharness/kit/report"
)

const table = "tbl"

// Op is one executed operation of a program (literal, replayable by hand).
type Op struct {
	Kind     string  `json:"kind"` // add | update | updatenolocks | remove | remove-absent | update-absent
	IDs      []int   `json:"ids"`  // indices into the program's domain
	Versions []int32 `json:"versions,omitempty"`
	Err      string  `json:"err,omitempty"`
	Layout   string  `json:"layout,omitempty"` // on-disk layout class of the first target before the op
}

// DomID is one id of the domain.
type DomID struct {
	ID    sop.UUID `json:"id"`
	Block int      `json:"block"`
	Slot  int      `json:"ideal_slot"`
}

type program struct {
	Index  int     `json:"index"`
	Family string  `json:"family"` // contract | offcontract
	Shape  string  `json:"shape"`
	Mod    int     `json:"mod"`
	Domain []DomID `json:"domain"`
	Ops    []Op    `json:"ops"`
}

type result struct {
	prog       program
	collision  bool // >= 1 ideal-slot collision (two ids of one block and ideal slot present together)
	spilled    bool // an entry was observed in segment >= 2
	maxSeg     int
	lookups    int64
	ops        int64
	sig        string
	detail     map[string]any
	brokenText string
}

func mkHandle(id sop.UUID, version int32, rnd *rand.Rand) sop.Handle {
	h := sop.Handle{LogicalID: id, Version: version}
	rnd.Read(h.PhysicalIDA[:])
	if rnd.Intn(2) == 0 {
		rnd.Read(h.PhysicalIDB[:])
		h.IsActiveIDB = rnd.Intn(2) == 0
		h.WorkInProgressTimestamp = rnd.Int63()
	}
	h.IsDeleted = rnd.Intn(8) == 0
	return h
}

// ---- on-disk snapshot, used ONLY for classification and (offcontract family) for steering ----

type snapshot struct {
	nseg   int
	maxSeg int                 // highest segment holding an entry
	occ    map[[3]int]sop.UUID // (seg, block, slot) -> logical id
}

// takeSnapshot decodes the one block the program's ids live in, from every segment file, with its
// own O_DIRECT reads (independent of the registry's lookup code; only the slot codec is shared).
func takeSnapshot(base string, block int) (snapshot, error) {
	s := snapshot{occ: map[[3]int]sop.UUID{}}
	files := regx.SegmentFiles(base, table)
	s.nseg = len(files)
	m := encoding.NewHandleMarshaler()
	for si, fn := range files {
		buf, err := directRead(fn, int64(block)*regx.BlockSize)
		if err != nil {
			return s, err
		}
		if buf == nil {
			continue // short / still empty segment file: nothing stored in this block
		}
		for sl := 0; sl < regx.HandlesPerBlock; sl++ {
			raw := buf[sl*regx.SlotSize : (sl+1)*regx.SlotSize]
			zero := true
			for _, b := range raw {
				if b != 0 {
					zero = false
					break
				}
			}
			if zero {
				continue
			}
			lid, err := m.UnmarshalLogicalID(raw)
			if err != nil {
				return s, err
			}
			s.occ[[3]int{si + 1, block, sl}] = lid
			if si+1 > s.maxSeg {
				s.maxSeg = si + 1
			}
		}
	}
	return s, nil
}

func (s snapshot) copies(id sop.UUID) [][3]int {
	var out [][3]int
	for k, v := range s.occ {
		if v == id {
			out = append(out, k)
		}
	}
	sort.Slice(out, func(i, j int) bool {
		if out[i][0] != out[j][0] {
			return out[i][0] < out[j][0]
		}
		return out[i][2] < out[j][2]
	})
	return out
}

// writeTarget predicts where a write-intent search for id ends (ideal slot if empty or own, else the
// first empty-or-own slot in index order, else the next segment). Mirrors the documented probing
// order; classification/steering only.
func (s snapshot) writeTarget(d DomID) [3]int {
	for seg := 1; seg <= s.nseg; seg++ {
		if v, ok := s.occ[[3]int{seg, d.Block, d.Slot}]; !ok || v == d.ID {
			return [3]int{seg, d.Block, d.Slot}
		}
		for sl := 0; sl < regx.HandlesPerBlock; sl++ {
			if sl == d.Slot {
				continue
			}
			if v, ok := s.occ[[3]int{seg, d.Block, sl}]; !ok || v == d.ID {
				return [3]int{seg, d.Block, sl}
			}
		}
	}
	return [3]int{s.nseg + 1, d.Block, d.Slot}
}

// readOrder sorts copies the way a lookup meets them: segment ascending, inside a block the ideal
// slot first, then by slot index.
func readOrder(c [][3]int, ideal int) {
	key := func(x [3]int) int {
		if x[2] == ideal {
			return x[0]*1000 - 1
		}
		return x[0]*1000 + x[2]
	}
	sort.Slice(c, func(i, j int) bool { return key(c[i]) < key(c[j]) })
}

// layout names the on-disk situation of one id before an operation (classification only):
//
//	absent                   no slot holds the id
//	hole-in-block            an EMPTY slot precedes the id's (first) copy in probing order, same segment
//	hole-in-earlier-segment  ... the empty slot is in an earlier segment file than the copy
//	dup-in-block             two slots hold the id, both in one segment (no hole in front)
//	dup-cross-segment        two slots hold the id, in different segments (no hole in front)
//	clean-ideal | clean-displaced | clean-spilled   exactly one copy, nothing in front of it
func (s snapshot) layout(d DomID) string {
	c := s.copies(d.ID)
	if len(c) == 0 {
		return "absent"
	}
	readOrder(c, d.Slot)
	if wt := s.writeTarget(d); wt != c[0] {
		if wt[0] == c[0][0] {
			return "hole-in-block"
		}
		return "hole-in-earlier-segment"
	}
	if len(c) >= 2 {
		if c[0][0] != c[1][0] {
			return "dup-cross-segment"
		}
		return "dup-in-block"
	}
	switch {
	case c[0][0] > 1:
		return "clean-spilled"
	case c[0][2] == d.Slot:
		return "clean-ideal"
	}
	return "clean-displaced"
}

func isClean(l string) bool { return len(l) > 6 && l[:6] == "clean-" }

// opClass folds the two update entry points into one site class.
func opClass(kind string) string {
	if kind == "updatenolocks" {
		return "update"
	}
	return kind
}

// ---- harness-side block I/O: O_DIRECT like the registry itself, so that the page cache never sits
// between what the registry wrote and what the harness inspects (mixing buffered and direct I/O on
// one file is not guaranteed coherent) ----

func alignedBlock() []byte {
	b := make([]byte, 2*regx.BlockSize)
	off := int(uintptr(unsafe.Pointer(&b[0])) & (regx.BlockSize - 1))
	if off != 0 {
		off = regx.BlockSize - off
	}
	return b[off : off+regx.BlockSize : off+regx.BlockSize]
}

// directRead returns the 4096-byte block at byte offset off; (nil, nil) when the file ends before it.
func directRead(path string, off int64) ([]byte, error) {
	fd, err := syscall.Open(path, syscall.O_RDONLY|syscall.O_DIRECT, 0)
	if err != nil {
		return nil, err
	}
	defer syscall.Close(fd)
	buf := alignedBlock()
	n, err := syscall.Pread(fd, buf, off)
	if err != nil {
		return nil, err
	}
	if n == 0 {
		return nil, nil
	}
	if n != regx.BlockSize {
		return nil, fmt.Errorf("short direct read: %d bytes at %d of %s", n, off, path)
	}
	out := make([]byte, regx.BlockSize)
	copy(out, buf)
	return out, nil
}

func directWrite(path string, off int64, data []byte) error {
	fd, err := syscall.Open(path, syscall.O_WRONLY|syscall.O_DIRECT, 0)
	if err != nil {
		return err
	}
	defer syscall.Close(fd)
	buf := alignedBlock()
	copy(buf, data)
	n, err := syscall.Pwrite(fd, buf, off)
	if err != nil {
		return err
	}
	if n != regx.BlockSize {
		return fmt.Errorf("short direct write: %d", n)
	}
	return nil
}

// ---- one program ----

type runner struct {
	rnd     *rand.Rand
	base    string
	res     *result
	model   map[int]sop.Handle   // present ids
	written map[int][]sop.Handle // every handle ever written per id (oldest first)
	removed map[int]bool
	version int32
	w       *regx.Reg
}

func (x *runner) present() []int {
	var p []int
	for i := range x.res.prog.Domain {
		if _, ok := x.model[i]; ok {
			p = append(p, i)
		}
	}
	return p
}
func (x *runner) absent() []int {
	var p []int
	for i := range x.res.prog.Domain {
		if _, ok := x.model[i]; !ok {
			p = append(p, i)
		}
	}
	return p
}

func pickN(rnd *rand.Rand, from []int, n int) []int {
	if n > len(from) {
		n = len(from)
	}
	idx := rnd.Perm(len(from))[:n]
	out := make([]int, n)
	for i, j := range idx {
		out[i] = from[j]
	}
	return out
}

func (x *runner) fail(sig string, detail map[string]any) {
	x.res.sig = sig
	detail["program"] = x.res.prog
	x.res.detail = detail
}

// apply executes one op on the real registry and on the model; returns false when the program must stop.
func (x *runner) apply(op Op) bool {
	p := &x.res.prog
	snap, err := takeSnapshot(x.base, p.Domain[0].Block)
	if err != nil {
		x.res.brokenText = "snapshot: " + err.Error()
		return false
	}
	layouts := map[int]string{}
	for _, i := range op.IDs {
		layouts[i] = snap.layout(p.Domain[i])
	}
	// site class of a batch = layout of its first target with a hole in front, else of its first
	// duplicated target, else of its first target
	op.Layout = layouts[op.IDs[0]]
	for _, want := range []string{"hole-", "dup-"} {
		found := false
		for _, i := range op.IDs {
			if l := layouts[i]; len(l) >= len(want) && l[:len(want)] == want {
				op.Layout, found = l, true
				break
			}
		}
		if found {
			break
		}
	}
	var hs []sop.Handle
	var ids []sop.UUID
	for k, i := range op.IDs {
		ids = append(ids, p.Domain[i].ID)
		if op.Kind != "remove" && op.Kind != "remove-absent" {
			hs = append(hs, mkHandle(p.Domain[i].ID, op.Versions[k], x.rnd))
		}
	}
	// occasionally the writer is a fresh instance too (a registry instance per transaction is the
	// library's normal use)
	if x.rnd.Intn(4) == 0 {
		x.w.Close()
		w, err := regx.Open(x.base, table, p.Mod, true)
		if err != nil {
			x.res.brokenText = "reopen: " + err.Error()
			return false
		}
		x.w = w
	}
	switch op.Kind {
	case "add":
		err = x.w.Add(hs...)
	case "update", "update-absent":
		err = x.w.Update(hs...)
	case "updatenolocks":
		err = x.w.UpdateNoLocks(x.rnd.Intn(2) == 0, hs...)
	case "remove", "remove-absent":
		err = x.w.Remove(ids...)
	}
	if err != nil {
		op.Err = err.Error()
	}
	p.Ops = append(p.Ops, op)
	x.res.ops++
	offContract := op.Kind == "remove-absent" || op.Kind == "update-absent"

	if !offContract && err != nil {
		// precondition held, the call must succeed
		out := map[string]string{"add": "add-absent-fails", "update": "update-present-fails", "updatenolocks": "update-present-fails", "remove": "remove-present-fails"}[op.Kind]
		x.fail(fmt.Sprintf("C21:%s:%s/%s:%s", p.Family, opClass(op.Kind), op.Layout, out),
			map[string]any{"op_index": len(p.Ops) - 1, "error": err.Error(), "expected": "nil error (documented precondition holds)", "target_layouts": fmt.Sprint(layouts)})
		return false
	}
	// model transition
	switch op.Kind {
	case "add", "update", "updatenolocks":
		for k, i := range op.IDs {
			x.model[i] = hs[k]
			x.written[i] = append(x.written[i], hs[k])
		}
	case "remove":
		for _, i := range op.IDs {
			delete(x.model, i)
			x.removed[i] = true
		}
	}
	return x.verify(op, hs, layouts)
}

// verify looks up every id of the domain on disk truth and compares with the model.
func (x *runner) verify(op Op, hs []sop.Handle, layouts map[int]string) bool {
	p := &x.res.prog
	target := map[int]int{}
	for k, i := range op.IDs {
		target[i] = k
	}
	rd, err := regx.Open(x.base, table, p.Mod, false)
	if err != nil {
		x.res.brokenText = "open reader: " + err.Error()
		return false
	}
	defer rd.Close()
	rb, err := regx.Open(x.base, table, p.Mod, false)
	if err != nil {
		x.res.brokenText = "open reader: " + err.Error()
		return false
	}
	defer rb.Close()
	all := make([]sop.UUID, len(p.Domain))
	for i, d := range p.Domain {
		all[i] = d.ID
	}
	// the batch form of Get is exercised on every 4th operation (it walks the same code per id)
	var batch map[sop.UUID]sop.Handle
	var berr error
	doBatch := len(p.Ops)%4 == 0
	if doBatch {
		batch, berr = rb.Get(all...)
		x.res.lookups += int64(len(all))
	}

	for i, d := range p.Domain {
		got, gerr := rd.Get(d.ID)
		x.res.lookups++
		h, found := got[d.ID]
		want, present := x.model[i]
		k, isTarget := target[i]
		site := fmt.Sprintf("%s/%s", opClass(op.Kind), op.Layout)
		if isTarget {
			site = fmt.Sprintf("%s/%s", opClass(op.Kind), layouts[i])
		} else {
			site += "/other-id"
		}
		mk := func(outcome string, extra map[string]any) {
			extra["op_index"] = len(p.Ops) - 1
			extra["looked_up"] = d
			extra["is_target_of_op"] = isTarget
			extra["model_present"] = present
			if present {
				extra["expected"] = want
			} else {
				extra["expected"] = "nothing"
			}
			if found {
				extra["observed"] = h
			} else {
				extra["observed"] = "nothing"
			}
			x.fail(fmt.Sprintf("C21:%s:%s:%s", p.Family, site, outcome), extra)
		}
		if gerr != nil {
			mk("get-error", map[string]any{"error": gerr.Error()})
			return false
		}
		// off-contract target: adopt what is observed if it is "absent" or "the handle just passed in"
		if isTarget && (op.Kind == "update-absent" || op.Kind == "remove-absent") {
			switch {
			case !found:
			case op.Kind == "update-absent" && h == hs[k]:
				x.model[i] = h
				x.written[i] = append(x.written[i], h)
			default:
				mk("absent-id-present-after-offcontract-op", map[string]any{})
				return false
			}
			continue
		}
		switch {
		case present && !found:
			mk("present-id-missing", map[string]any{})
			return false
		case present && h != want:
			out := "get-returns-foreign"
			for _, o := range x.written[i] {
				if o == h {
					out = "get-returns-stale"
				}
			}
			mk(out, map[string]any{})
			return false
		case !present && found:
			out := "never-added-id-present"
			if x.removed[i] {
				out = "removed-id-reappears-foreign"
				w := x.written[i]
				for n, o := range w {
					if o == h {
						out = "removed-id-reappears-stale"
						if n == len(w)-1 {
							out = "removed-id-still-present"
						}
					}
				}
			}
			mk(out, map[string]any{"copies_on_disk_before_op": layouts[i]})
			return false
		}
		// batch lookup through the second fresh instance must agree
		if doBatch && berr == nil {
			bh, bfound := batch[d.ID]
			if bfound != found || (found && bh != h) {
				mk("batch-get-disagrees-with-single-get", map[string]any{"batch_found": bfound, "batch_handle": bh})
				return false
			}
		}
	}
	if berr != nil {
		x.fail(fmt.Sprintf("C21:%s:%s/%s:batch-get-error", p.Family, opClass(op.Kind), op.Layout), map[string]any{"op_index": len(p.Ops) - 1, "error": berr.Error()})
		return false
	}
	// non-triviality bookkeeping: ideal-slot collision among present ids
	seen := map[[2]int]bool{}
	for i := range x.model {
		k := [2]int{p.Domain[i].Block, p.Domain[i].Slot}
		if seen[k] {
			x.res.collision = true
		}
		seen[k] = true
	}
	return true
}

func edgeSlot(rnd *rand.Rand) int {
	switch rnd.Intn(4) {
	case 0:
		return 0
	case 1:
		return regx.HandlesPerBlock - 1
	}
	return rnd.Intn(regx.HandlesPerBlock)
}

// runProgram generates and executes program #index. Everything is a pure function of (seed, index, tier).
func runProgram(seed int64, index int, nOps int) *result {
	rnd := env.Rand(seed, fmt.Sprintf("c21-prog-%d", index))
	res := &result{}
	p := &res.prog
	p.Index = index
	p.Mod = []int{1, 2, 250}[index%3]
	p.Family = "contract"
	if index%5 == 4 {
		p.Family = "offcontract"
	}
	// shapes: small = 4..10 ids over 1-2 ideal slots of one block; full = 66 fillers fill the block
	// in segment 1 and 3..8 more ids of the same block (all of one ideal slot) spill into segment 2;
	// full2 = 132 fillers so that the active ids live in segment 3.
	// (index/3)%10: 0-5 small, 6-8 full, 9 full2 - every shape meets every modulus.
	switch k := (index / 3) % 10; {
	case k <= 5:
		p.Shape = "small"
	case k <= 8:
		p.Shape = "full"
		nOps = nOps * 6 / 10
	default:
		p.Shape = "full2"
		nOps = nOps * 4 / 10
	}
	block := rnd.Intn(p.Mod)
	s1 := edgeSlot(rnd)
	s2 := (s1 + 1 + rnd.Intn(3)) % regx.HandlesPerBlock
	salt := uint32(1)
	newID := func(slot int) DomID {
		salt++
		return DomID{ID: regx.MakeID(p.Mod, block, slot, salt), Block: block, Slot: slot}
	}
	nFill := 0
	switch p.Shape {
	case "small":
		n := 4 + rnd.Intn(7)
		for i := 0; i < n; i++ {
			sl := s1
			if rnd.Intn(4) == 0 {
				sl = s2
			}
			p.Domain = append(p.Domain, newID(sl))
		}
	default:
		nFill = 66
		if p.Shape == "full2" {
			nFill = 132
		}
		// fillers: mostly spread over all slots, some colliding in s1
		for i := 0; i < nFill; i++ {
			sl := i % regx.HandlesPerBlock
			if rnd.Intn(5) == 0 {
				sl = s1
			}
			p.Domain = append(p.Domain, newID(sl))
		}
		n := 3 + rnd.Intn(6)
		for i := 0; i < n; i++ {
			sl := s1
			if rnd.Intn(4) == 0 {
				sl = s2
			}
			p.Domain = append(p.Domain, newID(sl))
		}
	}
	base := env.Scratch("c21")
	defer env.Remove(base)
	w, err := regx.Open(base, table, p.Mod, true)
	if err != nil {
		res.brokenText = "open: " + err.Error()
		return res
	}
	x := &runner{rnd: rnd, base: base, res: res, model: map[int]sop.Handle{}, written: map[int][]sop.Handle{}, removed: map[int]bool{}, w: w}
	defer func() { x.w.Close() }()
	nextV := func(n int) []int32 {
		v := make([]int32, n)
		for i := range v {
			x.version++
			v[i] = x.version
		}
		return v
	}
	// prefix: fill the block(s) with batch Adds of the fillers (in-contract: all absent)
	for lo := 0; lo < nFill; lo += 22 {
		var ids []int
		for i := lo; i < lo+22 && i < nFill; i++ {
			ids = append(ids, i)
		}
		if !x.apply(Op{Kind: "add", IDs: ids, Versions: nextV(len(ids))}) {
			return x.finish()
		}
	}
	active := func(ids []int) []int { // bias towards the non-filler ids in the full shapes
		if nFill == 0 || rnd.Intn(4) == 0 {
			return ids
		}
		var a []int
		for _, i := range ids {
			if i >= nFill {
				a = append(a, i)
			}
		}
		if len(a) == 0 {
			return ids
		}
		return a
	}
	for n := 0; n < nOps; n++ {
		pres, abs := x.present(), x.absent()
		batch := 1
		if rnd.Intn(5) == 0 {
			batch = 2 + rnd.Intn(2)
		}
		var op Op
		roll := rnd.Intn(100)
		if p.Family == "offcontract" {
			// steering: in-contract ops only on ids whose write-intent search ends on their own single
			// copy, so that this family observes the off-contract calls in isolation.
			snap, err := takeSnapshot(base, block)
			if err != nil {
				res.brokenText = "snapshot: " + err.Error()
				return x.finish()
			}
			var safe []int
			for _, i := range pres {
				l := snap.layout(p.Domain[i])
				if isClean(l) {
					safe = append(safe, i)
				}
			}
			switch {
			case roll < 25 && len(abs) > 0:
				op = Op{Kind: "remove-absent", IDs: pickN(rnd, active(abs), batch)}
			case roll < 50 && len(abs) > 0:
				op = Op{Kind: "update-absent", IDs: pickN(rnd, active(abs), 1)}
			case roll < 65 && len(abs) > 0:
				op = Op{Kind: "add", IDs: pickN(rnd, active(abs), batch)}
			case roll < 80 && len(safe) > 0:
				op = Op{Kind: []string{"update", "updatenolocks"}[rnd.Intn(2)], IDs: pickN(rnd, active(safe), batch)}
			case len(safe) > 0:
				op = Op{Kind: "remove", IDs: pickN(rnd, active(safe), 1)}
			default:
				if len(abs) == 0 {
					continue
				}
				op = Op{Kind: "add", IDs: pickN(rnd, active(abs), batch)}
			}
		} else {
			switch {
			case (roll < 30 || len(pres) == 0) && len(abs) > 0:
				op = Op{Kind: "add", IDs: pickN(rnd, active(abs), batch)}
			case roll < 50 && len(pres) > 0:
				op = Op{Kind: "update", IDs: pickN(rnd, active(pres), batch)}
			case roll < 70 && len(pres) > 0:
				op = Op{Kind: "updatenolocks", IDs: pickN(rnd, active(pres), batch)}
			case len(pres) > 0:
				op = Op{Kind: "remove", IDs: pickN(rnd, active(pres), batch)}
			default:
				continue
			}
		}
		if op.Kind != "remove" && op.Kind != "remove-absent" {
			op.Versions = nextV(len(op.IDs))
		}
		if !x.apply(op) {
			break
		}
	}
	return x.finish()
}

func (x *runner) finish() *result {
	if snap, err := takeSnapshot(x.base, x.res.prog.Domain[0].Block); err == nil {
		x.res.maxSeg = snap.maxSeg
		x.res.spilled = snap.maxSeg >= 2
	}
	return x.res
}

func progHash(p program) string {
	h := sha256.New()
	fmt.Fprintf(h, "%s|%s|%d|", p.Family, p.Shape, p.Mod)
	for _, d := range p.Domain {
		fmt.Fprintf(h, "%d.%d,", d.Block, d.Slot)
	}
	for _, o := range p.Ops {
		fmt.Fprintf(h, "%s%v;", o.Kind, o.IDs)
	}
	return hex.EncodeToString(h.Sum(nil))[:16]
}

func Run(r *report.Run) int {
	nProg := r.Pick(160, 1500)
	nOps := 40
	results := make([]*result, nProg)
	var wg sync.WaitGroup
	work := make(chan int)
	for g := 0; g < 8; g++ {
		wg.Add(1)
		go func() {
			defer wg.Done()
			for i := range work {
				results[i] = runProgram(r.Seed, i, nOps)
			}
		}()
	}
	for i := 0; i < nProg; i++ {
		work <- i
	}
	close(work)
	wg.Wait()

	perSig := map[string]int64{}
	for _, res := range results {
		if res.brokenText != "" {
			r.Broken("program %d: %s", res.prog.Index, res.brokenText)
			continue
		}
		r.Eval(progHash(res.prog), res.collision)
		r.Count("operations", res.ops)
		r.Count("disk_lookups", res.lookups)
		r.Count("programs_"+res.prog.Family, 1)
		r.Count("programs_shape_"+res.prog.Shape, 1)
		r.Count(fmt.Sprintf("programs_mod_%d", res.prog.Mod), 1)
		if res.spilled {
			r.Count("programs_with_entries_in_segment_2plus", 1)
		}
		if res.maxSeg >= 3 {
			r.Count("programs_with_entries_in_segment_3plus", 1)
		}
		if res.collision {
			r.Count("programs_with_ideal_slot_collision", 1)
		}
		if res.prog.Index < 2 {
			r.Sample(res.prog)
		}
		if res.sig != "" {
			perSig[res.sig]++
			if perSig[res.sig] <= 3 { // keep at most 3 witnesses per signature
				r.Violation(res.sig, res.detail)
			} else {
				r.Violation(res.sig, map[string]any{"program_index": res.prog.Index, "note": "further witness of the same signature; rerun with the same seed to regenerate"})
			}
		}
	}
	sigs := map[string]int64{}
	for k, v := range perSig {
		sigs[k] = v
	}
	r.Set("divergences_by_signature", sigs)
	if r.Counter("programs_with_entries_in_segment_2plus") == 0 {
		r.Broken("no program spilled into a second segment file")
	}
	return r.Finish(rule, assumptions, 20)
}

const rule = "program = PRNG-generated sequence of <=40 (small) / 24 (full) / 16 (full2) registry operations (plus a batch-Add prefix that fills the block in the 'full' shapes) over a domain of ids of ONE block that collide in 1-2 ideal slots; mod cycles 1,2,250; shapes small (4-10 ids) / full (66 fillers + 3-8 ids, spill into segment 2) / full2 (132 fillers, segment 3); family contract = only operations whose documented precondition holds, family offcontract (every 5th program) adds Remove/Update of absent ids; after every operation every id of the domain is looked up through fresh registry instances with fresh L2 caches; a program stops at its first divergence; fingerprint = hash of (family, shape, mod, domain slots, executed operations); non-trivial = at some point two ids with the same block and ideal slot were present together"

var assumptions = []string{
	"registry files on ext4 with O_DIRECT; in-memory L2 cache, a fresh one per reader instance, so every lookup is served from disk",
	"single writer, no concurrency (C21 is about the map behaviour, not about races)",
	"raw disk snapshots (kit/regx.ReadAll) are used only to classify a divergence and to steer the offcontract family away from ids with a hole in front of them; never to raise a violation",
}
