package c28

import (
	"context"
	"fmt"
	"math/rand"
	"sync/atomic"
	"time"

	"github.com/sharedcode/sop"
	sopredis "github.com/sharedcode/sop/adapters/redis"
	"github.com/sharedcode/sop/cache"

	"verifharness/kit/resp"
)

const longTTL = time.Hour

var ctxBg = context.Background()

// service is one lock service under test.
type service struct {
	name     string
	shortCls int8 // TTL class a short-lived lock gets in the model
	shortTTL func(variant int) time.Duration
	// open returns one Locker handle per owner over ONE shared lock table, and a closer.
	open func(owners int) ([]sop.L2Cache, func())
	// expire returns only once every lock taken with TTL <= short before `after` has surely expired.
	expire func(short time.Duration, after time.Time)
	srv    *resp.Server
}

func inMemoryService() *service {
	return &service{
		name:     "inmemory",
		shortCls: ttlMaybe,
		shortTTL: func(v int) time.Duration { return []time.Duration{8 * time.Millisecond, 20 * time.Millisecond}[v%2] },
		open: func(owners int) ([]sop.L2Cache, func()) {
			c := cache.NewL2InMemoryCache() // one process-local table shared by every owner
			out := make([]sop.L2Cache, owners)
			for i := range out {
				out[i] = c
			}
			return out, func() {}
		},
		// The in-memory cache stamps expiration = time.Now()+ttl inside the call and tests
		// time.Now().After(expiration) (both monotonic readings). `after` was read after the call
		// returned, so expiration <= after+ttl; waiting until now > after+ttl+1ms is a monotone
		// condition — a slow machine only makes it truer.
		expire: func(short time.Duration, after time.Time) {
			limit := after.Add(short + time.Millisecond)
			for !time.Now().After(limit) {
				time.Sleep(time.Millisecond)
			}
		},
	}
}

func redisService(srv *resp.Server) *service {
	return &service{
		name:     "redis",
		shortCls: ttlLive,
		srv:      srv,
		// 1500 ms travels as SET .. PX, 2 s as SET .. EX (go-redis picks by precision)
		shortTTL: func(v int) time.Duration { return []time.Duration{1500 * time.Millisecond, 2 * time.Second}[v%2] },
		open: func(owners int) ([]sop.L2Cache, func()) {
			out := make([]sop.L2Cache, owners)
			for i := range out { // one adapter client (own connection pool) per owner, as separate processes would have
				out[i] = sopredis.NewClient(resp.Options(srv.Addr()))
			}
			return out, func() {
				for _, c := range out {
					if cc, ok := c.(sop.CloseableCache); ok {
						cc.Close()
					}
				}
			}
		},
		expire: func(short time.Duration, _ time.Time) { srv.Advance(short + time.Millisecond) },
	}
}

// owner is one lock owner: its own Locker handle and its own LockKey objects (one per key).
type owner struct {
	idx  int8 // 1-based
	l    sop.L2Cache
	keys []*sop.LockKey
}

// newOwners creates the LockKey objects the way callers do: either one LockID per owner
// (CreateLockKeysForIDs, e.g. a transaction id) or one fresh LockID per key (CreateLockKeys).
func newOwners(ls []sop.L2Cache, names []string, perOwnerID bool) []*owner {
	out := make([]*owner, len(ls))
	for i, l := range ls {
		o := &owner{idx: int8(i + 1), l: l}
		if perOwnerID {
			id := sop.NewUUID()
			t := make([]sop.Tuple[string, sop.UUID], len(names))
			for j, n := range names {
				t[j] = sop.Tuple[string, sop.UUID]{First: n, Second: id}
			}
			o.keys = l.CreateLockKeysForIDs(t)
		} else {
			o.keys = l.CreateLockKeys(names)
		}
		out[i] = o
	}
	return out
}

// rec is one recorded operation (also the replay detail).
type rec struct {
	Client int    `json:"client"`
	Op     string `json:"op"`
	Keys   []int  `json:"keys,omitempty"`
	TTL    string `json:"ttl,omitempty"`
	Flags  []int  `json:"owner_flag_true_before,omitempty"`
	Call   int64  `json:"call"`
	Ret    int64  `json:"ret"`
	OK     bool   `json:"ok"`
	Err    string `json:"err,omitempty"`
	in     input
	ttl    time.Duration
}

func bits(m uint8) []int {
	var out []int
	for k := 0; k < maxKeys; k++ {
		if m&(1<<k) != 0 {
			out = append(out, k)
		}
	}
	return out
}

// prepared is one operation with everything allocated before the race starts, so that the timed
// section of a concurrent history is as tight as possible.
type prepared struct {
	kind opKind
	mask uint8
	ttl  time.Duration
	cls  int8
	lks  []*sop.LockKey
}

// prepare builds the key slice handed to the library (a fresh slice per call: the in-memory service
// sorts it in place); rnd, when given, permutes it.
func (o *owner) prepare(kind opKind, mask uint8, ttl time.Duration, cls int8, rnd *rand.Rand) prepared {
	p := prepared{kind: kind, mask: mask, ttl: ttl, cls: cls}
	for _, k := range bits(mask) {
		p.lks = append(p.lks, o.keys[k])
	}
	if rnd != nil {
		rnd.Shuffle(len(p.lks), func(i, j int) { p.lks[i], p.lks[j] = p.lks[j], p.lks[i] })
	}
	return p
}

// run executes one prepared operation at the harness boundary. seq is THE single atomic counter that
// stamps call and return.
func (o *owner) run(seq *atomic.Int64, p *prepared) rec {
	var flags uint8
	for k, lk := range o.keys {
		if p.mask&(1<<k) != 0 && lk.IsLockOwner {
			flags |= 1 << k
		}
	}
	r := rec{Client: int(o.idx), in: input{Owner: o.idx, Kind: p.kind, Keys: p.mask, TTL: p.cls, Flags: flags}, ttl: p.ttl}
	var ok bool
	var err error
	r.Call = seq.Add(1)
	switch p.kind {
	case opLock:
		ok, _, err = o.l.Lock(ctxBg, p.ttl, p.lks)
	case opDualLock:
		ok, _, err = o.l.DualLock(ctxBg, p.ttl, p.lks)
	case opIsLocked:
		ok, err = o.l.IsLocked(ctxBg, p.lks)
	case opIsLockedTTL:
		ok, err = o.l.IsLockedTTL(ctxBg, p.ttl, p.lks)
	case opUnlock:
		err = o.l.Unlock(ctxBg, p.lks)
		ok = err == nil
	}
	r.Ret = seq.Add(1)
	// An error makes the outcome unknown; the weakest reading of every operation is its `false` form.
	if err != nil {
		r.Err = err.Error()
		ok = false
	}
	r.OK = ok
	return r
}

// call = prepare + run + describe (sequential phases).
func (o *owner) call(seq *atomic.Int64, kind opKind, mask uint8, ttl time.Duration, cls int8, rnd *rand.Rand) rec {
	p := o.prepare(kind, mask, ttl, cls, rnd)
	r := o.run(seq, &p)
	r.describe()
	return r
}

// describe fills the human-readable fields of the replay detail.
func (r *rec) describe() {
	r.Op, r.Keys, r.Flags = r.in.Kind.String(), bits(r.in.Keys), bits(r.in.Flags)
	if k := r.in.Kind; k == opLock || k == opDualLock || k == opIsLockedTTL {
		r.TTL = r.ttl.String()
	}
}

func keyNames(prefix string, n int) []string {
	out := make([]string, n)
	for i := range out {
		out[i] = fmt.Sprintf("%s-k%d", prefix, i)
	}
	return out
}
