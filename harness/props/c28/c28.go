// Package c28: "A lock is held by at most one owner and only its owner can release it", for the
// in-memory lock service (cache.NewL2InMemoryCache) and the Redis adapter (adapters/redis over the
// RESP stub kit/resp). Phases per service (DESIGN §6 C28, A.5):
//
//	concurrent : owner goroutines issue Lock/DualLock/IsLocked/IsLockedTTL/Unlock over <= 3 shared keys,
//	             TTL 1 h; the recorded history is checked with porcupine against the model in model.go.
//	sequential : generated single-threaded programs with short- and long-lived locks and explicit
//	             "everything short has now surely expired" steps; same model, power-set simulation.
//	scripts    : fixed scenarios with fixed expected results (unlock after expiry and re-acquisition, ...).
//	capacity   : (in-memory) shard capacity 1/2/4 with keys of one shard: holders keep their locks.
package c28

import (
	"encoding/json"
	"fmt"
	"hash/fnv"
	"os"
	"runtime"
	"sort"
	"strings"
	"sync"
	"sync/atomic"
	"time"

	"github.com/anishathalye/porcupine"
	"github.com/sharedcode/sop"
	"github.com/sharedcode/sop/cache"

	"verifharness/kit/env"
	"verifharness/kit/report"
	"verifharness/kit/resp"
)

const rule = "case = one concurrent history (fingerprint: hash of the (client,op,keys,result) sequence in call order; " +
	"non-trivial: >=1 pair of overlapping operations of different owners on a common key, >=1 granted and >=1 refused/foreign-release operation) | " +
	"one sequential program with expiry steps (fingerprint: hash of the op/result sequence; non-trivial: >=1 take-over of a key after its holder's lock expired) | " +
	"one script variant (fingerprint: script+variant; non-trivial: ran to its last step) | " +
	"one capacity case (fingerprint: capacity/fillers/ttl/ops; non-trivial: holder's lock was granted and every filler call returned)"

var assumptions = []string{
	"Redis = RESP stub (kit/resp) with a virtual clock; the adapter and the go-redis client are the real code",
	"one adapter client per owner in one process stands for owners in separate processes",
	"in-memory expiry: wall clock, scripts continue only once time.Now() is beyond the latest possible expiry (monotone condition)",
	"interleavings are sampled, not enumerated; concurrent histories contain no expiry (TTL 1 h)",
}

type ctxRun struct {
	r      *report.Run
	mu     sync.Mutex
	perSig map[string]int
	only   string // replay: the one case to run ("" = all)
	reps   int    // replay: repetitions of a concurrent case
}

// skip reports whether a case is excluded by --replay.
func (c *ctxRun) skip(tag string) bool { return c.only != "" && c.only != tag }

// loadReplay turns a replay file into a case selector.
func (c *ctxRun) loadReplay(path string) error {
	b, err := os.ReadFile(path)
	if err != nil {
		return err
	}
	var f struct {
		Seed   int64 `json:"seed"`
		Detail struct {
			Phase, Service, Case, Script, Variant, Class string
		} `json:"detail"`
	}
	if err := json.Unmarshal(b, &f); err != nil {
		return err
	}
	c.r.Seed = f.Seed
	switch d := f.Detail; d.Phase {
	case "concurrent", "sequential":
		c.only = d.Case
	case "script":
		c.only = "script:" + d.Service + ":" + d.Script + ":" + d.Variant
	case "capacity":
		c.only = d.Class
	default:
		return fmt.Errorf("replay file names no known phase")
	}
	c.reps = 50
	return nil
}

// violation reports at most 3 cases per signature (the rest is counted).
func (c *ctxRun) violation(sig string, detail any) {
	c.mu.Lock()
	c.perSig[sig]++
	n := c.perSig[sig]
	c.mu.Unlock()
	c.r.Count("violating_cases:"+sig, 1)
	if n <= 3 {
		c.r.Violation(sig, detail)
	}
}

func Run(r *report.Run) int {
	c := &ctxRun{r: r, perSig: map[string]int{}, reps: 1}
	floor := 150
	if r.Replay != "" { // re-execute the one recorded case (a concurrent case: 50 times), any tier
		if err := c.loadReplay(r.Replay); err != nil {
			r.Broken("cannot read replay file: %v", err)
			return r.Finish(rule, assumptions, 1)
		}
		r.Tier, floor = "thorough", 0
	}
	srv, err := resp.Start()
	if err != nil {
		r.Broken("cannot start the RESP stub: %v", err)
		return r.Finish(rule, assumptions, 1)
	}
	defer srv.Close()
	srv.SetYield(true)
	// a second stub for everything that moves the virtual clock
	srvT, err := resp.Start()
	if err != nil {
		r.Broken("cannot start the RESP stub: %v", err)
		return r.Finish(rule, assumptions, 1)
	}
	defer srvT.Close()

	mem, red, redT := inMemoryService(), redisService(srv), redisService(srvT)

	t0 := time.Now()
	lap := func(name string) {
		r.Set("wall_s:"+name, time.Since(t0).Seconds())
		t0 = time.Now()
	}
	nConc := r.Pick(300, 4000)
	c.concurrent(mem, "free", 8*nConc) // in-memory calls take ~100 ns: overlaps are rare, histories are cheap
	c.concurrent(red, "free", nConc/2)
	c.concurrent(red, "refresh", nConc/2)
	lap("concurrent")

	nSeq := r.Pick(160, 2000)
	c.sequential(mem, "free", nSeq, 8)
	c.sequential(redT, "free", nSeq, 1)
	c.sequential(redT, "refresh", nSeq, 1)
	lap("sequential")

	c.scripts(mem, 8)
	c.scripts(redT, 1)
	lap("scripts")

	c.capacity()
	c.observeForeignTTL(redT)
	lap("capacity")

	for _, s := range []*resp.Server{srv, srvT} {
		if u := s.Unknown(); len(u) > 0 {
			r.Broken("the adapter issued commands the RESP stub does not implement: %v", u)
		}
		r.Count("stub_commands", s.Commands())
	}
	if n := r.Counter("op_errors"); n > 0 {
		r.Broken("%d lock-service calls returned an error (stub or connection trouble)", n)
	}
	return r.Finish(rule, assumptions, floor)
}

func hashStrings(parts ...string) string {
	h := fnv.New64a()
	for _, p := range parts {
		h.Write([]byte(p))
		h.Write([]byte{0})
	}
	return fmt.Sprintf("%016x", h.Sum64())
}

// ---------------------------------------------------------------------------------------------
// concurrent phase

type progOp struct {
	kind opKind
	mask uint8
}

func randMask(rnd interface{ Intn(int) int }, nKeys int) uint8 {
	if nKeys == 1 || rnd.Intn(100) < 55 {
		return 1 << rnd.Intn(nKeys)
	}
	for {
		if m := uint8(rnd.Intn(1 << nKeys)); m != 0 {
			return m
		}
	}
}

func randKind(rnd interface{ Intn(int) int }) opKind {
	switch x := rnd.Intn(100); {
	case x < 30:
		return opLock
	case x < 42:
		return opDualLock
	case x < 62:
		return opIsLocked
	case x < 68:
		return opIsLockedTTL
	default:
		return opUnlock
	}
}

func (c *ctxRun) concurrent(svc *service, mode string, n int) {
	r := c.r
	var ls []sop.L2Cache
	var closeFn func()
	if svc.srv != nil { // adapter clients are reused across histories (fresh key names and ids per history)
		ls, closeFn = svc.open(4)
		defer closeFn()
	}
	model := porcupineModel(strict)
	for i := 0; i < n*c.reps; i++ {
		h, rep := i/c.reps, i%c.reps
		tag := fmt.Sprintf("conc:%s:%s:%d", svc.name, mode, h)
		if c.skip(tag) {
			continue
		}
		rnd := env.Rand(r.Seed, "c28:"+tag)
		nOwners, nKeys := 2+rnd.Intn(3), 1+rnd.Intn(3)
		budget := 40 / nOwners
		progs := make([][]progOp, nOwners)
		for o := range progs {
			for len(progs[o]) < budget-1 {
				k, m := randKind(rnd), randMask(rnd, nKeys)
				if k == opUnlock && mode == "refresh" {
					// disciplined client: refresh the ownership flags from the service right before releasing
					progs[o] = append(progs[o], progOp{opIsLocked, m})
				}
				progs[o] = append(progs[o], progOp{k, m})
			}
		}
		if svc.srv == nil {
			ls, closeFn = svc.open(nOwners)
		}
		owners := newOwners(ls[:nOwners], keyNames(fmt.Sprintf("s%d-%s-r%d", r.Seed, strings.ReplaceAll(tag, ":", "-"), rep), nKeys), h%2 == 0)
		var seq atomic.Int64
		var ready atomic.Int32
		recs := make([][]rec, nOwners)
		var wg sync.WaitGroup
		for o := range owners {
			wg.Add(1)
			go func(o int) {
				defer wg.Done()
				ornd := env.Rand(r.Seed, fmt.Sprintf("c28:%s:o%d", tag, o))
				prep := make([]prepared, len(progs[o]))
				yield := make([]bool, len(progs[o]))
				for i, p := range progs[o] {
					prep[i] = owners[o].prepare(p.kind, p.mask, longTTL, ttlLong, ornd)
					yield[i] = ornd.Intn(6) == 0
				}
				out := make([]rec, len(prep))
				ready.Add(1)
				for n := 0; int(ready.Load()) < nOwners; n++ { // start together
					if n > 5000 {
						runtime.Gosched()
					}
				}
				for i := range prep {
					out[i] = owners[o].run(&seq, &prep[i])
					if yield[i] {
						runtime.Gosched()
					}
				}
				recs[o] = out
			}(o)
		}
		wg.Wait()
		if svc.srv == nil {
			closeFn()
		}
		var all []rec
		for _, rs := range recs {
			for i := range rs {
				rs[i].describe()
			}
			all = append(all, rs...)
		}
		sort.Slice(all, func(i, j int) bool { return all[i].Call < all[j].Call })
		c.judgeConcurrent(svc, mode, tag, model, all, nOwners, nKeys)
	}
}

func (c *ctxRun) judgeConcurrent(svc *service, mode, tag string, model porcupine.Model, all []rec, nOwners, nKeys int) {
	r := c.r
	ops := make([]porcupine.Operation, len(all))
	var fp []string
	granted, refusedOrForeign, errs := 0, 0, 0
	for i, x := range all {
		ops[i] = porcupine.Operation{ClientId: x.Client - 1, Input: x.in, Call: x.Call, Output: output{x.OK}, Return: x.Ret}
		fp = append(fp, fmt.Sprintf("%d%s%d%v", x.Client, x.Op, x.in.Keys, x.OK))
		if x.Err != "" {
			errs++
		}
		switch x.in.Kind {
		case opLock, opDualLock:
			if x.OK {
				granted++
			} else {
				refusedOrForeign++
			}
		case opUnlock:
			refusedOrForeign++
		}
	}
	overlaps := 0
	for i := range all {
		for j := i + 1; j < len(all) && all[j].Call < all[i].Ret; j++ {
			if all[i].Client != all[j].Client && all[i].in.Keys&all[j].in.Keys != 0 {
				overlaps++
			}
		}
	}
	r.Count("ops:"+svc.name, int64(len(all)))
	r.Count("op_errors", int64(errs))
	r.Count("concurrent_histories:"+svc.name+":"+mode, 1)
	r.Count("concurrent_overlapping_pairs:"+svc.name, int64(overlaps))
	nontrivial := overlaps > 0 && granted > 0 && refusedOrForeign > 0
	if nontrivial {
		r.Count("concurrent_nontrivial_histories:"+svc.name, 1)
	}
	r.Eval("conc:"+svc.name+":"+mode+":"+hashStrings(fp...), nontrivial)
	r.Sample(map[string]any{"kind": "concurrent", "service": svc.name, "mode": mode, "owners": nOwners, "keys": nKeys,
		"overlapping_pairs": overlaps, "history": all})

	res, _ := porcupine.CheckOperationsVerbose(model, ops, 20*time.Second)
	switch res {
	case porcupine.Ok:
		r.Count("porcupine_ok:"+svc.name+":"+mode, 1)
		return
	case porcupine.Unknown:
		r.Inconclusive("porcupine-timeout:" + svc.name)
		return
	}
	r.Count("porcupine_illegal:"+svc.name+":"+mode, 1)
	// classification only: which relaxation of the model explains the history?
	sig, explained := "C28:"+svc.name+":concurrent:one-owner-model-violated", "none"
	if porcupine.CheckOperationsTimeout(porcupineModel(relaxFlag), ops, 20*time.Second) == porcupine.Ok {
		sig, explained = "C28:"+svc.name+":concurrent-unlock-stale-flag:foreign-lock-deleted",
			"legal if Unlock may free another owner's lock on keys whose LockKey.IsLockOwner flag was (still) true"
	} else if porcupine.CheckOperationsTimeout(porcupineModel(relaxAny), ops, 20*time.Second) == porcupine.Ok {
		sig, explained = "C28:"+svc.name+":concurrent-unlock:foreign-lock-deleted", "legal if Unlock may free any other owner's lock"
	}
	c.violation(sig, map[string]any{"phase": "concurrent", "service": svc.name, "mode": mode, "case": tag, "seed": r.Seed,
		"owners": nOwners, "keys": nKeys, "ttl": longTTL.String(), "history": all,
		"observed":                "porcupine: no linearization of this history satisfies the one-owner lock model (model.go, strict)",
		"explained_by_relaxation": explained,
		"expected":                "a linearization in which a granted Lock only takes free/own keys, IsLocked->true only on own keys, Unlock frees only own keys"})
}

// ---------------------------------------------------------------------------------------------
// sequential phase: generated programs with expiry steps

type seqOp struct {
	owner int
	kind  opKind
	mask  uint8
	short bool
}

func (c *ctxRun) sequential(svc *service, mode string, n, workers int) {
	var wg sync.WaitGroup
	jobs := make(chan int)
	for w := 0; w < workers; w++ {
		wg.Add(1)
		go func() {
			defer wg.Done()
			var ls []sop.L2Cache
			if svc.srv != nil {
				var closeFn func()
				ls, closeFn = svc.open(3)
				defer closeFn()
			}
			for p := range jobs {
				c.sequentialOne(svc, mode, p, ls)
			}
		}()
	}
	for p := 0; p < n; p++ {
		jobs <- p
	}
	close(jobs)
	wg.Wait()
}

func (c *ctxRun) sequentialOne(svc *service, mode string, p int, ls []sop.L2Cache) {
	r := c.r
	tag := fmt.Sprintf("seq:%s:%s:%d", svc.name, mode, p)
	if c.skip(tag) {
		return
	}
	rnd := env.Rand(r.Seed, "c28:"+tag)
	nOwners, nKeys := 2+rnd.Intn(2), 1+rnd.Intn(3)
	short := svc.shortTTL(p)
	length := 12 + rnd.Intn(19)
	var prog []seqOp
	expires := 0
	for len(prog) < length {
		if rnd.Intn(100) < 14 && expires < 3 {
			prog = append(prog, seqOp{kind: opExpire})
			expires++
			continue
		}
		op := seqOp{owner: rnd.Intn(nOwners), kind: randKind(rnd), mask: randMask(rnd, nKeys), short: rnd.Intn(2) == 0}
		if op.kind == opUnlock && mode == "refresh" {
			prog = append(prog, seqOp{owner: op.owner, kind: opIsLocked, mask: op.mask})
		}
		prog = append(prog, op)
	}
	if svc.srv == nil {
		var closeFn func()
		ls, closeFn = svc.open(nOwners)
		defer closeFn()
	}
	owners := newOwners(ls[:nOwners], keyNames(fmt.Sprintf("s%d-%s", r.Seed, strings.ReplaceAll(tag, ":", "-")), nKeys), p%2 == 0)
	var seq atomic.Int64
	var recs []rec
	var lastShort time.Time
	holder := make([]int, nKeys) // harness-side bookkeeping for the non-triviality measure only
	takeovers, errs := 0, 0
	for _, op := range prog {
		if op.kind == opExpire {
			n := seq.Add(1)
			svc.expire(short, lastShort)
			recs = append(recs, rec{Op: "Expire", Call: n, Ret: seq.Add(1), OK: true, in: input{Kind: opExpire}})
			continue
		}
		ttl, cls := longTTL, ttlLong
		if op.short {
			ttl, cls = short, svc.shortCls
		}
		x := owners[op.owner].call(&seq, op.kind, op.mask, ttl, cls, rnd)
		if op.short && (op.kind == opLock || op.kind == opDualLock || op.kind == opIsLockedTTL) {
			lastShort = time.Now() // read AFTER the call returned
		}
		if x.Err != "" {
			errs++
		}
		for _, k := range bits(op.mask) {
			switch {
			case (op.kind == opLock || op.kind == opDualLock) && x.OK:
				if holder[k] != 0 && holder[k] != op.owner+1 {
					takeovers++
				}
				holder[k] = op.owner + 1
			case op.kind == opUnlock && holder[k] == op.owner+1:
				holder[k] = 0
			}
		}
		recs = append(recs, x)
	}
	ins, outs := make([]input, len(recs)), make([]output, len(recs))
	var fp []string
	for i, x := range recs {
		ins[i], outs[i] = x.in, output{x.OK}
		fp = append(fp, fmt.Sprintf("%d%s%d%d%v", x.Client, x.Op, x.in.Keys, x.in.TTL, x.OK))
	}
	r.Count("ops:"+svc.name, int64(len(recs)))
	r.Count("op_errors", int64(errs))
	r.Count("sequential_programs:"+svc.name+":"+mode, 1)
	r.Count("sequential_expire_steps:"+svc.name, int64(expires))
	r.Count("sequential_takeovers_after_expiry:"+svc.name, int64(takeovers))
	r.Eval("seq:"+svc.name+":"+mode+":"+hashStrings(fp...), takeovers > 0)
	if p < 2 {
		r.Sample(map[string]any{"kind": "sequential", "service": svc.name, "mode": mode, "short_ttl": short.String(), "history": recs})
	}
	bad := simulate(strict, ins, outs)
	if bad < 0 {
		r.Count("sequential_model_ok:"+svc.name+":"+mode, 1)
		return
	}
	r.Count("sequential_model_rejected:"+svc.name+":"+mode, 1)
	site := fmt.Sprintf("%s-%v", strings.ToLower(recs[bad].Op), recs[bad].OK)
	sig, explained := "C28:"+svc.name+":sequential/"+site+":one-owner-model-violated", "none"
	if simulate(relaxFlag, ins, outs) < 0 {
		sig, explained = "C28:"+svc.name+":sequential-unlock-stale-flag:foreign-lock-deleted",
			"legal if Unlock may free another owner's lock on keys whose LockKey.IsLockOwner flag was (still) true"
	} else if simulate(relaxAny, ins, outs) < 0 {
		sig, explained = "C28:"+svc.name+":sequential-unlock:foreign-lock-deleted", "legal if Unlock may free any other owner's lock"
	}
	c.violation(sig, map[string]any{"phase": "sequential", "service": svc.name, "mode": mode, "case": tag, "seed": r.Seed,
		"owners": nOwners, "keys": nKeys, "short_ttl": short.String(), "long_ttl": longTTL.String(), "history": recs,
		"first_unexplained_op_index": bad, "first_unexplained_op": recs[bad],
		"observed":                "no state of the one-owner lock model (model.go, strict) admits this operation's result after the preceding ones",
		"explained_by_relaxation": explained})
}

// ---------------------------------------------------------------------------------------------
// scripts: fixed scenarios, fixed expected results

const (
	expAny      = iota
	expNeedTrue // precondition of the scenario; otherwise the script is void (inconclusive)
	expMustTrue
	expMustFalse
)

type sstep struct {
	who          int // 0 = A, 1 = B, 2 = C
	kind         opKind
	mask         uint8
	short        bool
	exp          int
	sig          string // "<scenario>:<outcome>" reported when a must-expectation fails
	skipIfFailed bool   // do not report when an earlier step of the script already failed
}

type script struct {
	name    string
	variant string
	nKeys   int
	sv      int // short TTL variant
	steps   []sstep
}

func acqName(k opKind) string { return strings.ToLower(k.String()) }

func buildScripts() []script {
	var out []script
	acqs := []opKind{opLock, opDualLock}
	for nk := 1; nk <= 3; nk++ {
		all := uint8(1<<nk - 1)
		for _, aA := range acqs {
			for _, aB := range acqs {
				// S1: unlock after expiry and re-acquisition
				bMasks := []uint8{1}
				if nk > 1 {
					bMasks = append(bMasks, all)
				}
				for _, bm := range bMasks {
					for pre := 0; pre < 4; pre++ {
						for sv := 0; sv < 2; sv++ {
							st := []sstep{
								{who: 0, kind: aA, mask: all, short: true, exp: expNeedTrue},
								{kind: opExpire},
								{who: 1, kind: aB, mask: bm, exp: expNeedTrue},
								{who: 1, kind: opIsLocked, mask: bm, exp: expNeedTrue},
							}
							switch pre {
							case 1:
								st = append(st, sstep{who: 0, kind: opIsLocked, mask: all, exp: expMustFalse, sig: "islocked-after-expiry:stale-owner-claims-lock"})
							case 2:
								st = append(st, sstep{who: 0, kind: opIsLockedTTL, mask: all, exp: expMustFalse, sig: "islockedttl-after-expiry:stale-owner-claims-lock"})
							case 3:
								st = append(st, sstep{who: 0, kind: opLock, mask: all, exp: expMustFalse, sig: "lock-after-expiry:second-owner-admitted"})
							}
							st = append(st,
								sstep{who: 0, kind: opUnlock, mask: all},
								sstep{who: 1, kind: opIsLocked, mask: bm, exp: expMustTrue, sig: "unlock-after-expiry:foreign-lock-deleted"},
								sstep{who: 2, kind: opLock, mask: bm, exp: expMustFalse, sig: "unlock-after-expiry:third-owner-admitted", skipIfFailed: true})
							out = append(out, script{name: "unlock-after-expiry", nKeys: nk, sv: sv, steps: st,
								variant: fmt.Sprintf("nk%d:A=%s:B=%s:bmask%03b:pre%d:ttl%d", nk, acqName(aA), acqName(aB), bm, pre, sv)})
						}
					}
				}
				// S5: a former holder releases again after somebody else acquired
				for mid := 0; mid < 2; mid++ {
					st := []sstep{
						{who: 0, kind: aA, mask: all, exp: expNeedTrue},
						{who: 0, kind: opUnlock, mask: all},
						{who: 1, kind: aB, mask: all, exp: expNeedTrue},
						{who: 1, kind: opIsLocked, mask: all, exp: expNeedTrue},
					}
					if mid == 1 {
						st = append(st, sstep{who: 0, kind: opIsLocked, mask: all, exp: expMustFalse, sig: "islocked-after-release:stale-owner-claims-lock"})
					}
					st = append(st,
						sstep{who: 0, kind: opUnlock, mask: all},
						sstep{who: 1, kind: opIsLocked, mask: all, exp: expMustTrue, sig: "unlock-after-release:foreign-lock-deleted"},
						sstep{who: 2, kind: opLock, mask: all, exp: expMustFalse, sig: "unlock-after-release:third-owner-admitted", skipIfFailed: true})
					out = append(out, script{name: "unlock-after-release", nKeys: nk, steps: st,
						variant: fmt.Sprintf("nk%d:A=%s:B=%s:mid%d", nk, acqName(aA), acqName(aB), mid)})
				}
			}
			// S6: release by an owner that never held the lock
			out = append(out, script{name: "unlock-never-held", nKeys: nk, variant: fmt.Sprintf("nk%d:B=%s", nk, acqName(aA)), steps: []sstep{
				{who: 1, kind: aA, mask: all, exp: expNeedTrue},
				{who: 0, kind: opUnlock, mask: all},
				{who: 1, kind: opIsLocked, mask: all, exp: expMustTrue, sig: "unlock-never-held:foreign-lock-deleted"},
				{who: 2, kind: opLock, mask: all, exp: expMustFalse, sig: "unlock-never-held:third-owner-admitted", skipIfFailed: true}}})
			for sv := 0; sv < 2; sv++ {
				// S8: the old owner itself re-acquires after expiry
				out = append(out, script{name: "relock-after-expiry", nKeys: nk, sv: sv, variant: fmt.Sprintf("nk%d:A=%s:ttl%d", nk, acqName(aA), sv), steps: []sstep{
					{who: 0, kind: aA, mask: all, short: true, exp: expNeedTrue},
					{kind: opExpire},
					{who: 0, kind: aA, mask: all, exp: expNeedTrue},
					{who: 1, kind: opLock, mask: all, exp: expMustFalse, sig: "relock-after-expiry:second-owner-admitted"},
					{who: 1, kind: opUnlock, mask: all},
					{who: 2, kind: opDualLock, mask: 1, exp: expMustFalse, sig: "relock-after-expiry:second-owner-admitted"}}})
				// S10: expiry of short-lived locks must not touch a long-lived one
				out = append(out, script{name: "lock-while-held", nKeys: nk, sv: sv, variant: fmt.Sprintf("nk%d:A=%s:ttl%d", nk, acqName(aA), sv), steps: []sstep{
					{who: 0, kind: aA, mask: all, exp: expNeedTrue},
					{who: 1, kind: aA, mask: all, short: true, exp: expMustFalse, sig: "lock-while-held:second-owner-admitted"},
					{kind: opExpire},
					{who: 1, kind: opLock, mask: 1, short: true, exp: expMustFalse, sig: "lock-while-held:second-owner-admitted"},
					{who: 1, kind: opUnlock, mask: all},
					{who: 2, kind: opLock, mask: all, exp: expMustFalse, sig: "lock-while-held:second-owner-admitted"}}})
				// S9: only part of A's locks expired
				if nk >= 2 {
					for pre := 0; pre < 2; pre++ {
						st := []sstep{
							{who: 0, kind: opLock, mask: 1, short: true, exp: expNeedTrue},
							{who: 0, kind: opLock, mask: all &^ 1, exp: expNeedTrue},
							{kind: opExpire},
							{who: 1, kind: aA, mask: 1, exp: expNeedTrue},
							{who: 1, kind: opIsLocked, mask: 1, exp: expNeedTrue},
						}
						if pre == 1 {
							st = append(st, sstep{who: 0, kind: opIsLocked, mask: all, exp: expMustFalse, sig: "islocked-after-expiry:stale-owner-claims-lock"})
						}
						st = append(st,
							sstep{who: 0, kind: opUnlock, mask: all},
							sstep{who: 1, kind: opIsLocked, mask: 1, exp: expMustTrue, sig: "unlock-after-expiry:foreign-lock-deleted"},
							sstep{who: 2, kind: opLock, mask: 1, exp: expMustFalse, sig: "unlock-after-expiry:third-owner-admitted", skipIfFailed: true})
						out = append(out, script{name: "unlock-after-partial-expiry", nKeys: nk, sv: sv, steps: st,
							variant: fmt.Sprintf("nk%d:B=%s:pre%d:ttl%d", nk, acqName(aA), pre, sv)})
					}
				}
			}
		}
	}
	return out
}

func (c *ctxRun) scripts(svc *service, workers int) {
	all := buildScripts()
	var wg sync.WaitGroup
	jobs := make(chan int)
	for w := 0; w < workers; w++ {
		wg.Add(1)
		go func() {
			defer wg.Done()
			var ls []sop.L2Cache
			if svc.srv != nil {
				var closeFn func()
				ls, closeFn = svc.open(3)
				defer closeFn()
			}
			for i := range jobs {
				c.scriptOne(svc, i, all[i], ls)
			}
		}()
	}
	for i := range all {
		jobs <- i
	}
	close(jobs)
	wg.Wait()
}

func (c *ctxRun) scriptOne(svc *service, idx int, sc script, ls []sop.L2Cache) {
	r := c.r
	if c.skip("script:" + svc.name + ":" + sc.name + ":" + sc.variant) {
		return
	}
	if svc.srv == nil {
		var closeFn func()
		ls, closeFn = svc.open(3)
		defer closeFn()
	}
	owners := newOwners(ls[:3], keyNames(fmt.Sprintf("s%d-script-%s-%d", r.Seed, svc.name, idx), sc.nKeys), idx%2 == 0)
	short := svc.shortTTL(sc.sv)
	var seq atomic.Int64
	var recs []rec
	var lastShort time.Time
	failed := false
	fpr := "script:" + svc.name + ":" + sc.name + ":" + sc.variant
	detail := func(step int, why string) map[string]any {
		d := map[string]any{"phase": "script", "service": svc.name, "script": sc.name, "variant": sc.variant, "seed": r.Seed,
			"owners": "client 1 = A, 2 = B, 3 = C", "short_ttl": short.String(), "long_ttl": longTTL.String(),
			"history": recs, "failed_step": step, "observed_vs_expected": why}
		if svc.srv != nil { // ground truth: what the stub holds under this script's lock keys
			now, mine := svc.srv.Keys(), map[string]any{}
			for _, lk := range owners[0].keys {
				if v, ok := now[lk.Key]; ok {
					mine[lk.Key] = v
				} else {
					mine[lk.Key] = nil
				}
			}
			d["lock_ids"] = map[string]any{"A": owners[0].keys[0].LockID.String(), "B": owners[1].keys[0].LockID.String(), "C": owners[2].keys[0].LockID.String()}
			d["stub_keys_now"] = mine
		}
		return d
	}
	for i, st := range sc.steps {
		if st.kind == opExpire {
			n := seq.Add(1)
			svc.expire(short, lastShort)
			recs = append(recs, rec{Op: "Expire", Call: n, Ret: seq.Add(1), OK: true})
			continue
		}
		ttl, cls := longTTL, ttlLong
		if st.short {
			ttl, cls = short, svc.shortCls
		}
		x := owners[st.who].call(&seq, st.kind, st.mask, ttl, cls, nil)
		if st.short {
			lastShort = time.Now()
		}
		recs = append(recs, x)
		r.Count("ops:"+svc.name, 1)
		if x.Err != "" {
			r.Count("op_errors", 1)
			r.Inconclusive("script-step-error:" + svc.name)
			r.Eval(fpr, false)
			return
		}
		switch {
		case st.exp == expNeedTrue && !x.OK:
			// a spurious refusal is not a safety issue, but the scenario cannot continue
			r.Inconclusive("script-void:" + svc.name + ":" + sc.name)
			r.Eval(fpr, false)
			return
		case (st.exp == expMustTrue && !x.OK) || (st.exp == expMustFalse && x.OK):
			if !(st.skipIfFailed && failed) {
				want := "true"
				if st.exp == expMustFalse {
					want = "false"
				}
				c.violation("C28:"+svc.name+":"+st.sig, detail(i, fmt.Sprintf("step %d: client %d %s(keys %v) returned %v, expected %s",
					i, st.who+1, st.kind, bits(st.mask), x.OK, want)))
			}
			failed = true
		}
	}
	r.Count("scripts_completed:"+svc.name, 1)
	r.Eval(fpr, true)
	if idx == 0 {
		r.Sample(map[string]any{"kind": "script", "service": svc.name, "script": sc.name, "variant": sc.variant, "history": recs})
	}
}

// ---------------------------------------------------------------------------------------------
// capacity phase (in-memory only)

const shardCount = 256 // cache/l2inmemorycache.sharded_map.go: fnv32a(key) % 256

func shardOf(formattedKey string) uint32 {
	h := fnv.New32a()
	h.Write([]byte(formattedKey))
	return h.Sum32() % shardCount
}

// sameShardNames returns n key names whose FORMATTED lock key falls into the shard of base's (or, with
// collide=false, n names in n pairwise different other shards).
func sameShardNames(l sop.L2Cache, base string, n int, collide bool) []string {
	target := shardOf(l.FormatLockKey(base))
	used := map[uint32]bool{target: true}
	var out []string
	for i := 0; len(out) < n; i++ {
		name := fmt.Sprintf("%s-f%d", base, i)
		s := shardOf(l.FormatLockKey(name))
		if collide && s == target {
			out = append(out, name)
		} else if !collide && !used[s] {
			used[s] = true
			out = append(out, name)
		}
	}
	return out
}

func (c *ctxRun) capacity() {
	saved := cache.DefaultInMemoryCacheShardCapacity
	defer func() { cache.DefaultInMemoryCacheShardCapacity = saved }()
	caseNo := 0
	for _, capy := range []int{1, 2, 4} {
		for _, extra := range []int{-1, 0, 1, 3} { // fillers = capacity + extra
			for _, fillTTL := range []string{"same", "longer", "shorter"} {
				for _, acq := range []opKind{opLock, opDualLock} {
					for _, collide := range []bool{true, false} {
						for _, oneOwner := range []bool{false, true} {
							fillers := capy + extra
							if fillers < 0 || (!collide && (extra != 3 || fillTTL != "same")) {
								continue
							}
							caseNo++
							c.capacityOne(caseNo, capy, fillers, fillTTL, acq, collide, oneOwner)
						}
					}
				}
			}
		}
	}
}

func (c *ctxRun) capacityOne(caseNo, capy, fillers int, fillTTL string, acq opKind, collide, oneOwner bool) {
	r := c.r
	fpr := fmt.Sprintf("capacity:cap%d:fillers%d:ttl-%s:%s:collide=%v:one-filler-owner=%v", capy, fillers, fillTTL, acqName(acq), collide, oneOwner)
	if c.skip(fpr) {
		return
	}
	cache.DefaultInMemoryCacheShardCapacity = capy // read by NewL2InMemoryCache at construction
	l := cache.NewL2InMemoryCache()
	base := fmt.Sprintf("s%d-cap%d", r.Seed, caseNo)
	names := append([]string{base}, sameShardNames(l, base, fillers, collide)...)
	ttlOf := map[string]time.Duration{"same": longTTL, "longer": 2 * longTTL, "shorter": longTTL / 2}[fillTTL]

	// every (owner, key) pair gets its own LockKey; holderOf[i] is the owner that was granted names[i]
	type held struct {
		name  string
		owner int
		lk    *sop.LockKey
	}
	var seq atomic.Int64
	var hist []map[string]any
	note := func(owner int, op string, keys []string, ok bool, err error) {
		hist = append(hist, map[string]any{"seq": seq.Add(1), "owner": owner, "op": op, "keys": keys, "ok": ok, "err": fmt.Sprint(err)})
	}
	mk := func(name string) *sop.LockKey { return l.CreateLockKeys([]string{name})[0] }
	lock := func(owner int, kind opKind, ttl time.Duration, lks []*sop.LockKey, ns []string) bool {
		var ok bool
		var err error
		if kind == opDualLock {
			ok, _, err = l.DualLock(ctxBg, ttl, lks)
		} else {
			ok, _, err = l.Lock(ctxBg, ttl, lks)
		}
		note(owner, kind.String(), ns, ok, err)
		if err != nil {
			r.Count("op_errors", 1)
		}
		return ok && err == nil
	}
	var holds []held
	a := mk(base)
	if !lock(1, acq, longTTL, []*sop.LockKey{a}, []string{base}) {
		r.Inconclusive("capacity-void:holder-refused")
		r.Eval(fpr, false)
		return
	}
	holds = append(holds, held{base, 1, a})
	if oneOwner && fillers > 0 { // one other owner takes all filler keys in a single multi-key call
		var lks []*sop.LockKey
		for _, n := range names[1:] {
			lks = append(lks, mk(n))
		}
		byName := map[string]*sop.LockKey{}
		for i, n := range names[1:] {
			byName[n] = lks[i]
		}
		if lock(2, acq, ttlOf, append([]*sop.LockKey(nil), lks...), names[1:]) {
			for _, n := range names[1:] {
				holds = append(holds, held{n, 2, byName[n]})
			}
		}
	} else {
		for i, n := range names[1:] {
			lk := mk(n)
			if lock(2+i, acq, ttlOf, []*sop.LockKey{lk}, []string{n}) {
				holds = append(holds, held{n, 2 + i, lk})
			}
		}
	}
	r.Count("ops:inmemory", int64(len(hist)))
	// Nobody released anything and every TTL is >= 30 min: each granted lock must still be its owner's,
	// and a fresh contender must be refused on it.
	var lost []map[string]any
	for _, h := range holds {
		still, err1 := l.IsLocked(ctxBg, []*sop.LockKey{h.lk})
		note(h.owner, "IsLocked", []string{h.name}, still, err1)
		contender := mk(h.name)
		admitted, _, err2 := l.Lock(ctxBg, longTTL, []*sop.LockKey{contender})
		note(100, "Lock", []string{h.name}, admitted, err2)
		if admitted {
			_ = l.Unlock(ctxBg, []*sop.LockKey{contender})
		}
		if err1 != nil || err2 != nil {
			r.Count("op_errors", 1)
			continue
		}
		if !still || admitted {
			lost = append(lost, map[string]any{"key": h.name, "granted_to_owner": h.owner, "owner_still_holds": still, "fresh_contender_admitted": admitted})
		}
	}
	r.Count("capacity_cases", 1)
	r.Count("capacity_locks_checked", int64(len(holds)))
	r.Eval(fpr, true)
	if caseNo == 1 {
		r.Sample(map[string]any{"kind": "capacity", "class": fpr, "history": hist})
	}
	if len(lost) > 0 {
		r.Count("capacity_locks_lost", int64(len(lost)))
		c.violation("C28:inmemory:shard-capacity:live-lock-evicted", map[string]any{"phase": "capacity", "seed": r.Seed, "class": fpr,
			"DefaultInMemoryCacheShardCapacity": capy, "holder_key": base, "filler_keys": names[1:], "same_shard": collide,
			"formatted_keys_shard": shardOf(l.FormatLockKey(base)), "history": hist, "lost_locks": lost,
			"observed_vs_expected": "a lock that was granted, never released and has >= 30 min of TTL left is no longer held by its owner and/or a second owner was admitted; expected: still held, contender refused"})
	}
}

// observeForeignTTL records (never judges) a behaviour outside the operations the statement lists:
// in the Redis adapter a NON-owner's IsLockedTTL rewrites the holder's TTL (GETEX precedes the owner
// comparison), so it can also shorten it.
func (c *ctxRun) observeForeignTTL(svc *service) {
	if c.only != "" {
		return
	}
	ls, closeFn := svc.open(2)
	defer closeFn()
	owners := newOwners(ls, keyNames(fmt.Sprintf("s%d-observe-ttl", c.r.Seed), 1), true)
	var seq atomic.Int64
	a := owners[0].call(&seq, opLock, 1, longTTL, ttlLong, nil)
	before := svc.srv.Keys()[owners[0].keys[0].Key].TTLms
	b := owners[1].call(&seq, opIsLockedTTL, 1, 1500*time.Millisecond, ttlLive, nil)
	after := svc.srv.Keys()[owners[0].keys[0].Key].TTLms
	c.r.Set("observation_redis_foreign_islockedttl", map[string]any{"holder_lock_granted": a.OK, "holder_ttl_ms_before": before,
		"non_owner_islockedttl_result": b.OK, "holder_ttl_ms_after": after, "judged": false,
		"note": "IsLockedTTL is not among the operations C28 quantifies over; the model tolerates the TTL rewrite"})
	owners[0].call(&seq, opUnlock, 1, 0, 0, nil)
}
