package c28

import (
	"fmt"

	"github.com/anishathalye/porcupine"
)

// The safety model of DESIGN A.5, extended with TTL classes so that the same step function also
// judges sequential programs with expiry. It is deliberately nondeterministic wherever the
// statement is silent, so that only "two owners at once" / "a foreign release freed a lock" /
// "a non-holder claims the lock" remain illegal:
//
//	Lock/DualLock -> true : legal iff every key is free, the caller's, or held by another owner with a
//	                        lock that may have expired (ttlMaybe) or has surely expired (ttlDead).
//	                        Afterwards every key is the caller's (TTL refreshed or, for a key the caller
//	                        already held, possibly unchanged — implementations differ, both accepted).
//	Lock/DualLock -> false: always legal; the caller may have acquired ANY subset of the keys it could
//	                        legally acquire (the Redis adapter does not roll back a partial acquisition,
//	                        DualLock leaves the locks when its verification fails).
//	IsLocked[TTL] -> true : legal iff every key is the caller's and not surely expired.
//	IsLocked[TTL] -> false: always legal.
//	IsLockedTTL (any result): may rewrite the TTL of any live lock among its keys (see step).
//	Unlock                : each of the caller's keys is freed or (weaker reading: the statement does not
//	                        promise that a release succeeds) kept; keys of other owners are unchanged.
//	Expire (harness step) : every short-lived lock is now surely expired.
//
// Relaxed variants exist ONLY to classify a history that the strict model rejects (they never decide):
// relaxFlag lets Unlock free a foreign lock on keys whose LockKey.IsLockOwner flag was true at the
// call; relaxAny lets Unlock free any foreign lock among its keys.
const maxKeys = 3

type opKind int8

const (
	opLock opKind = iota
	opDualLock
	opIsLocked
	opIsLockedTTL
	opUnlock
	opExpire
)

var opNames = [...]string{"Lock", "DualLock", "IsLocked", "IsLockedTTL", "Unlock", "Expire"}

func (k opKind) String() string { return opNames[k] }

// TTL classes of a held key.
const (
	ttlLong  int8 = iota // 1 h: never expires within a case
	ttlLive              // short TTL, surely still live (virtual clock has not been advanced)
	ttlMaybe             // short TTL on a wall clock: may or may not have expired yet
	ttlDead              // short TTL, surely expired (Expire step done)
)

const (
	strict = iota
	relaxFlag
	relaxAny
)

type input struct {
	Owner int8 // 1-based
	Kind  opKind
	Keys  uint8 // bitmask over key indexes
	TTL   int8  // class a lock written by this call gets
	Flags uint8 // keys whose LockKey.IsLockOwner was true before the call (classification only)
}

type output struct{ OK bool }

type state struct {
	own [maxKeys]int8 // 0 = free, else owner
	ttl [maxKeys]int8
}

type opt struct{ own, ttl int8 }

func expand(states []state, k int, opts []opt) []state {
	if len(opts) == 1 {
		for i := range states {
			states[i].own[k], states[i].ttl[k] = opts[0].own, opts[0].ttl
		}
		return states
	}
	out := make([]state, 0, len(states)*len(opts))
	for _, s := range states {
		for _, o := range opts {
			n := s
			n.own[k], n.ttl[k] = o.own, o.ttl
			out = append(out, n)
		}
	}
	return out
}

func step(relax int, st state, in input, out output) []state {
	res := []state{st}
	if in.Kind == opExpire {
		for k := 0; k < maxKeys; k++ {
			if st.own[k] != 0 && (st.ttl[k] == ttlLive || st.ttl[k] == ttlMaybe) {
				res[0].ttl[k] = ttlDead
			}
		}
		return res
	}
	o := in.Owner
	for k := 0; k < maxKeys; k++ {
		if in.Keys&(1<<k) == 0 {
			continue
		}
		own, ttl := st.own[k], st.ttl[k]
		same := opt{own, ttl}
		fresh := opt{o, in.TTL}
		mine := own == o
		switch in.Kind {
		case opLock, opDualLock:
			acquirable := own == 0 || mine || ttl == ttlMaybe || ttl == ttlDead
			var opts []opt
			if out.OK {
				if !acquirable {
					return nil
				}
				if mine && ttl != ttlDead {
					opts = []opt{same, fresh}
				} else {
					opts = []opt{fresh}
				}
			} else {
				opts = []opt{same}
				if acquirable {
					opts = append(opts, fresh)
				}
			}
			res = expand(res, k, opts)
		case opIsLocked, opIsLockedTTL:
			holds := mine && ttl != ttlDead
			if out.OK && !holds {
				return nil
			}
			// IsLockedTTL is not among the operations the statement quantifies over. The Redis adapter
			// issues GETEX (which rewrites the TTL) BEFORE it compares the owner id, so a non-owner's call
			// replaces the holder's TTL by the caller's. Weaker reading: the call may rewrite the TTL of any
			// live lock among its keys, whoever holds it; the owner never changes.
			if in.Kind == opIsLockedTTL && own != 0 && ttl != ttlDead {
				res = expand(res, k, []opt{same, {own, in.TTL}})
			}
		case opUnlock:
			switch {
			case own == 0:
			case mine:
				res = expand(res, k, []opt{same, {0, 0}})
			case relax == relaxAny || (relax == relaxFlag && in.Flags&(1<<k) != 0):
				res = expand(res, k, []opt{same, {0, 0}})
			}
		}
	}
	return res
}

// simulate runs a SEQUENTIAL history through the power-set of the model. It returns the index of the
// first operation that no possible state explains, or -1.
func simulate(relax int, ins []input, outs []output) int {
	cur := map[state]struct{}{{}: {}}
	for i := range ins {
		next := map[state]struct{}{}
		for s := range cur {
			for _, n := range step(relax, s, ins[i], outs[i]) {
				next[n] = struct{}{}
			}
		}
		if len(next) == 0 {
			return i
		}
		cur = next
	}
	return -1
}

func porcupineModel(relax int) porcupine.Model {
	nm := porcupine.NondeterministicModel{
		Init: func() []interface{} { return []interface{}{state{}} },
		Step: func(s, in, out interface{}) []interface{} {
			ns := step(relax, s.(state), in.(input), out.(output))
			r := make([]interface{}, len(ns))
			for i := range ns {
				r[i] = ns[i]
			}
			return r
		},
		Equal: func(a, b interface{}) bool { return a.(state) == b.(state) },
		DescribeOperation: func(in, out interface{}) string {
			i := in.(input)
			return fmt.Sprintf("o%d.%s(%03b)->%v", i.Owner, i.Kind, i.Keys, out.(output).OK)
		},
	}
	return nm.ToModel()
}
