// Package c27: the passive copy stays a faithful replica and can be reinstated.
package c27

import (
	"context"
	"encoding/json"
	"fmt"
	"os"
	"path/filepath"
	"sort"
	"strings"
	"sync"
	"time"

	"github.com/sharedcode/sop"
	"github.com/sharedcode/sop/database"
	"github.com/sharedcode/sop/fs"

	"verifharness/kit/env"
	"verifharness/kit/proc"
	"verifharness/kit/report"
	"verifharness/kit/sopx"
	"verifharness/kit/txn"
)

func init() { proc.Register("c27-step", step) }

type stepArg struct {
	Base   string        `json:"base"`
	Action string        `json:"action"` // apply | failover-dump | dump | reinstate
	Progs  []txn.Program `json:"progs,omitempty"`
	Drops  []string      `json:"drops,omitempty"` // stores to RemoveBtree after the programs
	// FailPassiveRegAfter > 0: in this step the first N block writes to registry segment files of the
	// passive folder succeed and every later one fails (a drive that dies in the middle of a replication)
	FailPassiveRegAfter int `json:"fail_passive_reg_after,omitempty"`
}

// midwayDIO is the fs.DirectIOSim of such a step.
type midwayDIO struct {
	fs.DirectIO
	passive string
	after   int
	mu      sync.Mutex
	n       int
	failed  int
}

func (d *midwayDIO) WriteAt(ctx context.Context, f *os.File, block []byte, off int64) (int, error) {
	if strings.HasPrefix(f.Name(), d.passive) && strings.HasSuffix(f.Name(), ".reg") {
		d.mu.Lock()
		d.n++
		fail := d.n > d.after
		if fail {
			d.failed++
		}
		d.mu.Unlock()
		if fail {
			return 0, fmt.Errorf("verif: injected I/O error writing %s @%d", f.Name(), off)
		}
	}
	return d.DirectIO.WriteAt(ctx, f, block, off)
}

type stepOut struct {
	Dump       *sopx.Dump `json:"dump,omitempty"`
	CommitErrs []string   `json:"commit_errs,omitempty"`
	Err        string     `json:"err,omitempty"`
	ReplStat   string     `json:"replstat,omitempty"`
	PassiveRegWritesOK     int `json:"passive_reg_writes_ok,omitempty"`
	PassiveRegWritesFailed int `json:"passive_reg_writes_failed,omitempty"`
}

func dbOf(base string) sopx.DB {
	a, b := filepath.Join(base, "A"), filepath.Join(base, "B")
	ec := map[string]sop.ErasureCodingConfig{"": {DataShardsCount: 2, ParityShardsCount: 1, RepairCorruptedShards: true,
		BaseFolderPathsAcrossDrives: []string{filepath.Join(base, "e1"), filepath.Join(base, "e2"), filepath.Join(base, "e3")}}}
	return sopx.DB{Dir: a, Opts: sop.DatabaseOptions{StoresFolders: []string{a, b}, ErasureConfig: ec, CacheType: sop.InMemory}}
}

func step(args []string) int {
	var a stepArg
	if json.Unmarshal([]byte(args[0]), &a) != nil {
		return proc.ExitHarness
	}
	sop.RetryStartDuration = time.Millisecond
	ctx := context.Background()
	db := dbOf(a.Base)
	out := stepOut{}
	switch a.Action {
	case "apply":
		var mid *midwayDIO
		if a.FailPassiveRegAfter > 0 {
			mid = &midwayDIO{DirectIO: fs.NewDirectIO(), passive: filepath.Join(a.Base, "B") + string(os.PathSeparator), after: a.FailPassiveRegAfter}
			fs.DirectIOSim = mid
		}
		for _, p := range a.Progs {
			cctx, cancel := context.WithTimeout(ctx, 30*time.Second)
			err := commit(cctx, db, p)
			cancel()
			if err != nil {
				out.CommitErrs = append(out.CommitErrs, err.Error())
			} else {
				out.CommitErrs = append(out.CommitErrs, "")
			}
		}
		for _, s := range a.Drops {
			if err := database.RemoveBtree(ctx, db.Opts, s); err != nil {
				out.Err = "RemoveBtree " + s + ": " + err.Error()
			}
		}
		if mid != nil {
			out.PassiveRegWritesFailed = mid.failed
			out.PassiveRegWritesOK = mid.n - mid.failed
		}
		d := sopx.DumpDB(db)
		out.Dump = &d
	case "dump":
		d := sopx.DumpDB(db)
		out.Dump = &d
	case "failover-dump":
		l2 := sop.GetL2Cache(sop.TransactionOptions{CacheType: sop.InMemory})
		if l2 == nil {
			database.ValidateOptions(db.Opts)
			l2 = sop.GetL2Cache(sop.TransactionOptions{CacheType: sop.InMemory})
		}
		if err := fs.TriggerFailover(ctx, db.Opts.StoresFolders, true, l2); err != nil {
			out.Err = "failover: " + err.Error()
		}
		// the drive that was active is gone from here on: whatever is read now comes from the former
		// passive copy (a failover that silently did not happen shows as an unreadable database)
		aDir := db.Opts.StoresFolders[0]
		os.Rename(aDir, aDir+".off")
		os.MkdirAll(aDir, 0o755)
		d := sopx.DumpDB(db)
		out.Dump = &d
		os.RemoveAll(aDir)
		os.Rename(aDir+".off", aDir)
	case "reinstate":
		if err := database.ReinstateFailedDrives(ctx, db.Opts); err != nil {
			out.Err = "reinstate: " + err.Error()
		}
	}
	for _, f := range db.Opts.StoresFolders {
		if b, err := os.ReadFile(filepath.Join(f, "replstat.txt")); err == nil {
			out.ReplStat += filepath.Base(f) + ":" + strings.TrimSpace(string(b)) + " "
		}
	}
	j, _ := json.Marshal(out)
	fmt.Println(string(j))
	return 0
}

func commit(ctx context.Context, db sopx.DB, p txn.Program) error {
	pub := txn.Public{DB: db}
	t, err := pub.Begin(sop.ForWriting, time.Minute)
	if err != nil {
		return err
	}
	if r, err := txn.Run(pub, t, p); err != nil || r != nil {
		t.Rollback(context.Background())
		if err == nil {
			err = fmt.Errorf("op %+v ok=%v err=%v", r.Op, r.OK, r.Err)
		}
		return err
	}
	return t.Commit(ctx)
}

func run(logDir string, a stepArg) (stepOut, error) {
	j, _ := json.Marshal(a)
	pr := proc.Run(logDir, 180, nil, "c27-step", string(j))
	var o stepOut
	if pr.Code != 0 {
		return o, fmt.Errorf("child exit %d: %s", pr.Code, tailS(string(pr.Err()), 800))
	}
	lines := strings.Split(strings.TrimSpace(string(pr.Out())), "\n")
	if err := json.Unmarshal([]byte(lines[len(lines)-1]), &o); err != nil {
		return o, fmt.Errorf("bad child output: %v", err)
	}
	return o, nil
}

func tailS(s string, n int) string {
	if len(s) > n {
		return s[len(s)-n:]
	}
	return s
}

// one history: returns violations as (signature suffix, detail).
func history(r *report.Run, i int) {
	rnd := env.Rand(r.Seed, fmt.Sprintf("c27-%d", i))
	base := env.Scratch("c27")
	defer env.Remove(base)
	logDir := env.Scratch("c27log")
	defer env.Remove(logDir)
	variant := []string{"no-failure", "no-failure", "passive-root-is-a-file", "passive-store-folder-is-a-file", "passive-registry-segment-is-a-dir"}[i%5]
	if i >= r.Pick(15, 150) {
		variant = "passive-registry-write-fails-midway" // the histories appended to the original ones
	}
	specs := []txn.Spec{{Name: "alpha", Slot: []int{2, 4, 8}[rnd.Intn(3)], Profile: sopx.Profiles[i%4]}, {Name: "beta", Slot: 4, Profile: sopx.Profiles[(i+1)%4]}, {Name: "gone", Slot: 4, Profile: sopx.InNode}}
	basep, model := txn.Baseline(specs, 6)
	shapes := []string{"S3-leaf-insert", "S4-split", "S6-updates", "S7-removes", "S8-mixed", "S9-multistore"}
	gen := func(n int, tag string) []txn.Program {
		var ps []txn.Program
		for k := 0; k < n; k++ {
			p := txn.Gen(rnd, shapes[rnd.Intn(len(shapes))], model, specs[:2], fmt.Sprintf("%s%d", tag, k))
			if len(p.Ops) == 0 {
				continue
			}
			ps = append(ps, p)
			model = model.Apply(p)
		}
		return ps
	}
	fp := fmt.Sprintf("%s:%s+%s:h%d", variant, specs[0].Profile, specs[1].Profile, i)
	viol := func(cls string, detail any) {
		r.Violation(fmt.Sprintf("C27:%s:%s:%s", variant, specs[0].Profile, cls), detail)
	}
	// phase 1: creates + commits + a store drop, replication healthy
	progs := append([]txn.Program{basep}, gen(4+rnd.Intn(4), "a")...)
	delete(model, "gone")
	o, err := run(logDir, stepArg{Base: base, Action: "apply", Progs: progs, Drops: []string{"gone"}})
	if err != nil || o.Err != "" {
		r.Inconclusive("phase1:" + fmt.Sprint(err) + o.Err)
		r.Eval(fp, false)
		return
	}
	for k, e := range o.CommitErrs {
		if e != "" {
			viol("commit-failed-without-faults", map[string]any{"program": k, "err": e})
			return
		}
	}
	if d := txn.DiffContent(*o.Dump, model.Dump()); d != "" {
		viol("active-dump-differs-from-model", map[string]any{"diff": d})
		return
	}
	if variant == "passive-registry-write-fails-midway" {
		// ONE commit that rewrites every item of alpha (several node handles of one registry table, no
		// change of the item count) while the passive drive takes the first registry block write and fails
		// every later one; nothing else touches that table before the drive is reinstated
		up := txn.Program{Shape: "all-updates"}
		var ks []string
		for k := range model["alpha"] {
			ks = append(ks, k)
		}
		sort.Strings(ks)
		for _, k := range ks {
			up.Ops = append(up.Ops, txn.Op{Store: "alpha", Kind: "update", K: k, V: txn.Val(fmt.Sprintf("m%d", i), 12)})
		}
		model = model.Apply(up)
		o2, err := run(logDir, stepArg{Base: base, Action: "apply", Progs: []txn.Program{up}, FailPassiveRegAfter: 1})
		if err != nil || o2.Err != "" {
			viol("process-died-or-failed-with-passive-down", map[string]any{"err": fmt.Sprint(err), "step_err": o2.Err})
			return
		}
		if len(o2.CommitErrs) > 0 && o2.CommitErrs[0] != "" {
			viol("commit-failed-because-passive-failed", map[string]any{"err": o2.CommitErrs[0]})
			return
		}
		if d := txn.DiffContent(*o2.Dump, model.Dump()); d != "" {
			viol("active-affected-by-passive-failure", map[string]any{"diff": d})
			return
		}
		r.Count("midway_passive_registry_writes_ok", int64(o2.PassiveRegWritesOK))
		r.Count("midway_passive_registry_writes_failed", int64(o2.PassiveRegWritesFailed))
		if o2.PassiveRegWritesFailed > 0 {
			r.Count("midway_histories_with_a_half_replicated_commit", 1)
		}
		if strings.Contains(o2.ReplStat, `"FailedToReplicate":true`) {
			r.Count("passive_failure_reported_in_replstat", 1)
			o3, err := run(logDir, stepArg{Base: base, Action: "reinstate"})
			if err != nil || o3.Err != "" {
				viol("reinstate-failed", map[string]any{"err": fmt.Sprint(err), "step_err": o3.Err, "replstat": o2.ReplStat})
				return
			}
		} else if o2.PassiveRegWritesFailed > 0 {
			r.Count("passive_failure_not_reported_in_replstat(observed)", 1)
		}
		// no further commit: the failover dump below shows what reinstating alone made of the passive copy
	} else if variant != "no-failure" {
		// break the passive side, then commit more: the commits must succeed, the active side be right,
		// replication be reported as failed
		pb := filepath.Join(base, "B")
		var restore func()
		switch variant {
		case "passive-root-is-a-file":
			os.Rename(pb, pb+".bak")
			os.WriteFile(pb, []byte("x"), 0o644)
			restore = func() { os.Remove(pb); os.Rename(pb+".bak", pb) }
		case "passive-store-folder-is-a-file":
			p := filepath.Join(pb, "alpha")
			os.Rename(p, p+".bak")
			os.WriteFile(p, []byte("x"), 0o644)
			restore = func() { os.Remove(p); os.Rename(p+".bak", p) }
		case "passive-registry-segment-is-a-dir":
			p := filepath.Join(pb, "alpha", "alpha-1.reg")
			os.Rename(p, p+".bak")
			os.MkdirAll(p, 0o755)
			restore = func() { os.RemoveAll(p); os.Rename(p+".bak", p) }
		}
		o2, err := run(logDir, stepArg{Base: base, Action: "apply", Progs: gen(3, "f")})
		if err != nil || o2.Err != "" {
			restore()
			viol("process-died-or-failed-with-passive-down", map[string]any{"err": fmt.Sprint(err), "step_err": o2.Err})
			return
		}
		for k, e := range o2.CommitErrs {
			if e != "" {
				restore()
				viol("commit-failed-because-passive-failed", map[string]any{"program": k, "err": e})
				return
			}
		}
		if d := txn.DiffContent(*o2.Dump, model.Dump()); d != "" {
			restore()
			viol("active-affected-by-passive-failure", map[string]any{"diff": d})
			return
		}
		if os.Getenv("VERIF_C27_ONLY") != "" {
			fmt.Fprintf(os.Stderr, "after broken-passive commits: replstat=%s commit_errs=%v\n", o2.ReplStat, o2.CommitErrs)
		}
		if !strings.Contains(o2.ReplStat, `"FailedToReplicate":true`) {
			r.Count("passive_failure_not_reported_in_replstat(observed)", 1)
		} else {
			r.Count("passive_failure_reported_in_replstat", 1)
		}
		restore()
		if strings.Contains(o2.ReplStat, `"FailedToReplicate":true`) {
			o3, err := run(logDir, stepArg{Base: base, Action: "reinstate"})
			if err != nil || o3.Err != "" {
				viol("reinstate-failed", map[string]any{"err": fmt.Sprint(err), "step_err": o3.Err, "replstat": o2.ReplStat})
				return
			}
		}
		// further commits after reinstating
		o4, err := run(logDir, stepArg{Base: base, Action: "apply", Progs: gen(3, "g")})
		if err != nil || o4.Err != "" {
			r.Inconclusive("post-reinstate-apply")
			return
		}
		for k, e := range o4.CommitErrs {
			if e != "" {
				viol("commit-failed-after-reinstate", map[string]any{"program": k, "err": e})
				return
			}
		}
	}
	// failover in a fresh process: the passive copy must show exactly the same stores and contents
	of, err := run(logDir, stepArg{Base: base, Action: "failover-dump"})
	if err != nil {
		viol("failover-process-died", map[string]any{"err": err.Error()})
		return
	}
	if of.Err != "" {
		viol("failover-failed", map[string]any{"err": of.Err})
		return
	}
	r.Eval(fp, true)
	if os.Getenv("VERIF_C27_ONLY") != "" {
		fmt.Fprintf(os.Stderr, "phase1 replstat=%q\nafter failover replstat=%q\n", o.ReplStat, of.ReplStat)
	}
	if of.Dump.Err != "" {
		viol("unreadable-after-failover-with-the-former-active-drive-gone", map[string]any{"err": of.Dump.Err, "replstat": of.ReplStat, "variant": variant})
		return
	}
	if d := txn.DiffContent(*of.Dump, model.Dump()); d != "" {
		cls := "passive-differs-after-failover"
		if strings.Contains(d, "COUNT-ONLY") {
			cls = "passive-count-differs-after-failover"
		} else if strings.Contains(d, "store sets differ") {
			cls = "passive-store-set-differs-after-failover"
		}
		viol(cls, map[string]any{"diff": d, "variant": variant})
	}
	if i < 3 {
		r.Sample(map[string]any{"variant": variant, "stores": specs, "transactions": len(progs), "replstat_after_failover": of.ReplStat})
	}
}

func Run(r *report.Run) int {
	n := r.Pick(18, 180)
	var wg sync.WaitGroup
	sem := make(chan struct{}, 8)
	for i := 0; i < n; i++ {
		if only := os.Getenv("VERIF_C27_ONLY"); only != "" && only != fmt.Sprint(i) {
			continue
		}
		wg.Add(1)
		sem <- struct{}{}
		go func(i int) {
			defer wg.Done()
			defer func() { <-sem }()
			history(r, i)
		}(i)
	}
	wg.Wait()
	return r.Finish(rule, assumptions, 8)
}

const rule = "histories over a replicated layout (two stores folders A/B + erasure-coded blobs d2p1 over three folders, database.* public path, one child process per step): store creation, 4-7 committed transactions of mixed shapes over two stores of varying value placement, a store drop; variants break the passive side before further commits (passive root / store folder replaced by a plain file, registry segment replaced by a directory), then restore it, ReinstateFailedDrives and commit more; the midway variant lets ONE commit that rewrites every item of a store replicate its first registry block write to the passive drive and fails every later one (fs.DirectIOSim), then reinstates and commits nothing more; finally fs.TriggerFailover in a fresh process, the formerly active folder is moved away, and a dump is taken (so it can only come from the former passive copy); oracle: every commit succeeds, the active dump equals the model, and the dump after failover equals the model (stores, items, counts); fingerprint = (variant, placements, history); non-trivial = the failover dump was taken"

var assumptions = []string{"standalone in-memory L2; each step in its own process (replication state is process-global)", "passive-side failure = path element of the wrong file type (ENOTDIR/EISDIR)"}
