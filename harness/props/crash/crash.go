// Package crash: E-CRASH engine (DESIGN §4). victim child (dies at a planned call site of its commit),
// recovery child (cold start, clock advanced past the documented thresholds, scripted later
// transactions through the public path), observer child (cold dump + raw disk walk).
package crash

import (
	"context"
	"encoding/json"
	"fmt"
	"os"
	"sort"
	"strconv"
	"strings"
	"sync"
	"time"

	"github.com/sharedcode/sop"

	"verifharness/kit/deco"
	"verifharness/kit/env"
	"verifharness/kit/mirror"
	"verifharness/kit/proc"
	"verifharness/kit/report"
	"verifharness/kit/sopx"
	"verifharness/kit/txn"
	"verifharness/kit/walk"
)

func init() {
	proc.Register("crash-victim", victim)
	proc.Register("crash-recover", recoverRole)
	proc.Register("crash-observe", observe)
}

// Scenario identifies the victim's transaction: a pure function of these fields.
type Scenario struct {
	Seed    int64  `json:"seed"`
	Prog    int    `json:"prog"`
	Shape   string `json:"shape"`
	Profile string `json:"profile"`
	Slot    int    `json:"slot"`
	Dir     string `json:"dir"`
	Label   string `json:"label"` // "" = census (no crash)
	Ord     int    `json:"ord"`
	Act     string `json:"act"` // crash-before | crash-after | torn
	TornN   int    `json:"torn_n"`
	TornRel int    `json:"torn_rel"`
	Phase   string `json:"phase"`          // before-storeinfo | storeinfo-to-flip | in-flip | after-flip
	Aged    bool   `json:"aged,omitempty"` // every node of the baseline was updated by an earlier committed transaction (both physical ids of its handle have been used)
}

func (s Scenario) specs() []txn.Spec {
	specs := []txn.Spec{{Name: "alpha", Slot: s.Slot, Profile: sopx.Profile(s.Profile)}}
	if s.Shape == "S0-first-root" {
		specs = append(specs, txn.Spec{Name: "fresh", Slot: 4, Profile: sopx.Profile(s.Profile), Empty: true})
	}
	if s.Shape == "S9-multistore" {
		specs = append(specs, txn.Spec{Name: "beta", Slot: 4, Profile: sopx.Separate})
	}
	return specs
}

// Models returns (before, after, program) of the scenario.
func (s Scenario) Models() (txn.Model, txn.Model, txn.Program) {
	specs := s.specs()
	_, before := txn.Baseline(specs, 9)
	rnd := env.Rand(s.Seed, fmt.Sprintf("crash-%d-%s", s.Prog, s.Shape))
	prog := txn.Gen(rnd, s.Shape, before, specs, fmt.Sprintf("v%d", s.Prog))
	return before, before.Apply(prog), prog
}

func victim(args []string) int {
	var s Scenario
	if json.Unmarshal([]byte(args[0]), &s) != nil {
		return proc.ExitHarness
	}
	mirror.InstallGlobals()
	sop.RetryStartDuration = time.Millisecond
	ctx := context.Background()
	db := sopx.NewDB(s.Dir)
	specs := s.specs()
	basep, _ := txn.Baseline(specs, 9)
	if err := txn.Commit(txn.Public{DB: db}, basep, time.Minute); err != nil {
		fmt.Fprintln(os.Stderr, "baseline:", err)
		return proc.ExitHarness
	}
	// an earlier, unrelated committed transaction that must stay intact
	if err := txn.Commit(txn.Public{DB: db}, txn.Program{Ops: []txn.Op{{Store: "alpha", Kind: "add", K: "earlier", V: "committed-before-the-victim"}}}, time.Minute); err != nil {
		fmt.Fprintln(os.Stderr, "earlier:", err)
		return proc.ExitHarness
	}
	if s.Aged {
		// rewrite every baseline item with the value it already has: the content (and the models) stay the
		// same, but every leaf has now been through an update commit
		_, before := txn.Baseline(specs, 9)
		var age txn.Program
		for _, sp := range specs {
			for k, v := range before[sp.Name] {
				age.Ops = append(age.Ops, txn.Op{Store: sp.Name, Kind: "update", K: k, V: v})
			}
		}
		sort.Slice(age.Ops, func(a, b int) bool { return age.Ops[a].Store+age.Ops[a].K < age.Ops[b].Store+age.Ops[b].K })
		if err := txn.Commit(txn.Public{DB: db}, age, time.Minute); err != nil {
			fmt.Fprintln(os.Stderr, "ageing:", err)
			return proc.ExitHarness
		}
	}
	_, _, prog := s.Models()
	mir := txn.Mirror{Dir: s.Dir}
	t, err := mir.Begin(sop.ForWriting, 15*time.Minute)
	if err != nil {
		fmt.Fprintln(os.Stderr, "begin:", err)
		return proc.ExitHarness
	}
	if r, err := txn.Run(mir, t, prog); err != nil || r != nil {
		fmt.Fprintln(os.Stderr, "program:", err, r)
		return proc.ExitHarness
	}
	var plan *deco.Plan
	if s.Label == "" {
		plan = deco.NewPlan("", 0, deco.None)
	} else {
		plan = deco.NewPlan(s.Label, s.Ord, deco.Action(s.Act))
		plan.TornN = s.TornN
		plan.TornRel = s.TornRel
	}
	deco.Install(plan)
	plan.Arm()
	cerr := t.Commit(ctx)
	plan.Disarm()
	if s.Label == "" {
		b, _ := json.Marshal(map[string]any{"census": plan.Trace(), "commit_err": fmt.Sprint(cerr)})
		fmt.Println(string(b))
		return 0
	}
	return proc.ExitNotReached // the planned site was not reached: the process should have died
}

// RecoverSpec scripts the later transactions.
type RecoverSpec struct {
	Dir    string   `json:"dir"`
	Stores []string `json:"stores"`
	Touch  []txn.Op `json:"touch"` // C09: the writer that touches exactly the victim's keys (run last)
}

type StepRes struct {
	OffsetMin int    `json:"offset_min"`
	Kind      string `json:"kind"` // read | write | touch
	Store     string `json:"store"`
	Err       string `json:"err,omitempty"`
	Slow      bool   `json:"slow_machine,omitempty"` // missed its caller deadline while a probe commit on a scratch store was slow too: no verdict
}

func recoverRole(args []string) int {
	var rs RecoverSpec
	if json.Unmarshal([]byte(args[0]), &rs) != nil {
		return proc.ExitHarness
	}
	mirror.InstallGlobals()
	sop.RetryStartDuration = time.Millisecond
	var offset time.Duration
	sop.Now = func() time.Time { return time.Now().Add(offset) }
	db := sopx.NewDB(rs.Dir)
	var out []StepRes
	n := 0
	commitReads := false
	// A caller deadline bounds every judged commit (3 s / 8 s; a healthy commit takes ~30 ms, a commit
	// that waits for a dead transaction's lock or staging waits minutes). On a badly overloaded machine a
	// healthy commit can miss that deadline too: when a step ends in "deadline exceeded" a probe commit on
	// an unrelated scratch store is timed; if even that takes more than 300 ms the step is reported as
	// slow-machine (inconclusive), not as an error.
	probeDir := ""
	slowMachine := func() bool {
		if probeDir == "" {
			probeDir = env.Scratch("crash-probe")
			pdb := sopx.NewDB(probeDir)
			p := txn.Program{Create: []txn.Spec{{Name: "probe", Slot: 4, Profile: sopx.InNode}}, Ops: []txn.Op{{Store: "probe", Kind: "add", K: "k", V: "v"}}}
			if err := txn.Commit(txn.Public{DB: pdb}, p, time.Minute); err != nil {
				return true
			}
		}
		t0 := time.Now()
		err := txn.Commit(txn.Public{DB: sopx.NewDB(probeDir)}, txn.Program{Ops: []txn.Op{{Store: "probe", Kind: "upsert", K: "k", V: fmt.Sprint(t0.UnixNano())}}}, time.Minute)
		return err != nil || time.Since(t0) > 300*time.Millisecond
	}
	defer func() {
		if probeDir != "" {
			env.Remove(probeDir)
		}
	}()
	deadlineErr := func(err error) bool {
		return err != nil && (strings.Contains(err.Error(), "context deadline exceeded") || strings.Contains(err.Error(), "context canceled"))
	}
	readAll := func(min int) {
		for _, st := range rs.Stores {
			sr := StepRes{OffsetMin: min, Kind: "read", Store: st}
			t, err := db.Begin(sop.ForReading, time.Minute)
			if err == nil {
				var b interface {
					First(context.Context) (bool, error)
				}
				bb, e2 := sopx.Open[string, string](db, t, st)
				err = e2
				if e2 == nil {
					b = bb
					_, err = b.First(context.Background())
				}
				if err == nil && commitReads {
					// a reader's commit re-validates what it fetched and may wait for its whole maxTime
					// when a dead writer's staging is in the way: bound it by a caller deadline
					cctx, cancel := context.WithTimeout(context.Background(), 3*time.Second)
					err = t.Commit(cctx)
					cancel()
					if deadlineErr(err) && slowMachine() {
						sr.Slow, err = true, nil
					}
				} else {
					t.Rollback(context.Background())
				}
			}
			if err != nil {
				sr.Err = err.Error()
			}
			out = append(out, sr)
		}
	}
	writeAll := func(min int) {
		for _, st := range rs.Stores {
			n++
			sr := StepRes{OffsetMin: min, Kind: "write", Store: st}
			cctx, cancel := context.WithTimeout(context.Background(), 3*time.Second)
			err := commitCtx(cctx, db, txn.Program{Ops: []txn.Op{{Store: st, Kind: "upsert", K: fmt.Sprintf("zz%02d", n), V: "recovery-writer"}}})
			cancel()
			if deadlineErr(err) && slowMachine() {
				sr.Slow, err = true, nil
			}
			if err != nil {
				sr.Err = err.Error()
			}
			out = append(out, sr)
		}
	}
	offset = 6 * time.Minute
	readAll(6)
	offset = 75 * time.Minute
	readAll(75)
	writeAll(75)
	offset = 250 * time.Minute
	readAll(250)
	writeAll(250)
	for k := 1; k <= 3; k++ {
		offset = time.Duration(250+6*k) * time.Minute
		commitReads = k == 3 // the last reader also commits (read-set validation)
		readAll(250 + 6*k)
	}
	commitReads = false
	if len(rs.Touch) > 0 {
		sr := StepRes{OffsetMin: 290, Kind: "touch", Store: "*"}
		cctx, cancel := context.WithTimeout(context.Background(), 8*time.Second)
		if err := commitCtx(cctx, db, txn.Program{Ops: rs.Touch}); err != nil {
			if deadlineErr(err) && slowMachine() {
				sr.Slow = true
			} else {
				sr.Err = err.Error()
			}
		}
		cancel()
		out = append(out, sr)
		offset = 300 * time.Minute
		readAll(300)
		offset = 306 * time.Minute
		readAll(306)
	}
	b, _ := json.Marshal(out)
	fmt.Println(string(b))
	return 0
}

func commitCtx(ctx context.Context, db sopx.DB, p txn.Program) error {
	pub := txn.Public{DB: db}
	t, err := pub.Begin(sop.ForWriting, time.Minute)
	if err != nil {
		return err
	}
	if r, err := txn.Run(pub, t, p); err != nil || r != nil {
		t.Rollback(context.Background())
		if err == nil {
			err = fmt.Errorf("op %+v returned ok=%v err=%v", r.Op, r.OK, r.Err)
		}
		return err
	}
	return t.Commit(ctx)
}

func observe(args []string) int {
	mirror.InstallGlobals()
	d := sopx.DumpDB(sopx.NewDB(args[0]))
	w := walk.Walk(args[0])
	b, _ := json.Marshal(map[string]any{"dump": d, "walk": w})
	fmt.Println(string(b))
	return 0
}

// Case is the full result of one crash point.
type Case struct {
	Scenario   Scenario     `json:"scenario"`
	VictimExit int          `json:"victim_exit"`
	Steps      []StepRes    `json:"steps"`
	Dump1      sopx.Dump    `json:"dump_after_recovery"`
	Walk1      walk.Report  `json:"walk_after_recovery"`
	Dump2      *sopx.Dump   `json:"dump_after_touch,omitempty"`
	Walk2      *walk.Report `json:"walk_after_touch,omitempty"`
	Steps2     []StepRes    `json:"steps_touch,omitempty"`
	Harness    string       `json:"harness,omitempty"`
}

// Census runs the scenario without a crash and returns the site labels of its commit.
func Census(logDir string, s Scenario) ([]string, error) {
	s.Label = ""
	s.Dir = env.Scratch("crashcensus")
	defer env.Remove(s.Dir)
	j, _ := json.Marshal(s)
	pr := proc.Run(logDir, 120, nil, "crash-victim", string(j))
	if pr.Code != 0 {
		return nil, fmt.Errorf("census victim exit %d: %s", pr.Code, tail(string(pr.Err()), 500))
	}
	var out struct {
		Census    []string `json:"census"`
		CommitErr string   `json:"commit_err"`
	}
	lines := strings.Split(strings.TrimSpace(string(pr.Out())), "\n")
	if err := json.Unmarshal([]byte(lines[len(lines)-1]), &out); err != nil {
		return nil, err
	}
	if out.CommitErr != "<nil>" {
		return nil, fmt.Errorf("census commit failed: %s", out.CommitErr)
	}
	return out.Census, nil
}

// RunCase executes victim -> recover -> observe (-> touch -> observe when withTouch).
func RunCase(logDir string, s Scenario, withTouch bool) Case {
	c := Case{Scenario: s}
	s.Dir = env.Scratch("crash")
	defer env.Remove(s.Dir)
	c.Scenario.Dir = s.Dir
	j, _ := json.Marshal(s)
	pr := proc.Run(logDir, 120, nil, "crash-victim", string(j))
	c.VictimExit = pr.Code
	if pr.Code != proc.ExitCrash {
		if pr.Code != proc.ExitNotReached {
			c.Harness = fmt.Sprintf("victim exit %d: %s", pr.Code, tail(string(pr.Err()), 400))
		}
		return c
	}
	stores := []string{}
	for _, sp := range s.specs() {
		stores = append(stores, sp.Name)
	}
	rs := RecoverSpec{Dir: s.Dir, Stores: stores}
	rj, _ := json.Marshal(rs)
	pr = proc.Run(logDir, 90, nil, "crash-recover", string(rj))
	if pr.Code != 0 {
		c.Harness = fmt.Sprintf("RECOVER-DIED exit %d: %s", pr.Code, sopFrames(string(pr.Err())))
		return c
	}
	json.Unmarshal([]byte(lastLine(pr.Out())), &c.Steps)
	pr = proc.Run(logDir, 20, nil, "crash-observe", s.Dir)
	if pr.Code != 0 {
		c.Harness = fmt.Sprintf("OBSERVE-DIED exit %d: %s", pr.Code, sopFrames(string(pr.Err())))
		return c
	}
	var o struct {
		Dump sopx.Dump   `json:"dump"`
		Walk walk.Report `json:"walk"`
	}
	json.Unmarshal([]byte(lastLine(pr.Out())), &o)
	c.Dump1, c.Walk1 = o.Dump, o.Walk
	if withTouch {
		_, _, prog := s.Models()
		seen := map[string]bool{}
		for _, op := range prog.Ops {
			if !seen[op.Store+op.K] {
				seen[op.Store+op.K] = true
				rs.Touch = append(rs.Touch, txn.Op{Store: op.Store, Kind: "upsert", K: op.K, V: "touched-after-recovery"})
			}
		}
		// only stores that exist in the dump can be touched
		var touch []txn.Op
		for _, op := range rs.Touch {
			if _, ok := c.Dump1.By[op.Store]; ok {
				touch = append(touch, op)
			}
		}
		rs.Touch = touch
		rs.Stores = c.Dump1.Stores
		if len(rs.Touch) > 0 {
			rj, _ := json.Marshal(rs)
			pr = proc.Run(logDir, 90, nil, "crash-recover", string(rj))
			if pr.Code != 0 {
				c.Harness = fmt.Sprintf("RECOVER-DIED(touch) exit %d: %s", pr.Code, tail(string(pr.Err()), 1500))
				return c
			}
			json.Unmarshal([]byte(lastLine(pr.Out())), &c.Steps2)
			pr = proc.Run(logDir, 20, nil, "crash-observe", s.Dir)
			if pr.Code == 0 {
				var o2 struct {
					Dump sopx.Dump   `json:"dump"`
					Walk walk.Report `json:"walk"`
				}
				json.Unmarshal([]byte(lastLine(pr.Out())), &o2)
				c.Dump2, c.Walk2 = &o2.Dump, &o2.Walk
			}
		}
	}
	return c
}

// Plan enumerates crash scenarios for a set of shapes.
func Plan(r *report.Run, logDir string, shapes []string, torn bool) []Scenario {
	var out []Scenario
	profiles := []sopx.Profile{sopx.InNode, sopx.Separate, sopx.SepActive, sopx.SepCached}
	type variant struct {
		i    int
		sh   string
		aged bool
	}
	var vs []variant
	for i, sh := range shapes {
		vs = append(vs, variant{i, sh, false})
	}
	for i, sh := range shapes {
		// the same shape over a store whose nodes have all been updated before (quick: the removing shapes)
		if torn || sh == "S7-removes" || sh == "S2-emptied-root" {
			vs = append(vs, variant{i, sh, true})
		}
	}
	for _, v := range vs {
		i, sh := v.i, v.sh
		base := Scenario{Seed: r.Seed, Prog: i, Shape: sh, Profile: string(profiles[i%len(profiles)]), Slot: []int{4, 2, 8}[i%3], Aged: v.aged}
		if v.aged {
			base.Profile, base.Slot = string(profiles[(i+1)%len(profiles)]), []int{2, 4}[i%2]
		}
		census, err := Census(logDir, base)
		if err != nil {
			r.Broken("census of %s failed: %v", sh, err)
			continue
		}
		r.Count("census_sites", int64(len(census)))
		counts := map[string]int{}
		// phases of the commit: the store-info step (sr.Update) persists the count; the flip is the
		// reg.UpdateNoLocks(true) call with its block writes / cache refreshes.
		iStore, iFlip, iFlipEnd := len(census), len(census), len(census)
		for k, l := range census {
			if l == "sr.Update" && iStore == len(census) {
				iStore = k
			}
			if l == "reg.UpdateNoLocks(true)" {
				iFlip = k
				iFlipEnd = k
				for j := k + 1; j < len(census) && (strings.HasPrefix(census[j], "dio.") || strings.HasPrefix(census[j], "l2.Lock") || strings.HasPrefix(census[j], "l2.DualLock") || strings.HasPrefix(census[j], "l2.Unlock") || census[j] == "l2.SetStruct[handle]"); j++ {
					iFlipEnd = j
				}
			}
		}
		if iStore > iFlip {
			iStore = iFlip // no count change: nothing is persisted before the flip
		}
		for k, l := range census {
			counts[l]++
			s := base
			switch {
			case k <= iStore:
				s.Phase = "before-storeinfo"
			case k <= iFlip:
				s.Phase = "storeinfo-to-flip"
			case k <= iFlipEnd:
				s.Phase = "in-flip"
			default:
				s.Phase = "after-flip"
			}
			if !quickKeep(l, s.Phase, counts[l], torn) {
				continue
			}
			s.Label, s.Ord, s.Act = l, counts[l], string(deco.CrashBefore)
			out = append(out, s)
			if l == "dio.WriteAt" {
				// tears that end INSIDE the handle record this write changes (relative to its first changed byte)
				for _, rel := range []int{20, 40} {
					s3 := s
					s3.Act, s3.TornRel = string(deco.Torn), rel
					out = append(out, s3)
				}
			}
			if l == "dio.WriteAt" && (torn || s.Phase == "in-flip") {
				tn := []int{62, 2048}
				if torn {
					tn = []int{1, 62, 2048, 4092, 4095}
				}
				for _, n := range tn {
					s2 := s
					s2.Act, s2.TornN = string(deco.Torn), n
					out = append(out, s2)
				}
			}
		}
		// the very last site also after the call
		if len(census) > 0 {
			s := base
			l := census[len(census)-1]
			s.Label, s.Ord, s.Act, s.Phase = l, counts[l], string(deco.CrashAfter), "after-flip"
			out = append(out, s)
		}
	}
	return out
}

// quickKeep thins the quick tier: cache reads and repeated block reads add little over their
// neighbours; every write-type call, every log append and every lock call is kept.
func quickKeep(label, phase string, ord int, thorough bool) bool {
	if thorough || phase == "in-flip" {
		return true
	}
	if label == "dio.ReadAt" || strings.HasPrefix(label, "l2.GetStruct") || label == "reg.Get" || label == "l2.IsLocked" {
		return ord%3 == 1
	}
	return true
}

// Sweep runs all scenarios with the given parallelism.
func Sweep(logDir string, scs []Scenario, withTouch bool, parallel int) []Case {
	res := make([]Case, len(scs))
	sem := make(chan struct{}, parallel)
	var wg sync.WaitGroup
	for i := range scs {
		wg.Add(1)
		sem <- struct{}{}
		go func(i int) {
			defer wg.Done()
			defer func() { <-sem }()
			t0 := time.Now()
			res[i] = RunCase(logDir, scs[i], withTouch)
			if os.Getenv("VERIF_DEBUG") != "" {
				fmt.Fprintf(os.Stderr, "case %d %s %s#%d %s %s: %.1fs exit=%d\n", i, scs[i].Shape, scs[i].Label, scs[i].Ord, scs[i].Act, scs[i].Phase, time.Since(t0).Seconds(), res[i].VictimExit)
			}
		}(i)
	}
	wg.Wait()
	return res
}

// StripRecoveryKeys removes the recovery writers' keys (zzNN) and returns how many were present.
func StripRecoveryKeys(d sopx.Dump) (sopx.Dump, int) {
	out := sopx.Dump{Stores: d.Stores, By: map[string]sopx.StoreDump{}, Err: d.Err}
	n := 0
	for name, sd := range d.By {
		nd := sopx.StoreDump{Err: sd.Err, Opts: sd.Opts, Items: []sopx.KV{}, Back: []string{}}
		for _, it := range sd.Items {
			if strings.HasPrefix(it.K, "zz") {
				n++
				continue
			}
			nd.Items = append(nd.Items, it)
		}
		for _, k := range sd.Back {
			if !strings.HasPrefix(k, "zz") {
				nd.Back = append(nd.Back, k)
			}
		}
		nd.Count = sd.Count - int64(len(sd.Items)-len(nd.Items))
		out.By[name] = nd
	}
	return out, n
}

// sopFrames condenses a goroutine dump / panic trace to its first lines and the sop frames.
func sopFrames(s string) string {
	var out []string
	for i, ln := range strings.Split(s, "\n") {
		if i < 4 || strings.Contains(ln, "sharedcode/sop") && !strings.HasPrefix(ln, "\t") || strings.HasPrefix(ln, "goroutine ") || strings.HasPrefix(ln, "panic") || strings.HasPrefix(ln, "fatal") {
			out = append(out, ln)
		}
		if len(out) > 60 {
			break
		}
	}
	return strings.Join(out, "\n")
}

func lastLine(b []byte) string {
	l := strings.Split(strings.TrimSpace(string(b)), "\n")
	return l[len(l)-1]
}

func tail(s string, n int) string {
	if len(s) > n {
		return s[len(s)-n:]
	}
	return s
}

var _ = strconv.Itoa
