// Package c32: text search returns exactly the matching documents, ranked by BM25.
//
// Generated corpora (small vocabularies with mixed case, unicode words, stop words, numbers, many
// separators) are indexed through search.NewIndex / Index.Add in 1-4 committed transactions; a new
// transaction then runs generated queries (no repeated terms) through Index.Search. An independent
// reference computes, from the documents alone, the BM25 formula documented in Search:
//
//	score(d) = sum over query terms t of IDF(t) * f(t,d)*(k1+1) / (f(t,d) + k1*(1 - b + b*|d|/avgdl))
//	IDF(t)   = ln((N - n_t + 0.5)/(n_t + 0.5) + 1),  k1 = 1.2, b = 0.75,
//	N = number of indexed documents, n_t = documents containing t, |d| = number of terms of d,
//	avgdl = (sum of |d|)/N
//
// and the oracle demands: result ids = documents with >= 1 query term, each exactly once;
// |score - ref| <= 1e-9*max(1, ref); scores non-increasing (ties in any order).
//
// Tokenization: "which terms does a text contain" is decided with the library's own tokenizer (the
// statement takes tokenization as given). Next to it runs a tokenizer restated here from the
// documented rules (split at whitespace and punctuation, lower-case, drop the listed stop words).
// On "clear-cut" inputs (only letters, numbers, whitespace, punctuation and symbol characters) both
// must agree — class C32:tokenizer:*; on inputs with characters the documentation says nothing
// about (combining marks, format and control characters) differences are only counted and sampled
// in the evidence ("tokenizer_differences_on_undocumented_characters"), never raised.
package c32

import (
	"crypto/sha1"
	"encoding/hex"
	"fmt"
	"math"
	"math/rand"
	"os"
	"sort"
	"strings"
	"time"
	"unicode"

	"github.com/sharedcode/sop"
	"github.com/sharedcode/sop/search"

	"verifharness/kit/env"
	"verifharness/kit/report"
	"verifharness/kit/sopx"
)

// ---------- tokenizer restated from the documentation ----------

// stop words as listed in the documentation of DefaultStopWords.
var myStopWords = func() map[string]bool {
	m := map[string]bool{}
	for _, w := range strings.Fields("a an and are as at be but by for if in into is it no not of on or such that the their then there these they this to was will with") {
		m[w] = true
	}
	return m
}()

func isSeparator(c rune) bool {
	return unicode.IsSpace(c) || unicode.IsPunct(c) || unicode.IsSymbol(c)
}

func myTokenize(text string) []string {
	var out []string
	var cur []rune
	flush := func() {
		if len(cur) > 0 {
			w := string(cur)
			if !myStopWords[w] {
				out = append(out, w)
			}
			cur = cur[:0]
		}
	}
	for _, c := range text {
		if isSeparator(c) {
			flush()
			continue
		}
		cur = append(cur, unicode.ToLower(c))
	}
	flush()
	return out
}

// clearCut: every rune is a letter, a number, whitespace, punctuation or a symbol.
func clearCut(text string) bool {
	for _, c := range text {
		if !(unicode.IsLetter(c) || unicode.IsNumber(c) || isSeparator(c)) {
			return false
		}
	}
	return true
}

func sameTokens(a, b []string) bool {
	if len(a) != len(b) {
		return false
	}
	for i := range a {
		if a[i] != b[i] {
			return false
		}
	}
	return true
}

// ---------- generation ----------

type doc struct {
	ID   string `json:"id"`
	Text string `json:"text"`
	Tx   int    `json:"tx"` // index of the transaction that adds it
}

type kase struct {
	Kind    string   `json:"kind"` // small | large
	Docs    []doc    `json:"docs"`
	NTx     int      `json:"transactions"`
	Queries []string `json:"queries"`
}

var asciiWords = []string{"apple", "Apple", "APPLE", "pie", "tree", "green", "red", "fox", "quick", "brown", "lazy", "dog", "dogs", "x1", "42", "7", "go", "Go", "b", "zz", "app", "apples"}
var stopWords = []string{"the", "The", "AND", "of", "a", "is", "to", "with", "Not", "it", "such", "WILL"}
var uniWords = []string{"été", "ÉTÉ", "Été", "naïve", "日本", "日本語", "straße", "STRASSE", "σοφία", "ΣΟΦΊΑ", "привет", "ПРИВЕТ", "İstanbul", "ǅ", "٤٢", "Ⅷ", "½", "mañana"}

// words with characters the documentation does not classify (combining marks, joiners, soft hyphen, control)
var oddWords = []string{"nai\u0308ve", "e\u0301te\u0301", "\u0939\u093f\u0928\u094d\u0926\u0940", "co\u00adop", "zero\u200bwidth", "a\u200db", "bell\x07x", "\u0928\u092e\u0938\u094d\u0924\u0947"}
var separators = []string{" ", " ", " ", "  ", ", ", ". ", "; ", "-", "_", "/", "'", "\n", "\t", " (", ") ", "!", "? ", "|", "~", "+", "=", "$", "\u2026", "\u2014", "\u3001", "\u3002", "\u00a0", "\u3000", "\u2028", "<", ">", "&"}

var idForms = []string{"d%d", "doc-%d", "D %d", "a|%d", "é%d", "%d", "x~%d", "d%d|z", "文%d"}

func pick(rnd *rand.Rand, xs []string) string { return xs[rnd.Intn(len(xs))] }

func genVocab(rnd *rand.Rand, n int, odd bool) []string {
	var v []string
	for len(v) < n {
		switch c := rnd.Intn(10); {
		case c < 5:
			v = append(v, pick(rnd, asciiWords))
		case c < 7:
			v = append(v, pick(rnd, stopWords))
		case c < 9 || !odd:
			v = append(v, pick(rnd, uniWords))
		default:
			v = append(v, pick(rnd, oddWords))
		}
	}
	return v
}

func genText(rnd *rand.Rand, vocab []string, nWords int) string {
	var sb strings.Builder
	if rnd.Intn(6) == 0 {
		sb.WriteString(pick(rnd, separators))
	}
	for i := 0; i < nWords; i++ {
		if i > 0 {
			sb.WriteString(pick(rnd, separators))
		}
		// skewed choice so that term frequencies differ
		j := rnd.Intn(len(vocab))
		if rnd.Intn(3) == 0 {
			j = rnd.Intn(1 + len(vocab)/3)
		}
		sb.WriteString(vocab[j])
	}
	if rnd.Intn(6) == 0 {
		sb.WriteString(pick(rnd, separators))
	}
	return sb.String()
}

func genCase(rnd *rand.Rand, kind string) kase {
	k := kase{Kind: kind}
	odd := rnd.Intn(4) == 0
	nDocs, vocabN, maxWords := 1+rnd.Intn(24), 4+rnd.Intn(14), 30
	if kind == "large" { // > 5000 postings: the postings tree (slot length 5000) gets several nodes
		nDocs, vocabN, maxWords = 260+rnd.Intn(60), 44, 90
		odd = false
	}
	vocab := genVocab(rnd, vocabN, odd)
	if kind == "large" {
		for i := 0; i < 60; i++ { // 60 more distinct terms so that one corpus exceeds 5000 postings
			vocab = append(vocab, fmt.Sprintf("w%d", i))
		}
	}
	k.NTx = 1 + rnd.Intn(4)
	if k.NTx > nDocs {
		k.NTx = nDocs
	}
	form := pick(rnd, idForms)
	mixedForms := rnd.Intn(3) == 0
	seen := map[string]bool{}
	for i := 0; i < nDocs; i++ {
		f := form
		if mixedForms {
			f = pick(rnd, idForms)
		}
		id := fmt.Sprintf(f, i+1)
		for seen[id] {
			id += "'"
		}
		seen[id] = true
		n := rnd.Intn(maxWords + 1)
		switch rnd.Intn(12) {
		case 0:
			n = 0 // empty document
		case 1:
			n = 1
		}
		if kind == "large" {
			n = 40 + rnd.Intn(maxWords-40)
		}
		d := doc{ID: id, Text: genText(rnd, vocab, n)}
		if rnd.Intn(15) == 0 { // document made of stop words only
			d.Text = strings.Join([]string{pick(rnd, stopWords), pick(rnd, stopWords)}, " ")
		}
		k.Docs = append(k.Docs, d)
	}
	// split: document i goes to a transaction; every transaction gets at least one document
	for i := range k.Docs {
		if i < k.NTx {
			k.Docs[i].Tx = i
		} else {
			k.Docs[i].Tx = rnd.Intn(k.NTx)
		}
	}
	// queries
	tok := &search.SimpleTokenizer{}
	nQ := 8
	if kind == "large" {
		nQ = 12
	}
	for tries := 0; len(k.Queries) < nQ && tries < 200; tries++ {
		var words []string
		switch c := len(k.Queries) % 8; c {
		case 0, 1: // one word of the vocabulary
			words = []string{pick(rnd, vocab)}
		case 2, 3, 4: // 2-4 words of the vocabulary
			for i := 0; i < 2+rnd.Intn(3); i++ {
				words = append(words, pick(rnd, vocab))
			}
		case 5: // a word that is not indexed plus one that may be
			words = []string{"absentword", pick(rnd, vocab)}
		case 6: // stop words only
			words = []string{pick(rnd, stopWords), pick(rnd, stopWords)}
			if rnd.Intn(2) == 0 {
				words = []string{"nosuchterm"}
			}
		default: // other case / with stop words in between
			words = []string{strings.ToUpper(pick(rnd, vocab)), pick(rnd, stopWords), strings.ToLower(pick(rnd, vocab))}
		}
		q := strings.Join(words, pick(rnd, separators))
		// the statement does not define repeated query terms: keep only queries without repetition
		// (under either tokenizer)
		if hasRepeat(tok.Tokenize(q)) || hasRepeat(myTokenize(q)) {
			continue
		}
		k.Queries = append(k.Queries, q)
	}
	return k
}

// genWide: many rare terms (about two postings per term, ~20000 postings). The postings tree has
// several leaves and, with about every second posting being the first of its term, some term's
// postings begin exactly at a node boundary - the case in which Search has to step from the
// "nearest" item to the first posting. Every term is queried once.
func genWide(rnd *rand.Rand) kase {
	k := kase{Kind: "wide", NTx: 1 + rnd.Intn(3)}
	const nDocs, perDoc, vocabN = 500, 40, 10000
	used := map[string]bool{}
	for i := 0; i < nDocs; i++ {
		ws := make([]string, perDoc)
		for j := range ws {
			ws[j] = fmt.Sprintf("t%04d", rnd.Intn(vocabN))
			used[ws[j]] = true
		}
		tx := rnd.Intn(k.NTx)
		if i < k.NTx {
			tx = i
		}
		k.Docs = append(k.Docs, doc{ID: fmt.Sprintf("d%03d", i), Text: strings.Join(ws, " "), Tx: tx})
	}
	terms := make([]string, 0, len(used))
	for t := range used {
		terms = append(terms, t)
	}
	sort.Strings(terms)
	k.Queries = terms
	for i := 0; i+2 < len(terms); i += 97 { // some multi-term queries over neighbouring terms
		k.Queries = append(k.Queries, terms[i]+" "+terms[i+1]+" "+terms[i+2])
	}
	return k
}

func hasRepeat(ts []string) bool {
	m := map[string]bool{}
	for _, t := range ts {
		if m[t] {
			return true
		}
		m[t] = true
	}
	return false
}

func (k kase) fingerprint() string {
	h := sha1.New()
	for _, d := range k.Docs {
		fmt.Fprintf(h, "%q=%q@%d;", d.ID, d.Text, d.Tx)
	}
	for _, q := range k.Queries {
		fmt.Fprintf(h, "?%q", q)
	}
	return hex.EncodeToString(h.Sum(nil))[:16]
}

// ---------- reference ----------

const (
	k1 = 1.2
	b  = 0.75
)

type refIndex struct {
	n      float64
	avgdl  float64
	length map[string]float64
	tf     map[string]map[string]int // term -> doc -> freq
}

func buildRef(docs []doc, tokenize func(string) []string) *refIndex {
	r := &refIndex{length: map[string]float64{}, tf: map[string]map[string]int{}}
	total := 0.0
	for _, d := range docs {
		ts := tokenize(d.Text)
		r.length[d.ID] = float64(len(ts))
		total += float64(len(ts))
		for _, t := range ts {
			if r.tf[t] == nil {
				r.tf[t] = map[string]int{}
			}
			r.tf[t][d.ID]++
		}
	}
	r.n = float64(len(docs))
	if r.n > 0 {
		r.avgdl = total / r.n
	}
	return r
}

func (r *refIndex) search(qTokens []string) map[string]float64 {
	out := map[string]float64{}
	for _, t := range qTokens {
		post := r.tf[t]
		nt := float64(len(post))
		if nt == 0 {
			continue
		}
		idf := math.Log((r.n-nt+0.5)/(nt+0.5) + 1)
		for id, f := range post {
			fr := float64(f)
			out[id] += idf * (fr * (k1 + 1)) / (fr + k1*(1-b+b*r.length[id]/r.avgdl))
		}
	}
	return out
}

// ---------- execution ----------

const indexName = "c32idx"

type runner struct {
	r           *report.Run
	fired       map[string]bool
	maxPostings int64
}

func (x *runner) violate(sig string, detail map[string]any) {
	x.r.Count("violating_observations:"+sig, 1)
	if x.fired[sig] {
		return
	}
	x.fired[sig] = true
	x.r.Violation(sig, detail)
}

func runeClass(text string) string {
	for _, c := range text {
		switch {
		case unicode.IsLetter(c) || unicode.IsNumber(c) || isSeparator(c):
		case unicode.IsMark(c):
			return "combining-mark"
		case unicode.Is(unicode.Cf, c):
			return "format-character"
		case unicode.IsControl(c):
			return "control-character"
		default:
			return "other-character"
		}
	}
	return "none"
}

// checkTokenizer compares the library tokenizer with the restated one on one text.
func (x *runner) checkTokenizer(tok search.Tokenizer, text string, diffs *[]map[string]any) {
	lib, mine := tok.Tokenize(text), myTokenize(text)
	x.r.Count("texts_tokenized_by_both_tokenizers", 1)
	if sameTokens(lib, mine) {
		return
	}
	if clearCut(text) {
		x.violate("C32:tokenizer:clear-cut-input:tokens-differ-from-documented-rules", map[string]any{"text": text, "library": lib, "restated": mine, "seed": x.r.Seed})
		return
	}
	x.r.Count("tokenizer_differences_on_undocumented_characters:"+runeClass(text), 1)
	if len(*diffs) < 6 && len(lib) <= 8 {
		*diffs = append(*diffs, map[string]any{"text": text, "library": lib, "restated_from_doc": mine, "character_class": runeClass(text)})
	}
}

func queryClass(n int, matching int) string {
	switch {
	case n == 0:
		return "no-term-query"
	case matching == 0:
		return "absent-terms-query"
	case n == 1:
		return "single-term-query"
	}
	return "multi-term-query"
}

// runCase returns whether the case satisfied the non-triviality rule.
func (x *runner) runCase(ci int, k kase, diffs *[]map[string]any) bool {
	r := x.r
	x.fired = map[string]bool{}
	dir := env.Scratch("c32")
	defer env.Remove(dir)
	db := sopx.NewDB(dir)
	tok := &search.SimpleTokenizer{}
	base := func() map[string]any {
		d := map[string]any{"seed": r.Seed, "tier": r.Tier, "case_index": ci, "transactions": k.NTx}
		if len(k.Docs) <= 40 {
			d["docs"], d["queries"] = k.Docs, k.Queries
		} else {
			d["docs_omitted"] = fmt.Sprintf("%d documents (regenerate from seed/tier/case_index)", len(k.Docs))
		}
		return d
	}

	for tx := 0; tx < k.NTx; tx++ {
		t, err := db.Begin(sop.ForWriting)
		if err != nil {
			r.Inconclusive("begin-failed")
			return false
		}
		idx, err := search.NewIndex(sopx.Ctx, db.Opts, t, indexName)
		if err != nil {
			t.Rollback(sopx.Ctx)
			r.Broken("NewIndex (case %d, tx %d): %v", ci, tx, err)
			return false
		}
		for _, d := range k.Docs {
			if d.Tx != tx {
				continue
			}
			if err := idx.Add(sopx.Ctx, d.ID, d.Text); err != nil {
				dd := base()
				dd["doc"], dd["error"] = d, err.Error()
				x.violate("C32:index:add:error", dd)
				t.Rollback(sopx.Ctx)
				return false
			}
			r.Count("documents_indexed", 1)
			x.checkTokenizer(tok, d.Text, diffs)
		}
		if err := t.Commit(sopx.Ctx); err != nil {
			r.Inconclusive("commit-failed")
			r.Set("last_commit_error", err.Error())
			return false
		}
		r.Count("index_transactions", 1)
	}

	ref := buildRef(k.Docs, tok.Tokenize)
	nPost := 0
	for _, p := range ref.tf {
		nPost += len(p)
	}
	r.Count("postings_in_reference", int64(nPost))
	if int64(nPost) > x.maxPostings {
		x.maxPostings = int64(nPost)
	}

	t, err := db.Begin(sop.ForReading)
	if err != nil {
		r.Inconclusive("begin-failed")
		return false
	}
	defer t.Rollback(sopx.Ctx)
	idx, err := search.NewIndex(sopx.Ctx, db.Opts, t, indexName)
	if err != nil {
		r.Broken("NewIndex for reading (case %d): %v", ci, err)
		return false
	}
	ranked := false
	for _, q := range k.Queries {
		x.checkTokenizer(tok, q, diffs)
		qt := tok.Tokenize(q)
		want := ref.search(qt)
		qc := queryClass(len(qt), len(want))
		with := func(kv ...any) map[string]any {
			d := base()
			d["query"], d["query_terms"] = q, qt
			for i := 0; i+1 < len(kv); i += 2 {
				d[kv[i].(string)] = kv[i+1]
			}
			return d
		}
		got, err := idx.Search(sopx.Ctx, q)
		r.Count("queries", 1)
		r.Count("queries:"+qc, 1)
		if err != nil {
			x.violate("C32:search:"+qc+":error", with("error", err.Error()))
			continue
		}
		seen := map[string]int{}
		for _, g := range got {
			seen[g.DocID]++
		}
		var dup, unexpected, missing []string
		for id, n := range seen {
			if n > 1 {
				dup = append(dup, id)
			}
			if _, ok := want[id]; !ok {
				unexpected = append(unexpected, id)
			}
		}
		for id := range want {
			if seen[id] == 0 {
				missing = append(missing, id)
			}
		}
		sort.Strings(dup)
		sort.Strings(unexpected)
		sort.Strings(missing)
		if len(dup) > 0 {
			x.violate("C32:search:"+qc+":document-returned-more-than-once", with("duplicates", head(dup), "result_count", len(got), "expected_count", len(want)))
		}
		if len(unexpected) > 0 {
			x.violate("C32:search:"+qc+":non-matching-document-returned", with("unexpected", head(unexpected), "result_count", len(got), "expected_count", len(want)))
		}
		if len(missing) > 0 {
			x.violate("C32:search:"+qc+":matching-document-missing", with("missing", head(missing), "result_count", len(got), "expected_count", len(want)))
		}
		distinctScores := map[float64]bool{}
		for i, g := range got {
			w, ok := want[g.DocID]
			if ok {
				tol := 1e-9 * math.Max(1, math.Abs(w))
				if !(math.Abs(g.Score-w) <= tol) { // also catches NaN
					x.violate("C32:search:"+qc+":score-differs-from-bm25", with("doc", g.DocID, "score", g.Score, "reference", w, "doc_terms", ref.length[g.DocID], "avgdl", ref.avgdl, "N", ref.n))
				}
				distinctScores[w] = true
			}
			if i > 0 && !(got[i-1].Score >= g.Score) {
				x.violate("C32:search:"+qc+":not-in-descending-score-order", with("position", i, "previous_score", got[i-1].Score, "score", g.Score))
			}
			r.Count("scores_compared", 1)
		}
		if len(qt) >= 2 && len(want) >= 2 && len(distinctScores) >= 2 {
			ranked = true
		}
	}
	return ranked && len(k.Docs) >= 2
}

func head(xs []string) []string {
	if len(xs) > 8 {
		return xs[:8]
	}
	return xs
}

func Run(r *report.Run) int {
	rnd := env.Rand(r.Seed, "c32")
	x := &runner{r: r}

	// stop-word list: restated list vs the exported DefaultStopWords
	for w := range myStopWords {
		if !search.DefaultStopWords[w] {
			x.violate("C32:tokenizer:stop-word-list:documented-word-not-in-library-list", map[string]any{"word": w})
		}
	}
	for w, on := range search.DefaultStopWords {
		if on && !myStopWords[w] {
			x.violate("C32:tokenizer:stop-word-list:library-word-not-documented", map[string]any{"word": w})
		}
	}

	var cases []kase
	nSmall, nLarge, nWide := r.Pick(60, 700), r.Pick(1, 8), r.Pick(2, 10)
	for i := 0; i < nSmall; i++ {
		cases = append(cases, genCase(rnd, "small"))
	}
	for i := 0; i < nLarge; i++ {
		cases = append(cases, genCase(rnd, "large"))
	}
	for i := 0; i < nWide; i++ {
		cases = append(cases, genWide(rnd))
	}
	var diffs []map[string]any
	for i, k := range cases {
		t0 := time.Now()
		nt := x.runCase(i, k, &diffs)
		if os.Getenv("C32_DEBUG") != "" {
			fmt.Printf("DEBUG case %d kind=%s docs=%d queries=%d took %v\n", i, k.Kind, len(k.Docs), len(k.Queries), time.Since(t0))
		}
		r.Eval(k.fingerprint(), nt)
		r.Count("cases:"+k.Kind, 1)
		r.Count(fmt.Sprintf("cases_with_%d_index_transactions", k.NTx), 1)
		if nt && k.Kind == "small" && len(k.Docs) <= 6 {
			r.Sample(k)
		}
	}
	r.Set("tokenizer_difference_samples", diffs)
	r.Set("max_postings_in_one_corpus", x.maxPostings)
	if x.maxPostings <= 5000 {
		r.Broken("no corpus exceeded 5000 postings (max %d): the multi-node postings tree was not exercised", x.maxPostings)
	}
	return r.Finish(rule, assumptions, 20)
}

const rule = "corpora of 1-24 documents (0-30 words) over vocabularies of 4-17 words drawn from ASCII (mixed case, digits, prefixes of each other), stop words, unicode words (accents, CJK, Greek, Cyrillic, non-ASCII digits/number letters) and - in a quarter of the corpora - words with combining marks/format/control characters, joined by 32 separators; document ids in 9 forms incl. '|', '~', blanks, unicode; documents split over 1-4 committed transactions; plus large corpora (260-320 documents, > 5000 postings) and wide corpora (500 documents x 40 terms out of 10000, ~20000 postings, every term queried once); 8-12 queries per corpus (1 term, 2-4 terms, absent term, stop words only, other case) without repeated terms; fingerprint = hash of (documents, split, queries); non-trivial = >= 2 documents and some query with >= 2 terms matched >= 2 documents with >= 2 different reference scores"

var assumptions = []string{
	"standalone database (one folder, in-memory L2); every transaction opens the index with search.NewIndex; searches run in a new ForReading transaction after all index transactions committed",
	"terms of a text are decided by the library tokenizer; the restated tokenizer must agree on letters/numbers/whitespace/punctuation/symbols, differences on combining marks, format and control characters are counted only",
	"document ids are distinct and non-empty; each document is added once; queries contain no repeated term",
}
