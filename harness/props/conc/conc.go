// Package conc: E-CONC engine (DESIGN §4) — in-process rounds of concurrent transactions through the
// PUBLIC path, history recording at the harness boundary, quiescent dump. Rounds are sharded over
// worker child processes (kit/par); inside a worker rounds run one after the other so GOMAXPROCS
// can be cycled per round.
package conc

import (
	"context"
	"fmt"
	"hash/fnv"
	"math/rand"
	"runtime"
	"sort"
	"strings"
	"sync"
	"sync/atomic"
	"time"

	"github.com/sharedcode/sop"

	"verifharness/kit/deco"
	"verifharness/kit/env"
	"verifharness/kit/mirror"
	"verifharness/kit/sopx"
	"verifharness/kit/txn"
)

// Clock is the single monotonic counter all history events are stamped from.
type Clock struct{ n atomic.Int64 }

func (c *Clock) Tick() int64 { return c.n.Add(1) }

// Event is one boundary event of a round (commit begin/end per transaction).
type Event struct {
	Seq  int64  `json:"seq"`
	Txn  string `json:"txn"`
	Kind string `json:"kind"` // B = commit called, E = commit returned
}

// TxnRec is what one transaction did and observed.
type TxnRec struct {
	ID      string  `json:"id"`
	Ops     []OpRec `json:"ops"`
	Begin   int64   `json:"begin"`   // first operation
	CallSeq int64   `json:"call"`    // commit called
	RetSeq  int64   `json:"ret"`     // commit returned
	Err     string  `json:"err"`     // commit error ("" = committed)
	Aborted bool    `json:"aborted"` // voluntary rollback
	OpErr   string  `json:"op_err,omitempty"`
}

// OpRec is one operation with what it returned.
type OpRec struct {
	Store string `json:"s"`
	Kind  string `json:"op"` // read|rmw|add|remove|update
	K     string `json:"k"`
	V     string `json:"v,omitempty"`   // value written
	Saw   string `json:"saw,omitempty"` // value read
	Found bool   `json:"found"`
	OK    bool   `json:"ok"`
}

// Setup prepares a worker process for concurrent rounds: decorated L2 with delay widening only.
func Setup(seed int64, delayPercent int) {
	mirror.InstallGlobals()
	sop.RetryStartDuration = time.Millisecond
	p := deco.NewPlan("", 0, deco.None)
	p.NoTrace = true
	p.DelayP = delayPercent
	p.Rnd = rand.New(rand.NewSource(seed))
	lockedRnd := &lockedSource{src: rand.NewSource(seed)}
	p.Rnd = rand.New(lockedRnd)
	deco.Install(p)
	p.Arm()
}

type lockedSource struct {
	mu  sync.Mutex
	src rand.Source
}

func (l *lockedSource) Int63() int64 { l.mu.Lock(); defer l.mu.Unlock(); return l.src.Int63() }
func (l *lockedSource) Seed(s int64) { l.mu.Lock(); defer l.mu.Unlock(); l.src.Seed(s) }

// Procs returns the GOMAXPROCS of a round (cycle 1,2,4,16).
func Procs(round int) int { return []int{16, 4, 2, 1}[round%4] }

// SeedStore creates a unique string/string store with n items (keys Key(0), Key(10), ...).
// Every second store seeded by a worker process is AGED: a second committed transaction rewrites every
// item with the value it already has, so every node has been through an update commit (both physical
// ids of its handle used, separately stored values really in their own blobs).
func SeedStore(db sopx.DB, name string, slot int, prof sopx.Profile, n int) (txn.Model, error) {
	specs := []txn.Spec{{Name: name, Slot: slot, Profile: prof}}
	p, m := txn.Baseline(specs, n)
	if err := txn.Commit(txn.Public{DB: db}, p, time.Minute); err != nil {
		return m, err
	}
	if seeded.Add(1)%2 == 0 {
		var age txn.Program
		for k, v := range m[name] {
			age.Ops = append(age.Ops, txn.Op{Store: name, Kind: "update", K: k, V: v})
		}
		sort.Slice(age.Ops, func(a, b int) bool { return age.Ops[a].K < age.Ops[b].K })
		if err := txn.Commit(txn.Public{DB: db}, age, time.Minute); err != nil {
			return m, fmt.Errorf("ageing: %w", err)
		}
	}
	return m, nil
}

var seeded atomic.Int64

// InterleavingSignature hashes the cross-transaction order of commit begin/end events.
func InterleavingSignature(evs []Event) (sig string, overlapped bool) {
	sort.Slice(evs, func(i, j int) bool { return evs[i].Seq < evs[j].Seq })
	var sb strings.Builder
	open := 0
	for _, e := range evs {
		sb.WriteString(e.Kind + e.Txn + " ")
		if e.Kind == "B" {
			open++
			if open > 1 {
				overlapped = true
			}
		} else {
			open--
		}
	}
	h := fnv.New64a()
	h.Write([]byte(sb.String()))
	return fmt.Sprintf("%x", h.Sum64()), overlapped
}

// RunRound starts one goroutine per script; each script is a list of transactions to run in sequence.
// exec runs ONE transaction and returns its record.
func RunRound(procs int, scripts [][]func(clock *Clock) TxnRec) (recs []TxnRec, events []Event) {
	prev := runtime.GOMAXPROCS(procs)
	defer runtime.GOMAXPROCS(prev)
	clock := &Clock{}
	var mu sync.Mutex
	var wg sync.WaitGroup
	start := make(chan struct{})
	for _, sc := range scripts {
		wg.Add(1)
		go func(sc []func(clock *Clock) TxnRec) {
			defer wg.Done()
			<-start
			for _, f := range sc {
				rec := f(clock)
				mu.Lock()
				recs = append(recs, rec)
				if rec.CallSeq > 0 {
					events = append(events, Event{rec.CallSeq, rec.ID, "B"}, Event{rec.RetSeq, rec.ID, "E"})
				}
				mu.Unlock()
			}
		}(sc)
	}
	close(start)
	wg.Wait()
	return
}

// NewRoundDB makes a fresh folder + DB for a round.
func NewRoundDB(tag string) (sopx.DB, string) {
	dir := env.Scratch(tag)
	return sopx.NewDB(dir), dir
}

var Ctx = context.Background()

// ReportDeaths classifies dead workers: a Go panic / fatal error with a sop frame on the stack is a
// violation (the library crashed the process); a watchdog timeout or anything else is inconclusive.
func ReportDeaths(r interface {
	Violation(string, any)
	Inconclusive(string)
	Set(string, any)
}, id string, died []string) {
	for _, d := range died {
		r.Set("worker_death", d)
		if (strings.Contains(d, "panic:") || strings.Contains(d, "fatal error:")) && strings.Contains(d, "github.com/sharedcode/sop") && !strings.Contains(d, "exit 124") {
			site := "unknown"
			for _, ln := range strings.Split(d, "\n") {
				if strings.HasPrefix(ln, "github.com/sharedcode/sop") {
					site = strings.SplitN(strings.TrimPrefix(ln, "github.com/sharedcode/sop"), "(", 2)[0]
					site = strings.Trim(strings.ReplaceAll(site, ":", "."), "/.")
					break
				}
			}
			r.Violation(id+":process-crash:"+site+":panic-in-library", d)
			continue
		}
		if strings.Contains(d, "exit 124") {
			r.Inconclusive("worker-watchdog-timeout")
		} else {
			r.Inconclusive("worker-died")
		}
	}
}
