package c38

import (
	"fmt"
	"testing"

	"github.com/sharedcode/sop"
	"verifharness/kit/env"
	"verifharness/kit/sopx"
)

func TestProbe(t *testing.T) {
	for _, prof := range []sopx.Profile{sopx.Separate} {
		dir := env.Scratch("c38probe")
		d := sopx.NewDB(dir)
		c := caseSpec{Slot: 4, Items: 3, Profile: prof, VT: "map", Seed: 5, Salt: "p"}
		if err := coldPopulate(dir, c); err != nil {
			t.Fatal(err)
		}
		tx, _ := d.Begin(sop.ForWriting)
		b, _ := sopx.Open[string, map[string]any](d, tx, storeName)
		b.Find(sopx.Ctx, key(1), false)
		it, _ := b.GetCurrentItem(sopx.Ctx)
		fmt.Printf("mutator item: valuePtr=%p needsFetch=%v\n", it.Value, it.ValueNeedsFetch)
		v, _ := b.GetCurrentValue(sopx.Ctx)
		v["a"] = "J"
		it, _ = b.GetCurrentItem(sopx.Ctx)
		fmt.Printf("mutator item after get: valuePtr=%p needsFetch=%v\n", it.Value, it.ValueNeedsFetch)
		tx.Rollback(sopx.Ctx)

		tx2, _ := d.Begin(sop.ForReading)
		b2, _ := sopx.Open[string, map[string]any](d, tx2, storeName)
		b2.Find(sopx.Ctx, key(1), false)
		it2, _ := b2.GetCurrentItem(sopx.Ctx)
		fmt.Printf("later item: valuePtr=%p needsFetch=%v val=%v\n", it2.Value, it2.ValueNeedsFetch, show(*it2.Value))
		tx2.Rollback(sopx.Ctx)
		env.Remove(dir)
	}
}
