// Package c38: values (and items) returned by store reads are private to the caller.
//
// Statement (properties.jsonl C38): "Modifying, in place, a value or item obtained from a store read
// never changes what this or any other transaction later reads, unless the modified value is written
// back and committed."
//
// Technique: runtime monitoring through the PUBLIC path (database.BeginTransaction / NewBtree /
// OpenBtree via kit/sopx). For every cell of the grid
//
//	value type {bytes, map, ints, pstruct} x value placement {innode, separate, sepcached, sepactive}
//	x last write of the items {add, update} (separate placements only, see "storage class" below)
//	x read API {GetCurrentValue, GetCurrentItem (mutate through Item.Value), GetCurrentItem + overwrite *Item.Value}
//	x positioning {Find, First} x ending {rollback, commit-of-a-writer-txn-without-writes, commit-of-a-reader-txn}
//
// a committed store is read, the returned value is mutated in place and NOT written back, the
// transaction ends, and a later transaction of the same process reads every key again. The oracle is
// the canonical JSON text of the value captured BEFORE it was handed to Add/Update.
//
// Storage class (third signature segment). What decides whether a value can leak is where the read path
// finds it, and on the tree as built that depends on more than the store option: an item written by Add
// keeps a copy of its value INSIDE the B-tree node blob even in the separate-segment placements (the
// item-action tracker nullifies its own *Item, the node slot holds a copy), and for the placements
// separate/sepcached the same is observed after Update; only with sepactive (actively persisted) does an
// updated item really get its value fetched from the separate segment by every transaction. The grid
// therefore runs the separate placements under two workloads and names the cell by placement and workload,
// not by a claimed storage: <placement> (items written by Add) and <placement>-updated (every item updated
// once, in a second transaction, after the Add).
//
// Violation classes (signatures; the read API is NOT part of the signature, all three APIs hand out the
// same shared storage; it is in the violation detail and in the evidence leak matrix):
//
//	C38:<valuetype>:<storageclass>:later-txn-sees-mutation        a later transaction reads the mutated value
//	C38:<valuetype>:<storageclass>:same-txn-sees-mutation         a later read of the SAME transaction returns the mutated value
//	C38:<valuetype>:<storageclass>:durable-after-unrelated-write  a later writer that only touched ANOTHER key
//	                                                              made the never-written mutation durable (cold process reads it)
//
// NOT counted as C38 violations (recorded in evidence only, the statement speaks of values "obtained
// from a store read"): the writer side - mutating the caller's own v after Add(k, v)/Update(k, v) +
// Commit (counters writer_side_leak:* and the evidence key writer_side).
package c38

import (
	"encoding/json"
	"fmt"
	"math/rand"
	"os"
	"sort"
	"strings"

	"github.com/sharedcode/sop"
	"github.com/sharedcode/sop/btree"

	"verifharness/kit/env"
	"verifharness/kit/proc"
	"verifharness/kit/report"
	"verifharness/kit/sopx"
)

// Rec is the pointer-struct value type (exported fields, nested slice).
type Rec struct {
	Name string   `json:"name"`
	N    int      `json:"n"`
	Tags []string `json:"tags"`
}

const storeName = "c38s"

// vtype describes one value type: generator, in-place mutation, whole-value replacement.
type vtype[V any] struct {
	name    string
	gen     func(rnd *rand.Rand, i int) V
	mutate  func(v V) // in place, through the reference the caller holds
	replace func() V  // a fresh unrelated value (for "*item.Value = x")
}

func show(v any) string {
	b, err := json.Marshal(v)
	if err != nil {
		return "marshal-error:" + err.Error()
	}
	return string(b)
}

var (
	vtBytes = vtype[[]byte]{
		name: "bytes",
		gen: func(rnd *rand.Rand, i int) []byte {
			n := 4 + rnd.Intn(40)
			b := make([]byte, n)
			for j := range b {
				b[j] = byte('a' + rnd.Intn(8)) // never 'J'
			}
			return append([]byte(fmt.Sprintf("v%03d-", i)), b...)
		},
		mutate:  func(v []byte) { v[0] = 'J'; v[len(v)-1] = 'J' },
		replace: func() []byte { return []byte("JJJJ-replaced") },
	}
	vtMap = vtype[map[string]any]{
		name: "map",
		gen: func(rnd *rand.Rand, i int) map[string]any {
			return map[string]any{
				"a":    fmt.Sprintf("text-%d-%d", i, rnd.Intn(1000)),
				"b":    float64(rnd.Intn(100000)),
				"list": []any{"x", float64(i), "z"},
				"sub":  map[string]any{"k": fmt.Sprintf("sub-%d", i)},
			}
		},
		mutate: func(v map[string]any) {
			v["a"] = "J"
			v["injected"] = "J"
			delete(v, "b")
			if l, ok := v["list"].([]any); ok && len(l) > 0 {
				l[0] = "J"
			}
			if s, ok := v["sub"].(map[string]any); ok {
				s["k"] = "J"
			}
		},
		replace: func() map[string]any { return map[string]any{"replaced": "J"} },
	}
	vtInts = vtype[[]int]{
		name: "ints",
		gen: func(rnd *rand.Rand, i int) []int {
			n := 1 + rnd.Intn(12)
			s := make([]int, n)
			for j := range s {
				s[j] = rnd.Intn(1 << 20) // never negative
			}
			s[0] = i
			return s
		},
		mutate:  func(v []int) { v[0] = -777; v[len(v)-1] = -778 },
		replace: func() []int { return []int{-1, -2, -3} },
	}
	vtPStruct = vtype[*Rec]{
		name: "pstruct",
		gen: func(rnd *rand.Rand, i int) *Rec {
			return &Rec{Name: fmt.Sprintf("rec-%d-%d", i, rnd.Intn(1000)), N: i, Tags: []string{"t1", fmt.Sprintf("t%d", rnd.Intn(50))}}
		},
		mutate: func(v *Rec) {
			v.Name = "J"
			v.N = -777
			if len(v.Tags) > 0 {
				v.Tags[0] = "J"
			}
		},
		replace: func() *Rec { return &Rec{Name: "replaced", N: -1} },
	}
)

const (
	apiValue      = "GetCurrentValue"
	apiItem       = "GetCurrentItem"
	apiItemAssign = "GetCurrentItem-assign"
)

var (
	apis = []string{apiValue, apiItem, apiItemAssign}
	poss = []string{"find", "first"}
	ends = []string{"rollback", "commit-writer", "commit-reader"}
)

// caseSpec is one literal case (replayable by hand together with the seed).
type caseSpec struct {
	Scenario     string       `json:"scenario"` // read | persist | writer
	VT           string       `json:"value_type"`
	Profile      sopx.Profile `json:"placement"`
	LastWrite    string       `json:"items_last_written_by"` // add | update
	API          string       `json:"read_api,omitempty"`
	Pos          string       `json:"positioning,omitempty"`
	End          string       `json:"ending,omitempty"`
	Slot         int          `json:"slot_length"`
	Items        int          `json:"items"`
	Warm         bool         `json:"warm_read_before"`
	ColdPopulate bool         `json:"populated_by_child_process"`
	Reread       bool         `json:"reread_in_same_txn"`
	WriterOp     string       `json:"writer_op,omitempty"` // add | update
	Salt         string       `json:"salt"`
	Seed         int64        `json:"seed"`
}

func key(i int) string { return fmt.Sprintf("k%04d", i) }

type outcome struct {
	violations []viol
	nontrivial bool
	broken     string
	notes      map[string]any
}

type viol struct {
	sig    string
	detail map[string]any
}

func modeOf(end string) sop.TransactionMode {
	if end == "commit-reader" {
		return sop.ForReading
	}
	return sop.ForWriting
}

// genValues draws the case's values (the first use of the case PRNG, in parent and child alike):
// the values handed to Add and, when the case wants the items updated afterwards, the values handed
// to Update (nil otherwise). The committed state is final[i] = updates[i] if updates != nil else adds[i].
func genValues[V any](vt vtype[V], c caseSpec, rnd *rand.Rand) (adds, updates []V) {
	adds = make([]V, c.Items)
	for i := range adds {
		adds[i] = vt.gen(rnd, i)
	}
	if c.LastWrite == "update" {
		updates = make([]V, c.Items)
		for i := range updates {
			updates[i] = vt.gen(rnd, 500+i)
		}
	}
	return
}

// populate creates the store and commits c.Items generated values (and updates every one of them in a
// second transaction when c.LastWrite is "update"); returns the expected canonical JSON per key (captured
// BEFORE Add/Update) and the caller-side originals (for the writer-side class).
// With c.ColdPopulate the store is written by a child process, so this process's caches are filled
// by the read path only (the caller-side originals then never touch this process's cache).
func populate[V any](d sopx.DB, vt vtype[V], c caseSpec, rnd *rand.Rand) (map[string]string, map[string]V, error) {
	adds, updates := genValues(vt, c, rnd)
	final := adds
	if updates != nil {
		final = updates
	}
	want := map[string]string{}
	orig := map[string]V{}
	for i, v := range final {
		want[key(i)] = show(v)
		orig[key(i)] = v
	}
	if c.ColdPopulate {
		return want, orig, coldPopulate(d.Dir, c)
	}
	return want, orig, populateWith(d, c, adds, updates)
}

func populateWith[V any](d sopx.DB, c caseSpec, adds, updates []V) error {
	t, err := d.Begin(sop.ForWriting)
	if err != nil {
		return fmt.Errorf("begin: %w", err)
	}
	b, err := sopx.New[string, V](d, t, sopx.Options(storeName, c.Slot, true, c.Profile))
	if err != nil {
		t.Rollback(sopx.Ctx)
		return fmt.Errorf("newbtree: %w", err)
	}
	for i, v := range adds {
		ok, err := b.Add(sopx.Ctx, key(i), v)
		if err != nil || !ok {
			t.Rollback(sopx.Ctx)
			return fmt.Errorf("add %s: ok=%v err=%v", key(i), ok, err)
		}
	}
	if err := t.Commit(sopx.Ctx); err != nil {
		return fmt.Errorf("commit: %w", err)
	}
	if updates == nil {
		return nil
	}
	if t, err = d.Begin(sop.ForWriting); err != nil {
		return fmt.Errorf("begin updater: %w", err)
	}
	if b, err = sopx.Open[string, V](d, t, storeName); err != nil {
		return fmt.Errorf("open in updater: %w", err)
	}
	for i, v := range updates {
		ok, err := b.Update(sopx.Ctx, key(i), v)
		if err != nil || !ok {
			t.Rollback(sopx.Ctx)
			return fmt.Errorf("update %s: ok=%v err=%v", key(i), ok, err)
		}
	}
	if err := t.Commit(sopx.Ctx); err != nil {
		return fmt.Errorf("commit updater: %w", err)
	}
	return nil
}

// readAll reads every key in a fresh reader transaction and returns canonical JSON per key.
func readAll[V any](d sopx.DB) (map[string]string, error) {
	t, err := d.Begin(sop.ForReading)
	if err != nil {
		return nil, fmt.Errorf("begin: %w", err)
	}
	defer t.Rollback(sopx.Ctx)
	b, err := sopx.Open[string, V](d, t, storeName)
	if err != nil {
		return nil, fmt.Errorf("open: %w", err)
	}
	got := map[string]string{}
	ok, err := b.First(sopx.Ctx)
	for ok && err == nil {
		k := b.GetCurrentKey().Key
		var v V
		v, err = b.GetCurrentValue(sopx.Ctx)
		if err != nil {
			break
		}
		got[k] = show(v)
		ok, err = b.Next(sopx.Ctx)
	}
	if err != nil {
		return nil, fmt.Errorf("scan: %w", err)
	}
	return got, nil
}

func diffMaps(want, got map[string]string) []string {
	var out []string
	keys := map[string]bool{}
	for k := range want {
		keys[k] = true
	}
	for k := range got {
		keys[k] = true
	}
	for k := range keys {
		if want[k] != got[k] {
			out = append(out, k)
		}
	}
	sort.Strings(out)
	return out
}

func position[V any](b btree.BtreeInterface[string, V], pos, target string) error {
	var ok bool
	var err error
	if pos == "first" {
		ok, err = b.First(sopx.Ctx)
	} else {
		ok, err = b.Find(sopx.Ctx, target, false)
	}
	if err != nil || !ok {
		return fmt.Errorf("position(%s,%s): ok=%v err=%v", pos, target, ok, err)
	}
	if got := b.GetCurrentKey().Key; got != target {
		return fmt.Errorf("position(%s): at %q, wanted %q", pos, got, target)
	}
	return nil
}

// readAndMutate performs the read through the chosen API and the in-place modification.
// It returns the canonical JSON the read returned (before mutation) and after mutation (caller's view).
func readAndMutate[V any](b btree.BtreeInterface[string, V], vt vtype[V], api string) (before, after string, err error) {
	switch api {
	case apiValue:
		v, e := b.GetCurrentValue(sopx.Ctx)
		if e != nil {
			return "", "", e
		}
		before = show(v)
		vt.mutate(v)
		after = show(v)
	case apiItem:
		it, e := b.GetCurrentItem(sopx.Ctx)
		if e != nil {
			return "", "", e
		}
		if it.Value == nil {
			return "", "", fmt.Errorf("item.Value is nil")
		}
		before = show(*it.Value)
		vt.mutate(*it.Value)
		after = show(*it.Value)
	case apiItemAssign:
		it, e := b.GetCurrentItem(sopx.Ctx)
		if e != nil {
			return "", "", e
		}
		if it.Value == nil {
			return "", "", fmt.Errorf("item.Value is nil")
		}
		before = show(*it.Value)
		*it.Value = vt.replace()
		after = show(*it.Value)
	}
	return before, after, nil
}

func runRead[V any](vt vtype[V], c caseSpec) (o outcome) {
	o.notes = map[string]any{}
	rnd := env.Rand(c.Seed, c.Salt)
	dir := env.Scratch("c38")
	defer env.Remove(dir)
	d := sopx.NewDB(dir)
	want, _, err := populate(d, vt, c, rnd)
	if err != nil {
		o.broken = "populate: " + err.Error()
		return
	}
	if c.Warm {
		got, err := readAll[V](d)
		if err != nil {
			o.broken = "warm read: " + err.Error()
			return
		}
		if bad := diffMaps(want, got); len(bad) > 0 {
			// Not C38's business (C19), but the case is unusable as a baseline.
			o.broken = fmt.Sprintf("baseline read differs before any mutation: keys %v", bad)
			return
		}
	}
	target := key(0)
	if c.Pos == "find" {
		target = key(rnd.Intn(c.Items))
	}
	base := map[string]any{"case": c, "key": target, "committed": want[target]}

	// The mutating transaction.
	t, err := d.Begin(modeOf(c.End))
	if err != nil {
		o.broken = "begin mutator: " + err.Error()
		return
	}
	b, err := sopx.Open[string, V](d, t, storeName)
	if err != nil {
		o.broken = "open in mutator: " + err.Error()
		return
	}
	if err := position(b, c.Pos, target); err != nil {
		t.Rollback(sopx.Ctx)
		o.broken = err.Error()
		return
	}
	before, after, err := readAndMutate(b, vt, c.API)
	if err != nil {
		t.Rollback(sopx.Ctx)
		o.broken = "read in mutator: " + err.Error()
		return
	}
	if before != want[target] {
		t.Rollback(sopx.Ctx)
		o.broken = fmt.Sprintf("mutator read %s, committed %s (before any mutation)", before, want[target])
		return
	}
	mutated := after != before
	if c.Reread {
		// later read of the SAME transaction (fresh positioning, value API)
		if err := position(b, "find", target); err == nil {
			v, err := b.GetCurrentValue(sopx.Ctx)
			if err == nil {
				if g := show(v); g != want[target] {
					dd := clone(base)
					dd["observed_same_txn"] = g
					dd["caller_view_after_mutation"] = after
					o.violations = append(o.violations, viol{sig(c, "same-txn-sees-mutation"), dd})
				}
			}
		}
	}
	if c.End == "rollback" {
		err = t.Rollback(sopx.Ctx)
	} else {
		err = t.Commit(sopx.Ctx)
	}
	if err != nil {
		// A read-only transaction failing to end is not this property's subject.
		o.broken = fmt.Sprintf("ending mutator (%s): %v", c.End, err)
		return
	}

	// The later transaction of the same process.
	got, err := readAll[V](d)
	if err != nil {
		o.broken = "later read: " + err.Error()
		return
	}
	o.nontrivial = mutated
	if bad := diffMaps(want, got); len(bad) > 0 {
		dd := clone(base)
		dd["keys_differing"] = bad
		dd["observed_later_txn"] = got[target]
		dd["caller_view_after_mutation"] = after
		// cold process (once per signature): is the committed value still what the disk holds?
		if !firstOf(storageClass(c) + ":later-txn-sees-mutation") {
			dd["cold_process_reads"] = "(not taken: an earlier case of this storage class has it)"
		} else if cold, cerr := coldRead(dir, vt.name, target); cerr == nil {
			dd["cold_process_reads"] = cold
			dd["disk_intact"] = cold == want[target]
		} else {
			dd["cold_process_error"] = cerr.Error()
		}
		o.violations = append(o.violations, viol{sig(c, "later-txn-sees-mutation"), dd})
	}
	return
}

// runPersist: mutate a read value (never written back, transaction rolled back); then another
// transaction updates a DIFFERENT key that lives in the same store and commits; a cold process
// then reads the target key. The never-written mutation must not have become durable.
func runPersist[V any](vt vtype[V], c caseSpec) (o outcome) {
	o.notes = map[string]any{}
	rnd := env.Rand(c.Seed, c.Salt)
	dir := env.Scratch("c38")
	defer env.Remove(dir)
	d := sopx.NewDB(dir)
	want, _, err := populate(d, vt, c, rnd)
	if err != nil {
		o.broken = "populate: " + err.Error()
		return
	}
	target, other := key(0), key(1)
	base := map[string]any{"case": c, "key": target, "other_key_written": other, "committed": want[target]}
	t, err := d.Begin(sop.ForWriting)
	if err != nil {
		o.broken = "begin mutator: " + err.Error()
		return
	}
	b, err := sopx.Open[string, V](d, t, storeName)
	if err != nil {
		o.broken = "open: " + err.Error()
		return
	}
	if err := position(b, "find", target); err != nil {
		t.Rollback(sopx.Ctx)
		o.broken = err.Error()
		return
	}
	before, after, err := readAndMutate(b, vt, c.API)
	if err != nil || before != want[target] {
		t.Rollback(sopx.Ctx)
		o.broken = fmt.Sprintf("mutator read: %v / %s", err, before)
		return
	}
	if c.Scenario == "persist-own" {
		// the SAME transaction goes on to write a different item of the same node and commits: the in-place
		// mutation was never written back (no Update of the target), so it must not become durable
		nv := vt.gen(rnd, 9000)
		want[other] = show(nv)
		if ok, err := b.Update(sopx.Ctx, other, nv); err != nil || !ok {
			t.Rollback(sopx.Ctx)
			o.broken = fmt.Sprintf("update other: ok=%v err=%v", ok, err)
			return
		}
		if err := t.Commit(sopx.Ctx); err != nil {
			o.broken = "commit mutator: " + err.Error()
			return
		}
		o.nontrivial = after != before
		cold, err := coldRead(dir, vt.name, target)
		if err != nil {
			o.broken = "cold read: " + err.Error()
			return
		}
		if cold != want[target] {
			dd := clone(base)
			dd["cold_process_reads"] = cold
			dd["caller_view_after_mutation"] = after
			o.violations = append(o.violations, viol{sig(c, "durable-after-own-unrelated-write"), dd})
		}
		return
	}
	if err := t.Rollback(sopx.Ctx); err != nil {
		o.broken = "rollback: " + err.Error()
		return
	}
	// unrelated writer
	t2, err := d.Begin(sop.ForWriting)
	if err != nil {
		o.broken = "begin writer: " + err.Error()
		return
	}
	b2, err := sopx.Open[string, V](d, t2, storeName)
	if err != nil {
		o.broken = "open writer: " + err.Error()
		return
	}
	nv := vt.gen(rnd, 9000)
	want[other] = show(nv)
	if ok, err := b2.Update(sopx.Ctx, other, nv); err != nil || !ok {
		t2.Rollback(sopx.Ctx)
		o.broken = fmt.Sprintf("update other: ok=%v err=%v", ok, err)
		return
	}
	if err := t2.Commit(sopx.Ctx); err != nil {
		o.broken = "commit writer: " + err.Error()
		return
	}
	o.nontrivial = after != before
	cold, err := coldRead(dir, vt.name, target)
	if err != nil {
		o.broken = "cold read: " + err.Error()
		return
	}
	if cold != want[target] {
		dd := clone(base)
		dd["cold_process_reads"] = cold
		dd["caller_view_after_mutation"] = after
		o.violations = append(o.violations, viol{sig(c, "durable-after-unrelated-write"), dd})
	}
	return
}

// runWriter: the writer-side class (NOT a C38 violation; evidence only). After Add/Update(k, v) and
// Commit the caller mutates its own v; does a later transaction of the process see the mutation?
func runWriter[V any](vt vtype[V], c caseSpec) (o outcome, leaked bool) {
	o.notes = map[string]any{}
	rnd := env.Rand(c.Seed, c.Salt)
	dir := env.Scratch("c38")
	defer env.Remove(dir)
	d := sopx.NewDB(dir)
	want, orig, err := populate(d, vt, c, rnd)
	if err != nil {
		o.broken = "populate: " + err.Error()
		return
	}
	target := key(0)
	v := orig[target]
	if c.WriterOp == "update" {
		t, err := d.Begin(sop.ForWriting)
		if err != nil {
			o.broken = "begin: " + err.Error()
			return
		}
		b, err := sopx.Open[string, V](d, t, storeName)
		if err != nil {
			o.broken = "open: " + err.Error()
			return
		}
		v = vt.gen(rnd, 9001)
		want[target] = show(v)
		if ok, err := b.Update(sopx.Ctx, target, v); err != nil || !ok {
			t.Rollback(sopx.Ctx)
			o.broken = fmt.Sprintf("update: ok=%v err=%v", ok, err)
			return
		}
		if err := t.Commit(sopx.Ctx); err != nil {
			o.broken = "commit: " + err.Error()
			return
		}
	}
	vt.mutate(v) // the caller's own value, after the commit
	o.nontrivial = show(v) != want[target]
	got, err := readAll[V](d)
	if err != nil {
		o.broken = "later read: " + err.Error()
		return
	}
	leaked = len(diffMaps(want, got)) > 0
	o.notes["observed"] = got[target]
	o.notes["committed"] = want[target]
	return
}

var seenSig = map[string]bool{}

// firstOf reports whether this is the first time the signature is seen in this run.
func firstOf(sg string) bool {
	if seenSig[sg] {
		return false
	}
	seenSig[sg] = true
	return true
}

// storageClass names where the read path finds the value (see the package comment).
func storageClass(c caseSpec) string {
	if c.LastWrite == "update" && c.Profile != sopx.InNode {
		return string(c.Profile) + "-updated"
	}
	return string(c.Profile)
}

func sig(c caseSpec, outcomeClass string) string {
	return fmt.Sprintf("C38:%s:%s:%s", c.VT, storageClass(c), outcomeClass)
}

func clone(m map[string]any) map[string]any {
	out := map[string]any{}
	for k, v := range m {
		out[k] = v
	}
	return out
}

// ---- cold child: reads one key in a fresh process and prints the canonical JSON of its value ----

func init() {
	proc.Register("c38-read", childRead)
	proc.Register("c38-populate", childPopulate)
}

func childPopulateT[V any](dir string, vt vtype[V], c caseSpec) int {
	rnd := env.Rand(c.Seed, c.Salt)
	adds, updates := genValues(vt, c, rnd)
	if err := populateWith(sopx.NewDB(dir), c, adds, updates); err != nil {
		fmt.Println("ERR", err)
		return proc.ExitHarness
	}
	fmt.Println("POPULATED")
	return proc.ExitOK
}

func childPopulate(args []string) int {
	if len(args) != 2 {
		return proc.ExitHarness
	}
	var c caseSpec
	ba, err := os.ReadFile(args[1])
	if err != nil || json.Unmarshal(ba, &c) != nil {
		return proc.ExitHarness
	}
	switch c.VT {
	case "bytes":
		return childPopulateT(args[0], vtBytes, c)
	case "map":
		return childPopulateT(args[0], vtMap, c)
	case "ints":
		return childPopulateT(args[0], vtInts, c)
	case "pstruct":
		return childPopulateT(args[0], vtPStruct, c)
	}
	return proc.ExitHarness
}

func coldPopulate(dir string, c caseSpec) error {
	logDir := env.Scratch("c38-log")
	defer env.Remove(logDir)
	ba, _ := json.Marshal(c)
	cf := logDir + "/case.json" // the case is on disk before the child starts
	if err := os.WriteFile(cf, ba, 0o644); err != nil {
		return err
	}
	res := proc.Run(logDir, 60, nil, "c38-populate", dir, cf)
	if res.Code != proc.ExitOK || !strings.Contains(string(res.Out()), "POPULATED") {
		return fmt.Errorf("populate child exit=%d out=%q err=%q", res.Code, string(res.Out()), string(res.Err()))
	}
	return nil
}

func childReadT[V any](dir, k string) int {
	d := sopx.NewDB(dir)
	t, err := d.Begin(sop.ForReading)
	if err != nil {
		fmt.Println("ERR begin:", err)
		return proc.ExitHarness
	}
	defer t.Rollback(sopx.Ctx)
	b, err := sopx.Open[string, V](d, t, storeName)
	if err != nil {
		fmt.Println("ERR open:", err)
		return proc.ExitHarness
	}
	ok, err := b.Find(sopx.Ctx, k, false)
	if err != nil || !ok {
		fmt.Printf("ERR find: ok=%v err=%v\n", ok, err)
		return proc.ExitHarness
	}
	v, err := b.GetCurrentValue(sopx.Ctx)
	if err != nil {
		fmt.Println("ERR value:", err)
		return proc.ExitHarness
	}
	fmt.Println("VAL " + show(v))
	return proc.ExitOK
}

func childRead(args []string) int {
	if len(args) != 3 {
		return proc.ExitHarness
	}
	switch args[1] {
	case "bytes":
		return childReadT[[]byte](args[0], args[2])
	case "map":
		return childReadT[map[string]any](args[0], args[2])
	case "ints":
		return childReadT[[]int](args[0], args[2])
	case "pstruct":
		return childReadT[*Rec](args[0], args[2])
	}
	return proc.ExitHarness
}

func coldRead(dir, vtName, k string) (string, error) {
	logDir := env.Scratch("c38-log")
	defer env.Remove(logDir)
	f, _ := os.OpenFile(logDir+"/case.log", os.O_CREATE|os.O_WRONLY|os.O_APPEND, 0o644)
	if f != nil {
		fmt.Fprintf(f, "cold read dir=%s vt=%s key=%s\n", dir, vtName, k)
		f.Close()
	}
	res := proc.Run(logDir, 60, nil, "c38-read", dir, vtName, k)
	out := string(res.Out())
	for _, line := range strings.Split(out, "\n") {
		if strings.HasPrefix(line, "VAL ") {
			return strings.TrimPrefix(line, "VAL "), nil
		}
	}
	return "", fmt.Errorf("child exit=%d out=%q err=%q", res.Code, out, string(res.Err()))
}

// ---- driver ----

const rule = "grid cell = (value type in {bytes,map,ints,pstruct}) x (storage class in {innode, separate, sepcached, sepactive [items written by Add], " +
	"separate-updated, sepcached-updated, sepactive-updated [every item updated once after the Add]}); per cell 6 'read' cases = (read API in " +
	"{GetCurrentValue, GetCurrentItem, GetCurrentItem-assign}) x (2 of the endings rollback|commit-writer|commit-reader, rotating with the API) with positioning Find|First alternating " +
	"(thorough: all 3 endings x both positionings, 2 repetitions), scenario 'persist' (mutate, rollback, unrelated write to another key of the same node, cold-process read) for every second (value type, cell) pair (thorough: every cell x API), " +
	"plus the writer-side class per value type x placement (evidence only). Slot length, item count (1..3.5 x slot: single- and multi-node trees), target key, " +
	"warm-read is PRNG-chosen from VERIF_SEED; the store is populated by a child process in one read case of every second (value type, cell) pair (thorough: 1 in 6 read cases, PRNG); every second case re-reads inside the mutating transaction. Fingerprint = scenario:valuetype:storageclass:api:positioning:ending. " +
	"A case is non-trivial when the read returned exactly the committed value, the in-place modification changed the caller's view, " +
	"no write-back happened, the transaction ended without error and the later transaction read every key."

var assumptions = []string{
	"standalone database (in-memory L2), one process, one folder per case; the later transaction runs in the SAME process (the statement's scope)",
	"values are compared by canonical JSON (json.Marshal, sorted map keys) against the text captured before Add/Update",
	"'this transaction later reads' of the statement is taken literally: a re-read inside the mutating transaction must return the committed value too (same-txn-sees-mutation)",
	"the writer-side class (caller mutates its own v after Add/Update+Commit) is recorded in evidence and never reported as a C38 violation",
	"the cold child read is used only to tell 'cache aliasing, disk intact' from 'mutation made durable'",
	"string/scalar value types are out of scope of the grid (the statement quantifies over reference-typed values); they are reachable only through GetCurrentItem's Item.Value pointer",
}

type runner func(c caseSpec) (outcome, bool)

func dispatch(c caseSpec) (outcome, bool) {
	switch c.VT {
	case "bytes":
		return dispatchT(vtBytes, c)
	case "map":
		return dispatchT(vtMap, c)
	case "ints":
		return dispatchT(vtInts, c)
	default:
		return dispatchT(vtPStruct, c)
	}
}

func dispatchT[V any](vt vtype[V], c caseSpec) (outcome, bool) {
	switch c.Scenario {
	case "persist", "persist-own":
		return runPersist(vt, c), false
	case "writer":
		return runWriter(vt, c)
	default:
		return runRead(vt, c), false
	}
}

func Run(r *report.Run) int {
	rnd := env.Rand(r.Seed, "c38-plan")
	reps := r.Pick(1, 2)
	slots := []int{2, 4, 8, 16}
	var cases []caseSpec
	n := 0
	mk := func(c caseSpec) {
		c.Slot = slots[rnd.Intn(len(slots))]
		// 1 item up to 3.5 x slot length: single-node and multi-level trees
		c.Items = 2 + rnd.Intn(c.Slot*7/2)
		if c.Scenario == "persist" || c.Scenario == "persist-own" {
			// target and the unrelated key must share one node: keep the tree a single root node
			c.Items = 2 + rnd.Intn(c.Slot-1)
		}
		c.Warm = rnd.Intn(2) == 0
		c.Reread = n%2 == 0 // alternating: every cell gets re-read cases at every seed
		if r.Thorough() {
			c.ColdPopulate = c.Scenario == "read" && rnd.Intn(6) == 0
		}
		c.Seed = r.Seed
		c.Salt = fmt.Sprintf("c38-case-%d", n)
		n++
		cases = append(cases, c)
	}
	vts := []string{"bytes", "map", "ints", "pstruct"}
	type cellT struct {
		p  sopx.Profile
		lw string
	}
	var cells []cellT
	for _, p := range sopx.Profiles {
		cells = append(cells, cellT{p, "add"})
	}
	for _, p := range sopx.Profiles {
		if p != sopx.InNode {
			cells = append(cells, cellT{p, "update"})
		}
	}
	flip := 0
	for rep := 0; rep < reps; rep++ {
		for vi, vt := range vts {
			for ci, cell := range cells {
				for ai, api := range apis {
					for ei, end := range ends {
						if r.Thorough() {
							for _, pos := range poss {
								mk(caseSpec{Scenario: "read", VT: vt, Profile: cell.p, LastWrite: cell.lw, API: api, Pos: pos, End: end})
							}
						} else if ei != (ai+2)%len(ends) { // quick: 2 of the 3 endings per API, rotating, so every ending meets every cell
							// quick: one child-populated case for every second (value type, cell) pair (the others get the persist case)
							cold := (vi+ci)%2 == 1 && ai == (vi+ci/2)%len(apis) && ei == ai
							mk(caseSpec{Scenario: "read", VT: vt, Profile: cell.p, LastWrite: cell.lw, API: api, Pos: poss[flip%2], End: end, ColdPopulate: cold})
							flip++
						}
					}
					// quick: one persist case for every second (value type, cell) pair, API rotating
					if r.Thorough() || ((vi+ci)%2 == 0 && ai == (vi+ci/2)%len(apis)) {
						mk(caseSpec{Scenario: "persist", VT: vt, Profile: cell.p, LastWrite: cell.lw, API: api, Pos: "find", End: "rollback"})
					}
				}
				// the mutating transaction itself writes another item of the node and commits (one per value type
				// and cell, API rotating; thorough: every API)
				for ai, api := range apis {
					if r.Thorough() || ai == (vi+ci)%len(apis) {
						mk(caseSpec{Scenario: "persist-own", VT: vt, Profile: cell.p, LastWrite: cell.lw, API: api, Pos: "find", End: "commit-writer"})
					}
				}
				if cell.lw == "add" {
					for _, op := range []string{"add", "update"} {
						mk(caseSpec{Scenario: "writer", VT: vt, Profile: cell.p, LastWrite: "add", WriterOp: op})
					}
				}
			}
		}
	}
	if only := os.Getenv("VERIF_C38_ONLY"); only != "" { // development aid: "<valuetype>:<placement>" prefix filter
		var kept []caseSpec
		for _, c := range cases {
			if strings.HasPrefix(fmt.Sprintf("%s:%s:%s:%s", c.VT, storageClass(c), c.Scenario, c.API), only) {
				kept = append(kept, c)
			}
		}
		cases = kept
	}
	r.Set("planned_cases", len(cases))

	leakMatrix := map[string]map[string]int{} // signature-ish cell -> outcome -> count
	note := func(cell, what string) {
		if leakMatrix[cell] == nil {
			leakMatrix[cell] = map[string]int{}
		}
		leakMatrix[cell][what]++
	}
	writerSide := map[string]map[string]int{}

	for _, c := range cases {
		o, wleak := dispatch(c)
		fp := fmt.Sprintf("%s:%s:%s:%s:%s:%s%s", c.Scenario, c.VT, storageClass(c), c.API, c.Pos, c.End, c.WriterOp)
		if o.broken != "" {
			r.Inconclusive("case-unusable")
			r.Count("unusable_cases", 1)
			if r.Counter("unusable_cases") <= 3 {
				r.Set(fmt.Sprintf("unusable_example_%d", r.Counter("unusable_cases")), map[string]any{"case": c, "why": o.broken})
			}
			r.Eval(fp, false)
			continue
		}
		r.Eval(fp, o.nontrivial)
		r.Sample(c)
		r.Count("cases_"+c.Scenario, 1)
		if c.Scenario == "writer" {
			cell := fmt.Sprintf("%s:%s:%s", c.VT, c.Profile, c.WriterOp)
			if writerSide[cell] == nil {
				writerSide[cell] = map[string]int{}
			}
			if wleak {
				writerSide[cell]["later-txn-sees-callers-mutation"]++
				r.Count("writer_side_leak:"+c.VT+":"+string(c.Profile), 1)
			} else {
				writerSide[cell]["private"]++
			}
			continue
		}
		cell := fmt.Sprintf("%s:%s:%s", c.VT, storageClass(c), c.API)
		seen := map[string]bool{}
		for _, v := range o.violations {
			r.Violation(v.sig, v.detail)
			parts := strings.Split(v.sig, ":")
			seen[parts[len(parts)-1]] = true
			r.Count("leak:"+parts[len(parts)-1], 1)
		}
		if c.Scenario == "read" {
			if seen["later-txn-sees-mutation"] {
				note(cell, "later-txn:leak:"+c.End)
			} else {
				note(cell, "later-txn:private:"+c.End)
			}
			if c.ColdPopulate {
				// this process never held the writer's originals: the read path alone is responsible
				if seen["later-txn-sees-mutation"] {
					r.Count("cold_populated_cases_leaking", 1)
				} else {
					r.Count("cold_populated_cases_private", 1)
				}
			}
			if c.Reread {
				if seen["same-txn-sees-mutation"] {
					note(cell, "same-txn:leak")
				} else {
					note(cell, "same-txn:private")
				}
			}
		} else {
			if seen["durable-after-unrelated-write"] {
				note(cell, "persist:leak")
			} else {
				note(cell, "persist:private")
			}
		}
	}
	r.Set("leak_matrix", leakMatrix)
	r.Set("writer_side", writerSide)
	// the quick grid has 4*7*6 read + 14 persist + 32 writer = 214 classes; demand most of them
	return r.Finish(rule, assumptions, 180)
}
