// Package c15: commits end within their time budget and never deadlock.
package c15

import (
	"context"
	"encoding/json"
	"fmt"
	"sync"
	"time"

	"github.com/sharedcode/sop"

	"verifharness/kit/deco"
	"verifharness/kit/env"
	"verifharness/kit/mirror"
	"verifharness/kit/par"
	"verifharness/kit/proc"
	"verifharness/kit/report"
	"verifharness/kit/sopx"
	"verifharness/kit/txn"
	"verifharness/props/conc"
)

func init() { proc.Register("c15-worker", func(a []string) int { return par.Serve(a, scenario) }) }

const (
	budget    = 2 * time.Second  // maxTime of the judged transactions
	allowance = 15 * time.Second // covers the documented fixed retry schedules (Fibonacci from 1 s on the store lock)
	giveUp    = budget + allowance + 3*time.Second
)

type Timing struct {
	ID       string  `json:"id"`
	Seconds  float64 `json:"seconds"`
	Err      string  `json:"err,omitempty"`
	Returned bool    `json:"returned"`
}

type Res struct {
	Kind    string   `json:"kind"`
	Detail  string   `json:"detail"`
	Timings []Timing `json:"timings"`
	Problem string   `json:"problem,omitempty"`
	Class   string   `json:"class,omitempty"`
	Harness string   `json:"harness,omitempty"`
}

// timedCommit runs Commit in a goroutine and waits at most giveUp.
func timedCommit(id string, t sop.Transaction, ctx context.Context) Timing {
	done := make(chan error, 1)
	t0 := time.Now()
	go func() { done <- t.Commit(ctx) }()
	select {
	case err := <-done:
		tm := Timing{ID: id, Seconds: time.Since(t0).Seconds(), Returned: true}
		if err != nil {
			tm.Err = err.Error()
		}
		return tm
	case <-time.After(giveUp):
		return Timing{ID: id, Seconds: time.Since(t0).Seconds(), Returned: false}
	}
}

var kinds = []string{"contention", "contention-opposite-order", "stalled-holder", "dead-holder", "caller-deadline", "racing-first-root", "dead-holder-expiry"}

func scenario(i int, seed int64, _ []string) any {
	mirror.InstallGlobals()
	rnd := env.Rand(seed, fmt.Sprintf("c15-%d", i))
	kind := kinds[i%len(kinds)]
	res := Res{Kind: kind}
	db, dir := conc.NewRoundDB("c15")
	defer env.Remove(dir)
	slot := []int{2, 4, 8}[rnd.Intn(3)]
	prof := sopx.Profiles[rnd.Intn(4)]
	res.Detail = fmt.Sprintf("slot=%d profile=%s", slot, prof)
	seeded := kind != "racing-first-root"
	if seeded {
		if _, err := conc.SeedStore(db, "s", slot, prof, 8); err != nil {
			res.Harness = err.Error()
			return res
		}
	} else {
		// an empty store: its first items (first root) are raced for
		t, _ := db.Begin(sop.ForWriting, time.Minute)
		if _, err := sopx.New[string, string](db, t, sopx.Options("s", slot, true, prof)); err != nil {
			res.Harness = err.Error()
			return res
		}
		if err := t.Commit(conc.Ctx); err != nil {
			res.Harness = err.Error()
			return res
		}
	}
	keys := []string{txn.Key(0), txn.Key(10), txn.Key(20), txn.Key(30)}
	var mu sync.Mutex
	var wg sync.WaitGroup
	writer := func(id string, ks []string, useDeadline bool) {
		defer wg.Done()
		t, err := db.Begin(sop.ForWriting, budget)
		if err != nil {
			return
		}
		b, err := sopx.Open[string, string](db, t, "s")
		if err != nil {
			t.Rollback(conc.Ctx)
			return
		}
		for _, k := range ks {
			if seeded {
				b.Upsert(conc.Ctx, k, id)
			} else {
				b.Add(conc.Ctx, k+id, id)
			}
		}
		ctx := conc.Ctx
		if useDeadline {
			c, cancel := context.WithTimeout(ctx, time.Second)
			defer cancel()
			ctx = c
		}
		tm := timedCommit(id, t, ctx)
		mu.Lock()
		res.Timings = append(res.Timings, tm)
		mu.Unlock()
	}
	var holderPlan *deco.Plan
	switch kind {
	case "contention", "contention-opposite-order", "caller-deadline", "racing-first-root":
		n := 2 + rnd.Intn(5)
		for w := 0; w < n; w++ {
			ks := append([]string(nil), keys[:2+rnd.Intn(3)]...)
			if kind == "contention-opposite-order" && w%2 == 1 {
				for a, b := 0, len(ks)-1; a < b; a, b = a+1, b-1 {
					ks[a], ks[b] = ks[b], ks[a]
				}
			}
			wg.Add(1)
			go writer(fmt.Sprintf("W%d", w), ks, kind == "caller-deadline")
		}
		wg.Wait()
	case "dead-holder-expiry":
		// a holder with a SHORT maximum commit time (3 s) takes its item locks and then never moves again;
		// fresh writers keep contending for one of its items back to back. The holder's locks carry its
		// maximum commit time as TTL, so some contender must get through within TTL + allowance - contention
		// itself must not keep a dead holder's locks alive.
		const holderTTL = 3 * time.Second
		mir := txn.Mirror{Dir: dir}
		ht, err := mir.Begin(sop.ForWriting, holderTTL)
		if err != nil {
			res.Harness = err.Error()
			return res
		}
		prog := txn.Program{Ops: []txn.Op{{Store: "s", Kind: "upsert", K: keys[0], V: "H"}, {Store: "s", Kind: "upsert", K: keys[1], V: "H"}}}
		if _, err := txn.Run(mir, ht, prog); err != nil {
			res.Harness = err.Error()
			return res
		}
		// the first l2.Lock of a commit is the node-keys lock, taken right after the item locks
		holderPlan = deco.NewPlan("l2.Lock", 1, deco.Pause)
		holderPlan.NoTrace = true
		res.Detail += " holder (maxTime 3 s) parked at its node-keys lock, after its item locks"
		deco.Install(holderPlan)
		holderPlan.Arm()
		go func() { ht.Commit(conc.Ctx) }()
		select {
		case <-holderPlan.Paused:
		case <-time.After(20 * time.Second):
			res.Harness = "holder never parked"
			deco.Install(nil)
			return res
		}
		parked := time.Now()
		okAfter := time.Duration(-1)
		attempts := 0
		for time.Since(parked) < holderTTL+12*time.Second {
			attempts++
			wg.Add(1)
			before := len(res.Timings)
			writer(fmt.Sprintf("C%d", attempts), keys[:1], false)
			if len(res.Timings) > before {
				f := res.Timings[len(res.Timings)-1]
				if f.Returned && f.Err == "" {
					okAfter = time.Since(parked)
					break
				}
			}
			time.Sleep(100 * time.Millisecond)
		}
		holderPlan.Disarm()
		deco.Install(nil)
		res.Detail += fmt.Sprintf("; %d contending commits, first success %.1f s after the holder parked", attempts, okAfter.Seconds())
		if okAfter < 0 {
			res.Class, res.Problem = "dead-holders-locks-outlive-their-ttl-under-contention", fmt.Sprintf("%d back-to-back writers of one item of a dead holder (lock TTL = its maximum commit time, 3 s) all failed for %.0f s", attempts, (holderTTL+12*time.Second).Seconds())
		}
	case "stalled-holder", "dead-holder":
		// the holder takes its item and node locks, then parks inside its commit
		mir := txn.Mirror{Dir: dir}
		ht, err := mir.Begin(sop.ForWriting, 15*time.Minute)
		if err != nil {
			res.Harness = err.Error()
			return res
		}
		prog := txn.Program{Ops: []txn.Op{{Store: "s", Kind: "upsert", K: keys[0], V: "H"}, {Store: "s", Kind: "upsert", K: keys[1], V: "H"}}}
		if _, err := txn.Run(mir, ht, prog); err != nil {
			res.Harness = err.Error()
			return res
		}
		sites := []string{"tlog.Add(4)", "tlog.Add(5)", "reg.UpdateNoLocks(false)", "blob.Add", "tlog.Add(9)", "plog.Add", "dio.WriteAt"}
		holderPlan = deco.NewPlan(sites[rnd.Intn(len(sites))], 1, deco.Pause)
		holderPlan.NoTrace = true
		res.Detail += " holder parked at " + holderPlan.Label
		deco.Install(holderPlan)
		holderPlan.Arm()
		hdone := make(chan error, 1)
		go func() { hdone <- ht.Commit(conc.Ctx) }()
		select {
		case <-holderPlan.Paused:
		case <-hdone:
			res.Harness = "holder finished without parking"
			deco.Install(nil)
			return res
		case <-time.After(20 * time.Second):
			res.Harness = "holder never parked"
			deco.Install(nil)
			return res
		}
		n := 1 + rnd.Intn(3)
		for w := 0; w < n; w++ {
			wg.Add(1)
			go writer(fmt.Sprintf("W%d", w), keys[:2], false)
		}
		wg.Wait()
		if kind == "stalled-holder" {
			holderPlan.Resume()
			select {
			case <-hdone:
			case <-time.After(giveUp):
				res.Class, res.Problem = "holder-never-finished-after-resume", "the stalled holder's Commit did not return after it was released"
			}
			holderPlan.Disarm()
			deco.Install(nil)
			// a transaction that gave up released its locks: a follow-up on the same keys must succeed
			wg.Add(1)
			before := len(res.Timings)
			writer("FOLLOWUP", keys[:2], false)
			if len(res.Timings) > before {
				f := res.Timings[len(res.Timings)-1]
				if !f.Returned || f.Err != "" {
					res.Class, res.Problem = "follow-up-blocked-after-holder-finished", fmt.Sprintf("follow-up transaction on the same keys: returned=%v err=%s", f.Returned, f.Err)
				}
			}
		} else {
			holderPlan.Disarm()
			deco.Install(nil)
		}
	}
	for _, tm := range res.Timings {
		if res.Problem != "" {
			break
		}
		limit := budget + allowance
		if !tm.Returned {
			res.Class, res.Problem = "commit-did-not-return", fmt.Sprintf("%s: Commit still running %.0f s after it was called (budget %v + allowance %v)", tm.ID, tm.Seconds, budget, allowance)
		} else if time.Duration(tm.Seconds*float64(time.Second)) > limit {
			res.Class, res.Problem = "commit-overran-budget", fmt.Sprintf("%s: Commit returned after %.1f s (budget %v + allowance %v): %s", tm.ID, tm.Seconds, budget, allowance, tm.Err)
		}
	}
	return res
}

func Run(r *report.Run) int {
	n := r.Pick(24, 240)
	// at most 4 scenarios at a time so the harness does not load the machine
	lines, died := par.Run(r, "c15-worker", 4, n, 1700, nil)
	conc.ReportDeaths(r, "C15", died)
	for _, l := range lines {
		var res Res
		if json.Unmarshal(l.Res, &res) != nil {
			continue
		}
		if res.Harness != "" {
			r.Inconclusive("harness:" + res.Kind)
			continue
		}
		maxS := 0.0
		for _, t := range res.Timings {
			if t.Seconds > maxS {
				maxS = t.Seconds
			}
		}
		r.Eval(fmt.Sprintf("%s:%s:%d", res.Kind, res.Detail, len(res.Timings)), len(res.Timings) >= 1)
		r.Count("commits_timed", int64(len(res.Timings)))
		if l.Round < 6 {
			r.Sample(res)
		}
		if res.Problem != "" {
			r.Violation(fmt.Sprintf("C15:%s:%s", res.Kind, res.Class), map[string]any{"scenario": l.Round, "seed": r.Seed, "result": res})
		}
	}
	if len(lines) < n*9/10 {
		r.Broken("only %d of %d scenarios reported", len(lines), n)
	}
	return r.Finish(rule, assumptions, 6)
}

const rule = "contention scenarios through the public path with maxTime 2 s: 2-6 writers upserting overlapping key sets (same and opposite order), writers with a 1 s caller deadline, racing first-root creators on an empty store, writers contending with a holder that is parked inside its commit after taking its locks (mirror path pause plan) and either resumes later (then a follow-up transaction on the same keys must succeed) or never does; a dead holder with a 3 s maximum commit time whose item is contended back to back (some contender must commit within TTL + 12 s: contention must not keep a dead holder's locks alive); every Commit is timed; violated only when a Commit returns later than budget + 15 s allowance or has not returned 20 s after the call (a real hang or a wait for a lock TTL exceeds that by orders of magnitude); at most 4 scenarios run at a time; fingerprint = (kind, configuration, writers); non-trivial = at least one Commit was timed"

var assumptions = []string{"the property's statement is a wall-clock bound: a generous allowance and low harness load keep a slow machine from raising alarms", "standalone in-memory L2", "a dead holder's locks are not expected to be released before their TTL (= its maximum commit time), and are expected to be gone after it"}
