// Package c19: persisted stores hold exactly what was written, under every storage option.
package c19

import (
	"encoding/json"
	"fmt"
	"math/rand"
	"sort"
	"strconv"
	"strings"
	"time"

	"verifharness/kit/env"
	"verifharness/kit/mirror"
	"verifharness/kit/par"
	"verifharness/kit/proc"
	"verifharness/kit/report"
	"verifharness/kit/sopx"
	"verifharness/kit/txn"
)

func init() {
	proc.Register("c19-worker", func(a []string) int { return par.Serve(a, program) })
	proc.Register("c19-batch", batchChild)
}

type config struct {
	Profile sopx.Profile
	Slot    int
	MaxVal  int // value size class upper bound
}

func configOf(i int, thorough bool) config {
	slots := []int{2, 4, 8, 64}
	sizes := []int{0, 16, 700, 5000, 70000}
	if thorough {
		sizes = []int{0, 16, 700, 5000, 70000, 2 << 20}
	}
	return config{Profile: sopx.Profiles[i%4], Slot: slots[(i/4)%4], MaxVal: sizes[(i/16+i)%len(sizes)]}
}

// the program of index i: a list of batches (one transaction each), a pure function of (seed, i).
func gen(seed int64, i int, thorough bool) (config, [][]txn.Op, []txn.Model) {
	c := configOf(i, thorough)
	rnd := env.Rand(seed, fmt.Sprintf("c19-%d", i))
	nb := 3 + rnd.Intn(3)
	model := txn.Model{"s": {}}
	var batches [][]txn.Op
	var models []txn.Model
	val := func(tag string) string {
		n := 0
		if c.MaxVal > 0 {
			n = rnd.Intn(c.MaxVal + 1)
			if rnd.Intn(4) == 0 {
				n = c.MaxVal
			}
		}
		if n < len(tag) {
			if c.MaxVal == 0 {
				return ""
			}
			return tag
		}
		return tag + strings.Repeat("x", n-len(tag))
	}
	vn := 0
	if (i%4+i/4)%3 == 0 {
		// DRAIN programs (about a third of the programs, spread over placements and slot lengths): one transaction fills the store with contiguous keys (a few leaves), then every
		// further transaction removes 1-3 of them in PRNG order until the store is empty - leaves get
		// emptied and unlinked, parents keep nil children, separators next to them are removed, roots shrink
		nk := 3*c.Slot + 2
		if nk > 40 {
			nk = 40
		}
		var fill []txn.Op
		for k := 0; k < nk; k++ {
			vn++
			v := val(fmt.Sprintf("v%d.", vn))
			fill = append(fill, txn.Op{Store: "s", Kind: "add", K: txn.Key(k), V: v})
			model["s"][txn.Key(k)] = v
		}
		batches = append(batches, fill)
		models = append(models, model.Clone())
		order := rnd.Perm(nk)
		for at := 0; at < nk && len(batches) < 16; {
			var ops []txn.Op
			for n := 1 + rnd.Intn(3); n > 0 && at < nk; n-- {
				ops = append(ops, txn.Op{Store: "s", Kind: "remove", K: txn.Key(order[at])})
				delete(model["s"], txn.Key(order[at]))
				at++
			}
			batches = append(batches, ops)
			models = append(models, model.Clone())
		}
		return c, batches, models
	}
	for b := 0; b < nb; b++ {
		var ops []txn.Op
		n := 3 + rnd.Intn(18)
		cur := model.Clone()
		for j := 0; j < n; j++ {
			keys := make([]string, 0, len(cur["s"]))
			for k := range cur["s"] {
				keys = append(keys, k)
			}
			sort.Strings(keys)
			vn++
			tag := fmt.Sprintf("v%d.", vn)
			switch x := rnd.Intn(10); {
			case x < 4 || len(keys) == 0:
				k := txn.Key(rnd.Intn(120))
				if _, ok := cur["s"][k]; ok {
					continue
				}
				v := val(tag)
				ops = append(ops, txn.Op{Store: "s", Kind: "add", K: k, V: v})
				cur["s"][k] = v
			case x < 6:
				k := keys[rnd.Intn(len(keys))]
				v := val(tag)
				ops = append(ops, txn.Op{Store: "s", Kind: "update", K: k, V: v})
				cur["s"][k] = v
			case x < 7:
				k := keys[rnd.Intn(len(keys))]
				v := val(tag)
				ops = append(ops, txn.Op{Store: "s", Kind: "rmw", K: k, V: v})
				cur["s"][k] = v
			case x < 8:
				k := txn.Key(rnd.Intn(120))
				v := val(tag)
				ops = append(ops, txn.Op{Store: "s", Kind: "upsert", K: k, V: v})
				cur["s"][k] = v
			case x < 9:
				k := keys[rnd.Intn(len(keys))]
				ops = append(ops, txn.Op{Store: "s", Kind: "remove", K: k})
				delete(cur["s"], k)
			default:
				ops = append(ops, txn.Op{Store: "s", Kind: "get", K: keys[rnd.Intn(len(keys))]})
			}
		}
		model = cur
		batches = append(batches, ops)
		models = append(models, model.Clone())
	}
	return c, batches, models
}

// batchChild: args = dir seed index thorough batchNo  (batchNo == -1: only dump). Prints the cold dump
// taken BEFORE applying the batch, then applies the batch in one transaction and prints the commit result.
func batchChild(args []string) int {
	mirror.InstallGlobals()
	dir := args[0]
	seed, _ := strconv.ParseInt(args[1], 10, 64)
	idx, _ := strconv.Atoi(args[2])
	thorough := args[3] == "1"
	bn, _ := strconv.Atoi(args[4])
	db := sopx.NewDB(dir)
	c, batches, _ := gen(seed, idx, thorough)
	out := map[string]any{}
	if bn != 0 {
		out["dump"] = sopx.DumpDB(db)
	}
	if bn >= 0 {
		p := txn.Program{Ops: batches[bn]}
		if bn == 0 {
			p.Create = []txn.Spec{{Name: "s", Slot: c.Slot, Profile: c.Profile}}
		}
		if err := txn.Commit(txn.Public{DB: db}, p, 2*time.Minute); err != nil {
			out["commit_err"] = err.Error()
		}
	}
	b, _ := json.Marshal(out)
	fmt.Println(string(b))
	return 0
}

type ProgRes struct {
	Config   config   `json:"config"`
	Batches  int      `json:"batches"`
	Ops      int      `json:"ops"`
	MaxItems int      `json:"max_items"`
	Problem  string   `json:"problem,omitempty"`
	Class    string   `json:"class,omitempty"`
	AtBatch  int      `json:"at_batch"`
	Harness  string   `json:"harness,omitempty"`
	Sample   []txn.Op `json:"sample,omitempty"`
}

func program(i int, seed int64, extra []string) any {
	thorough := len(extra) > 0 && extra[0] == "1"
	th := "0"
	if thorough {
		th = "1"
	}
	c, batches, models := gen(seed, i, thorough)
	res := ProgRes{Config: c, Batches: len(batches)}
	for _, b := range batches {
		res.Ops += len(b)
	}
	for _, m := range models {
		if len(m["s"]) > res.MaxItems {
			res.MaxItems = len(m["s"])
		}
	}
	if len(batches[0]) > 6 {
		res.Sample = batches[0][:6]
		for k := range res.Sample {
			if len(res.Sample[k].V) > 24 {
				res.Sample[k].V = res.Sample[k].V[:24] + fmt.Sprintf("...(%d bytes)", len(res.Sample[k].V))
			}
		}
	}
	dir := env.Scratch("c19")
	defer env.Remove(dir)
	logDir := env.Scratch("c19log")
	defer env.Remove(logDir)
	for bn := 0; bn <= len(batches); bn++ {
		arg := bn
		if bn == len(batches) {
			arg = -1
		}
		pr := proc.Run(logDir, 300, nil, "c19-batch", dir, strconv.FormatInt(seed, 10), strconv.Itoa(i), th, strconv.Itoa(arg))
		if pr.Code != 0 {
			res.Class, res.Problem, res.AtBatch = "process-died", fmt.Sprintf("child exit %d: %s", pr.Code, tail(string(pr.Err()), 1500)), bn
			return res
		}
		var out struct {
			Dump      *sopx.Dump `json:"dump"`
			CommitErr string     `json:"commit_err"`
		}
		lines := strings.Split(strings.TrimSpace(string(pr.Out())), "\n")
		if err := json.Unmarshal([]byte(lines[len(lines)-1]), &out); err != nil {
			res.Harness = "bad child output: " + err.Error()
			return res
		}
		if out.Dump != nil && bn > 0 {
			if d := txn.DiffContent(*out.Dump, models[bn-1].Dump()); d != "" {
				res.Class, res.Problem, res.AtBatch = "cold-dump-differs-from-model", d, bn-1
				if strings.Contains(d, "COUNT-ONLY") {
					res.Class = "count-differs"
				}
				if len(res.Problem) > 1500 {
					res.Problem = res.Problem[:1500]
				}
				return res
			}
		}
		if out.CommitErr != "" {
			res.Class, res.Problem, res.AtBatch = "commit-failed", out.CommitErr, bn
			return res
		}
	}
	return res
}

func tail(s string, n int) string {
	if len(s) > n {
		return s[len(s)-n:]
	}
	return s
}

func Run(r *report.Run) int {
	n := r.Pick(32, 640)
	th := "0"
	if r.Thorough() {
		th = "1"
	}
	lines, died := par.Run(r, "c19-worker", 16, n, 1700, nil, th)
	for _, d := range died {
		r.Inconclusive("worker-died")
		r.Set("worker_death", d)
	}
	_ = rand.Int
	for _, l := range lines {
		var res ProgRes
		if json.Unmarshal(l.Res, &res) != nil {
			continue
		}
		if res.Harness != "" {
			r.Inconclusive("harness")
			continue
		}
		fp := fmt.Sprintf("%s:slot%d:val<=%d:prog%d", res.Config.Profile, res.Config.Slot, res.Config.MaxVal, l.Round)
		r.Eval(fp, res.MaxItems > res.Config.Slot) // non-trivial: the tree grew beyond one node
		r.Count("operations", int64(res.Ops))
		r.Count("transactions", int64(res.Batches))
		if l.Round < 3 {
			r.Sample(res)
		}
		if res.Problem != "" {
			r.Violation(fmt.Sprintf("C19:%s:slot%d/val<=%d:%s", res.Config.Profile, res.Config.Slot, res.Config.MaxVal, res.Class), map[string]any{"program": l.Round, "seed": r.Seed, "result": res})
		}
	}
	if len(lines) < n*9/10 {
		r.Broken("only %d of %d programs reported", len(lines), n)
	}
	return r.Finish(rule, assumptions, 16)
}

const rule = "seeded programs of add/update/read-modify-write/upsert/remove/get over a 120-key space, batched into 3-5 transactions, for every value placement x slot length {2,4,8,64} x value size class {0,16,700,5000,70000 bytes; thorough 2 MiB}; every transaction runs in its own fresh child process (cold caches) which first dumps the store; oracle: each cold dump equals the map model after the previous batch (items, order both directions, count); fingerprint = (placement, slot length, size class, program); non-trivial = the store outgrew one node"

var assumptions = []string{"public path (database.*), standalone mode", "unique string keys and string values", "one process per transaction: every dump is cold"}
