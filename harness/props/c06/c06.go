// Package c06: a store's item count always equals the number of items it contains.
package c06

import (
	"context"
	"encoding/json"
	"fmt"
	"time"

	"github.com/sharedcode/sop"

	"verifharness/kit/deco"
	"verifharness/kit/env"
	"verifharness/kit/par"
	"verifharness/kit/proc"
	"verifharness/kit/report"
	"verifharness/kit/sopx"
	"verifharness/kit/txn"
	"verifharness/props/conc"
)

func init() {
	proc.Register("c06-worker", func(a []string) int { conc.Setup(17, 20); return par.Serve(a, history) })
}

type HistRes struct {
	Sig        string   `json:"sig"`
	Slot       int      `json:"slot"`
	Profile    string   `json:"profile"`
	Procs      int      `json:"procs"`
	Committed  int      `json:"committed"`
	Failed     int      `json:"failed"`
	RolledBack int      `json:"rolled_back"`
	Injected   int      `json:"injected_failures"`
	Count      int64    `json:"count"`
	Scanned    int      `json:"scanned"`
	Log        []string `json:"log"`
	Problem    string   `json:"problem,omitempty"`
	Harness    string   `json:"harness,omitempty"`
}

// a history: several waves; in each wave 2-4 goroutines run one add/remove transaction each over a small
// key space; some transactions roll back voluntarily; in some waves ONE transaction commits alone while a
// single L2 failure is injected (so the failure can be attributed to it).
func history(i int, seed int64, _ []string) any {
	rnd := env.Rand(seed, fmt.Sprintf("c06-%d", i))
	res := HistRes{Procs: conc.Procs(i)}
	db, dir := conc.NewRoundDB("c06")
	defer env.Remove(dir)
	res.Slot = []int{2, 4, 8}[rnd.Intn(3)]
	prof := sopx.Profiles[rnd.Intn(len(sopx.Profiles))]
	res.Profile = string(prof)
	if _, err := conc.SeedStore(db, "s", res.Slot, prof, 6); err != nil {
		res.Harness = err.Error()
		return res
	}
	keyspace := 40
	waves := 4 + rnd.Intn(3)
	var allEvents []conc.Event
	mkTxn := func(id string, abort bool, nops int, r2 interface{ Intn(int) int }) func(*conc.Clock) conc.TxnRec {
		type op struct {
			add bool
			k   string
		}
		var ops []op
		for j := 0; j < nops; j++ {
			ops = append(ops, op{r2.Intn(3) != 0, fmt.Sprintf("k%04d", r2.Intn(keyspace)*3)})
		}
		delay := time.Duration(r2.Intn(2000)) * time.Microsecond
		return func(clock *conc.Clock) conc.TxnRec {
			rec := conc.TxnRec{ID: id}
			t, err := db.Begin(sop.ForWriting, time.Minute)
			if err != nil {
				rec.OpErr = err.Error()
				return rec
			}
			b, err := sopx.Open[string, string](db, t, "s")
			if err != nil {
				rec.OpErr = err.Error()
				t.Rollback(conc.Ctx)
				return rec
			}
			for _, o := range ops {
				var err error
				if o.add {
					_, err = b.Add(conc.Ctx, o.k, id)
				} else {
					_, err = b.Remove(conc.Ctx, o.k)
				}
				if err != nil {
					rec.OpErr = err.Error()
					t.Rollback(conc.Ctx)
					return rec
				}
			}
			time.Sleep(delay)
			rec.CallSeq = clock.Tick()
			if abort {
				rec.Aborted = true
				t.Rollback(conc.Ctx)
			} else {
				// caller deadline: an injected failure may leak a registry sector lock whose documented
				// 3-minute wait (C15/C07 matter) would otherwise dominate the history.
				cctx, cancel := context.WithTimeout(conc.Ctx, 8*time.Second)
				if err := t.Commit(cctx); err != nil {
					rec.Err = err.Error()
				}
				cancel()
			}
			rec.RetSeq = clock.Tick()
			return rec
		}
	}
	tid := 0
	for w := 0; w < waves; w++ {
		if rnd.Intn(3) == 0 {
			// solo transaction with one injected L2 failure somewhere in its commit
			id := fmt.Sprintf("T%d", tid)
			tid++
			labels := []string{"l2.SetStruct[storeinfo]", "l2.GetStructs[lock]", "l2.SetStructs[lock]", "l2.Lock", "l2.IsLocked", "l2.DualLock", "l2.GetStructs[handle]", "l2.Unlock", "l2.SetStruct[handle]", "l2.Delete[lock]",
				// backend calls (reached because the solo transaction runs on the mirror path)
				"sr.Update", "sr.Update", "tlog.Add(9)", "tlog.Add(10)", "tlog.Add(11)", "plog.Add", "reg.UpdateNoLocks(true)", "reg.UpdateNoLocks(false)", "blob.Add", "tlog.Add(6)", "tlog.Add(8)", "reg.Add"}
			p := deco.NewPlan(labels[rnd.Intn(len(labels))], 1+rnd.Intn(2), deco.FailBefore)
			p.NoTrace = true
			old := deco.Current()
			deco.Install(p)
			p.Arm()
			recs, ev := conc.RunRound(res.Procs, [][]func(*conc.Clock) conc.TxnRec{{mkMirrorTxn(dir, id, 1+rnd.Intn(5), rnd, keyspace)}})
			p.Disarm()
			deco.Install(old)
			allEvents = append(allEvents, ev...)
			if p.Fired() > 0 {
				res.Injected++
			}
			for _, rc := range recs {
				res.Log = append(res.Log, fmt.Sprintf("%s solo inject=%s fired=%d err=%q", rc.ID, p.Label, p.Fired(), rc.Err))
				if rc.Err != "" || rc.OpErr != "" {
					res.Failed++
				} else {
					res.Committed++
				}
			}
			continue
		}
		G := 2 + rnd.Intn(3)
		scripts := make([][]func(*conc.Clock) conc.TxnRec, G)
		for g := 0; g < G; g++ {
			id := fmt.Sprintf("T%d", tid)
			tid++
			scripts[g] = []func(*conc.Clock) conc.TxnRec{mkTxn(id, rnd.Intn(6) == 0, 1+rnd.Intn(5), rnd)}
		}
		recs, ev := conc.RunRound(res.Procs, scripts)
		allEvents = append(allEvents, ev...)
		for _, rc := range recs {
			switch {
			case rc.Aborted:
				res.RolledBack++
			case rc.Err != "" || rc.OpErr != "":
				res.Failed++
			default:
				res.Committed++
			}
			res.Log = append(res.Log, fmt.Sprintf("%s aborted=%v err=%q", rc.ID, rc.Aborted, rc.Err+rc.OpErr))
		}
	}
	res.Sig, _ = conc.InterleavingSignature(allEvents)
	// quiescent observation in a fresh transaction
	d := sopx.DumpDB(db)
	sd := d.By["s"]
	if d.Err != "" || sd.Err != "" {
		res.Problem = "store unreadable: " + d.Err + sd.Err
		return res
	}
	res.Count, res.Scanned = sd.Count, len(sd.Items)
	if int(sd.Count) != len(sd.Items) {
		res.Problem = fmt.Sprintf("Count()=%d but ordered scan returns %d items", sd.Count, len(sd.Items))
	} else if len(sd.Back) != len(sd.Items) {
		res.Problem = fmt.Sprintf("Count()=%d, forward scan %d, backward scan %d", sd.Count, len(sd.Items), len(sd.Back))
	}
	return res
}

// mkMirrorTxn builds the same kind of add/remove transaction on the mirror path, so that an injected
// failure can hit the store repository, registry, blob store and log calls of its commit as well.
func mkMirrorTxn(dir, id string, nops int, r2 interface{ Intn(int) int }, keyspace int) func(*conc.Clock) conc.TxnRec {
	type op struct {
		add bool
		k   string
	}
	var ops []op
	for j := 0; j < nops; j++ {
		ops = append(ops, op{r2.Intn(3) != 0, fmt.Sprintf("k%04d", r2.Intn(keyspace)*3)})
	}
	return func(clock *conc.Clock) conc.TxnRec {
		rec := conc.TxnRec{ID: id}
		mir := txn.Mirror{Dir: dir}
		t, err := mir.Begin(sop.ForWriting, time.Minute)
		if err != nil {
			rec.OpErr = err.Error()
			return rec
		}
		b, err := mir.Open(t, "s")
		if err != nil {
			rec.OpErr = err.Error()
			t.Rollback(conc.Ctx)
			return rec
		}
		for _, o := range ops {
			var err error
			if o.add {
				_, err = b.Add(conc.Ctx, o.k, id)
			} else {
				_, err = b.Remove(conc.Ctx, o.k)
			}
			if err != nil {
				rec.OpErr = err.Error()
				t.Rollback(conc.Ctx)
				return rec
			}
		}
		rec.CallSeq = clock.Tick()
		cctx, cancel := context.WithTimeout(conc.Ctx, 8*time.Second)
		if err := t.Commit(cctx); err != nil {
			rec.Err = err.Error()
		}
		cancel()
		rec.RetSeq = clock.Tick()
		return rec
	}
}

func Run(r *report.Run) int {
	n := r.Pick(60, 800)
	lines, died := par.Run(r, "c06-worker", 16, n, 1700, nil)
	conc.ReportDeaths(r, "C06", died)
	for _, l := range lines {
		var res HistRes
		if json.Unmarshal(l.Res, &res) != nil {
			continue
		}
		if res.Harness != "" {
			r.Inconclusive("harness")
			continue
		}
		r.Eval(res.Sig, res.Committed >= 2 && (res.Failed+res.RolledBack) >= 1)
		r.Count("committed", int64(res.Committed))
		r.Count("failed", int64(res.Failed))
		r.Count("rolled_back", int64(res.RolledBack))
		r.Count("injected_failures_fired", int64(res.Injected))
		if l.Round < 3 {
			r.Sample(res)
		}
		if res.Problem != "" {
			cls := "count-differs-from-scan"
			if len(res.Problem) > 5 && res.Problem[:5] == "store" {
				cls = "store-unreadable"
			}
			r.Violation(fmt.Sprintf("C06:history:%s:%s", res.Profile, cls), map[string]any{"history": l.Round, "seed": r.Seed, "result": res})
		}
	}
	if len(lines) < n*9/10 {
		r.Broken("only %d of %d histories reported", len(lines), n)
	}
	return r.Finish(rule, assumptions, 10)
}

const rule = "histories of 4-6 waves on a seeded store (public path): waves of 2-4 concurrent add/remove transactions over a 40-key space (some roll back voluntarily), and solo mirror-path transactions whose commit gets one injected failure (L2 store-info/lock/handle cache calls, StoreRepository.Update, registry, blob store, transaction/priority log calls); oracle at quiescence in a fresh transaction: Count() == number of items of the ordered scan (forward and backward); fingerprint = commit-order signature of the whole history; non-trivial = >=2 commits and >=1 failed or rolled-back transaction"

var assumptions = []string{"standalone in-memory L2", "checked only at quiescence (the early write of the count during phase 1 is a C03 matter)", "crash histories belong to C08"}
