// Package c12: creating and removing stores is transactional and complete.
//
// Statement (properties.jsonl C12): "A store created inside a transaction that rolls back or fails
// does not exist afterwards. Concurrent attempts to create the same store name yield a single store.
// Removing a store deletes all of it, so a new store with that name starts empty and with the new
// options."
//
// Technique: runtime monitoring through the PUBLIC path only (database.BeginTransaction / NewBtree /
// OpenBtree / RemoveBtree via kit/sopx), a fresh scratch folder per case, observations taken by fresh
// transactions of the same process AND by a cold child process (GetStores, storelist.txt, the store
// folders on disk, OpenBtree, Count and a full scan).
//
// Three scenario families (signature = C12:<family>:<site-class>:<outcome-class>):
//
//	create-abort     programs of 2..5 transactions; each creates 1..3 stores, populates them and ends by
//	                 commit | rollback | commit that fails on a write conflict | NewBtree error (incompatible
//	                 options on an existing store) | OpenBtree error (missing store) | Commit with a cancelled
//	                 context. Names are reused, so "create, abort, create again with other options" occurs.
//	                 site-class = <ending>+<what the transaction logged last: after-create | after-active-add>.
//	create-race      2..6 creators, each its own transaction, create the same name (same or differing
//	                 options), add items, end by commit or rollback. Quick tier: deterministic schedules only
//	                 (scripted interleaving from one goroutine; "gated" = the NewBtree lookup/add race replayed
//	                 through a gate on the store-list lock, see gateCache); thorough tier adds really parallel
//	                 goroutines. Every Commit is bounded by a 10 s context deadline (inconclusive when hit).
//	                 WEAKER READING CHOSEN DELIBERATELY: only "at most one entry with that name; if at least
//	                 one creator committed the store exists, opens, Count()==scan length, its options are one
//	                 creator's options and its items were written by some creator" is asserted. That every
//	                 committed creator's items survive is NOT asserted (README "Swarm Computing": the un-seeded
//	                 first commit may suffer a documented "random drop"); lost items are only counted.
//	                 site-class = add-race-loser | creator-rolled-back | creator-commit-failed | opener-aborted |
//	                 all-committed | none-committed (| creator-aborted in the parallel modes), see raceSite.
//	remove-recreate  create + populate + commit (1..3 commits), RemoveBtree, observe, re-create under the same
//	                 name with flipped slot length / uniqueness / value placement, populate, observe; layouts
//	                 single folder and replicated (2 stores folders + 1+1 erasure coding on 2 more folders,
//	                 run in a child process because replication keeps process-global state).
package c12

import (
	"context"
	"encoding/json"
	"fmt"
	"math/rand"
	"os"
	"path/filepath"
	"sort"
	"strings"
	"sync"
	"time"

	"github.com/sharedcode/sop"
	"github.com/sharedcode/sop/btree"
	"github.com/sharedcode/sop/cache"
	"github.com/sharedcode/sop/database"

	"verifharness/kit/env"
	"verifharness/kit/proc"
	"verifharness/kit/report"
	"verifharness/kit/sopx"
)

// ---------------------------------------------------------------------------------------------
// database layout, store options
// ---------------------------------------------------------------------------------------------

type dbSpec struct {
	Folders []string `json:"folders"`      // 1 = single folder, 2 = active/passive
	EC      []string `json:"ec,omitempty"` // erasure-coding drive folders (replicated layout)
	Gated   bool     `json:"-"`            // transactions use the gate wrapper around the in-memory L2 cache
}

func (s dbSpec) db() sopx.DB {
	o := sop.DatabaseOptions{StoresFolders: s.Folders, CacheType: sop.InMemory}
	if s.Gated {
		o.CacheType = gateCacheType
	}
	if len(s.EC) > 0 {
		o.ErasureConfig = map[string]sop.ErasureCodingConfig{
			"": {DataShardsCount: 1, ParityShardsCount: 1, BaseFolderPathsAcrossDrives: s.EC},
		}
	}
	return sopx.DB{Dir: s.Folders[0], Opts: o}
}

func (s dbSpec) allFolders() []string { return append(append([]string{}, s.Folders...), s.EC...) }

func newSpec(layout string) dbSpec {
	root := env.Scratch("c12")
	if layout != "replicated" {
		return dbSpec{Folders: []string{root}}
	}
	sp := dbSpec{Folders: []string{root + "/a", root + "/b"}, EC: []string{root + "/d1", root + "/d2"}}
	for _, f := range sp.allFolders() {
		_ = os.MkdirAll(f, 0o755)
	}
	return sp
}

func (s dbSpec) remove() {
	root := s.Folders[0]
	if len(s.Folders) > 1 {
		root = filepath.Dir(root)
	}
	env.Remove(root)
}

type storeOpts struct {
	Slot    int          `json:"slot"`
	Unique  bool         `json:"unique"`
	Profile sopx.Profile `json:"profile"`
}

func (o storeOpts) so(name string) sop.StoreOptions {
	return sopx.Options(name, o.Slot, o.Unique, o.Profile)
}

// essentials renders what sopx.OptsString prints first for these options.
func (o storeOpts) essentials(name string) string {
	so := o.so(name)
	return fmt.Sprintf("name=%s slot=%d unique=%v innode=%v active=%v gcached=%v ", name, so.SlotLength, so.IsUnique,
		so.IsValueDataInNodeSegment, so.IsValueDataActivelyPersisted, so.IsValueDataGloballyCached)
}

var slotPool = []int{2, 4, 8, 16}

func randOpts(rnd *rand.Rand) storeOpts {
	return storeOpts{Slot: slotPool[rnd.Intn(len(slotPool))], Unique: rnd.Intn(2) == 0, Profile: sopx.Profiles[rnd.Intn(len(sopx.Profiles))]}
}

// flipOpts changes slot length, uniqueness and value placement.
func flipOpts(rnd *rand.Rand, o storeOpts) storeOpts {
	n := o
	for n.Slot == o.Slot {
		n.Slot = slotPool[rnd.Intn(len(slotPool))]
	}
	n.Unique = !o.Unique
	for n.Profile == o.Profile {
		n.Profile = sopx.Profiles[rnd.Intn(len(sopx.Profiles))]
	}
	return n
}

// ---------------------------------------------------------------------------------------------
// observation (same code in-process and in the cold child)
// ---------------------------------------------------------------------------------------------

type probe struct {
	Folders map[string]bool `json:"folders"` // <folder>/<name> -> exists
	OpenErr string          `json:"open_err"`
	Opened  bool            `json:"opened"`
}

type observation struct {
	Stores    []string                  `json:"stores"`
	StoresErr string                    `json:"stores_err,omitempty"`
	ListFiles map[string][]string       `json:"list_files"` // stores folder -> storelist.txt content (nil = no file)
	Dumps     map[string]sopx.StoreDump `json:"dumps"`      // every listed or probed name that opened
	Probes    map[string]probe          `json:"probes"`
}

func dumpStore(d sopx.DB, name string) (sopx.StoreDump, error) {
	t, err := d.Begin(sop.ForReading)
	if err != nil {
		return sopx.StoreDump{}, fmt.Errorf("begin: %w", err)
	}
	defer t.Rollback(sopx.Ctx)
	b, err := sopx.Open[string, string](d, t, name)
	if err != nil {
		return sopx.StoreDump{}, err
	}
	return sopx.ScanStore(b), nil
}

func observe(sp dbSpec, names []string) observation {
	d := sp.db()
	o := observation{ListFiles: map[string][]string{}, Dumps: map[string]sopx.StoreDump{}, Probes: map[string]probe{}}
	t, err := d.Begin(sop.ForReading)
	if err != nil {
		o.StoresErr = "begin: " + err.Error()
	} else {
		st, err := t.GetStores(sopx.Ctx)
		if err != nil {
			o.StoresErr = "getstores: " + err.Error()
		}
		o.Stores = append([]string{}, st...)
		sort.Strings(o.Stores)
		t.Rollback(sopx.Ctx)
	}
	for _, f := range sp.Folders {
		ba, err := os.ReadFile(filepath.Join(f, "storelist.txt"))
		if err != nil {
			o.ListFiles[f] = nil
			continue
		}
		var l []string
		if err := json.Unmarshal(ba, &l); err != nil {
			l = []string{"<unparsable storelist.txt: " + err.Error() + ">"}
		}
		sort.Strings(l)
		if l == nil {
			l = []string{}
		}
		o.ListFiles[f] = l
	}
	all := map[string]bool{}
	for _, n := range names {
		all[n] = true
	}
	for _, n := range o.Stores {
		all[n] = true
	}
	for n := range all {
		p := probe{Folders: map[string]bool{}}
		for _, f := range sp.allFolders() {
			_, err := os.Stat(filepath.Join(f, n))
			p.Folders[filepath.Join(f, n)] = err == nil
		}
		sd, err := dumpStore(d, n)
		if err != nil {
			p.OpenErr = err.Error()
		} else {
			p.Opened = true
			o.Dumps[n] = sd
		}
		o.Probes[n] = p
	}
	return o
}

type observeReq struct {
	Spec  dbSpec   `json:"spec"`
	Names []string `json:"names"`
}

func init() {
	proc.Register("c12-observe", func(args []string) int {
		if len(args) != 1 {
			return proc.ExitHarness
		}
		ba, err := os.ReadFile(args[0])
		var rq observeReq
		if err != nil || json.Unmarshal(ba, &rq) != nil {
			return proc.ExitHarness
		}
		out, _ := json.Marshal(observe(rq.Spec, rq.Names))
		fmt.Println("OBS " + string(out))
		return proc.ExitOK
	})
	proc.Register("c12-rr", func(args []string) int {
		if len(args) != 1 {
			return proc.ExitHarness
		}
		ba, err := os.ReadFile(args[0])
		var pl rrPlan
		if err != nil || json.Unmarshal(ba, &pl) != nil {
			return proc.ExitHarness
		}
		res := runRRSteps(pl)
		out, _ := json.Marshal(res)
		fmt.Println("RES " + string(out))
		return proc.ExitOK
	})
}

// childJSON runs a child role with one JSON request file and decodes the line starting with tag.
func childJSON(role, tag string, req any, out any) error {
	logDir := env.Scratch("c12-log")
	defer env.Remove(logDir)
	ba, _ := json.Marshal(req)
	rf := filepath.Join(logDir, "request.json") // the case is on disk before the child starts
	if err := os.WriteFile(rf, ba, 0o644); err != nil {
		return err
	}
	res := proc.Run(logDir, 120, nil, role, rf)
	for _, line := range strings.Split(string(res.Out()), "\n") {
		if strings.HasPrefix(line, tag+" ") {
			return json.Unmarshal([]byte(strings.TrimPrefix(line, tag+" ")), out)
		}
	}
	e := string(res.Err())
	if len(e) > 600 {
		e = e[len(e)-600:]
	}
	return fmt.Errorf("child %s exit=%d stderr-tail=%q", role, res.Code, e)
}

func observeCold(sp dbSpec, names []string) (observation, error) {
	var o observation
	err := childJSON("c12-observe", "OBS", observeReq{sp, names}, &o)
	return o, err
}

// ---------------------------------------------------------------------------------------------
// model and comparison
// ---------------------------------------------------------------------------------------------

type wantStore struct {
	Opts  storeOpts `json:"opts"`
	Items []sopx.KV `json:"items"`
}

type finding struct {
	Outcome string         `json:"outcome"`
	Site    string         `json:"site"`
	Detail  map[string]any `json:"detail"`
}

func sortedKV(in []sopx.KV) []sopx.KV {
	out := append([]sopx.KV{}, in...)
	sort.Slice(out, func(i, j int) bool {
		if out[i].K != out[j].K {
			return out[i].K < out[j].K
		}
		return out[i].V < out[j].V
	})
	return out
}

func sameItems(a, b []sopx.KV) bool {
	a, b = sortedKV(a), sortedKV(b)
	if len(a) != len(b) {
		return false
	}
	for i := range a {
		if a[i] != b[i] {
			return false
		}
	}
	return true
}

func countOf(l []string, n string) int {
	c := 0
	for _, x := range l {
		if x == n {
			c++
		}
	}
	return c
}

// checkModel compares an observation with the model: stores that must exist (with options and
// content) and ghosts (names that must not exist; value = site class for the signature).
func checkModel(where string, o observation, model map[string]*wantStore, ghosts map[string]string, committedSite string) []finding {
	var fs []finding
	add := func(outcome, site string, d map[string]any) {
		d["observed_by"] = where
		fs = append(fs, finding{outcome, site, d})
	}
	if o.StoresErr != "" {
		add("getstores-failed", committedSite, map[string]any{"err": o.StoresErr})
		return fs
	}
	for name, site := range ghosts {
		p := o.Probes[name]
		dd := map[string]any{"store": name, "getstores": o.Stores, "list_files": o.ListFiles, "probe": p}
		listed := countOf(o.Stores, name) > 0
		inFile, folder := false, false
		for _, l := range o.ListFiles {
			if countOf(l, name) > 0 {
				inFile = true
			}
		}
		for _, ex := range p.Folders {
			if ex {
				folder = true
			}
		}
		dd["listed_by_getstores"], dd["in_storelist_file"], dd["folder_on_disk"], dd["opens"] = listed, inFile, folder, p.Opened
		if p.Opened {
			dd["dump"] = o.Dumps[name]
		}
		switch {
		case listed || p.Opened:
			add("store-exists", site, dd)
		case inFile || folder:
			add("remnants-on-disk", site, dd)
		}
	}
	for name, w := range model {
		if c := countOf(o.Stores, name); c != 1 {
			if c == 0 {
				add("committed-store-missing", committedSite, map[string]any{"store": name, "getstores": o.Stores, "probe": o.Probes[name]})
			} else {
				add("duplicate-entry", committedSite, map[string]any{"store": name, "getstores": o.Stores})
			}
			continue
		}
		p := o.Probes[name]
		if !p.Opened {
			add("committed-store-unopenable", committedSite, map[string]any{"store": name, "open_err": p.OpenErr})
			continue
		}
		sd := o.Dumps[name]
		if sd.Err != "" {
			add("committed-store-unreadable", committedSite, map[string]any{"store": name, "err": sd.Err})
			continue
		}
		if !strings.HasPrefix(sd.Opts, w.Opts.essentials(name)) {
			add("options-differ", committedSite, map[string]any{"store": name, "observed": sd.Opts, "wanted_prefix": w.Opts.essentials(name)})
		}
		if sd.Count != int64(len(w.Items)) || !sameItems(sd.Items, w.Items) {
			add("content-differs", committedSite, map[string]any{"store": name, "observed_count": sd.Count, "observed_items": sd.Items, "wanted_items": sortedKV(w.Items)})
		}
	}
	for _, n := range o.Stores {
		if _, ok := model[n]; !ok {
			if _, g := ghosts[n]; !g {
				add("unknown-store-listed", committedSite, map[string]any{"store": n})
			}
		}
	}
	return fs
}

func namesOf(model map[string]*wantStore, ghosts map[string]string) []string {
	var out []string
	for n := range model {
		out = append(out, n)
	}
	for n := range ghosts {
		out = append(out, n)
	}
	sort.Strings(out)
	return out
}

// ---------------------------------------------------------------------------------------------
// family 1: create-abort
// ---------------------------------------------------------------------------------------------

type createPlan struct {
	Name  string    `json:"name"`
	Opts  storeOpts `json:"opts"`
	Items int       `json:"items"`
}

type txPlan struct {
	Creates   []createPlan `json:"creates"`
	TouchBase bool         `json:"touch_base"`
	Ending    string       `json:"ending"`
}

type abortPlan struct {
	Seed int64    `json:"seed"`
	Salt string   `json:"salt"`
	Txs  []txPlan `json:"txs"`
}

var endings = []string{"commit", "rollback", "commit-conflict", "newbtree-incompatible", "open-missing", "commit-ctx-cancelled"}

const baseStore = "base"

var baseOpts = storeOpts{Slot: 4, Unique: true, Profile: sopx.InNode}

func genAbortPlan(rnd *rand.Rand, seed int64, salt string, forceEnding string, forceProfile sopx.Profile) abortPlan {
	p := abortPlan{Seed: seed, Salt: salt}
	pool := []string{"sA", "sB", "sC", "sD"}
	ntx := 2 + rnd.Intn(4)
	forcedAt := rnd.Intn(ntx)
	for i := 0; i < ntx; i++ {
		tx := txPlan{Ending: endings[rnd.Intn(len(endings))], TouchBase: rnd.Intn(3) == 0}
		nc := 1 + rnd.Intn(3)
		perm := rnd.Perm(len(pool))
		for j := 0; j < nc; j++ {
			o := randOpts(rnd)
			forced := i == forcedAt && j == nc-1 // the forced creation is the LAST one of its transaction
			if forced {
				o.Profile = forceProfile
			}
			items := rnd.Intn(3 * o.Slot)
			if forced && items == 0 {
				items = 1 + rnd.Intn(o.Slot)
			}
			tx.Creates = append(tx.Creates, createPlan{Name: pool[perm[j]], Opts: o, Items: items})
		}
		if i == forcedAt {
			tx.Ending = forceEnding
		}
		p.Txs = append(p.Txs, tx)
	}
	return p
}

type caseResult struct {
	findings   []finding
	nontrivial bool
	unusable   string
	fp         string
	notes      map[string]any
	endStats   []string
}

func cancelled() context.Context {
	c, cancel := context.WithCancel(context.Background())
	cancel()
	return c
}

func runAbort(pl abortPlan) (res caseResult) {
	res.notes = map[string]any{}
	sp := newSpec("single")
	defer sp.remove()
	d := sp.db()
	model := map[string]*wantStore{}
	ghosts := map[string]string{}

	// seed transaction: the base store (committed, 3 items)
	{
		t, err := d.Begin(sop.ForWriting)
		if err != nil {
			res.unusable = "begin seed: " + err.Error()
			return
		}
		b, err := sopx.New[string, string](d, t, baseOpts.so(baseStore))
		if err != nil {
			res.unusable = "create base: " + err.Error()
			return
		}
		w := &wantStore{Opts: baseOpts}
		for i := 0; i < 3; i++ {
			k, v := fmt.Sprintf("b%d", i), "seed"
			b.Add(sopx.Ctx, k, v)
			w.Items = append(w.Items, sopx.KV{K: k, V: v})
		}
		if err := t.Commit(sopx.Ctx); err != nil {
			res.unusable = "commit seed: " + err.Error()
			return
		}
		model[baseStore] = w
	}

	var fpParts []string
	abortedCreations := 0
	for ti, tx := range pl.Txs {
		t, err := d.Begin(sop.ForWriting)
		if err != nil {
			res.unusable = fmt.Sprintf("tx %d begin: %v", ti, err)
			return
		}
		pending := map[string]*wantStore{}
		pendingBase := ""
		dead := "" // set when the transaction was ended by an error inside an API call
		created := []createPlan{}
		// what the transaction logged last: a store creation or an actively persisted item add
		lastLogged := "after-create"
		for _, c := range tx.Creates {
			if _, exists := model[c.Name]; exists {
				continue // committed earlier: NewBtree would open it, that is not a creation
			}
			b, err := sopx.New[string, string](d, t, c.Opts.so(c.Name))
			if err != nil {
				// Not planned: e.g. a leftover of an earlier aborted creation with other options.
				dead = "newbtree-error"
				res.notes[fmt.Sprintf("tx%d-newbtree-%s", ti, c.Name)] = err.Error()
				break
			}
			created = append(created, c)
			lastLogged = "after-create"
			w := &wantStore{Opts: c.Opts}
			for i := 0; i < c.Items; i++ {
				k, v := fmt.Sprintf("%s-k%03d", c.Name, i), fmt.Sprintf("tx%d-%d", ti, i)
				ok, err := b.Add(sopx.Ctx, k, v)
				if err != nil || !ok {
					dead = "add-error"
					res.notes[fmt.Sprintf("tx%d-add-%s", ti, c.Name)] = fmt.Sprintf("ok=%v err=%v", ok, err)
					break
				}
				w.Items = append(w.Items, sopx.KV{K: k, V: v})
				if c.Opts.Profile == sopx.SepActive {
					lastLogged = "after-active-add"
				}
			}
			if dead != "" {
				break
			}
			pending[c.Name] = w
		}
		ending := tx.Ending
		if dead == "" && (tx.TouchBase || ending == "commit-conflict") {
			b, err := sopx.Open[string, string](d, t, baseStore)
			if err == nil {
				var ok bool
				if ok, err = b.Find(sopx.Ctx, "b0", false); ok && err == nil {
					if _, err = b.GetCurrentValue(sopx.Ctx); err == nil {
						pendingBase = fmt.Sprintf("tx%d", ti)
						_, err = b.Update(sopx.Ctx, "b0", pendingBase)
					}
				}
			}
			if err != nil {
				dead = "touch-base-error"
				res.notes[fmt.Sprintf("tx%d-touch-base", ti)] = err.Error()
			}
		}
		var endErr error
		if dead != "" {
			ending = dead
			endErr = fmt.Errorf("%s", dead)
			t.Rollback(sopx.Ctx)
		} else {
			switch ending {
			case "commit":
				endErr = t.Commit(sopx.Ctx)
			case "rollback":
				if err := t.Rollback(sopx.Ctx); err != nil {
					res.notes[fmt.Sprintf("tx%d-rollback-returned", ti)] = err.Error()
				}
				endErr = fmt.Errorf("rolled back")
			case "commit-conflict":
				t2, err := d.Begin(sop.ForWriting)
				if err != nil {
					res.unusable = "interloper begin: " + err.Error()
					return
				}
				b2, err := sopx.Open[string, string](d, t2, baseStore)
				if err != nil {
					res.unusable = "interloper open: " + err.Error()
					return
				}
				iv := fmt.Sprintf("interloper%d", ti)
				if ok, err := b2.Update(sopx.Ctx, "b0", iv); err != nil || !ok {
					res.unusable = fmt.Sprintf("interloper update: ok=%v err=%v", ok, err)
					return
				}
				if err := t2.Commit(sopx.Ctx); err != nil {
					res.unusable = "interloper commit: " + err.Error()
					return
				}
				setItem(model[baseStore], "b0", iv)
				endErr = t.Commit(sopx.Ctx)
			case "newbtree-incompatible":
				bad := baseOpts
				bad.Slot = 8
				_, endErr = sopx.New[string, string](d, t, bad.so(baseStore))
				if endErr == nil {
					endErr = t.Commit(sopx.Ctx) // not rejected: an ordinary commit then
				} else {
					t.Rollback(sopx.Ctx)
				}
			case "open-missing":
				_, endErr = sopx.Open[string, string](d, t, "nosuchstore")
				if endErr == nil {
					endErr = t.Commit(sopx.Ctx)
				} else {
					t.Rollback(sopx.Ctx)
				}
			case "commit-ctx-cancelled":
				endErr = t.Commit(cancelled())
				if endErr == nil {
					res.notes[fmt.Sprintf("tx%d-cancelled-commit-succeeded", ti)] = true
				} else {
					t.Rollback(sopx.Ctx)
				}
			}
		}
		committed := endErr == nil
		part := ending
		if committed {
			part += "=ok"
			res.endStats = append(res.endStats, ending+":committed")
			for n, w := range pending {
				model[n] = w
				delete(ghosts, n)
			}
			if pendingBase != "" {
				setItem(model[baseStore], "b0", pendingBase)
			}
		} else {
			for _, c := range created {
				if _, isCommitted := model[c.Name]; !isCommitted {
					ghosts[c.Name] = ending + "+" + lastLogged
					abortedCreations++
				}
				part += "+" + string(c.Opts.Profile)
			}
			part += "/" + lastLogged
			res.endStats = append(res.endStats, ending+":failed")
		}
		fpParts = append(fpParts, part)

		o := observe(sp, namesOf(model, ghosts))
		if fs := checkModel("same-process", o, model, ghosts, "after-"+ending); len(fs) > 0 {
			for i := range fs {
				fs[i].Detail["tx_index"] = ti
				fs[i].Detail["end_error"] = fmt.Sprint(endErr)
			}
			res.findings = fs
			break // later steps would only show consequences
		}
	}
	res.fp = "create-abort:" + strings.Join(fpParts, ",")
	if len(res.findings) == 0 {
		oc, err := observeCold(sp, namesOf(model, ghosts))
		if err != nil {
			res.unusable = "cold observer: " + err.Error()
			return
		}
		res.findings = checkModel("cold-process", oc, model, ghosts, "after-program")
	}
	res.nontrivial = abortedCreations > 0
	return
}

func setItem(w *wantStore, k, v string) {
	for i := range w.Items {
		if w.Items[i].K == k {
			w.Items[i].V = v
			return
		}
	}
	w.Items = append(w.Items, sopx.KV{K: k, V: v})
}

// ---------------------------------------------------------------------------------------------
// the gate: a deterministic stand-in for "two creators pass NewBtree's existence check before either adds"
// ---------------------------------------------------------------------------------------------

// gateCache wraps the process's in-memory L2 cache (public seam sop.RegisterL2CacheFactory). Its only
// own behaviour: while armed, the next DualLock on the store-list lock key (the first thing
// StoreRepository.Add does, i.e. AFTER NewBtree's StoreRepository.Get found nothing) parks its caller
// until released. Everything else, including that DualLock itself afterwards, is the real cache.
type gateCache struct {
	sop.L2Cache
	mu      sync.Mutex
	armed   bool
	release chan struct{}
	arrived chan struct{}
}

const gateCacheType = sop.L2CacheType(1212)

var theGate *gateCache

func setupGate() error {
	if theGate != nil {
		return nil
	}
	if _, err := database.ValidateOptions(sop.DatabaseOptions{CacheType: sop.InMemory}); err != nil {
		return err
	}
	inner := sop.GetL2Cache(sop.TransactionOptions{CacheType: sop.InMemory})
	if inner == nil {
		return fmt.Errorf("no in-memory L2 cache registered")
	}
	cache.GetGlobalL1Cache(inner) // bind the process-wide L1 cache to the real cache first
	theGate = &gateCache{L2Cache: inner}
	sop.RegisterL2CacheFactory(gateCacheType, func(sop.TransactionOptions) sop.L2Cache { return theGate })
	return nil
}

// arm makes the next store-list DualLock park; returns the channels to wait on / release with.
func (g *gateCache) arm() (arrived <-chan struct{}, release chan<- struct{}) {
	g.mu.Lock()
	defer g.mu.Unlock()
	g.armed = true
	g.arrived, g.release = make(chan struct{}), make(chan struct{})
	return g.arrived, g.release
}

func (g *gateCache) disarm() {
	g.mu.Lock()
	g.armed = false
	g.mu.Unlock()
}

func (g *gateCache) DualLock(ctx context.Context, d time.Duration, keys []*sop.LockKey) (bool, sop.UUID, error) {
	for _, k := range keys {
		if strings.HasSuffix(k.Key, ":infs_sr") {
			g.mu.Lock()
			if g.armed {
				g.armed = false
				arrived, release := g.arrived, g.release
				g.mu.Unlock()
				close(arrived)
				<-release
			} else {
				g.mu.Unlock()
			}
			break
		}
	}
	return g.L2Cache.DualLock(ctx, d, keys)
}

// ---------------------------------------------------------------------------------------------
// family 2: create-race
// ---------------------------------------------------------------------------------------------

// Modes:
//
//	scripted         2..4 transactions driven from one goroutine; their steps (begin+NewBtree, adds, end)
//	                 are interleaved by the PRNG; each ends by commit or rollback. Deterministic and fast.
//	gated            the creation race proper, made deterministic: 1..N-1 creators run begin+NewBtree up to the
//	                 point where NewBtree has found no such store and is about to add it (parked at the gate,
//	                 see gateCache); then one creator runs NewBtree to completion; then the parked ones are
//	                 released one at a time in a PRNG order; remaining creators join later; adds and endings are
//	                 interleaved from one goroutine. A pure function of the plan, no real concurrency decides.
//	parallel-create  (thorough tier only) the begin+NewBtree steps run in parallel goroutines behind a barrier;
//	                 adds and endings are then interleaved from one goroutine.
//	parallel-full    (thorough tier only) everything in parallel.
//
// Every Commit of this family gets a context with a 10 s deadline: two creators that both register the
// first root node make the library wait out its 3-minute sector-lock timeout (fs/hashmap.fileregion.go).
// A round in which a Commit ran into that deadline has no verdict (inconclusive), never a violation.
//
// Value placement SepActive is left out of this family: its rollback path has its own site class in
// create-abort and would only be aliased here.
type racePlan struct {
	Seed        int64       `json:"seed"`
	Salt        string      `json:"salt"`
	Mode        string      `json:"mode"`
	N           int         `json:"creators"`
	Opts        []storeOpts `json:"opts"`
	Ends        []string    `json:"ends"` // commit | rollback per creator
	Items       int         `json:"items_each"`
	Preexisting bool        `json:"another_store_exists"`
	StaggerUs   []int       `json:"stagger_us,omitempty"`
	Creator     int         `json:"creator"`           // scripted, gated: whose NewBtree finds no store and runs to completion first
	Parked      []int       `json:"parked,omitempty"`  // gated: creators parked between NewBtree's lookup and its add, in parking order
	Release     []int       `json:"release,omitempty"` // gated: order in which the parked creators are released
	Order       [][2]int    `json:"order"`             // scripted steps: (creator, step) with step 0=begin+NewBtree 1=adds 2=end
}

type creatorResult struct {
	End         string `json:"end"`
	NewErr      string `json:"newbtree_err,omitempty"`
	AddErr      string `json:"add_err,omitempty"`
	CommitErr   string `json:"commit_err,omitempty"`
	Committed   bool   `json:"committed"`
	DeadlineHit bool   `json:"commit_deadline_hit,omitempty"`
}

const (
	raceStore      = "raced"
	commitDeadline = 10 * time.Second
)

var raceProfiles = []sopx.Profile{sopx.InNode, sopx.Separate, sopx.SepCached}

func raceOpts(rnd *rand.Rand) storeOpts {
	o := randOpts(rnd)
	o.Profile = raceProfiles[rnd.Intn(len(raceProfiles))]
	return o
}

func genRacePlan(rnd *rand.Rand, seed int64, salt, mode string, n int, mixed bool) racePlan {
	p := racePlan{Seed: seed, Salt: salt, Mode: mode, N: n, Items: 1 + rnd.Intn(3), Preexisting: rnd.Intn(2) == 0, Creator: -1}
	first := raceOpts(rnd)
	for i := 0; i < n; i++ {
		o := first
		if mixed && i > 0 && rnd.Intn(2) == 0 {
			o = raceOpts(rnd)
		}
		p.Opts = append(p.Opts, o)
		if strings.HasPrefix(mode, "parallel") {
			p.StaggerUs = append(p.StaggerUs, rnd.Intn(3)*rnd.Intn(400))
		}
		end := "commit"
		if mode != "parallel-full" && rnd.Intn(3) == 0 {
			end = "rollback"
		}
		p.Ends = append(p.Ends, end)
	}
	if mode == "parallel-full" {
		return p
	}
	p.Ends[rnd.Intn(n)] = "commit"
	// first step of every creator that the interleaving below still has to schedule
	next := make([]int, n)
	switch mode {
	case "parallel-create":
		for i := range next {
			next[i] = 1 // step 0 happens in the goroutines
		}
	case "gated":
		perm := rnd.Perm(n)
		p.Creator = perm[0]
		k := 1 + rnd.Intn(n-1)
		p.Parked = append([]int{}, perm[1:1+k]...)
		p.Release = append([]int{}, p.Parked...)
		rnd.Shuffle(len(p.Release), func(i, j int) { p.Release[i], p.Release[j] = p.Release[j], p.Release[i] })
		next[p.Creator] = 1
		for _, i := range p.Parked {
			next[i] = 1
		}
	}
	remaining := 0
	for i := range next {
		remaining += 3 - next[i]
	}
	// random merge of the per-creator step sequences
	for remaining > 0 {
		i := rnd.Intn(n)
		if next[i] > 2 {
			continue
		}
		if mode == "scripted" && p.Creator < 0 {
			p.Creator = i // the first begin+NewBtree of the round
		}
		p.Order = append(p.Order, [2]int{i, next[i]})
		next[i]++
		remaining--
	}
	return p
}

func runRace(pl racePlan) (res caseResult) {
	res.notes = map[string]any{}
	sp := newSpec("single")
	defer sp.remove()
	if pl.Mode == "gated" {
		if err := setupGate(); err != nil {
			res.unusable = "gate: " + err.Error()
			return
		}
		sp.Gated = true
	}
	d := sp.db()
	model := map[string]*wantStore{}
	if pl.Preexisting {
		t, err := d.Begin(sop.ForWriting)
		if err != nil {
			res.unusable = "begin: " + err.Error()
			return
		}
		b, err := sopx.New[string, string](d, t, baseOpts.so(baseStore))
		if err != nil {
			res.unusable = "create base: " + err.Error()
			return
		}
		b.Add(sopx.Ctx, "b0", "seed")
		if err := t.Commit(sopx.Ctx); err != nil {
			res.unusable = "commit base: " + err.Error()
			return
		}
		model[baseStore] = &wantStore{Opts: baseOpts, Items: []sopx.KV{{K: "b0", V: "seed"}}}
	}
	results := make([]creatorResult, pl.N)
	txs := make([]sop.Transaction, pl.N)
	trees := make([]btree.BtreeInterface[string, string], pl.N)
	dead := make([]bool, pl.N)
	for i := range results {
		results[i].End = pl.Ends[i]
	}
	stepNew := func(i int) {
		t, err := d.Begin(sop.ForWriting, 2*time.Minute)
		if err != nil {
			results[i].NewErr = "begin: " + err.Error()
			dead[i] = true
			return
		}
		txs[i] = t
		b, err := sopx.New[string, string](d, t, pl.Opts[i].so(raceStore))
		if err != nil {
			results[i].NewErr = err.Error()
			t.Rollback(sopx.Ctx)
			dead[i] = true
			return
		}
		trees[i] = b
	}
	stepAdd := func(i int) {
		if dead[i] {
			return
		}
		for j := 0; j < pl.Items; j++ {
			if ok, err := trees[i].Add(sopx.Ctx, fmt.Sprintf("g%d-k%d", i, j), fmt.Sprintf("g%d", i)); err != nil || !ok {
				results[i].AddErr = fmt.Sprintf("ok=%v err=%v", ok, err)
				txs[i].Rollback(sopx.Ctx)
				dead[i] = true
				return
			}
		}
	}
	stepEnd := func(i int) {
		if dead[i] {
			return
		}
		if pl.Ends[i] == "rollback" {
			if err := txs[i].Rollback(sopx.Ctx); err != nil {
				results[i].CommitErr = "rollback returned: " + err.Error()
			}
			return
		}
		cctx, cancel := context.WithTimeout(context.Background(), commitDeadline)
		err := txs[i].Commit(cctx)
		expired := cctx.Err() != nil
		cancel()
		if err != nil {
			results[i].CommitErr = err.Error()
			results[i].DeadlineHit = expired || strings.Contains(err.Error(), "deadline exceeded")
			txs[i].Rollback(sopx.Ctx)
			return
		}
		results[i].Committed = true
	}
	guarded := func(i int, f func(i int)) {
		defer func() {
			if p := recover(); p != nil {
				results[i].CommitErr = fmt.Sprintf("panic: %v", p)
				dead[i] = true
			}
		}()
		f(i)
	}
	const watchdog = 2 * time.Minute // no verdict when it expires, never a violation
	inParallel := func(f func(i int)) bool {
		start := make(chan struct{})
		var wg sync.WaitGroup
		for i := 0; i < pl.N; i++ {
			wg.Add(1)
			go func(i int) {
				defer wg.Done()
				<-start
				if us := pl.StaggerUs[i]; us > 0 { // schedule perturbation only, never consulted by the oracle
					time.Sleep(time.Duration(us) * time.Microsecond)
				}
				guarded(i, f)
			}(i)
		}
		done := make(chan struct{})
		go func() { wg.Wait(); close(done) }()
		close(start)
		select {
		case <-done:
			return true
		case <-time.After(watchdog):
			return false
		}
	}
	// gatedCreate: park, create, release (see "Modes").
	gatedCreate := func() bool {
		type parkedT struct {
			release chan<- struct{}
			done    chan struct{}
		}
		parked := map[int]parkedT{}
		for _, i := range pl.Parked {
			arrived, release := theGate.arm()
			done := make(chan struct{})
			go func(i int) { defer close(done); guarded(i, stepNew) }(i)
			select {
			case <-arrived:
				parked[i] = parkedT{release, done}
			case <-done: // NewBtree ended without trying to add the store: nothing to park
				theGate.disarm()
			case <-time.After(watchdog):
				theGate.disarm()
				return false
			}
		}
		res.notes["parked_at_the_gate"] = len(parked)
		guarded(pl.Creator, stepNew)
		for _, i := range pl.Release {
			pk, ok := parked[i]
			if !ok {
				continue
			}
			close(pk.release)
			select {
			case <-pk.done:
			case <-time.After(watchdog):
				return false
			}
		}
		return true
	}
	overlap := true
	switch pl.Mode {
	case "parallel-full":
		if !inParallel(func(i int) { stepNew(i); stepAdd(i); stepEnd(i) }) {
			res.unusable = "race-watchdog"
			return
		}
	default:
		if pl.Mode == "parallel-create" && !inParallel(stepNew) {
			res.unusable = "race-watchdog"
			return
		}
		if pl.Mode == "gated" && !gatedCreate() {
			res.unusable = "race-watchdog"
			return
		}
		began, ended := map[int]int{}, map[int]int{}
		for pos, st := range pl.Order {
			switch st[1] {
			case 0:
				began[st[0]] = pos
				guarded(st[0], stepNew)
			case 1:
				guarded(st[0], stepAdd)
			case 2:
				ended[st[0]] = pos
				guarded(st[0], stepEnd)
			}
		}
		if pl.Mode == "scripted" {
			overlap = false
			for i := 0; i < pl.N; i++ {
				for j := 0; j < pl.N; j++ {
					if i != j && began[i] < began[j] && began[j] < ended[i] {
						overlap = true
					}
				}
			}
		}
	}
	for _, r := range results {
		if r.DeadlineHit {
			res.unusable = "commit-deadline"
			res.notes["creators"] = results
			return
		}
	}
	committed, newErrs, commitErrs, rolledBack := 0, 0, 0, 0
	for _, r := range results {
		switch {
		case r.Committed:
			committed++
		case r.NewErr != "":
			newErrs++
		case r.End == "rollback" && r.AddErr == "":
			rolledBack++
		default:
			commitErrs++
		}
	}
	mixed := false
	for _, o := range pl.Opts {
		if o != pl.Opts[0] {
			mixed = true
		}
	}
	res.fp = fmt.Sprintf("create-race:%s:n=%d:mixed=%v:pre=%v:committed=%d:rolledback=%d:newerr=%d:commiterr=%d", pl.Mode, pl.N, mixed, pl.Preexisting,
		committed, rolledBack, newErrs, commitErrs)
	res.nontrivial = pl.N >= 2 && overlap
	res.notes["creators"] = results
	res.notes["committed"] = committed
	res.notes["mode"] = pl.Mode

	check := func(where string, o observation) []finding {
		var fs []finding
		add := func(outcome, site string, dd map[string]any) {
			dd["observed_by"] = where
			dd["creators"] = results
			fs = append(fs, finding{outcome, site, dd})
		}
		// the bystander store must be untouched
		fs = append(fs, checkModel(where, o, model, map[string]string{}, "bystander-store")...)
		kept := fs[:0]
		for _, f := range fs {
			if f.Outcome != "unknown-store-listed" {
				kept = append(kept, f)
			}
		}
		fs = kept
		site := raceSite(pl, results, committed)
		inList := countOf(o.Stores, raceStore)
		if inList > 1 {
			add("duplicate-entry", site, map[string]any{"getstores": o.Stores})
		}
		for f, l := range o.ListFiles {
			if countOf(l, raceStore) > 1 {
				add("duplicate-entry", site, map[string]any{"folder": f, "storelist": l})
			}
		}
		p := o.Probes[raceStore]
		if committed == 0 {
			// Part (1) of the statement: every creator failed, so whoever created the store failed.
			if inList > 0 || p.Opened {
				add("store-exists", site, map[string]any{"getstores": o.Stores, "probe": p})
			}
			return fs
		}
		if inList == 0 {
			add("store-missing", site, map[string]any{"getstores": o.Stores, "list_files": o.ListFiles, "probe": p})
			return fs
		}
		if !p.Opened {
			add("store-unopenable", site, map[string]any{"open_err": p.OpenErr, "probe": p})
			return fs
		}
		sd := o.Dumps[raceStore]
		if msg := sd.SelfConsistent(); msg != "" {
			add("store-inconsistent", site, map[string]any{"why": msg, "dump": sd})
			return fs
		}
		okOpts := false
		for _, op := range pl.Opts {
			if strings.HasPrefix(sd.Opts, op.essentials(raceStore)) {
				okOpts = true
			}
		}
		if !okOpts {
			add("foreign-options", site, map[string]any{"observed": sd.Opts, "creators_options": pl.Opts})
		}
		for _, it := range sd.Items {
			var g, k int
			if n, _ := fmt.Sscanf(it.K, "g%d-k%d", &g, &k); n != 2 || g >= pl.N || k >= pl.Items || it.V != fmt.Sprintf("g%d", g) {
				add("foreign-items", site, map[string]any{"item": it})
				break
			}
		}
		return fs
	}
	o := observe(sp, append(namesOf(model, nil), raceStore))
	res.findings = check("same-process", o)
	if p, ok := o.Probes[raceStore]; ok && p.Opened && committed > 0 {
		// measured only (weaker reading): items of committed creators that are gone
		lost := committed*pl.Items - len(o.Dumps[raceStore].Items)
		res.notes["items_of_committed_creators_missing"] = lost
	}
	if len(res.findings) == 0 {
		oc, err := observeCold(sp, append(namesOf(model, nil), raceStore))
		if err != nil {
			res.unusable = "cold observer: " + err.Error()
			return
		}
		res.findings = check("cold-process", oc)
	}
	return
}

// raceSite names which of the ways a creator can take the store away from the others was in play. It only
// labels a violation found by the oracle, it never decides one.
//
//	add-race-loser         some creator lost the StoreRepository.Add race inside NewBtree
//	creator-rolled-back    the creator (scripted/gated: whose NewBtree made the store) ended by Rollback
//	creator-commit-failed  the creator's Commit returned an error
//	opener-aborted         the creator committed, some other creator did not
//	creator-aborted        parallel modes: who made the store is unknown, some creator did not commit
func raceSite(pl racePlan, results []creatorResult, committed int) string {
	if committed == 0 {
		return "none-committed"
	}
	for _, cr := range results {
		if strings.Contains(cr.NewErr, "can't add store") {
			return "add-race-loser"
		}
	}
	if pl.Creator >= 0 && !results[pl.Creator].Committed {
		if pl.Ends[pl.Creator] == "rollback" {
			return "creator-rolled-back"
		}
		return "creator-commit-failed"
	}
	for _, cr := range results {
		if !cr.Committed {
			if pl.Creator >= 0 {
				return "opener-aborted"
			}
			return "creator-aborted"
		}
	}
	return "all-committed"
}

// ---------------------------------------------------------------------------------------------
// family 3: remove-recreate
// ---------------------------------------------------------------------------------------------

type rrPlan struct {
	Seed       int64     `json:"seed"`
	Salt       string    `json:"salt"`
	Layout     string    `json:"layout"`
	Spec       dbSpec    `json:"spec"`
	Old        storeOpts `json:"old"`
	New        storeOpts `json:"new"`
	OldItems   int       `json:"old_items"`
	OldCommits int       `json:"old_commits"`
	NewItems   int       `json:"new_items"`
	WarmRead   bool      `json:"warm_read_before_remove"`
	Keep       bool      `json:"second_store_must_survive"`
	Queued     bool      `json:"remove_queued_behind_store_list_lock_while_a_reader_opens_the_store"`
}

type rrResult struct {
	Findings []finding      `json:"findings"`
	Unusable string         `json:"unusable,omitempty"`
	Notes    map[string]any `json:"notes"`
}

const (
	rrStore   = "victim"
	keepStore = "keeper"
)

var keepOpts = storeOpts{Slot: 4, Unique: true, Profile: sopx.Separate}

func genRRPlan(rnd *rand.Rand, seed int64, salt, layout string) rrPlan {
	old := randOpts(rnd)
	p := rrPlan{Seed: seed, Salt: salt, Layout: layout, Old: old, New: flipOpts(rnd, old),
		OldCommits: 1 + rnd.Intn(3), WarmRead: rnd.Intn(2) == 0, Keep: rnd.Intn(2) == 0}
	p.OldItems = 1 + rnd.Intn(3*old.Slot)
	p.NewItems = rnd.Intn(3 * p.New.Slot)
	p.Queued = layout != "replicated" && rnd.Intn(2) == 0
	return p
}

func rrKey(i int) string { return fmt.Sprintf("k%03d", i) }

// rrModels is the pure function plan -> (model before removal, model after re-creation).
func rrModels(pl rrPlan) (before, after map[string]*wantStore) {
	before, after = map[string]*wantStore{}, map[string]*wantStore{}
	ow := &wantStore{Opts: pl.Old}
	for i := 0; i < pl.OldItems; i++ {
		ow.Items = append(ow.Items, sopx.KV{K: rrKey(i), V: fmt.Sprintf("old-%d", i)})
	}
	before[rrStore] = ow
	nw := &wantStore{Opts: pl.New}
	for i := 0; i < pl.NewItems; i++ {
		nw.Items = append(nw.Items, sopx.KV{K: rrKey(i), V: fmt.Sprintf("new-%d", i)})
	}
	if pl.NewItems > 0 && !pl.New.Unique {
		nw.Items = append(nw.Items, sopx.KV{K: rrKey(0), V: "dup"})
	}
	after[rrStore] = nw
	if pl.Keep {
		kw := &wantStore{Opts: keepOpts}
		for i := 0; i < 5; i++ {
			kw.Items = append(kw.Items, sopx.KV{K: rrKey(i), V: "keep"})
		}
		before[keepStore], after[keepStore] = kw, kw
	}
	return
}

// runRRSteps executes create / populate / remove / observe / re-create / observe in THIS process.
func runRRSteps(pl rrPlan) (res rrResult) {
	res.Notes = map[string]any{}
	sp := pl.Spec
	if pl.Queued {
		if err := setupGate(); err != nil {
			res.Unusable = "gate: " + err.Error()
			return
		}
		sp.Gated = true
	}
	d := sp.db()
	site := pl.Layout
	before, after := rrModels(pl)
	fail := func(outcome string, dd map[string]any) {
		res.Findings = append(res.Findings, finding{outcome, site, dd})
	}

	// 1. create + populate over OldCommits commits
	per := (pl.OldItems + pl.OldCommits - 1) / pl.OldCommits
	next := 0
	for c := 0; c < pl.OldCommits; c++ {
		t, err := d.Begin(sop.ForWriting)
		if err != nil {
			res.Unusable = "begin: " + err.Error()
			return
		}
		b, err := sopx.New[string, string](d, t, pl.Old.so(rrStore))
		if err != nil {
			res.Unusable = "create old: " + err.Error()
			return
		}
		for i := 0; i < per && next < pl.OldItems; i++ {
			if ok, err := b.Add(sopx.Ctx, rrKey(next), fmt.Sprintf("old-%d", next)); err != nil || !ok {
				res.Unusable = fmt.Sprintf("add old: ok=%v err=%v", ok, err)
				return
			}
			next++
		}
		if c == 0 && pl.Keep {
			kb, err := sopx.New[string, string](d, t, keepOpts.so(keepStore))
			if err != nil {
				res.Unusable = "create keeper: " + err.Error()
				return
			}
			for i := 0; i < 5; i++ {
				kb.Add(sopx.Ctx, rrKey(i), "keep")
			}
		}
		if err := t.Commit(sopx.Ctx); err != nil {
			res.Unusable = "commit old: " + err.Error()
			return
		}
	}
	if pl.WarmRead {
		o := observe(sp, namesOf(before, nil))
		if fs := checkModel("same-process", o, before, nil, site); len(fs) > 0 {
			res.Unusable = fmt.Sprintf("store wrong before removal (not C12's subject): %s %v", fs[0].Outcome, fs[0].Detail)
			return
		}
	}

	// 2. remove
	if pl.Queued {
		// the removal has to queue for the store-list lock (it parks at the gate); while it waits another
		// session opens the store and reads its count; then the lock is granted and the removal completes
		arrived, release := theGate.arm()
		done := make(chan error, 1)
		go func() { done <- database.RemoveBtree(sopx.Ctx, d.Opts, rrStore) }()
		parked := false
		var rerr error
		finished := false
		select {
		case <-arrived:
			parked = true
		case rerr = <-done:
			finished = true
		case <-time.After(15 * time.Second):
			theGate.disarm()
			res.Unusable = "queued RemoveBtree neither parked nor returned within 15 s"
			return
		}
		if parked {
			if t, err := d.Begin(sop.ForReading); err == nil {
				if b, err := sopx.Open[string, string](d, t, rrStore); err == nil {
					res.Notes["count_read_while_the_removal_was_queued"] = b.Count()
				}
				t.Rollback(sopx.Ctx)
			}
			close(release)
			select {
			case rerr = <-done:
				finished = true
			case <-time.After(60 * time.Second):
			}
		}
		theGate.disarm()
		if !finished {
			res.Unusable = "queued RemoveBtree did not return within 60 s after the lock was released"
			return
		}
		if rerr != nil {
			res.Unusable = "RemoveBtree returned: " + rerr.Error()
			return
		}
	} else if err := database.RemoveBtree(sopx.Ctx, d.Opts, rrStore); err != nil {
		res.Unusable = "RemoveBtree returned: " + err.Error()
		return
	}
	remaining := map[string]*wantStore{}
	if pl.Keep {
		remaining[keepStore] = before[keepStore]
	}
	o := observe(sp, append(namesOf(remaining, nil), rrStore))
	for _, f := range checkModel("same-process", o, remaining, map[string]string{rrStore: site}, site) {
		switch f.Outcome {
		case "store-exists":
			f.Outcome = "still-exists-after-remove"
		case "remnants-on-disk":
			f.Outcome = "remnants-after-remove"
		default:
			f.Outcome = "other-store-damaged-by-remove/" + f.Outcome
		}
		res.Findings = append(res.Findings, f)
	}
	if len(res.Findings) > 0 {
		return
	}

	// 3. re-create with flipped options
	t, err := d.Begin(sop.ForWriting)
	if err != nil {
		res.Unusable = "begin recreate: " + err.Error()
		return
	}
	b, err := sopx.New[string, string](d, t, pl.New.so(rrStore))
	if err != nil {
		fail("recreate-rejected", map[string]any{"err": err.Error()})
		return
	}
	first, ferr := b.First(sopx.Ctx)
	if b.Count() != 0 || first || ferr != nil {
		fail("not-empty-at-creation", map[string]any{"count": b.Count(), "first": first, "first_err": fmt.Sprint(ferr)})
		t.Rollback(sopx.Ctx)
		return
	}
	if got := sopx.OptsString(b.GetStoreInfo()); !strings.HasPrefix(got, pl.New.essentials(rrStore)) {
		fail("old-options-visible", map[string]any{"at": "creation", "observed": got, "wanted_prefix": pl.New.essentials(rrStore)})
		t.Rollback(sopx.Ctx)
		return
	}
	for i := 0; i < pl.NewItems; i++ {
		if ok, err := b.Add(sopx.Ctx, rrKey(i), fmt.Sprintf("new-%d", i)); err != nil || !ok {
			fail("old-items-visible", map[string]any{"at": "add into the new store", "key": rrKey(i), "ok": ok, "err": fmt.Sprint(err)})
			t.Rollback(sopx.Ctx)
			return
		}
	}
	if pl.NewItems > 0 {
		// behavioural check of the uniqueness option of the NEW store
		ok, err := b.Add(sopx.Ctx, rrKey(0), "dup")
		if err != nil || ok == pl.New.Unique {
			fail("old-options-visible", map[string]any{"at": "duplicate-key add", "new_unique": pl.New.Unique, "add_ok": ok, "err": fmt.Sprint(err)})
			t.Rollback(sopx.Ctx)
			return
		}
	}
	if err := t.Commit(sopx.Ctx); err != nil {
		res.Unusable = "commit recreate: " + err.Error()
		return
	}
	o = observe(sp, namesOf(after, nil))
	res.Findings = append(res.Findings, renameRR(checkModel("same-process", o, after, nil, site))...)
	return
}

func renameRR(fs []finding) []finding {
	for i := range fs {
		switch fs[i].Outcome {
		case "content-differs":
			if fs[i].Detail["store"] == rrStore {
				fs[i].Outcome = "old-items-visible"
			}
		case "options-differ":
			if fs[i].Detail["store"] == rrStore {
				fs[i].Outcome = "old-options-visible"
			}
		}
	}
	return fs
}

func runRR(pl rrPlan) (res caseResult) {
	res.notes = map[string]any{}
	sp := newSpec(pl.Layout)
	defer sp.remove()
	pl.Spec = sp
	var rr rrResult
	if pl.Layout == "replicated" {
		if err := childJSON("c12-rr", "RES", pl, &rr); err != nil {
			res.unusable = "scenario child: " + err.Error()
			return
		}
	} else {
		rr = runRRSteps(pl)
	}
	res.fp = fmt.Sprintf("remove-recreate:%s:%s>%s:slot%d>%d:uniq%v>%v:commits=%d:warm=%v:keep=%v:new=%v", pl.Layout, pl.Old.Profile, pl.New.Profile,
		pl.Old.Slot, pl.New.Slot, pl.Old.Unique, pl.New.Unique, pl.OldCommits, pl.WarmRead, pl.Keep, pl.NewItems > 0)
	res.notes = rr.Notes
	if rr.Unusable != "" {
		res.unusable = rr.Unusable
		return
	}
	res.findings = rr.Findings
	res.nontrivial = pl.OldItems > 0
	if len(res.findings) == 0 {
		_, after := rrModels(pl)
		oc, err := observeCold(sp, namesOf(after, nil))
		if err != nil {
			res.unusable = "cold observer: " + err.Error()
			return
		}
		res.findings = renameRR(checkModel("cold-process", oc, after, nil, pl.Layout))
	}
	return
}

// ---------------------------------------------------------------------------------------------
// driver
// ---------------------------------------------------------------------------------------------

const rule = "three PRNG-generated case families (pure function of VERIF_SEED and tier): create-abort programs (2..5 transactions, 1..3 store " +
	"creations each, 6 endings, every ending x placement profile forced at least once per 24 programs), create-race rounds (2..6 creators, same or " +
	"mixed options, with/without a pre-existing other store; modes scripted interleaving / gated (1..N-1 creators parked between NewBtree's lookup and its add while another creates, then released one by one: the creation race as a pure function of the plan) / parallel NewBtree and fully parallel goroutines (thorough tier only); every Commit bounded by a 10 s context deadline, a round that hits it is inconclusive), remove-recreate sequences (single-folder and replicated layout, all three options " +
	"flipped). Fingerprint = family + the sequence of (ending, profiles) | (creators, outcome counts) | (layout, option flips, commits). " +
	"Non-trivial: create-abort = at least one aborted transaction had really created a store; create-race = two or more creators whose transactions overlapped (scripted: one began between another's begin and end; gated: always); remove-recreate = the removed store held items. Every case is observed by fresh " +
	"transactions of the same process and by a cold child process."

var assumptions = []string{
	"standalone database (in-memory L2 cache), public path only; one fresh scratch folder tree per case",
	"create-race asserts only the weaker reading (one consistent store whose options/items come from the creators); lost items of committed creators are counted (items_lost_in_races), not reported, because the README documents the un-seeded first-commit drop",
	"a cancelled context passed to Commit counts as 'the transaction fails' (part 1 of the statement)",
	"the replicated layout is 2 stores folders + erasure coding 1 data + 1 parity shard on 2 further folders, executed in a child process",
	"RemoveBtree returning an error, a watchdog expiry, or a race-round Commit that ran into its 10 s context deadline yields an inconclusive case, never a violation",
	"the gated mode reaches the library through the public seam sop.RegisterL2CacheFactory: a wrapper around the real in-memory L2 cache that only delays one DualLock call on the store-list lock key",
}

func Run(r *report.Run) int {
	rnd := env.Rand(r.Seed, "c12-plan")
	nAbort := r.Pick(20, 240)
	nScripted, nGated, nParCreate, nParFull := r.Pick(6, 120), r.Pick(6, 90), r.Pick(0, 30), r.Pick(0, 10)
	nRRs, nRRr := r.Pick(6, 100), r.Pick(2, 40)
	only := os.Getenv("VERIF_C12_ONLY") // development aid: run one family

	type job struct {
		kind string
		run  func() caseResult
		lit  any
	}
	var jobs, background []job
	// forced (ending, profile) pairs: the actively persisted placement first, then the rest of the 6 x 4 grid
	var pairs, rest [][2]string
	for _, e := range endings {
		for _, p := range sopx.Profiles {
			pr := [2]string{e, string(p)}
			if e == "commit" { // a plain commit aborts nothing; force a rollback instead
				pr[0] = "rollback"
			}
			if p == sopx.SepActive {
				pairs = append(pairs, pr)
			} else {
				rest = append(rest, pr)
			}
		}
	}
	rnd.Shuffle(len(rest), func(i, j int) { rest[i], rest[j] = rest[j], rest[i] })
	pairs = append(pairs, rest...)
	for i := 0; i < nAbort; i++ {
		pr := pairs[i%len(pairs)]
		salt := fmt.Sprintf("abort-%d", i)
		pl := genAbortPlan(env.Rand(r.Seed, salt), r.Seed, salt, pr[0], sopx.Profile(pr[1]))
		jobs = append(jobs, job{"create-abort", func() caseResult { return runAbort(pl) }, pl})
	}
	for i := 0; i < nScripted+nGated+nParCreate+nParFull; i++ {
		mode, n := "scripted", 2+i%3
		switch {
		case i >= nScripted+nGated+nParCreate:
			mode, n = "parallel-full", 2+i%5
		case i >= nScripted+nGated:
			mode, n = "parallel-create", 2+i%5
		case i >= nScripted:
			mode, n = "gated", 2+i%3
		}
		salt := fmt.Sprintf("race-%d", i)
		pl := genRacePlan(env.Rand(r.Seed, salt), r.Seed, salt, mode, n, i%3 == 2)
		j := job{"create-race", func() caseResult { return runRace(pl) }, pl}
		if mode == "parallel-full" {
			background = append(background, j)
		} else {
			jobs = append(jobs, j)
		}
	}
	for i := 0; i < nRRs+nRRr; i++ {
		layout := "single"
		if i >= nRRs {
			layout = "replicated"
		}
		salt := fmt.Sprintf("rr-%d", i)
		pl := genRRPlan(env.Rand(r.Seed, salt), r.Seed, salt, layout)
		jobs = append(jobs, job{"remove-recreate", func() caseResult { return runRR(pl) }, pl})
	}
	// interleave the families so that process-wide caches see a mixed history
	rnd.Shuffle(len(jobs), func(i, j int) { jobs[i], jobs[j] = jobs[j], jobs[i] })
	if only != "" {
		keep := func(in []job) (out []job) {
			for _, j := range in {
				if j.kind == only {
					out = append(out, j)
				}
			}
			return
		}
		jobs, background = keep(jobs), keep(background)
	}
	r.Set("planned_cases", len(jobs)+len(background))

	sampled := map[string]int{}
	record := func(j job, res caseResult, ms int64) {
		r.Count("wall_ms_"+j.kind, ms)
		if res.unusable != "" {
			r.Inconclusive(j.kind + ":" + short(res.unusable))
			r.Count("unusable_"+j.kind, 1)
			if n := r.Counter("unusable_" + j.kind); n <= 2 {
				r.Set(fmt.Sprintf("unusable_example_%s_%d", j.kind, n), map[string]any{"case": j.lit, "why": res.unusable})
			}
			r.Eval(j.kind+":unusable", false)
			return
		}
		r.Eval(res.fp, res.nontrivial)
		r.Count("cases_"+j.kind, 1)
		if res.nontrivial {
			r.Count("nontrivial_"+j.kind, 1)
		}
		for _, e := range res.endStats {
			r.Count("abort_tx_"+e, 1)
		}
		if sampled[j.kind] < 2 {
			sampled[j.kind]++
			r.Sample(map[string]any{"family": j.kind, "case": j.lit, "fingerprint": res.fp})
		}
		if j.kind == "create-race" {
			mode, _ := res.notes["mode"].(string)
			r.Count("race_rounds_"+mode, 1)
			if c, ok := res.notes["committed"].(int); ok {
				r.Count(fmt.Sprintf("race_rounds_with_%d_committed", c), 1)
			}
			if l, ok := res.notes["items_of_committed_creators_missing"].(int); ok && l > 0 {
				r.Count("items_lost_in_races", int64(l))
				r.Count("race_rounds_with_lost_items", 1)
			}
		}
		seen := map[string]bool{}
		for _, f := range res.findings {
			sig := fmt.Sprintf("C12:%s:%s:%s", j.kind, f.Site, f.Outcome)
			if seen[sig] {
				continue // one report per signature and case
			}
			seen[sig] = true
			r.Count("finding:"+sig, 1)
			if dbg := os.Getenv("VERIF_C12_DEBUG"); dbg != "" && strings.Contains(sig, dbg) { // development aid
				ba, _ := json.Marshal(map[string]any{"sig": sig, "case": j.lit, "finding": f})
				fmt.Fprintln(os.Stderr, string(ba))
			}
			r.Violation(sig, map[string]any{"case": j.lit, "fingerprint": res.fp, "finding": f, "notes": res.notes})
		}
	}

	// fully parallel rounds may sit in the library's 3-minute lock wait: run them beside the rest
	type bgRes struct {
		res caseResult
		ms  int64
	}
	bg := make([]chan bgRes, len(background))
	for i, j := range background {
		bg[i] = make(chan bgRes, 1)
		go func(i int, j job) {
			t0 := time.Now()
			res := safely(j.run)
			bg[i] <- bgRes{res, time.Since(t0).Milliseconds()}
		}(i, j)
	}
	for _, j := range jobs {
		t0 := time.Now()
		res := safely(j.run)
		record(j, res, time.Since(t0).Milliseconds())
	}
	for i, j := range background {
		b := <-bg[i]
		record(j, b.res, b.ms)
	}
	return r.Finish(rule, assumptions, 20)
}

func short(s string) string {
	if i := strings.Index(s, ":"); i > 0 {
		s = s[:i]
	}
	if len(s) > 40 {
		s = s[:40]
	}
	return s
}

func safely(f func() caseResult) (res caseResult) {
	defer func() {
		if p := recover(); p != nil {
			res = caseResult{unusable: fmt.Sprintf("panic in harness or library: %v", p)}
		}
	}()
	return f()
}
