// Package c09: work left by a crashed transaction is recovered by later transactions.
package c09

import (
	"fmt"
	"strings"

	"verifharness/kit/env"
	"verifharness/kit/report"
	"verifharness/props/crash"
)

func Run(r *report.Run) int {
	shapes := []string{"S6-updates", "S4-split", "S7-removes"}
	if r.Thorough() {
		shapes = []string{"S6-updates", "S4-split", "S7-removes", "S3-leaf-insert", "S8-mixed", "S9-multistore", "S5-rootsplit"}
	}
	logDir := env.Scratch("c09log")
	scs := crash.Plan(r, logDir, shapes, false)
	// C09 is about whole-call crash points; torn block writes are C08/C22 matters
	var sel []crash.Scenario
	for _, s := range scs {
		if s.Act != "torn" {
			sel = append(sel, s)
		}
	}
	cases := crash.Sweep(logDir, sel, true, 16)
	planned, hit := 0, 0
	for i, c := range cases {
		planned++
		s := c.Scenario
		fp := fmt.Sprintf("%s:aged=%v:%s#%d:%s", s.Shape, s.Aged, s.Label, s.Ord, s.Act)
		if c.VictimExit != 77 {
			r.Inconclusive("crash-site-not-reached")
			r.Eval(fp, false)
			continue
		}
		hit++
		r.Eval(fp, true)
		if c.Harness != "" {
			r.Inconclusive("harness-or-dead-child(C08 judges these)")
			continue
		}
		if i%61 == 0 {
			r.Sample(map[string]any{"scenario": s, "translogs_after_recovery": c.Walk1.Translogs, "touch_steps": c.Steps2})
		}
		site := s.Phase + ":" + s.Label + "/" + s.Act
		w := c.Walk1
		if c.Walk2 != nil {
			w = *c.Walk2
		}
		var logs, plgs []string
		for _, f := range w.Translogs {
			switch {
			case strings.HasSuffix(f, ".plg"):
				plgs = append(plgs, f)
			case strings.HasSuffix(f, ".log"):
				logs = append(logs, f)
			}
		}
		if len(logs) > 0 {
			r.Violation(fmt.Sprintf("C09:%s:%s:transaction-log-not-removed", s.Shape, site), map[string]any{"files": logs, "case": c})
		}
		if len(plgs) > 0 {
			r.Violation(fmt.Sprintf("C09:%s:%s:priority-log-not-removed", s.Shape, site), map[string]any{"files": plgs, "case": c})
		}
		for name, sw := range w.By {
			// A stale inactive id / WIP timestamp that has expired is cleared lazily by the next writer
			// and blocks nobody: the statement's clause is "no longer blocks other writers", which the
			// touch writer below decides. The leftover state is only counted.
			_ = name
			r.Count("reachable_handles_still_carrying_staged_state(observed, not judged)", int64(len(sw.StagedHandles)))
		}
		for _, st := range c.Steps2 {
			if st.Slow {
				r.Inconclusive("step-missed-its-deadline-on-a-slow-machine")
			}
			if st.Kind == "touch" && st.Err != "" {
				r.Violation(fmt.Sprintf("C09:%s:%s:later-writer-of-same-items-blocked", s.Shape, site), map[string]any{"step": st, "case": c})
			}
		}
		r.Count("translog_files_after_recovery", int64(len(w.Translogs)))
	}
	r.Count("crash_points_planned", int64(planned))
	r.Count("crash_points_hit", int64(hit))
	if planned == 0 || hit*100 < planned*95 {
		r.Broken("only %d of %d planned crashes hit", hit, planned)
	}
	return r.Finish(rule, assumptions, 40)
}

const rule = "C08's victims (whole-call crash points) followed by the same cold recovery schedule (clock at +6 min, +75 min, +4 h 10 min and six 6-minute steps, read and write transactions per store), then a writer that upserts exactly the keys the victim was changing and two more read transactions; bounded-progress oracle: afterwards no <tid>.log / .plg file of the crashed transaction remains under translogs/, and that writer committed (staged inactive ids / delete marks left on handles are counted, not judged: expired ones block nobody); fingerprint = (shape, site, ordinal, action); non-trivial = victim died at the planned site"

var assumptions = []string{"'eventually' restated as bounded progress: within ~20 later transactions after the clock passed 70 min (priority logs: 6 min)", "standalone mode only (clustered half not built)", "clock advanced through sop.Now"}
