// Package atom: E-ATOM engine (DESIGN §4) — program generator × plan engine × dump oracle, run by
// worker child processes (one planned case at a time per process, because the plan is process-global).
package atom

import (
	"bufio"
	"context"
	"encoding/json"
	"fmt"
	"os"
	"sort"
	"strconv"
	"strings"
	"sync"
	"time"

	"github.com/sharedcode/sop"

	"verifharness/kit/deco"
	"verifharness/kit/env"
	"verifharness/kit/mirror"
	"verifharness/kit/proc"
	"verifharness/kit/report"
	"verifharness/kit/sopx"
	"verifharness/kit/txn"
)

// Case result emitted by a worker (one JSON line).
type Result struct {
	Prog      int          `json:"prog"`
	Shape     string       `json:"shape"`
	Site      string       `json:"site"` // label#ord, "" for fault-free / rollback cases
	Label     string       `json:"label"`
	Form      string       `json:"form"` // commit | rollback | fail-before | fail-after | refuse
	Fired     int          `json:"fired"`
	CommitErr string       `json:"commit_err"`
	Committed bool         `json:"committed"`
	WarmDiff  string       `json:"warm_diff"` // "" = dump equals the state the Commit result demands
	Slow      bool         `json:"slow_machine,omitempty"`
	RetryErr  string       `json:"retry_err"`  // C07: error of the fault-free retry ("" ok / "n/a")
	RetryDiff string       `json:"retry_diff"` // C07: dump after retry vs after
	Dir       string       `json:"dir"`
	Expect    string       `json:"expect"` // before | after  (what the cold dump must equal)
	Program   *txn.Program `json:"program,omitempty"`
	Census    []string     `json:"census,omitempty"`
	Harness   string       `json:"harness,omitempty"` // harness-level problem => inconclusive
	Ms        int64        `json:"ms"`
}

func init() {
	proc.Register("atom-worker", worker)
	proc.Register("atom-colddump", coldDump)
}

// Config of a worker run.
type Config struct {
	Seed     int64    `json:"seed"`
	Prog     int      `json:"prog"`
	Shape    string   `json:"shape"`
	Forms    []string `json:"forms"` // fault forms to enumerate at every census site
	Retry    bool     `json:"retry"` // C07: fault-free retry of the same program
	Base     string   `json:"base"`  // scratch base dir for this worker
	Profile  string   `json:"profile"`
	Slot     int      `json:"slot"`
	MaxSites int      `json:"max_sites"`      // 0 = all
	Aged     bool     `json:"aged,omitempty"` // every baseline node was updated by an earlier committed transaction
}

func specsFor(cfg Config) []txn.Spec {
	prof := sopx.Profile(cfg.Profile)
	specs := []txn.Spec{{Name: "alpha", Slot: cfg.Slot, Profile: prof}}
	if cfg.Shape == "S0-first-root" {
		specs = append(specs, txn.Spec{Name: "fresh", Slot: []int{2, 4, 8}[cfg.Prog%3], Profile: prof, Empty: true})
	}
	if cfg.Shape == "S9-multistore" {
		specs = append(specs, txn.Spec{Name: "beta", Slot: 4, Profile: sopx.Separate}, txn.Spec{Name: "gamma", Slot: 2, Profile: sopx.InNode})
	}
	return specs
}

// one planned case.
func runCase(cfg Config, n int, label string, ord int, form string) Result {
	t0 := time.Now()
	ctx := context.Background()
	res := Result{Prog: cfg.Prog, Shape: cfg.Shape, Form: form, Label: label}
	if label != "" {
		res.Site = deco.SiteID(label, ord)
	}
	dir := fmt.Sprintf("%s/case-%d", cfg.Base, n)
	os.MkdirAll(dir, 0o755)
	res.Dir = dir
	db := sopx.NewDB(dir)
	pub := txn.Public{DB: db}
	mir := txn.Mirror{Dir: dir}
	specs := specsFor(cfg)
	basep, before := txn.Baseline(specs, 9)
	if err := txn.Commit(pub, basep, time.Minute); err != nil {
		res.Harness = "baseline commit failed: " + err.Error()
		return res
	}
	if cfg.Aged {
		// rewrite every baseline item with the value it already has: same content, but every leaf has been
		// through an update commit (both physical ids of its handle have been used)
		var age txn.Program
		for _, sp := range specs {
			for k, v := range before[sp.Name] {
				age.Ops = append(age.Ops, txn.Op{Store: sp.Name, Kind: "update", K: k, V: v})
			}
		}
		sort.Slice(age.Ops, func(a, b int) bool { return age.Ops[a].Store+age.Ops[a].K < age.Ops[b].Store+age.Ops[b].K })
		if err := txn.Commit(pub, age, time.Minute); err != nil {
			res.Harness = "ageing commit failed: " + err.Error()
			return res
		}
	}
	// the program is a pure function of (seed, prog, shape): identical for every site of this worker
	rnd := env.Rand(cfg.Seed, fmt.Sprintf("atom-%d-%s", cfg.Prog, cfg.Shape))
	prog := txn.Gen(rnd, cfg.Shape, before, specs, fmt.Sprintf("p%d", cfg.Prog))
	after := before.Apply(prog)
	if n == 0 {
		res.Program = &prog
	}
	t, err := mir.Begin(sop.ForWriting, 15*time.Minute)
	if err != nil {
		res.Harness = "mirror begin: " + err.Error()
		return res
	}
	if r, err := txn.Run(mir, t, prog); err != nil || r != nil {
		res.Harness = fmt.Sprintf("program op failed before commit: %v %+v", err, r)
		t.Rollback(ctx)
		return res
	}
	var plan *deco.Plan
	switch form {
	case "commit", "rollback":
		plan = deco.NewPlan("", 0, deco.None)
	default:
		plan = deco.NewPlan(label, ord, deco.Action(form))
	}
	deco.Install(plan)
	plan.Arm()
	var cerr error
	if form == "rollback" {
		cerr = t.Rollback(ctx)
		if cerr != nil {
			res.CommitErr = "rollback: " + cerr.Error()
		}
	} else {
		cerr = t.Commit(ctx)
		if cerr != nil {
			res.CommitErr = cerr.Error()
		}
	}
	plan.Disarm()
	deco.Install(nil)
	res.Fired = plan.Fired()
	if label == "" {
		res.Census = plan.Trace()
	}
	res.Committed = form != "rollback" && cerr == nil
	expected := before
	res.Expect = "before"
	if res.Committed {
		expected = after
		res.Expect = "after"
	}
	res.WarmDiff = txn.DiffContent(sopx.DumpDB(db), expected.Dump())
	res.RetryErr = "n/a"
	if cfg.Retry && !res.Committed && form != "rollback" {
		// fault-free retry of the same changes, no clock advance, 5 s budget vs 15 min lock TTL
		rerr := txn.Commit(mir, prog, 5*time.Second)
		res.RetryErr = ""
		if rerr != nil {
			res.RetryErr = rerr.Error()
			if (strings.Contains(res.RetryErr, "timed out") || strings.Contains(res.RetryErr, "deadline")) && txn.SlowMachine() {
				// the 5 s budget was missed while a probe commit on a scratch store was slow too: no verdict
				res.RetryErr, res.Slow = "n/a", true
			}
		}
		res.RetryDiff = txn.DiffContent(sopx.DumpDB(db), after.Dump())
		if res.Slow {
			res.RetryDiff = ""
		}
		res.Expect = "after"
		if rerr != nil {
			res.Expect = "before"
		}
	}
	res.Ms = time.Since(t0).Milliseconds()
	return res
}

func worker(args []string) int {
	var cfg Config
	if err := json.Unmarshal([]byte(args[0]), &cfg); err != nil {
		fmt.Fprintln(os.Stderr, err)
		return proc.ExitHarness
	}
	mirror.InstallGlobals()
	sop.RetryStartDuration = time.Millisecond
	out := bufio.NewWriter(os.Stdout)
	defer out.Flush()
	emit := func(r Result) {
		b, _ := json.Marshal(r)
		out.Write(b)
		out.WriteByte('\n')
		out.Flush()
	}
	n := 0
	census := runCase(cfg, n, "", 0, "commit")
	emit(census)
	n++
	if census.Harness != "" {
		return 0
	}
	emit(runCase(cfg, n, "", 0, "rollback"))
	n++
	// enumerate (label, ord) in census order
	counts := map[string]int{}
	type site struct {
		label string
		ord   int
	}
	var sites []site
	for _, l := range census.Census {
		counts[l]++
		sites = append(sites, site{l, counts[l]})
	}
	if cfg.MaxSites > 0 && len(sites) > cfg.MaxSites {
		// keep an even spread, always including first and last
		var sel []site
		for i := 0; i < cfg.MaxSites; i++ {
			sel = append(sel, sites[i*(len(sites)-1)/(cfg.MaxSites-1)])
		}
		sites = sel
	}
	for _, s := range sites {
		forms := cfg.Forms
		if !contains(forms, "fail-after") && strings.HasPrefix(s.label, "reg.") && s.label != "reg.Get" {
			// also in the quick tier: a registry write that was applied but reports an error (lost
			// acknowledgement / late I/O error), at every registry write call of the commit - the flip included
			forms = append(append([]string(nil), forms...), "fail-after")
		}
		for _, f := range forms {
			// StoreRepository.Update undoes its own partial writes before it returns an error (that is
			// its contract); "the write happened but the caller is told it failed" cannot come out of the
			// real implementation, so that form would misrepresent the code at this site.
			if f == "fail-after" && s.label == "sr.Update" {
				continue
			}
			if f == "refuse" && !(strings.HasPrefix(s.label, "l2.Lock") || strings.HasPrefix(s.label, "l2.DualLock") || strings.HasPrefix(s.label, "l2.IsLocked")) {
				continue
			}
			emit(runCase(cfg, n, s.label, s.ord, f))
			n++
		}
	}
	return 0
}

// coldDump: args = expectation file (JSON list of {dir, ...}); prints one JSON line per dir with the dump.
func coldDump(args []string) int {
	mirror.InstallGlobals()
	b, err := os.ReadFile(args[0])
	if err != nil {
		return proc.ExitHarness
	}
	var dirs []string
	json.Unmarshal(b, &dirs)
	out := bufio.NewWriter(os.Stdout)
	defer out.Flush()
	for _, d := range dirs {
		dump := sopx.DumpDB(sopx.NewDB(d))
		j, _ := json.Marshal(map[string]any{"dir": d, "dump": dump})
		out.Write(j)
		out.WriteByte('\n')
	}
	return 0
}

// Sweep runs workers for the given configs in parallel and returns all results; cold dumps are taken
// afterwards by fresh child processes and compared with each case's expectation.
type ColdVerdict struct {
	Dir  string
	Diff string
}

func Sweep(r *report.Run, cfgs []Config, parallel int) ([]Result, map[string]string) {
	logDir := env.Scratch("atomlog")
	var mu sync.Mutex
	var all []Result
	sem := make(chan struct{}, parallel)
	var wg sync.WaitGroup
	for i := range cfgs {
		cfg := cfgs[i]
		cfg.Base = env.Scratch("atom")
		cfgs[i].Base = cfg.Base
		wg.Add(1)
		sem <- struct{}{}
		go func() {
			defer wg.Done()
			defer func() { <-sem }()
			j, _ := json.Marshal(cfg)
			pr := proc.Run(logDir, 2400, nil, "atom-worker", string(j))
			var got []Result
			sc := bufio.NewScanner(strings.NewReader(string(pr.Out())))
			sc.Buffer(make([]byte, 1<<20), 1<<26)
			for sc.Scan() {
				var res Result
				if json.Unmarshal(sc.Bytes(), &res) == nil {
					got = append(got, res)
				}
			}
			if pr.Code != 0 {
				r.Inconclusive("worker-died:" + strconv.Itoa(pr.Code))
				r.Set("worker_death_"+cfg.Shape, string(lastBytes(pr.Err(), 2000)))
			}
			mu.Lock()
			all = append(all, got...)
			mu.Unlock()
		}()
	}
	wg.Wait()
	// cold dumps: fresh process, cold caches
	cold := map[string]string{}
	var dirs []string
	for _, res := range all {
		if res.Harness == "" {
			dirs = append(dirs, res.Dir)
		}
	}
	chunk := (len(dirs) + parallel - 1) / parallel
	if chunk == 0 {
		chunk = 1
	}
	var wg2 sync.WaitGroup
	dumps := map[string]sopx.Dump{}
	for i := 0; i < len(dirs); i += chunk {
		part := dirs[i:min(i+chunk, len(dirs))]
		wg2.Add(1)
		go func(idx int) {
			defer wg2.Done()
			f := fmt.Sprintf("%s/cold-%d.json", logDir, idx)
			j, _ := json.Marshal(part)
			os.WriteFile(f, j, 0o644)
			pr := proc.Run(logDir, 600, nil, "atom-colddump", f)
			sc := bufio.NewScanner(strings.NewReader(string(pr.Out())))
			sc.Buffer(make([]byte, 1<<20), 1<<26)
			for sc.Scan() {
				var rec struct {
					Dir  string
					Dump sopx.Dump
				}
				if json.Unmarshal(sc.Bytes(), &rec) == nil {
					mu.Lock()
					dumps[rec.Dir] = rec.Dump
					mu.Unlock()
				}
			}
		}(i)
	}
	wg2.Wait()
	// expectation per dir is recomputed from the deterministic program
	for _, res := range all {
		if res.Harness != "" {
			continue
		}
		d, ok := dumps[res.Dir]
		if !ok {
			cold[res.Dir] = "cold dump missing"
			continue
		}
		cfg := configOf(cfgs, res)
		specs := specsFor(cfg)
		_, before := txn.Baseline(specs, 9)
		rnd := env.Rand(cfg.Seed, fmt.Sprintf("atom-%d-%s", cfg.Prog, cfg.Shape))
		prog := txn.Gen(rnd, cfg.Shape, before, specs, fmt.Sprintf("p%d", cfg.Prog))
		exp := before
		if res.Expect == "after" {
			exp = before.Apply(prog)
		}
		cold[res.Dir] = txn.DiffContent(d, exp.Dump())
	}
	for _, c := range cfgs {
		env.Remove(c.Base)
	}
	return all, cold
}

func configOf(cfgs []Config, res Result) Config {
	for _, c := range cfgs {
		if c.Prog == res.Prog && c.Shape == res.Shape {
			return c
		}
	}
	return Config{}
}

func lastBytes(b []byte, n int) []byte {
	if len(b) > n {
		return b[len(b)-n:]
	}
	return b
}

func contains(xs []string, x string) bool {
	for _, v := range xs {
		if v == x {
			return true
		}
	}
	return false
}
