package c17

// c17.go: the case lists (pure functions of seed and tier), the parallel runner and the check entry.

import (
	"encoding/json"
	"fmt"
	"os"
	"runtime"
	"sort"
	"sync"

	"verifharness/kit/env"
	"verifharness/kit/report"
)

// ExhCase is one unit of the exhaustive enumeration: every operation sequence over the alphabet that
// starts with Prefix and has length len(Prefix)..Depth.
type ExhCase struct {
	Cfg    Config
	Prefix []Op
	Alpha  []Op
	Depth  int
	Name   string
}

// ExhCases: all sequences of length 1..depth over Alphabet(nKeys, level), cut into one case per
// prefix of length min(2, depth) (plus one case per single operation).
func ExhCases(cfg Config, nKeys, level, depth int) []ExhCase {
	alpha := Alphabet(nKeys, level)
	var out []ExhCase
	for a, o1 := range alpha {
		out = append(out, ExhCase{Cfg: cfg, Prefix: []Op{o1}, Alpha: alpha, Depth: 1,
			Name: fmt.Sprintf("exh:%s:k%d:a%d:d%d:%d", cfg, nKeys, len(alpha), 1, a)})
		if depth < 2 {
			continue
		}
		for b, o2 := range alpha {
			out = append(out, ExhCase{Cfg: cfg, Prefix: []Op{o1, o2}, Alpha: alpha, Depth: depth,
				Name: fmt.Sprintf("exh:%s:k%d:a%d:d%d:%d.%d", cfg, nKeys, len(alpha), depth, a, b)})
		}
	}
	return out
}

// ExhOutcome aggregates one exhaustive case.
type ExhOutcome struct {
	Sequences  int
	Ops        int
	NonTrivial int // sequences with at least one split / child creation / node removal
	Walks      int
	Scans      int
	Creates    int
	Removes    int
	WalkAlarms map[string]int
	NotPublic  int
	Fails      []*Failure
	FailProgs  []*Program
}

// RunExh enumerates the case depth-first. Every sequence (every length) is executed from a fresh
// tree, checked after every operation (results, Count, repository walk) and ends with a full
// public-API scan.
func RunExh(id string, c ExhCase, h *Hooks) ExhOutcome {
	var out ExhOutcome
	seq := make([]Op, 0, c.Depth+1)
	seq = append(seq, c.Prefix...)
	var rec func()
	rec = func() {
		p := &Program{Cfg: c.Cfg, Class: "exh", WalkEvery: 1}
		p.Ops = make([]Op, len(seq)+1)
		for i, o := range seq {
			o.V = i + 1
			p.Ops[i] = o
		}
		p.Ops[len(seq)] = Op{Kind: OpScan}
		res := Exec(id, p, h)
		out.Sequences++
		out.Ops += res.OpsDone
		out.Walks += res.Walks
		out.Scans += res.Scans
		out.Creates += res.Creates
		out.Removes += res.Removes
		out.NotPublic += res.NotPublic
		for k, n := range res.WalkAlarms {
			if out.WalkAlarms == nil {
				out.WalkAlarms = map[string]int{}
			}
			out.WalkAlarms[k] += n
		}
		if res.Creates >= 2 || res.Removes >= 1 {
			out.NonTrivial++
		}
		if res.Fail != nil {
			if len(out.Fails) < 50 {
				out.Fails = append(out.Fails, res.Fail)
				out.FailProgs = append(out.FailProgs, p)
			}
			// longer sequences with this prefix diverge at the same place: do not descend
			if res.Fail.OpIndex < len(seq) {
				return
			}
		}
		if len(seq) >= c.Depth {
			return
		}
		for _, o := range c.Alpha {
			seq = append(seq, o)
			rec()
			seq = seq[:len(seq)-1]
		}
	}
	rec()
	return out
}

// RandomSuite returns the seeded random programs of a tier: n programs of `ops` operations plus
// nLong long runs. Pure function of (seed, arguments).
func RandomSuite(seed int64, salt string, n, ops, nLong, longOps int) []*Program {
	var out []*Program
	// mixed radix over (balancing, uniqueness, slot length), so that every combination of the three is
	// run (24 owned configurations; requested lengths 3 and 5 exercise NewStoreInfo's rounding and run
	// as 2 and 4); key kind and program class are drawn from the program's own generator
	slots := []int{2, 4, 3, 8, 5, 16}
	nkeys := []int{3, 5, 8, 12, 20, 40, 80}
	kinds := []string{"func", "int", "iface"}
	for i := 0; i < n; i++ {
		rnd := env.Rand(seed, fmt.Sprintf("%s-rand-%d", salt, i))
		cfg := Config{Variant: "owned", ReqSlot: slots[(i/4)%len(slots)], Unique: (i/2)%2 == 0, Balance: i%2 == 0, KeyKind: kinds[rnd.Intn(len(kinds))]}
		if i%7 == 3 {
			// as shipped: inmemory.NewBtree (slot length 8, no balancing, default comparer)
			cfg = Config{Variant: "shipped", ReqSlot: 8, Unique: (i/7)%2 == 0, Balance: false, KeyKind: []string{"int", "iface"}[rnd.Intn(2)]}
		}
		stale := rnd.Intn(4) == 0
		spec := GenSpec{NKeys: nkeys[rnd.Intn(len(nkeys))], Ops: ops, ScanProb: 25}
		if cfg.Variant == "shipped" {
			spec.ScanProb = 6
		}
		// larger nodes need more keys before anything structural happens
		if cfg.ReqSlot >= 8 && spec.NKeys < 20 && cfg.Unique {
			spec.NKeys = 40
		}
		class := "rand"
		if stale {
			spec.Stale = true
			class = "stale"
		}
		p := Gen(rnd, cfg, spec, class)
		out = append(out, p)
	}
	for i := 0; i < nLong; i++ {
		rnd := env.Rand(seed, fmt.Sprintf("%s-long-%d", salt, i))
		cfg := Config{Variant: "owned", ReqSlot: []int{2, 4, 8, 16, 5, 3}[i%6], Unique: i%2 == 0, Balance: (i/2)%2 == 0, KeyKind: kinds[i%3]}
		spec := GenSpec{NKeys: []int{60, 400, 3000}[i%3], Ops: longOps, ScanProb: 2500}
		p := Gen(rnd, cfg, spec, "long")
		p.WalkEvery = 97
		out = append(out, p)
	}
	return out
}

// Parallel runs fn(i) for i in [0,n) on all cores.
func Parallel(n int, fn func(i int)) {
	w := runtime.GOMAXPROCS(0)
	if w > n {
		w = n
	}
	var wg sync.WaitGroup
	var mu sync.Mutex
	next := 0
	for g := 0; g < w; g++ {
		wg.Add(1)
		go func() {
			defer wg.Done()
			for {
				mu.Lock()
				i := next
				next++
				mu.Unlock()
				if i >= n {
					return
				}
				fn(i)
			}
		}()
	}
	wg.Wait()
}

// Found is one failing case kept for reporting.
type Found struct {
	Case int
	Prog *Program
	Fail *Failure
}

// Report turns the failures of a run into violations: per signature the first three cases (by case
// index, so the choice is deterministic), the first of them shrunk to a minimal program.
func Report(r *report.Run, id string, found []Found, h *Hooks) {
	sort.SliceStable(found, func(a, b int) bool { return found[a].Case < found[b].Case })
	per := map[string]int{}
	for _, f := range found {
		per[f.Fail.Sig]++
	}
	r.Set("failing_cases_by_signature", per)
	// emit round by round (first case of every signature, then the second, ...) so that every
	// signature gets a replay file before the report's cap of 20 is reached
	kept := map[string]int{}
	for round := 1; round <= 3; round++ {
		for _, f := range found {
			if kept[f.Fail.Sig] != round-1 {
				continue
			}
			kept[f.Fail.Sig] = round
			detail := map[string]any{"seed": r.Seed, "tier": r.Tier, "case_index": f.Case, "program_hash": f.Prog.Hash(),
				"op_index": f.Fail.OpIndex, "op": f.Fail.Op, "observed": f.Fail.Detail, "program_length": len(f.Prog.Ops)}
			if round == 1 {
				// shrinking budget: about 4M executed operations per signature
				budget := max(60, min(4000, 4000000/max(1, min(len(f.Prog.Ops), f.Fail.OpIndex+1))))
				small, sf := Shrink(f.Prog, f.Fail.Sig, func(p *Program) *Failure { return Exec(id, p, h).Fail }, budget)
				if sf != nil {
					if tf := ExecTrace(id, small, h).Fail; tf != nil && tf.Sig == sf.Sig {
						sf = tf
					}
					detail["minimal_program"] = map[string]any{"cfg": small.Cfg, "ops": small.Strings(), "ops_json": small.Ops,
						"fails_at_op": sf.OpIndex, "observed": sf.Detail}
				}
			}
			if len(f.Prog.Ops) <= 60 {
				detail["program"] = f.Prog
			}
			r.Violation(f.Fail.Sig, detail)
		}
		for sig, k := range kept {
			if k < round {
				kept[sig] = -1 // exhausted
			}
		}
	}
}

// LoadReplay reads the program of a replay file written by Report: the minimal program when the
// violation was shrunk, else the full one.
func LoadReplay(path string) (*Program, string, error) {
	b, err := os.ReadFile(path)
	if err != nil {
		return nil, "", err
	}
	var f struct {
		Signature string `json:"signature"`
		Detail    struct {
			Program *Program `json:"program"`
			Minimal *struct {
				Cfg Config `json:"cfg"`
				Ops []Op   `json:"ops_json"`
			} `json:"minimal_program"`
		} `json:"detail"`
	}
	if err := json.Unmarshal(b, &f); err != nil {
		return nil, "", err
	}
	switch {
	case f.Detail.Minimal != nil:
		return &Program{Cfg: f.Detail.Minimal.Cfg, Class: "replay", WalkEvery: 1, Ops: f.Detail.Minimal.Ops}, f.Signature, nil
	case f.Detail.Program != nil:
		f.Detail.Program.WalkEvery = 1
		return f.Detail.Program, f.Signature, nil
	}
	return nil, f.Signature, fmt.Errorf("replay file carries no program")
}

// Replay re-executes the one program of r.Replay (deterministic: one run decides).
func Replay(r *report.Run, id string, h *Hooks, rule string) int {
	p, sig, err := LoadReplay(r.Replay)
	if err != nil {
		r.Broken("cannot load replay %s: %v", r.Replay, err)
		return r.Finish(rule, nil, 0)
	}
	res := ExecTrace(id, p, h)
	r.Eval("replay:"+p.Hash(), true)
	r.Sample(map[string]any{"kind": "replayed-program", "cfg": p.Cfg, "ops": p.Strings(), "recorded_signature": sig})
	if res.Fail != nil && (h == nil || res.Fail.FromHook) {
		r.Violation(res.Fail.Sig, map[string]any{"replay_of": r.Replay, "recorded_signature": sig, "op_index": res.Fail.OpIndex, "op": res.Fail.Op,
			"observed": res.Fail.Detail, "minimal_program": map[string]any{"cfg": p.Cfg, "ops": p.Strings(), "ops_json": p.Ops}})
	}
	fmt.Printf("replay of %s (recorded signature %s): %d of %d operations executed\n", r.Replay, sig, res.OpsDone, len(p.Ops))
	return r.Finish(rule, []string{"replay mode: exactly one recorded program is re-executed"}, 0)
}

// Run is the check entry.
func Run(r *report.Run) int {
	const id = "C17"
	if r.Replay != "" {
		return Replay(r, id, nil, "replay of one recorded program")
	}
	var mu sync.Mutex
	var found []Found

	// ---- Part 1: exhaustive sequences, 3 keys, slot length 2 ----------------------------------
	// duplicate-key stores: 3 keys; unique stores: 3 keys can hold 3 items only, so the deeper
	// enumeration uses 4 keys with the small alphabet.
	type exhPlan struct {
		uniq                bool
		nKeys, level, depth int
	}
	plans := []exhPlan{
		{false, 3, 1, r.Pick(5, 6)}, {false, 3, 0, r.Pick(6, 7)}, {false, 3, 2, r.Pick(4, 5)},
		{true, 3, 1, r.Pick(4, 5)}, {true, 4, 0, r.Pick(5, 6)}, {true, 3, 2, 4},
	}
	var cases []ExhCase
	for _, bal := range []bool{false, true} {
		for _, pl := range plans {
			cfg := Config{Variant: "owned", ReqSlot: 2, Unique: pl.uniq, Balance: bal, KeyKind: "func"}
			cases = append(cases, ExhCases(cfg, pl.nKeys, pl.level, pl.depth)...)
		}
	}
	// the same shallow enumeration through the shipped constructor (slot length 8: no split within
	// depth 6, so it only exercises the wrapper path and is not counted as non-trivial)
	for _, uniq := range []bool{false, true} {
		cases = append(cases, ExhCases(Config{Variant: "shipped", ReqSlot: 8, Unique: uniq, KeyKind: "int"}, 3, 1, r.Pick(3, 4))...)
	}
	exhOut := make([]ExhOutcome, len(cases))
	Parallel(len(cases), func(i int) { exhOut[i] = RunExh(id, cases[i], nil) })
	var seqs, exOps, exNT int64
	walkAlarms := map[string]int{}
	r.Count("walk_alarms_rejudged_through_public_api", 0)
	r.Count("walk_alarms_not_visible_through_public_api", 0)
	noteAlarms := func(alarms map[string]int, notPublic int) {
		for k, n := range alarms {
			walkAlarms[k] += n
			r.Count("walk_alarms_rejudged_through_public_api", int64(n))
		}
		r.Count("walk_alarms_not_visible_through_public_api", int64(notPublic))
	}
	for i, o := range exhOut {
		noteAlarms(o.WalkAlarms, o.NotPublic)
		r.Eval(cases[i].Name, o.NonTrivial > 0)
		seqs += int64(o.Sequences)
		exOps += int64(o.Ops)
		exNT += int64(o.NonTrivial)
		r.Count("walks", int64(o.Walks))
		r.Count("api_scans", int64(o.Scans))
		r.Count("nodes_created", int64(o.Creates))
		r.Count("nodes_removed", int64(o.Removes))
		for j, f := range o.Fails {
			found = append(found, Found{Case: i, Prog: o.FailProgs[j], Fail: f})
		}
	}
	r.Count("exhaustive_cases", int64(len(cases)))
	r.Count("exhaustive_sequences", seqs)
	r.Count("exhaustive_sequences_nontrivial", exNT)
	r.Count("exhaustive_ops", exOps)
	r.Sample(map[string]any{"kind": "exhaustive-case", "name": cases[len(cases)/3].Name, "prefix": (&Program{Ops: cases[len(cases)/3].Prefix}).Strings(),
		"sequences": exhOut[len(cases)/3].Sequences, "nontrivial_sequences": exhOut[len(cases)/3].NonTrivial})

	// ---- Part 2: seeded random programs --------------------------------------------------------
	progs := RandomSuite(r.Seed, "c17", r.Pick(200, 4000), 400, r.Pick(0, 6), 50000)
	if r.Thorough() {
		progs = append(progs, RandomSuite(r.Seed, "c17-mid", 400, 3000, 0, 0)...)
	}
	results := make([]Result, len(progs))
	Parallel(len(progs), func(i int) {
		res := Exec(id, progs[i], nil)
		results[i] = res
		if res.Fail != nil && progs[i].WalkEvery != 1 {
			// canonical failure: the same program with a walk after every operation names the
			// operation that broke the tree (and the tree shape before it) in the signature
			q := *progs[i]
			q.WalkEvery = 1
			q.Ops = q.Ops[:min(len(q.Ops), res.Fail.OpIndex+1)]
			if r2 := Exec(id, &q, nil); r2.Fail != nil {
				res.Fail = r2.Fail
				results[i].Fail = r2.Fail
			}
		}
		if res.Fail != nil {
			mu.Lock()
			found = append(found, Found{Case: len(cases) + i, Prog: progs[i], Fail: res.Fail})
			mu.Unlock()
		}
	})
	slotOf := func(p *Program) int {
		if p.Cfg.Variant == "shipped" {
			return 8
		}
		s := p.Cfg.ReqSlot
		if s%2 == 1 {
			s--
		}
		return s
	}
	cfgSeen := map[string]int{}
	for i, res := range results {
		p := progs[i]
		nt := res.NonTrivial(p, slotOf(p))
		r.Eval("prog:"+p.Hash(), nt)
		cfgSeen[p.Cfg.String()]++
		r.Count("random_programs", 1)
		r.Count("random_ops", int64(res.OpsDone))
		r.Count("walks", int64(res.Walks))
		r.Count("api_scans", int64(res.Scans))
		r.Count("nodes_created", int64(res.Creates))
		r.Count("nodes_removed", int64(res.Removes))
		r.Count("stale_cursor_ops_that_took_effect", int64(res.Stales))
		noteAlarms(res.WalkAlarms, res.NotPublic)
		if res.Removes > 0 {
			r.Count("programs_with_node_removal", 1)
		}
		if i < 3 {
			ops := p.Strings()
			if len(ops) > 25 {
				ops = ops[:25]
			}
			r.Sample(map[string]any{"kind": "random-program", "hash": p.Hash(), "cfg": p.Cfg, "class": p.Class, "ops_total": len(p.Ops), "first_ops": ops,
				"nodes_created": res.Creates, "nodes_removed": res.Removes, "max_count": res.MaxCount})
		}
	}
	r.Set("configurations_run", cfgSeen)
	r.Set("walk_alarms_by_class", walkAlarms)

	Report(r, id, found, nil)

	return r.Finish(
		"case = (a) one exhaustive subtree: all operation sequences over {Add,Remove,Upsert[,AddIfNotExist,Update][,Find+RemoveCurrentItem,FindDesc+RemoveCurrentItem]} x 3 keys "+
			"starting with a given 2-operation prefix, up to the tier's depth, slot length 2, unique/duplicate x balancing on/off, each sequence run on a fresh real tree; "+
			"(b) one seeded random program (400 ops; thorough adds 3000- and 50000-op runs) over a fresh real tree built by btree.New over a harness repository "+
			"(requested slot lengths 2,3,4,5,8,16; unique/duplicate; LeafLoadBalancing on/off; struct key with ComparerFunc / Comparer interface / int key) or by inmemory.NewBtree as shipped. "+
			"fingerprint = subtree name or program hash; non-trivial = at least one node beyond the root was created (split / child creation) or a node was removed from the repository "+
			"(shipped variant: Count() exceeded the slot length, which forces a split).",
		[]string{
			"sop.NewStoreInfo (the documented constructor) rounds odd slot lengths down, so requested 3 and 5 run as 2 and 4; odd lengths are not forced past it",
			"relative order of equal keys is not asserted; Update/Upsert/UpdateKey/Remove on a duplicated key may affect any one of the equal-key items",
			"Update/Upsert may or may not replace the stored key payload (interface comment vs method comment disagree); both accepted",
			"cursor state after anything but a successful Find*/First/Last/Next/Previous is unspecified: stale-cursor calls are only required to do nothing (false) or exactly one legal change (true)",
			"an error is accepted only together with false on a key update that would change the order; any other error is reported",
			"item ids are random (sop.NewUUID); behaviour must not depend on them, replay is by program",
			"the structural walk of the repository (sorted slots, counts, parent/child ids, reachability) only raises alarms; a verdict needs a divergence in a public observation (call result, Count(), First/Next or Last/Previous scan). Alarms and the ones no public scan confirmed are counted in the evidence",
			"signature shape tag: @even = all leaves at one depth and no nil child pointer before the operation, @uneven = anything else, @? = repository not observable (shipped constructor)",
		}, 20)
}
