package c17

// exec.go: reference model (ordered multiset / map), the differential executor with its oracle, and
// the program shrinker.
//
// What the oracle asserts (and nothing more):
//   - the boolean result of every call equals the model's prediction (presence / uniqueness rules
//     from the doc comments in /repo/btree/storeinterfaces.go and btree.go);
//   - no call returns an error, except that a key update that would change the order may (and in the
//     code does) come back as (false, error): only the "false + nothing changed" part is asserted;
//   - Count() equals the model's size after every call;
//   - the store's content as returned by the public cursor API (First/Next and Last/Previous scans,
//     items read with GetCurrentKey/GetCurrentValue) is sorted by key and equals the model as a
//     multiset; the relative order of equal keys is never asserted. Such scans run at Scan operations
//     and whenever the cheap observation disagrees: after every operation the harness-owned repository
//     is walked in order (cursor untouched); a walk that matches the model settles the step, a walk that
//     flags anything (structural problem, content or order difference) is only an ALARM that is counted
//     and re-judged through the two public scans. An internal-structure anomaly that no public
//     observation shows is not a violation of C17 (counter walk_alarms_not_visible_through_public_api);
//   - every item a scan stops on is an item (non-nil item id): a positioning call that returns true on a
//     slot holding nothing is reported as "yields-empty-item";
//   - Update/Upsert/UpdateKey/Remove on a duplicated key may affect ANY ONE of the equal-key items: the
//     model adopts the store's choice when it is legal;
//   - Update/Upsert may or may not replace the stored key's payload (Tag): the interface comment says
//     "calls UpdateCurrentValue", the method comment and code say UpdateCurrentItem — both accepted;
//   - after a successful Find*/First/Last/Next/Previous the current item (GetCurrentKey/GetCurrentValue)
//     is an item of the model with the expected key; the cursor state after anything else is treated as
//     unspecified ("stale:" operations get the weakest oracle: false+unchanged or true+one legal change).

import (
	"fmt"
	"runtime/debug"
	"strings"

	"github.com/sharedcode/sop"
)

// MItem is one model item. V is unique per live item and is the model's notion of identity.
type MItem struct {
	K, Tag, V int
	ID        sop.UUID // learned from observations; nil until seen
	altTag    int      // second acceptable Tag (pending adoption), valid when hasAlt
	hasAlt    bool
	mark      uint32
}

// Model is the ordered multiset (map when Unique) reference. Keys are small non-negative integers
// and values small positive integers (program positions), so both indexes are plain slices.
type Model struct {
	Unique   bool
	KeepsTag bool
	byK      [][]*MItem // index: key
	byV      []*MItem   // index: value
	pool     []MItem
	n        int
	gen      uint32
	keys     []int
	dirty    bool
}

func NewModel(unique, keepsTag bool) *Model {
	return &Model{Unique: unique, KeepsTag: keepsTag}
}

func (m *Model) Count() int { return m.n }
func (m *Model) Has(k int) bool {
	return k >= 0 && k < len(m.byK) && len(m.byK[k]) > 0
}

// Run returns the items with key k (do not modify).
func (m *Model) Run(k int) []*MItem {
	if k < 0 || k >= len(m.byK) {
		return nil
	}
	return m.byK[k]
}

// ByV returns the live item carrying value v.
func (m *Model) ByV(v int) *MItem {
	if v <= 0 || v >= len(m.byV) {
		return nil
	}
	return m.byV[v]
}

func (m *Model) tag(t int) int {
	if !m.KeepsTag {
		return 0
	}
	return t
}

func (m *Model) putV(v int, it *MItem) {
	if v >= len(m.byV) {
		n := 2*len(m.byV) + 16
		if n <= v {
			n = v + 16
		}
		nb := make([]*MItem, n)
		copy(nb, m.byV)
		m.byV = nb
	}
	m.byV[v] = it
}

func (m *Model) add(k, tag, v int) *MItem {
	if len(m.pool) == cap(m.pool) {
		m.pool = make([]MItem, 0, 2*cap(m.pool)+32) // older items stay alive through their pointers
	}
	m.pool = append(m.pool, MItem{K: k, Tag: m.tag(tag), V: v})
	it := &m.pool[len(m.pool)-1]
	if k >= len(m.byK) {
		n := 2*len(m.byK) + 16
		if n <= k {
			n = k + 16
		}
		nb := make([][]*MItem, n)
		copy(nb, m.byK)
		m.byK = nb
	}
	if len(m.byK[k]) == 0 {
		m.dirty = true
	}
	m.byK[k] = append(m.byK[k], it)
	m.putV(v, it)
	m.n++
	return it
}

func (m *Model) remove(it *MItem) {
	run := m.byK[it.K]
	for i, x := range run {
		if x == it {
			run = append(run[:i], run[i+1:]...)
			break
		}
	}
	m.byK[it.K] = run
	if len(run) == 0 {
		m.dirty = true
	}
	m.byV[it.V] = nil
	m.n--
}

func (m *Model) setV(it *MItem, v int) {
	m.byV[it.V] = nil
	it.V = v
	m.putV(v, it)
}

// Keys returns the distinct keys in ascending order (do not modify).
func (m *Model) Keys() []int {
	if m.dirty || m.keys == nil {
		m.keys = m.keys[:0]
		for k, run := range m.byK {
			if len(run) > 0 {
				m.keys = append(m.keys, k)
			}
		}
		m.dirty = false
	}
	return m.keys
}

// KeyAt returns the key of the idx-th item in ascending order.
func (m *Model) KeyAt(idx int) int {
	for _, k := range m.Keys() {
		if idx < len(m.byK[k]) {
			return k
		}
		idx -= len(m.byK[k])
	}
	return -1 << 30
}

// Sorted returns the items in key order (equal keys in the order last adopted from the store).
func (m *Model) Sorted() []MItem {
	out := make([]MItem, 0, m.n)
	for _, k := range m.Keys() {
		for _, it := range m.byK[k] {
			out = append(out, *it)
		}
	}
	return out
}

// RangeCount returns how many items have lo <= K <= hi.
func (m *Model) RangeCount(lo, hi int) int {
	n := 0
	for _, k := range m.Keys() {
		if k >= lo && k <= hi {
			n += len(m.byK[k])
		}
	}
	return n
}

type changed struct {
	It *MItem
	O  Obs
}

type diffT struct {
	missing  []*MItem
	extra    []Obs
	changed  []changed
	unsorted int // index of the first out-of-order observation, -1 if sorted
	dupV     bool
}

func (d *diffT) empty() bool {
	return len(d.missing) == 0 && len(d.extra) == 0 && len(d.changed) == 0 && d.unsorted < 0 && !d.dupV
}

// diff compares an observed in-order content with the model by item identity (V). Pending alternative
// tags are adopted silently. descending flips the order test.
func (m *Model) diff(obs []Obs, descending bool) diffT {
	d := diffT{unsorted: -1}
	m.gen++
	matched := 0
	for i, o := range obs {
		if i > 0 && d.unsorted < 0 {
			if (!descending && obs[i-1].K > o.K) || (descending && obs[i-1].K < o.K) {
				d.unsorted = i
			}
		}
		it := m.ByV(o.V)
		if it == nil {
			d.extra = append(d.extra, o)
			continue
		}
		if it.mark == m.gen {
			d.dupV = true
			d.extra = append(d.extra, o)
			continue
		}
		it.mark = m.gen
		matched++
		if it.hasAlt && o.K == it.K && o.Tag == it.altTag {
			it.Tag = it.altTag
		}
		if o.K != it.K || o.Tag != it.Tag {
			d.changed = append(d.changed, changed{it, o})
		}
	}
	if matched != m.n {
		for _, run := range m.byK {
			for _, it := range run {
				if it.mark != m.gen {
					d.missing = append(d.missing, it)
				}
			}
		}
	}
	return d
}

// adoptIDs records item ids (and clears settled alternative tags) from a content that matched.
func (m *Model) adoptIDs(obs []Obs) {
	for _, o := range obs {
		if it := m.ByV(o.V); it != nil {
			it.ID = o.ID
			if it.Tag == o.Tag {
				it.hasAlt = false
			}
		}
	}
	// keep the per-key order as observed (used by nobody for judging; handy for C18 debugging output)
}

// Failure is one divergence between the real tree and the model.
type Failure struct {
	Sig     string         `json:"signature"`
	OpIndex int            `json:"op_index"`
	Op      string         `json:"op"`
	Detail  map[string]any `json:"detail"`
	// FromHook: raised by Hooks.AfterOp (C18's probes), not by this package's oracle.
	FromHook bool `json:"from_hook,omitempty"`
}

// Result of executing one program.
type Result struct {
	Fail     *Failure
	Creates  int // nodes created (owned variant; includes the root)
	Removes  int // nodes removed from the repository
	MaxCount int // largest Count() seen
	OpsDone  int
	Walks    int
	Scans    int
	Stales   int // stale-cursor operations that returned true
	// WalkAlarms: the structural walk of the repository flagged something (by class). A walk alarm is
	// never a verdict: it is re-judged through the public cursor API (forward and backward scan).
	WalkAlarms map[string]int
	// NotPublic: walk alarms for which both public scans still matched the model (internal-only anomaly).
	NotPublic int
}

// NonTrivial: at least one split / child creation or node removal happened. For the shipped variant
// (repository not observable) a split is inferred soundly from Count() having exceeded the slot length.
func (r Result) NonTrivial(p *Program, slotLen int) bool {
	if p.Cfg.Variant == "owned" {
		return r.Creates >= 2 || r.Removes >= 1
	}
	return r.MaxCount > slotLen
}

// Hooks lets C18 look at every state reached.
type Hooks struct {
	// AfterOp runs after operation i (of n) was executed and verified. It may move the cursor. A
	// non-nil Failure stops the program.
	AfterOp func(i, n int, p *Program, s Store, m *Model) *Failure
}

type pendKind int

const (
	pExact pendKind = iota
	pChoiceRemove
	pChoiceUpdate
	pChoiceKey
	pStaleRemove
	pStaleUpdValue
	pStaleUpdKey
	pStaleUpdItem
)

type pending struct {
	kind   pendKind
	k      int
	tag    int
	v      int
	ret    bool
	needed bool // content must be observed now
}

type exec struct {
	p    *Program
	s    Store
	m    *Model
	id   string // property id used in signatures
	res  Result
	ctxI int
	ctxO Op
	// trace: record the tree shape before every operation (set by Shrink's final run only)
	scanBuf     []Obs // result buffer of scanAPI, reused: valid until the next scanAPI
	trace       bool
	treeBefore  string
	callSite    string // site override while judging a specific call
	lastShape   string // shape seen by the most recent walk ("unknown" when a later op ran without one)
	shapeBefore string
	// set while a walk alarm is being re-judged through the public API (recorded in failure details)
	walkAlarm    string
	walkProblems []Problem
}

func (e *exec) fail(outcome string, detail map[string]any) *Failure {
	if detail == nil {
		detail = map[string]any{}
	}
	detail["program_class"] = e.p.Class
	detail["cfg"] = e.p.Cfg
	detail["effective_slot_length"] = e.s.SlotLength()
	detail["model_count"] = e.m.n
	if e.m.n <= 40 {
		detail["model"] = fmtItems(e.m.Sorted())
		if e.s.Owned() {
			detail["tree_after"] = e.s.Dump()
		}
	}
	if e.treeBefore != "" {
		detail["tree_before_op"] = e.treeBefore
	}
	if e.walkAlarm != "" {
		detail["repository_walk_flagged_first"] = e.walkAlarm
		if len(e.walkProblems) > 0 {
			detail["repository_walk_problems"] = e.walkProblems
		}
	}
	site := e.callSite
	if site == "" {
		site = family(e.ctxO.Kind)
	}
	if strings.HasPrefix(outcome, "walk-") || strings.HasPrefix(outcome, "structure-") || strings.HasPrefix(outcome, "scan-") {
		// content outcomes carry the shape the tree had BEFORE the operation
		site += "@" + e.shapeBefore
	}
	return &Failure{Sig: fmt.Sprintf("%s:%s:%s:%s", e.id, e.p.Cfg.Scenario(), site, outcome), OpIndex: e.ctxI, Op: e.ctxO.String(), Detail: detail}
}

// family groups operation kinds for signatures.
func family(k OpKind) string {
	switch k {
	case OpAdd, OpAddIfNotExist, OpUpsert:
		return "insert"
	case OpRemove, OpFindRemove, OpFindDescRemove, OpFindIDRemove, OpNavRemove:
		return "remove"
	case OpUpdate, OpFindUpdItem, OpFindUpdValue, OpFindIDUpdValue, OpNavUpdValue:
		return "update"
	case OpUpdateKey, OpFindUpdKey, OpNavUpdKey:
		return "update-key"
	case OpScan:
		return "scan"
	case OpBareUpdKey, OpBareUpdItem:
		return "stale-key-update"
	}
	return string(k)
}

// callClass names the failing call for signatures. Remove/Update/UpdateKey/Find(first=false) all start
// with the exact-match search Find(key,false); when the key is the zero value of the key type they
// form one input class (an emptied slot compares equal to the zero key).
func (e *exec) callClass(call string) string {
	name := call
	if i := strings.IndexAny(name, "( "); i >= 0 {
		name = name[:i]
	}
	if e.ctxO.K == 0 {
		switch {
		case name == "Remove" || name == "Update" || name == "UpdateKey":
			return "find-exact/zero-key"
		case name == "Find" && !e.ctxO.First && strings.HasPrefix(string(e.ctxO.Kind), "Find+"):
			return "find-exact/zero-key"
		}
	}
	return name
}

func fmtItems(items []MItem) []string {
	out := make([]string, len(items))
	for i, it := range items {
		out[i] = fmt.Sprintf("{%d,t%d}=v%d", it.K, it.Tag, it.V)
	}
	return out
}

func fmtObs(obs []Obs) []string {
	if len(obs) > 60 {
		obs = obs[:60]
	}
	out := make([]string, len(obs))
	for i, it := range obs {
		out[i] = fmt.Sprintf("{%d,t%d}=v%d", it.K, it.Tag, it.V)
	}
	return out
}

// ret judges a boolean result. rejectErrOK: an error is acceptable together with false (key-order guard).
func (e *exec) ret(call string, got bool, err error, want bool, rejectErrOK bool) *Failure {
	e.callSite = e.callClass(call)
	defer func() { e.callSite = "" }()
	if err != nil && !(rejectErrOK && !want) {
		return e.fail("unexpected-error", map[string]any{"call": call, "error": err.Error(), "returned": got, "expected": want})
	}
	if got != want {
		d := map[string]any{"call": call, "returned": got, "expected": want}
		if err != nil {
			d["error"] = err.Error()
		}
		if want {
			return e.fail("returned-false-expected-true", d)
		}
		return e.fail("returned-true-expected-false", d)
	}
	return nil
}

// cur reads the current item after a successful positioning call and checks that it is a model item
// with key wantK.
func (e *exec) cur(call string, wantK int) (*MItem, *Failure) {
	e.callSite = e.callClass(call)
	defer func() { e.callSite = "" }()
	o, err := e.s.Cur()
	if err != nil {
		return nil, e.fail("unexpected-error", map[string]any{"call": call + " -> GetCurrentValue", "error": err.Error()})
	}
	it := e.m.ByV(o.V)
	if o.K != wantK || it == nil || it.K != o.K || o.ID.IsNil() {
		return nil, e.fail("cursor-not-on-expected-item", map[string]any{"call": call, "expected_key": wantK, "current": fmt.Sprintf("{%d,t%d}=v%d id=%v", o.K, o.Tag, o.V, o.ID)})
	}
	if it.ID.IsNil() {
		it.ID = o.ID
	}
	return it, nil
}

// scanAPI walks the tree through the public cursor API.
func (e *exec) scanAPI(backward bool) ([]Obs, *Failure) {
	limit := e.m.n + 2
	out := e.scanBuf[:0]
	defer func() { e.scanBuf = out[:0] }()
	var ok bool
	var err error
	name, via := "First/Next", "scan-forward"
	if backward {
		name, via = "Last/Previous", "scan-backward"
		ok, err = e.s.Last()
	} else {
		ok, err = e.s.First()
	}
	for {
		if err != nil {
			return nil, e.fail("unexpected-error", map[string]any{"call": name, "error": err.Error()})
		}
		if !ok {
			break
		}
		if len(out) >= limit {
			return nil, e.fail("scan-yields-too-many-items", map[string]any{"scan": name, "yielded_at_least": len(out) + 1, "head": fmtObs(out)})
		}
		o, cerr := e.s.Cur()
		if cerr != nil {
			return nil, e.fail("unexpected-error", map[string]any{"call": name + " -> GetCurrentValue", "error": cerr.Error()})
		}
		if o.ID.IsNil() {
			// the positioning call returned true but the cursor stands on a slot that holds no item
			// (GetCurrentKey returns the zero item with a nil id): a phantom element of the collection.
			// Decided here, before the order/content comparison, so that it keeps its own outcome class.
			return nil, e.fail(via+"-yields-empty-item", map[string]any{"scan": name, "items_before_it": fmtObs(out), "empty_item_at_index": len(out)})
		}
		out = append(out, o)
		if backward {
			ok, err = e.s.Previous()
		} else {
			ok, err = e.s.Next()
		}
	}
	return out, nil
}

func diffDetail(d diffT, obs []Obs) map[string]any {
	x := map[string]any{"observed_count": len(obs)}
	if len(obs) <= 60 {
		x["observed"] = fmtObs(obs)
	}
	var ms []string
	for _, it := range d.missing {
		ms = append(ms, fmt.Sprintf("{%d,t%d}=v%d", it.K, it.Tag, it.V))
		if len(ms) >= 20 {
			break
		}
	}
	x["missing_from_store"] = ms
	if len(d.extra) > 20 {
		x["unexpected_in_store"] = fmtObs(d.extra[:20])
	} else {
		x["unexpected_in_store"] = fmtObs(d.extra)
	}
	var cs []string
	for _, c := range d.changed {
		cs = append(cs, fmt.Sprintf("model {%d,t%d}=v%d store {%d,t%d}=v%d", c.It.K, c.It.Tag, c.It.V, c.O.K, c.O.Tag, c.O.V))
		if len(cs) >= 20 {
			break
		}
	}
	x["key_differs"] = cs
	if d.unsorted >= 0 {
		x["first_out_of_order_index"] = d.unsorted
	}
	if d.dupV {
		x["same_item_seen_twice"] = true
	}
	return x
}

// settle judges an observed content against the model plus the pending expectation and adopts the
// store's choice when it is legal. via names the observation channel for the signature.
func (e *exec) settle(pd *pending, obs []Obs, via string, descending bool) *Failure {
	m := e.m
	d := m.diff(obs, descending)
	bad := func(why string) *Failure {
		x := diffDetail(d, obs)
		x["why"] = why
		x["observed_via"] = via
		out := "content-mismatch"
		if d.unsorted >= 0 {
			out = "order-violation"
		}
		return e.fail(via+"-"+out, x)
	}
	if d.unsorted >= 0 || d.dupV {
		return bad("content is not sorted / repeats an item")
	}
	kind := pd.kind
	if !pd.ret && kind >= pStaleRemove {
		kind = pExact
	}
	switch kind {
	case pExact:
		if !d.empty() {
			return bad("content differs from the model")
		}
	case pChoiceRemove, pStaleRemove:
		if len(d.missing) != 1 || len(d.extra) != 0 || len(d.changed) != 0 || (kind == pChoiceRemove && d.missing[0].K != pd.k) {
			return bad("expected exactly one item to be gone")
		}
		m.remove(d.missing[0])
	case pChoiceUpdate, pStaleUpdValue, pStaleUpdItem:
		if len(d.missing) != 1 || len(d.extra) != 1 || len(d.changed) != 0 {
			return bad("expected exactly one item to carry the new value")
		}
		it, o := d.missing[0], d.extra[0]
		okTag := o.Tag == it.Tag || (it.hasAlt && o.Tag == it.altTag) // a still-unobserved Update/Upsert payload choice
		if kind != pStaleUpdValue && o.Tag == m.tag(pd.tag) {
			okTag = true
		}
		okKey := o.K == it.K
		if kind != pStaleUpdValue && it.K != pd.k {
			okKey = false
		}
		if !okKey || !okTag || o.V != pd.v {
			return bad("the updated item is not a legal update of one existing item")
		}
		m.setV(it, o.V)
		it.Tag = o.Tag
		it.hasAlt = false
		it.ID = o.ID
	case pChoiceKey, pStaleUpdKey:
		if len(d.missing) != 0 || len(d.extra) != 0 || len(d.changed) > 1 {
			return bad("expected at most one item to carry the new key payload")
		}
		if len(d.changed) == 1 {
			c := d.changed[0]
			if c.It.K != pd.k || c.O.K != pd.k || c.O.Tag != m.tag(pd.tag) {
				return bad("the re-keyed item is not a legal key update")
			}
			c.It.Tag = c.O.Tag
			c.It.hasAlt = false
		} else if m.KeepsTag {
			found := false
			for _, it := range m.Run(pd.k) {
				if it.Tag == pd.tag {
					found = true
				}
			}
			if !found {
				return bad("key update reported success but no item carries the new key payload")
			}
		}
	}
	pd.kind = pExact
	pd.needed = false
	m.adoptIDs(obs)
	return nil
}

// content observes the store content for settling. When the repository is ours the structural walk
// is the fast observation (cursor untouched). C17 is a statement about what the public API returns,
// so a walk that flags something (structural problem or content that differs from the model) is NOT a
// verdict: it is counted, and the same question is put to the public cursor API (First/Next and
// Last/Previous scans, each item read through GetCurrentKey/GetCurrentValue). Only a divergence seen
// there is a failure. The trigger is a pure function of the program, so runs stay deterministic.
func (e *exec) content(pd *pending) *Failure {
	if e.s.Owned() {
		obs, problems := e.s.Walk()
		e.res.Walks++
		alarm := ""
		if len(problems) > 0 {
			alarm = "structure-" + problems[0].Class
		} else {
			save := *pd
			f := e.settle(pd, obs, "walk", false)
			if f == nil {
				e.lastShape = e.s.Shape()
				return nil
			}
			*pd = save // settle changes nothing when it fails
			alarm = f.Sig[strings.LastIndex(f.Sig, ":")+1:]
		}
		if e.res.WalkAlarms == nil {
			e.res.WalkAlarms = map[string]int{}
		}
		e.res.WalkAlarms[alarm]++
		e.walkAlarm, e.walkProblems = alarm, problems
		defer func() { e.walkAlarm, e.walkProblems = "", nil }()
	}
	obs, f := e.scanAPI(false)
	if f != nil {
		return f
	}
	e.res.Scans++
	if f := e.settle(pd, obs, "scan-forward", false); f != nil {
		return f
	}
	if e.s.Owned() {
		// reached only after a walk alarm: the backward direction must agree as well
		bwd, f := e.scanAPI(true)
		if f != nil {
			return f
		}
		e.res.Scans++
		if f := e.settle(pd, bwd, "scan-backward", true); f != nil {
			return f
		}
		e.res.NotPublic++
		e.lastShape = e.s.Shape()
	}
	return nil
}

func (e *exec) learnIDs() *Failure {
	pd := pending{kind: pExact}
	return e.content(&pd)
}

func (e *exec) step(i int, op Op) (fl *Failure) {
	e.ctxI, e.ctxO = i, op
	s, m := e.s, e.m
	if e.trace && s.Owned() && m.n <= 40 {
		e.treeBefore = s.Dump()
	}
	e.shapeBefore = e.lastShape
	if s.Owned() && op.Kind != OpScan {
		e.lastShape = "unknown" // until the next walk
	}
	s.SetBudget(200000 + 200*m.n)
	defer func() {
		if x := recover(); x != nil {
			if b, ok := x.(BudgetExceeded); ok {
				fl = e.fail("no-termination", map[string]any{"repository_gets_in_one_operation": b.Gets})
				return
			}
			fl = e.fail("panic", map[string]any{"panic": fmt.Sprint(x), "stack": string(debug.Stack())})
		}
	}()
	pd := pending{kind: pExact}
	key := Key{K: op.K, Tag: op.Tag}
	has := m.Has(op.K)
	single := len(m.Run(op.K)) == 1
	switch op.Kind {
	case OpAdd:
		ok, err := s.Add(key, op.V)
		want := !(m.Unique && has)
		if f := e.ret("Add", ok, err, want, false); f != nil {
			return f
		}
		if want {
			m.add(op.K, op.Tag, op.V)
		}
	case OpAddIfNotExist:
		ok, err := s.AddIfNotExist(key, op.V)
		if f := e.ret("AddIfNotExist", ok, err, !has, false); f != nil {
			return f
		}
		if !has {
			m.add(op.K, op.Tag, op.V)
		}
	case OpUpsert, OpUpdate:
		var ok bool
		var err error
		want := true
		if op.Kind == OpUpsert {
			ok, err = s.Upsert(key, op.V)
		} else {
			ok, err = s.Update(key, op.V)
			want = has
		}
		if f := e.ret(string(op.Kind), ok, err, want, false); f != nil {
			return f
		}
		switch {
		case !has && op.Kind == OpUpsert:
			m.add(op.K, op.Tag, op.V)
		case single:
			it := m.byK[op.K][0]
			m.setV(it, op.V)
			if m.tag(op.Tag) != it.Tag {
				it.altTag, it.hasAlt = m.tag(op.Tag), true
			}
		case has:
			pd = pending{kind: pChoiceUpdate, k: op.K, tag: op.Tag, v: op.V, ret: true, needed: true}
		}
	case OpUpdateKey:
		ok, err := s.UpdateKey(key)
		if f := e.ret("UpdateKey", ok, err, has, false); f != nil {
			return f
		}
		switch {
		case single:
			m.byK[op.K][0].Tag = m.tag(op.Tag)
			m.byK[op.K][0].hasAlt = false
		case has:
			pd = pending{kind: pChoiceKey, k: op.K, tag: op.Tag, ret: true, needed: true}
		}
	case OpRemove:
		ok, err := s.Remove(key)
		if f := e.ret("Remove", ok, err, has, false); f != nil {
			return f
		}
		switch {
		case single:
			m.remove(m.byK[op.K][0])
		case has:
			pd = pending{kind: pChoiceRemove, k: op.K, ret: true, needed: true}
		}

	case OpFindRemove, OpFindUpdItem, OpFindUpdKey, OpFindUpdValue, OpFindDescRemove, OpFindIDRemove, OpFindIDUpdValue:
		var ok bool
		var err error
		call := ""
		var target *MItem
		switch op.Kind {
		case OpFindDescRemove:
			call = "FindInDescendingOrder"
			ok, err = s.FindDesc(Key{K: op.K})
		case OpFindIDRemove, OpFindIDUpdValue:
			call = "FindWithID"
			id := sop.NilUUID
			if has {
				run := m.byK[op.K]
				target = run[op.N%len(run)]
				if target.ID.IsNil() {
					if f := e.learnIDs(); f != nil {
						return f
					}
				}
				id = target.ID
			}
			ok, err = s.FindWithID(Key{K: op.K}, id)
		default:
			call = fmt.Sprintf("Find(first=%v)", op.First)
			ok, err = s.Find(Key{K: op.K}, op.First)
		}
		if f := e.ret(call, ok, err, has, false); f != nil {
			return f
		}
		if !has {
			break
		}
		it, f := e.cur(call, op.K)
		if f != nil {
			return f
		}
		if target != nil && it != target {
			return e.fail("findwithid-on-other-item", map[string]any{"requested": fmt.Sprintf("v%d id=%v", target.V, target.ID), "landed_on": fmt.Sprintf("v%d id=%v", it.V, it.ID)})
		}
		if f := e.act(op, it); f != nil {
			return f
		}

	case OpNavRemove, OpNavUpdValue, OpNavUpdKey:
		var ok bool
		var err error
		call := "First"
		if op.FromLast {
			call = "Last"
			ok, err = s.Last()
		} else {
			ok, err = s.First()
		}
		if f := e.ret(call, ok, err, m.n > 0, false); f != nil {
			return f
		}
		if m.n == 0 {
			break
		}
		pos := 0
		reached := true
		for j := 0; j < op.N; j++ {
			if op.FromLast {
				call = "Previous"
				ok, err = s.Previous()
			} else {
				call = "Next"
				ok, err = s.Next()
			}
			want := pos+1 < m.n
			if f := e.ret(fmt.Sprintf("%s (after %d moves)", call, j), ok, err, want, false); f != nil {
				return f
			}
			if !want {
				reached = false
				break
			}
			pos++
		}
		if !reached {
			break
		}
		idx := pos
		if op.FromLast {
			idx = m.n - 1 - pos
		}
		wantK := m.KeyAt(idx)
		it, f := e.cur(fmt.Sprintf("%s after %d moves", call, pos), wantK)
		if f != nil {
			return f
		}
		if f := e.act(op, it); f != nil {
			return f
		}

	case OpScan:
		fwd, f := e.scanAPI(false)
		if f != nil {
			return f
		}
		if f := e.settle(&pd, fwd, "scan-forward", false); f != nil {
			return f
		}
		bwd, f := e.scanAPI(true)
		if f != nil {
			return f
		}
		if f := e.settle(&pd, bwd, "scan-backward", true); f != nil {
			return f
		}
		e.res.Scans += 2

	case OpBareRemove:
		ok, err := s.RemoveCurrentItem()
		if err != nil {
			return e.fail("unexpected-error", map[string]any{"error": err.Error()})
		}
		pd = pending{kind: pStaleRemove, ret: ok, needed: true}
	case OpBareUpdValue:
		ok, err := s.UpdateCurrentValue(op.V)
		if err != nil {
			return e.fail("unexpected-error", map[string]any{"error": err.Error()})
		}
		pd = pending{kind: pStaleUpdValue, v: op.V, ret: ok, needed: true}
	case OpBareUpdKey:
		ok, _ := s.UpdateCurrentKey(key) // an error accompanies a rejection
		pd = pending{kind: pStaleUpdKey, k: op.K, tag: op.Tag, ret: ok, needed: true}
	case OpBareUpdItem:
		ok, _ := s.UpdateCurrentItem(key, op.V)
		pd = pending{kind: pStaleUpdItem, k: op.K, tag: op.Tag, v: op.V, ret: ok, needed: true}
	case OpBareNext:
		if _, err := s.Next(); err != nil {
			return e.fail("unexpected-error", map[string]any{"error": err.Error()})
		}
		pd.needed = true
	case OpBarePrev:
		if _, err := s.Previous(); err != nil {
			return e.fail("unexpected-error", map[string]any{"error": err.Error()})
		}
		pd.needed = true
	default:
		return e.fail("harness-unknown-op", nil)
	}
	if pd.ret && op.Kind.stale() {
		e.res.Stales++
	}

	// Count(): independent of which equal-key item was chosen.
	wantCount := m.n
	switch pd.kind {
	case pChoiceRemove:
		wantCount--
	case pStaleRemove:
		if pd.ret {
			wantCount--
		}
	}
	if c := int(s.Count()); c != wantCount {
		return e.fail("count-mismatch", map[string]any{"Count()": c, "expected": wantCount})
	}
	if wantCount > e.res.MaxCount {
		e.res.MaxCount = wantCount
	}
	if op.Kind != OpScan && (pd.needed || (s.Owned() && e.p.WalkEvery > 0 && i%e.p.WalkEvery == 0)) {
		if f := e.content(&pd); f != nil {
			return f
		}
	}
	return nil
}

// act performs the second half of a compound operation on the item the cursor is known to be on.
func (e *exec) act(op Op, it *MItem) *Failure {
	s, m := e.s, e.m
	switch op.Kind {
	case OpFindRemove, OpFindDescRemove, OpFindIDRemove, OpNavRemove:
		ok, err := s.RemoveCurrentItem()
		if f := e.ret("RemoveCurrentItem", ok, err, true, false); f != nil {
			return f
		}
		m.remove(it)
	case OpFindUpdValue, OpFindIDUpdValue, OpNavUpdValue:
		ok, err := s.UpdateCurrentValue(op.V)
		if f := e.ret("UpdateCurrentValue", ok, err, true, false); f != nil {
			return f
		}
		m.setV(it, op.V)
	case OpFindUpdKey, OpNavUpdKey:
		ok, err := s.UpdateCurrentKey(Key{K: op.K2, Tag: op.Tag})
		want := op.K2 == it.K
		if f := e.ret("UpdateCurrentKey", ok, err, want, true); f != nil {
			return f
		}
		if want {
			it.Tag, it.hasAlt = m.tag(op.Tag), false
		}
	case OpFindUpdItem:
		ok, err := s.UpdateCurrentItem(Key{K: op.K2, Tag: op.Tag}, op.V)
		want := op.K2 == it.K
		if f := e.ret("UpdateCurrentItem", ok, err, want, true); f != nil {
			return f
		}
		if want {
			it.Tag, it.hasAlt = m.tag(op.Tag), false
			m.setV(it, op.V)
		}
	}
	return nil
}

// Exec executes one program against a fresh tree. id is the property id used in signatures.
func Exec(id string, p *Program, h *Hooks) Result { return execute(id, p, h, false) }

// LastDump: tree shape at the end of the last ExecTrace (single-threaded diagnostics only).
var LastDump string

// ExecTrace is Exec that also records the tree shape before the failing operation.
func ExecTrace(id string, p *Program, h *Hooks) Result { return execute(id, p, h, true) }

func execute(id string, p *Program, h *Hooks, trace bool) Result {
	s, err := NewStore(p.Cfg)
	e := &exec{p: p, id: id, trace: trace}
	if err != nil {
		e.res.Fail = &Failure{Sig: id + ":harness:new-store:error", Detail: map[string]any{"error": err.Error()}}
		return e.res
	}
	e.s = s
	e.lastShape = "even"
	if !s.Owned() {
		e.lastShape = "?"
	}
	e.m = NewModel(p.Cfg.Unique, p.Cfg.KeepsTag())
	for i, op := range p.Ops {
		f := e.step(i, op)
		if f == nil && h != nil && h.AfterOp != nil {
			f = e.hook(h, i)
		}
		if f != nil {
			e.res.Fail = f
			break
		}
		e.res.OpsDone++
	}
	e.res.Creates, e.res.Removes, _ = s.Stats()
	if trace {
		LastDump = s.Dump()
	}
	if f := e.res.Fail; f != nil {
		f.Detail["ops_until_failure"] = opsUpTo(p, f.OpIndex)
	}
	return e.res
}

func (e *exec) hook(h *Hooks, i int) (fl *Failure) {
	e.s.SetBudget(5000000 + 2000*e.m.n)
	e.callSite = "probe"
	defer func() { e.callSite = "" }()
	defer func() {
		if x := recover(); x != nil {
			if b, ok := x.(BudgetExceeded); ok {
				fl = e.fail("probe-no-termination", map[string]any{"repository_gets": b.Gets})
				fl.FromHook = true
				return
			}
			fl = e.fail("probe-panic", map[string]any{"panic": fmt.Sprint(x), "stack": string(debug.Stack())})
			fl.FromHook = true
		}
	}()
	f := h.AfterOp(i, len(e.p.Ops), e.p, e.s, e.m)
	if f != nil {
		f.FromHook = true
		f.OpIndex = i
		if f.Detail == nil {
			f.Detail = map[string]any{}
		}
		f.Detail["cfg"] = e.p.Cfg
		f.Detail["effective_slot_length"] = e.s.SlotLength()
		f.Detail["state_reached_after_op"] = e.ctxO.String()
		if e.m.n <= 60 {
			f.Detail["model"] = fmtItems(e.m.Sorted())
		}
	}
	return f
}

func opsUpTo(p *Program, idx int) []string {
	if idx >= len(p.Ops) {
		idx = len(p.Ops) - 1
	}
	lo := 0
	if idx > 80 {
		lo = idx - 80 // long programs: the tail; the shrunk program carries the full reproducer
	}
	var out []string
	for i := lo; i <= idx; i++ {
		out = append(out, fmt.Sprintf("%d: %s", i, p.Ops[i].String()))
	}
	return out
}

// Shrink reduces a failing program to a (locally) minimal one that still produces the same signature.
// run must execute the program and return its failure (nil when it passes). Deterministic; at most
// maxRuns executions.
func Shrink(p *Program, sig string, run func(*Program) *Failure, maxRuns int) (*Program, *Failure) {
	cur := &Program{Cfg: p.Cfg, Class: p.Class, WalkEvery: 1, Ops: append([]Op(nil), p.Ops...)}
	best := run(cur)
	if best == nil || best.Sig != sig {
		// e.g. WalkEvery changed the detection site; retry with the original period
		cur.WalkEvery = p.WalkEvery
		best = run(cur)
		if best == nil || best.Sig != sig {
			return p, nil
		}
	}
	runs := 0
	trim := func() {
		if best.OpIndex+1 < len(cur.Ops) {
			cur.Ops = cur.Ops[:best.OpIndex+1]
		}
	}
	trim()
	for chunk := len(cur.Ops) / 2; chunk >= 1; {
		progress := false
		for start := 0; start+chunk <= len(cur.Ops) && runs < maxRuns; {
			cand := &Program{Cfg: cur.Cfg, Class: cur.Class, WalkEvery: cur.WalkEvery}
			cand.Ops = append(append([]Op(nil), cur.Ops[:start]...), cur.Ops[start+chunk:]...)
			runs++
			if f := run(cand); f != nil && f.Sig == sig {
				cur, best = cand, f
				trim()
				progress = true
			} else {
				start += chunk
			}
		}
		if runs >= maxRuns {
			break
		}
		if !progress || chunk > len(cur.Ops) {
			chunk /= 2
		}
		if chunk > len(cur.Ops) && len(cur.Ops) > 0 {
			chunk = len(cur.Ops)
		}
	}
	return cur, best
}
