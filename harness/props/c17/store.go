// Package c17: the B-tree behaves as a correctly ordered collection (differential execution of
// generated operation sequences against an ordered-multiset reference model).
//
// store.go: the two ways the REAL btree code is reached —
//
//	(a) btree.New over a harness-owned in-memory NodeRepository / ItemActionTracker (a restatement of
//	    /repo/inmemory/instantiatebtree.go with free slot length, uniqueness and LeafLoadBalancing), and
//	(b) inmemory.NewBtree exactly as shipped —
//
// hidden behind one non-generic Store interface, plus the structural walk over the harness-owned
// repository.
package c17

import (
	"cmp"
	"context"
	"fmt"
	"strings"

	"github.com/sharedcode/sop"
	"github.com/sharedcode/sop/btree"
	"github.com/sharedcode/sop/inmemory"
)

// Key is the logical key used by the programs. K decides the order; Tag is payload that is NOT part
// of the order (so that "key updates" that keep the order are observable). With the int key kind the
// Tag is dropped on the way in and reads back as 0.
type Key struct{ K, Tag int }

// SKey is the struct key type stored in the tree for the struct key kinds. It implements
// btree.Comparer so that the default (coerced) comparer orders it by K only.
type SKey struct{ K, Tag int }

func (k SKey) Compare(other interface{}) int {
	o, _ := other.(SKey)
	return cmp.Compare(k.K, o.K)
}

// Obs is one item as observed in the store.
type Obs struct {
	K, Tag, V int
	ID        sop.UUID
}

// Config selects how the tree is built.
type Config struct {
	Variant string `json:"variant"`  // "owned" (btree.New over harness repository) | "shipped" (inmemory.NewBtree)
	ReqSlot int    `json:"req_slot"` // requested slot length (sop.NewStoreInfo rounds odd values down; shipped ignores it: 8)
	Unique  bool   `json:"unique"`
	Balance bool   `json:"balance"`  // StoreInfo.LeafLoadBalancing (owned only; shipped leaves it false)
	KeyKind string `json:"key_kind"` // "func" (SKey + explicit ComparerFunc) | "iface" (SKey, nil comparer → Comparer interface) | "int"
}

func (c Config) String() string {
	return fmt.Sprintf("%s/s%d/u%v/b%v/%s", c.Variant, c.ReqSlot, c.Unique, c.Balance, c.KeyKind)
}

// Scenario is the scenario class used in violation signatures.
func (c Config) Scenario() string {
	s := "dup"
	if c.Unique {
		s = "uniq"
	}
	if c.Balance && c.Variant == "owned" {
		return s + "-bal"
	}
	return s + "-nobal"
}

// KeepsTag reports whether the key kind can carry the Tag payload.
func (c Config) KeepsTag() bool { return c.KeyKind != "int" }

// Store is the non-generic face of one real B-tree instance.
type Store interface {
	Add(k Key, v int) (bool, error)
	AddIfNotExist(k Key, v int) (bool, error)
	Upsert(k Key, v int) (bool, error)
	Update(k Key, v int) (bool, error)
	UpdateKey(k Key) (bool, error)
	UpdateCurrentKey(k Key) (bool, error)
	UpdateCurrentItem(k Key, v int) (bool, error)
	UpdateCurrentValue(v int) (bool, error)
	Remove(k Key) (bool, error)
	RemoveCurrentItem() (bool, error)
	Find(k Key, first bool) (bool, error)
	FindWithID(k Key, id sop.UUID) (bool, error)
	FindDesc(k Key) (bool, error)
	First() (bool, error)
	Last() (bool, error)
	Next() (bool, error)
	Previous() (bool, error)
	// Cur reads the current item through GetCurrentKey + GetCurrentValue.
	Cur() (Obs, error)
	Count() int64
	// Range / RangeDesc call inmemory.BtreeInterface.Range / RangeDesc (the shipped iterators) and
	// collect at most limit items (over = the iterator wanted to yield more).
	Range(from, to Key, limit int) (items []Obs, over bool)
	RangeDesc(from, to Key, limit int) (items []Obs, over bool)
	All(limit int) (items []Obs, over bool)
	AllDesc(limit int) (items []Obs, over bool)

	// Owned reports whether the node repository is harness-owned (Walk, Stats, budget available).
	Owned() bool
	// Walk reads the tree structure straight from the harness-owned repository, without touching the
	// cursor: in-order items plus a list of structural problems.
	Walk() (items []Obs, problems []Problem)
	// Stats: nodes created (first time an id is saved), nodes removed, nodes currently in the repository.
	Stats() (creates, removes, live int)
	// SetBudget arms the per-operation guard: more than n repository Gets before the next SetBudget
	// panics with BudgetExceeded (deterministic replacement for a wall-clock watchdog).
	SetBudget(n int)
	SlotLength() int
	// Shape classifies the tree as seen by the last Walk: "even" (all leaves at one depth, no nil child
	// pointer) or "uneven" (leaves at different depths and/or a nil child pointer somewhere: the states in
	// which the leaf load balancing code takes its special paths); "?" when not owned.
	Shape() string
	// Dump renders the tree shape held by the harness-owned repository (diagnostics in failure details).
	Dump() string
}

// Problem is one structural finding of Walk.
type Problem struct {
	Class  string `json:"class"`
	Detail string `json:"detail"`
}

// BudgetExceeded is the panic value of the Get budget guard.
type BudgetExceeded struct{ Gets int }

// ---------------------------------------------------------------------------------------------
// harness-owned repository / tracker (restates /repo/inmemory/noderepository.go: nodes are kept by
// pointer, exactly as the shipped in-memory repository does)

type nodeRepo[TK btree.Ordered] struct {
	lookup  map[sop.UUID]*btree.Node[TK, int]
	creates int
	removes int
	gets    int
	budget  int
}

func (nr *nodeRepo[TK]) put(n *btree.Node[TK, int]) {
	if _, ok := nr.lookup[n.ID]; !ok {
		nr.creates++
	}
	nr.lookup[n.ID] = n
}
func (nr *nodeRepo[TK]) Add(n *btree.Node[TK, int])    { nr.put(n) }
func (nr *nodeRepo[TK]) Update(n *btree.Node[TK, int]) { nr.put(n) }
func (nr *nodeRepo[TK]) Get(ctx context.Context, id sop.UUID) (*btree.Node[TK, int], error) {
	nr.gets++
	if nr.budget > 0 && nr.gets > nr.budget {
		panic(BudgetExceeded{nr.gets})
	}
	return nr.lookup[id], nil
}
func (nr *nodeRepo[TK]) Fetched(id sop.UUID) {}
func (nr *nodeRepo[TK]) Remove(id sop.UUID) {
	if _, ok := nr.lookup[id]; ok {
		nr.removes++
	}
	delete(nr.lookup, id)
}

type nopTracker[TK btree.Ordered] struct{}

func (nopTracker[TK]) Add(ctx context.Context, item *btree.Item[TK, int]) error    { return nil }
func (nopTracker[TK]) Get(ctx context.Context, item *btree.Item[TK, int]) error    { return nil }
func (nopTracker[TK]) Update(ctx context.Context, item *btree.Item[TK, int]) error { return nil }
func (nopTracker[TK]) Remove(ctx context.Context, item *btree.Item[TK, int]) error { return nil }

// ---------------------------------------------------------------------------------------------

type gstore[TK btree.Ordered] struct {
	b                *btree.Btree[TK, int]
	im               inmemory.BtreeInterface[TK, int]
	mk               func(Key) TK
	un               func(TK) Key
	repo             *nodeRepo[TK] // nil for the shipped variant
	ctx              context.Context
	seen             map[sop.UUID]bool
	hasNil           bool
	minLeaf, maxLeaf int
	buf              []Obs // Walk result buffer, reused: the result is only valid until the next Walk
}

// NewStore builds one fresh tree for cfg.
func NewStore(cfg Config) (Store, error) {
	switch cfg.KeyKind {
	case "int":
		return build[int](cfg, nil, func(k Key) int { return k.K }, func(k int) Key { return Key{K: k} })
	case "func":
		return build[SKey](cfg, func(a, b SKey) int { return cmp.Compare(a.K, b.K) },
			func(k Key) SKey { return SKey(k) }, func(k SKey) Key { return Key(k) })
	case "iface":
		return build[SKey](cfg, nil, func(k Key) SKey { return SKey(k) }, func(k SKey) Key { return Key(k) })
	}
	return nil, fmt.Errorf("unknown key kind %q", cfg.KeyKind)
}

func build[TK btree.Ordered](cfg Config, comparer btree.ComparerFunc[TK], mk func(Key) TK, un func(TK) Key) (Store, error) {
	s := &gstore[TK]{mk: mk, un: un, ctx: context.Background()}
	switch cfg.Variant {
	case "shipped":
		if comparer != nil {
			return nil, fmt.Errorf("shipped variant has no comparer parameter")
		}
		s.im = inmemory.NewBtree[TK, int](cfg.Unique)
		s.b = s.im.Btree
	case "owned":
		// Same options as inmemory.NewBtree, with slot length / uniqueness / balancing free.
		// sop.NewStoreInfo is the documented way to obtain a StoreInfo; it rounds odd slot lengths
		// down ("Only even numbered slot lengths are allowed"), which is therefore part of the contract.
		so := sop.StoreOptions{
			Name:                         "",
			SlotLength:                   cfg.ReqSlot,
			IsUnique:                     cfg.Unique,
			IsValueDataInNodeSegment:     true,
			IsValueDataActivelyPersisted: true,
			LeafLoadBalancing:            cfg.Balance,
		}
		si := sop.NewStoreInfo(so)
		s.repo = &nodeRepo[TK]{lookup: map[sop.UUID]*btree.Node[TK, int]{}}
		sif := btree.StoreInterface[TK, int]{NodeRepository: s.repo, ItemActionTracker: nopTracker[TK]{}}
		b3, err := btree.New[TK, int](si, &sif, comparer)
		if err != nil {
			return nil, err
		}
		s.b = b3
		s.im = inmemory.BtreeInterface[TK, int]{Btree: b3}
	default:
		return nil, fmt.Errorf("unknown variant %q", cfg.Variant)
	}
	return s, nil
}

func (s *gstore[TK]) Add(k Key, v int) (bool, error) { return s.b.Add(s.ctx, s.mk(k), v) }
func (s *gstore[TK]) AddIfNotExist(k Key, v int) (bool, error) {
	return s.b.AddIfNotExist(s.ctx, s.mk(k), v)
}
func (s *gstore[TK]) Upsert(k Key, v int) (bool, error) { return s.b.Upsert(s.ctx, s.mk(k), v) }
func (s *gstore[TK]) Update(k Key, v int) (bool, error) { return s.b.Update(s.ctx, s.mk(k), v) }
func (s *gstore[TK]) UpdateKey(k Key) (bool, error)     { return s.b.UpdateKey(s.ctx, s.mk(k)) }
func (s *gstore[TK]) UpdateCurrentKey(k Key) (bool, error) {
	return s.b.UpdateCurrentKey(s.ctx, s.mk(k))
}
func (s *gstore[TK]) UpdateCurrentItem(k Key, v int) (bool, error) {
	return s.b.UpdateCurrentItem(s.ctx, s.mk(k), v)
}
func (s *gstore[TK]) UpdateCurrentValue(v int) (bool, error) { return s.b.UpdateCurrentValue(s.ctx, v) }
func (s *gstore[TK]) Remove(k Key) (bool, error)             { return s.b.Remove(s.ctx, s.mk(k)) }
func (s *gstore[TK]) RemoveCurrentItem() (bool, error)       { return s.b.RemoveCurrentItem(s.ctx) }
func (s *gstore[TK]) Find(k Key, first bool) (bool, error)   { return s.b.Find(s.ctx, s.mk(k), first) }
func (s *gstore[TK]) FindWithID(k Key, id sop.UUID) (bool, error) {
	return s.b.FindWithID(s.ctx, s.mk(k), id)
}
func (s *gstore[TK]) FindDesc(k Key) (bool, error) { return s.b.FindInDescendingOrder(s.ctx, s.mk(k)) }
func (s *gstore[TK]) First() (bool, error)         { return s.b.First(s.ctx) }
func (s *gstore[TK]) Last() (bool, error)          { return s.b.Last(s.ctx) }
func (s *gstore[TK]) Next() (bool, error)          { return s.b.Next(s.ctx) }
func (s *gstore[TK]) Previous() (bool, error)      { return s.b.Previous(s.ctx) }
func (s *gstore[TK]) Count() int64                 { return s.b.Count() }
func (s *gstore[TK]) Owned() bool                  { return s.repo != nil }
func (s *gstore[TK]) SlotLength() int              { return s.b.StoreInfo.SlotLength }

func (s *gstore[TK]) Cur() (Obs, error) {
	it := s.b.GetCurrentKey()
	v, err := s.b.GetCurrentValue(s.ctx)
	k := s.un(it.Key)
	return Obs{K: k.K, Tag: k.Tag, V: v, ID: it.ID}, err
}

func (s *gstore[TK]) collect(seq func(yield func(TK, int) bool), limit int) ([]Obs, bool) {
	var out []Obs
	over := false
	seq(func(k TK, v int) bool {
		if len(out) >= limit {
			over = true
			return false
		}
		kk := s.un(k)
		out = append(out, Obs{K: kk.K, Tag: kk.Tag, V: v})
		return true
	})
	return out, over
}

func (s *gstore[TK]) Range(from, to Key, limit int) ([]Obs, bool) {
	return s.collect(s.im.Range(s.mk(from), s.mk(to)), limit)
}
func (s *gstore[TK]) RangeDesc(from, to Key, limit int) ([]Obs, bool) {
	return s.collect(s.im.RangeDesc(s.mk(from), s.mk(to)), limit)
}
func (s *gstore[TK]) All(limit int) ([]Obs, bool)     { return s.collect(s.im.All(), limit) }
func (s *gstore[TK]) AllDesc(limit int) ([]Obs, bool) { return s.collect(s.im.AllDesc(), limit) }

func (s *gstore[TK]) Stats() (int, int, int) {
	if s.repo == nil {
		return 0, 0, 0
	}
	return s.repo.creates, s.repo.removes, len(s.repo.lookup)
}

func (s *gstore[TK]) SetBudget(n int) {
	if s.repo != nil {
		s.repo.gets = 0
		s.repo.budget = n
	}
}

// Walk: in-order traversal of the repository from StoreInfo.RootNodeID. Only invariants whose breach
// is unambiguous are reported (see Problem classes); the item sequence itself is judged by the caller
// against the model. Neither is a verdict on its own: the caller re-judges every walk alarm through the
// public cursor API (exec.content).
//
//	dangling-child   a non-nil child id that the repository does not hold
//	parent-mismatch  child.ParentID != id of the node that lists it
//	node-reached-twice
//	count-range      Count outside [0, SlotLength]
//	root-missing     Count() > 0 but the root id resolves to nothing
//	empty-slot-within-count  a slot below Count holds the zero item (nil item id): scans would yield a phantom item
//	unreachable-node repository holds a node that the traversal did not reach
func (s *gstore[TK]) Walk() ([]Obs, []Problem) {
	if s.repo == nil {
		return nil, nil
	}
	items := s.buf[:0]
	defer func() { s.buf = items[:0] }()
	var problems []Problem
	s.hasNil, s.minLeaf, s.maxLeaf = false, 1<<30, -1
	if s.seen == nil {
		s.seen = map[sop.UUID]bool{}
	}
	clear(s.seen)
	seen := s.seen
	slotLen := s.b.StoreInfo.SlotLength
	var visit func(id, parent sop.UUID, depth int)
	visit = func(id, parent sop.UUID, depth int) {
		n := s.repo.lookup[id]
		if n == nil {
			problems = append(problems, Problem{"dangling-child", fmt.Sprintf("node %v lists child %v which is not in the repository", parent, id)})
			return
		}
		if seen[id] {
			problems = append(problems, Problem{"node-reached-twice", fmt.Sprintf("node %v", id)})
			return
		}
		seen[id] = true
		if n.ParentID != parent {
			problems = append(problems, Problem{"parent-mismatch", fmt.Sprintf("node %v has ParentID %v but is listed by %v", id, n.ParentID, parent)})
		}
		if n.Count < 0 || n.Count > slotLen || n.Count > len(n.Slots) {
			problems = append(problems, Problem{"count-range", fmt.Sprintf("node %v Count=%d slots=%d", id, n.Count, len(n.Slots))})
			return
		}
		hasKids := len(n.ChildrenIDs) > 0
		if !hasKids {
			s.minLeaf, s.maxLeaf = min(s.minLeaf, depth), max(s.maxLeaf, depth)
		}
		for i := 0; i <= n.Count; i++ {
			if hasKids && i < len(n.ChildrenIDs) {
				if n.ChildrenIDs[i].IsNil() {
					s.hasNil = true
				} else {
					visit(n.ChildrenIDs[i], id, depth+1)
				}
			}
			if i < n.Count {
				it := n.Slots[i]
				k := s.un(it.Key)
				v := 0
				if it.Value != nil {
					v = *it.Value
				}
				if it.ID.IsNil() {
					problems = append(problems, Problem{"empty-slot-within-count", fmt.Sprintf("node %v Count=%d but slot %d holds no item (nil item id)", id, n.Count, i)})
				}
				items = append(items, Obs{K: k.K, Tag: k.Tag, V: v, ID: it.ID})
			}
		}
	}
	root := s.b.StoreInfo.RootNodeID
	if !root.IsNil() {
		if s.repo.lookup[root] == nil {
			if s.b.Count() > 0 {
				problems = append(problems, Problem{"root-missing", fmt.Sprintf("root %v", root)})
			}
		} else {
			visit(root, sop.NilUUID, 0)
		}
	}
	if len(seen) != len(s.repo.lookup) {
		n := 0
		for id := range s.repo.lookup {
			if !seen[id] {
				n++
			}
		}
		if n > 0 {
			problems = append(problems, Problem{"unreachable-node", fmt.Sprintf("%d of %d repository nodes are not reachable from the root", n, len(s.repo.lookup))})
		}
	}
	return items, problems
}

// Dump renders the tree as nested brackets: node = [child0 item0 child1 item1 ... childN], "_" = nil
// child, "!" marks a slot inside Count whose item id is nil.
func (s *gstore[TK]) Dump() string {
	if s.repo == nil {
		return ""
	}
	var sb strings.Builder
	var visit func(id sop.UUID, depth int)
	visit = func(id sop.UUID, depth int) {
		n := s.repo.lookup[id]
		if n == nil {
			sb.WriteString("<missing>")
			return
		}
		if depth > 64 {
			sb.WriteString("<too deep>")
			return
		}
		sb.WriteString("[")
		kids := len(n.ChildrenIDs) > 0
		for i := 0; i <= n.Count && i <= len(n.Slots); i++ {
			if kids && i < len(n.ChildrenIDs) {
				if n.ChildrenIDs[i].IsNil() {
					sb.WriteString("_")
				} else {
					visit(n.ChildrenIDs[i], depth+1)
				}
				sb.WriteString(" ")
			}
			if i < n.Count && i < len(n.Slots) {
				k := s.un(n.Slots[i].Key)
				fmt.Fprintf(&sb, "%d", k.K)
				if n.Slots[i].ID.IsNil() {
					sb.WriteString("!")
				}
				if i < n.Count-1 || kids {
					sb.WriteString(" ")
				}
			}
		}
		sb.WriteString("]")
	}
	if !s.b.StoreInfo.RootNodeID.IsNil() {
		visit(s.b.StoreInfo.RootNodeID, 0)
	}
	return sb.String()
}

func (s *gstore[TK]) Shape() string {
	if s.repo == nil {
		return "?"
	}
	if s.hasNil || (s.maxLeaf >= 0 && s.minLeaf != s.maxLeaf) {
		return "uneven"
	}
	return "even"
}
