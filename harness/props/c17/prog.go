package c17

// prog.go: the operation vocabulary, programs, the seeded program generator and the exhaustive
// enumeration alphabet. A program is a self-contained list of operations (all parameters explicit),
// so it replays and shrinks without the generator.

import (
	"encoding/json"
	"fmt"
	"hash/fnv"
	"math/rand"
)

type OpKind string

const (
	// plain calls, defined for every cursor state
	OpAdd           OpKind = "Add"
	OpAddIfNotExist OpKind = "AddIfNotExist"
	OpUpsert        OpKind = "Upsert"
	OpUpdate        OpKind = "Update"
	OpUpdateKey     OpKind = "UpdateKey"
	OpRemove        OpKind = "Remove"
	// compound: position the cursor with a successful search/navigation, then act on the current item
	OpFindRemove     OpKind = "Find+RemoveCurrentItem"       // Find(K, First)
	OpFindUpdItem    OpKind = "Find+UpdateCurrentItem"       // UpdateCurrentItem({K2,Tag}, V); K2 != K must be rejected
	OpFindUpdKey     OpKind = "Find+UpdateCurrentKey"        // UpdateCurrentKey({K2,Tag});     K2 != K must be rejected
	OpFindUpdValue   OpKind = "Find+UpdateCurrentValue"      // UpdateCurrentValue(V)
	OpFindDescRemove OpKind = "FindDesc+RemoveCurrentItem"   // FindInDescendingOrder(K)
	OpFindIDRemove   OpKind = "FindWithID+RemoveCurrentItem" // the (N mod run)-th of the items with key K
	OpFindIDUpdValue OpKind = "FindWithID+UpdateCurrentValue"
	OpNavRemove      OpKind = "Nav+RemoveCurrentItem" // First (or Last) then N x Next (Previous)
	OpNavUpdValue    OpKind = "Nav+UpdateCurrentValue"
	OpNavUpdKey      OpKind = "Nav+UpdateCurrentKey" // UpdateCurrentKey({K2,Tag}); rejected unless K2 equals the current key
	// full scan through the public cursor API (First/Next, Last/Previous)
	OpScan OpKind = "Scan"
	// "stale cursor" calls: issued at whatever cursor state the previous operations left (unspecified
	// by the doc comments), judged with the weakest oracle: either nothing happened (false) or exactly
	// one legal change happened (true).
	OpBareRemove   OpKind = "stale-RemoveCurrentItem"
	OpBareUpdValue OpKind = "stale-UpdateCurrentValue"
	OpBareUpdKey   OpKind = "stale-UpdateCurrentKey"
	OpBareUpdItem  OpKind = "stale-UpdateCurrentItem"
	OpBareNext     OpKind = "stale-Next"
	OpBarePrev     OpKind = "stale-Previous"
)

func (k OpKind) stale() bool { return len(k) > 6 && k[:6] == "stale-" }

// Op is one program step. Unused fields are zero. V values are unique within a program.
type Op struct {
	Kind     OpKind `json:"op"`
	K        int    `json:"k,omitempty"`
	K2       int    `json:"k2,omitempty"`
	Tag      int    `json:"tag,omitempty"`
	V        int    `json:"v,omitempty"`
	N        int    `json:"n,omitempty"`
	First    bool   `json:"first,omitempty"`
	FromLast bool   `json:"from_last,omitempty"`
}

func (o Op) String() string {
	switch o.Kind {
	case OpAdd, OpAddIfNotExist, OpUpsert, OpUpdate:
		return fmt.Sprintf("%s({%d,t%d},v%d)", o.Kind, o.K, o.Tag, o.V)
	case OpUpdateKey:
		return fmt.Sprintf("UpdateKey({%d,t%d})", o.K, o.Tag)
	case OpRemove:
		return fmt.Sprintf("Remove(%d)", o.K)
	case OpFindRemove, OpFindUpdValue:
		return fmt.Sprintf("%s[Find(%d,first=%v) v%d]", o.Kind, o.K, o.First, o.V)
	case OpFindUpdItem, OpFindUpdKey:
		return fmt.Sprintf("%s[Find(%d,first=%v) -> {%d,t%d} v%d]", o.Kind, o.K, o.First, o.K2, o.Tag, o.V)
	case OpFindDescRemove:
		return fmt.Sprintf("%s[%d]", o.Kind, o.K)
	case OpFindIDRemove, OpFindIDUpdValue:
		return fmt.Sprintf("%s[key %d dup#%d v%d]", o.Kind, o.K, o.N, o.V)
	case OpNavRemove, OpNavUpdValue, OpNavUpdKey:
		return fmt.Sprintf("%s[fromLast=%v steps=%d -> {%d,t%d} v%d]", o.Kind, o.FromLast, o.N, o.K2, o.Tag, o.V)
	case OpBareUpdKey, OpBareUpdItem:
		return fmt.Sprintf("%s({%d,t%d},v%d)", o.Kind, o.K, o.Tag, o.V)
	case OpBareUpdValue:
		return fmt.Sprintf("%s(v%d)", o.Kind, o.V)
	}
	return string(o.Kind)
}

// Program: a configuration plus the operation list.
type Program struct {
	Cfg   Config `json:"cfg"`
	Class string `json:"class"` // exh | rand | stale | long
	// WalkEvery: (owned) compare the repository content with the model after every WalkEvery-th
	// operation in addition to the operations that need it (choices, stale ops). 1 = after every op.
	WalkEvery int  `json:"walk_every"`
	Ops       []Op `json:"ops"`
}

// Hash is the program fingerprint.
func (p *Program) Hash() string {
	b, _ := json.Marshal(p)
	h := fnv.New64a()
	h.Write(b)
	return fmt.Sprintf("%016x", h.Sum64())
}

func (p *Program) Strings() []string {
	out := make([]string, len(p.Ops))
	for i, o := range p.Ops {
		out[i] = o.String()
	}
	return out
}

// KeyOf maps a domain index to the key value: keys are even numbers so that odd numbers are probe
// keys "between" stored keys (C18).
func KeyOf(i int) int { return 2 * i }

// GenSpec parametrises the random generator.
type GenSpec struct {
	NKeys    int  // domain size
	Ops      int  // program length
	Stale    bool // mix in stale-cursor operations
	ScanProb int  // one Scan op per ~ScanProb ops (0 = only the final one)
}

// Gen produces a program of spec.Ops operations. Pure function of rnd's state.
//
// The program runs in phases (grow / shrink / churn / drain / dup-heavy / sequential), so that
// splits, rotations, node deletions, root collapses and refills of nil children all happen.
func Gen(rnd *rand.Rand, cfg Config, spec GenSpec, class string) *Program {
	p := &Program{Cfg: cfg, Class: class, WalkEvery: 1}
	nk := spec.NKeys
	v := 0
	nextV := func() int { v++; return v }
	key := func(mode int, hot int, seq *int) int {
		switch mode {
		case 1: // hot key
			if rnd.Intn(100) < 60 {
				return KeyOf(hot)
			}
		case 2: // ascending
			*seq = (*seq + 1) % nk
			return KeyOf(*seq)
		case 3: // descending
			*seq = (*seq - 1 + nk) % nk
			return KeyOf(*seq)
		case 4: // narrow band around hot
			return KeyOf((hot + rnd.Intn(3)) % nk)
		}
		return KeyOf(rnd.Intn(nk))
	}
	for len(p.Ops) < spec.Ops {
		phaseLen := 10 + rnd.Intn(120)
		// weights: add, addIfNotExist, upsert, update, updateKey, remove, compound-remove, compound-update, nav
		var w [9]int
		switch rnd.Intn(6) {
		case 0: // grow
			w = [9]int{50, 8, 10, 4, 2, 8, 6, 6, 6}
		case 1: // shrink
			w = [9]int{10, 2, 4, 4, 2, 35, 25, 6, 12}
		case 2: // churn
			w = [9]int{25, 5, 10, 8, 5, 20, 12, 8, 7}
		case 3: // drain: sequential deletes from one end
			w = [9]int{2, 0, 1, 1, 0, 20, 16, 0, 60}
		case 4: // updates
			w = [9]int{10, 5, 20, 20, 15, 5, 5, 15, 5}
		case 5: // grow hard
			w = [9]int{80, 2, 8, 0, 0, 4, 2, 2, 2}
		}
		mode := rnd.Intn(6) // 0,5: uniform
		hot := rnd.Intn(nk)
		seq := rnd.Intn(nk)
		navFromLast := rnd.Intn(2) == 1
		navSmall := rnd.Intn(2) == 1
		tot := 0
		for _, x := range w {
			tot += x
		}
		for i := 0; i < phaseLen && len(p.Ops) < spec.Ops; i++ {
			if spec.ScanProb > 0 && rnd.Intn(spec.ScanProb) == 0 {
				p.Ops = append(p.Ops, Op{Kind: OpScan})
				continue
			}
			if spec.Stale && rnd.Intn(8) == 0 {
				kinds := []OpKind{OpBareRemove, OpBareRemove, OpBareUpdValue, OpBareUpdKey, OpBareUpdItem, OpBareNext, OpBarePrev}
				p.Ops = append(p.Ops, Op{Kind: kinds[rnd.Intn(len(kinds))], K: key(mode, hot, &seq), Tag: rnd.Intn(4), V: nextV()})
				continue
			}
			x := rnd.Intn(tot)
			c := 0
			for c = 0; c < len(w); c++ {
				if x < w[c] {
					break
				}
				x -= w[c]
			}
			k := key(mode, hot, &seq)
			op := Op{K: k, Tag: rnd.Intn(4), V: nextV()}
			switch c {
			case 0:
				op.Kind = OpAdd
			case 1:
				op.Kind = OpAddIfNotExist
			case 2:
				op.Kind = OpUpsert
			case 3:
				op.Kind = OpUpdate
			case 4:
				op.Kind = OpUpdateKey
			case 5:
				op.Kind = OpRemove
			case 6:
				op.Kind = []OpKind{OpFindRemove, OpFindRemove, OpFindDescRemove, OpFindIDRemove}[rnd.Intn(4)]
				op.First = rnd.Intn(2) == 1
				op.N = rnd.Intn(8)
			case 7:
				op.Kind = []OpKind{OpFindUpdItem, OpFindUpdKey, OpFindUpdValue, OpFindIDUpdValue}[rnd.Intn(4)]
				op.First = rnd.Intn(2) == 1
				op.N = rnd.Intn(8)
				op.K2 = k
				if rnd.Intn(3) == 0 { // a key that would change the order: must be rejected
					op.K2 = KeyOf(rnd.Intn(nk))
					if rnd.Intn(2) == 0 {
						op.K2 = k + 1 - 2*rnd.Intn(2)
					}
				}
			case 8:
				op.Kind = []OpKind{OpNavRemove, OpNavRemove, OpNavRemove, OpNavUpdValue, OpNavUpdKey}[rnd.Intn(5)]
				op.FromLast = navFromLast
				if navSmall {
					op.N = rnd.Intn(3)
				} else {
					op.N = rnd.Intn(3 * nk)
				}
				op.K2 = KeyOf(rnd.Intn(nk))
			}
			p.Ops = append(p.Ops, op)
		}
	}
	p.Ops = append(p.Ops, Op{Kind: OpScan})
	return p
}

// Alphabet returns the operation alphabet of the exhaustive enumeration over nKeys keys.
// level 0: Add, Remove, Upsert; level 1: + AddIfNotExist, Update; level 2: + Find(first)+RemoveCurrentItem,
// FindDesc+RemoveCurrentItem.
func Alphabet(nKeys, level int) []Op {
	kinds := []OpKind{OpAdd, OpRemove, OpUpsert}
	if level >= 1 {
		kinds = append(kinds, OpAddIfNotExist, OpUpdate)
	}
	if level >= 2 {
		kinds = append(kinds, OpFindRemove, OpFindDescRemove)
	}
	var out []Op
	for _, kd := range kinds {
		for i := 0; i < nKeys; i++ {
			out = append(out, Op{Kind: kd, K: KeyOf(i), First: true})
		}
	}
	return out
}
