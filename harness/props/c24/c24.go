// Package c24: handle records round-trip and fit their disk block without overlap.
package c24

import (
	"bytes"
	"fmt"
	"math"
	"os"

	"github.com/sharedcode/sop"
	"github.com/sharedcode/sop/encoding"

	"verifharness/kit/env"
	"verifharness/kit/regx"
	"verifharness/kit/report"
)

func randHandle(rnd interface {
	Int63() int64
	Intn(int) int
	Read([]byte) (int, error)
}) sop.Handle {
	var h sop.Handle
	rnd.Read(h.LogicalID[:])
	rnd.Read(h.PhysicalIDA[:])
	rnd.Read(h.PhysicalIDB[:])
	h.IsActiveIDB = rnd.Intn(2) == 1
	h.IsDeleted = rnd.Intn(2) == 1
	v32 := []int32{0, 1, -1, math.MaxInt32, math.MinInt32, int32(rnd.Int63())}
	v64 := []int64{0, 1, -1, math.MaxInt64, math.MinInt64, rnd.Int63(), -rnd.Int63()}
	h.Version = v32[rnd.Intn(len(v32))]
	h.WorkInProgressTimestamp = v64[rnd.Intn(len(v64))]
	return h
}

func Run(r *report.Run) int {
	rnd := env.Rand(r.Seed, "c24")
	m := encoding.NewHandleMarshaler()

	// Part 1: codec round trip over generated handles: all flag combinations x int32/int64 extremes x ids.
	n := r.Pick(20000, 400000)
	for i := 0; i < n; i++ {
		h := randHandle(rnd)
		if i%7 == 0 { // nil / all-ones ids
			h.PhysicalIDB = sop.NilUUID
		}
		if i%11 == 0 {
			for j := range h.PhysicalIDA {
				h.PhysicalIDA[j] = 0xff
			}
		}
		b, err := m.Marshal(h, make([]byte, 0, sop.HandleSizeInBytes))
		cls := fmt.Sprintf("codec:activeB=%v:deleted=%v:v=%s:ts=%s", h.IsActiveIDB, h.IsDeleted, cls32(h.Version), cls64(h.WorkInProgressTimestamp))
		r.Eval(cls, true)
		if err != nil || len(b) != regx.SlotSize {
			r.Violation("C24:codec:encoded-size", map[string]any{"handle": h, "len": len(b), "err": fmt.Sprint(err)})
			continue
		}
		var g sop.Handle
		if err := m.Unmarshal(b, &g); err != nil || g != h {
			r.Violation("C24:codec:roundtrip-mismatch", map[string]any{"in": h, "out": g, "err": fmt.Sprint(err)})
		}
		lid, err := m.UnmarshalLogicalID(b)
		if err != nil || lid != h.LogicalID {
			r.Violation("C24:codec:logical-id-mismatch", map[string]any{"in": h, "lid": lid})
		}
		// two different handles must encode differently (injective on the 62 bytes)
		h2 := h
		h2.Version++
		b2, _ := m.Marshal(h2, make([]byte, 0, sop.HandleSizeInBytes))
		if bytes.Equal(b, b2) {
			r.Violation("C24:codec:not-injective", map[string]any{"a": h, "b": h2})
		}
		if i < 3 {
			r.Sample(map[string]any{"kind": "codec", "handle": h, "encoded_len": len(b)})
		}
	}
	r.Count("codec_roundtrips", int64(n))

	// Part 2: layout observed on real files. For each modulus, write one handle per slot index and
	// observe which bytes of the raw segment file changed.
	mods := []int{1, 3}
	if r.Thorough() {
		mods = []int{1, 2, 3, 7, 250}
	}
	maxSlotEnd, minCRCStart := 0, regx.BlockSize
	for _, mod := range mods {
		base := env.Scratch("c24")
		reg, err := regx.Open(base, "tbl", mod, true)
		if err != nil {
			r.Broken("open registry: %v", err)
			break
		}
		blocks := []int{0}
		if mod > 1 {
			blocks = []int{0, mod - 1}
		}
		for _, blk := range blocks {
			var prev []byte
			if fl := regx.SegmentFiles(base, "tbl"); len(fl) == 1 {
				prev, _ = os.ReadFile(fl[0])
			}
			for slot := 0; slot < regx.HandlesPerBlock; slot++ {
				for phase := 0; phase < 2; phase++ { // 0 = add, 1 = update in place
					id := regx.MakeID(mod, blk, slot, uint32(1+slot))
					h := randHandle(rnd)
					h.LogicalID = id
					var err error
					if phase == 0 {
						err = reg.Add(h)
					} else {
						err = reg.UpdateNoLocks(false, h)
					}
					if err != nil {
						r.Broken("registry write failed: %v", err)
						return r.Finish(rule, assumptions, 10)
					}
					files := regx.SegmentFiles(base, "tbl")
					if len(files) != 1 {
						r.Violation("C24:layout:unexpected-segment-count", map[string]any{"files": files, "mod": mod, "slot": slot})
						continue
					}
					cur, _ := os.ReadFile(files[0])
					if len(cur) != mod*regx.BlockSize {
						r.Violation("C24:layout:segment-size", map[string]any{"size": len(cur), "mod": mod})
					}
					if prev == nil {
						prev = make([]byte, len(cur))
					}
					// changed byte ranges
					lo, hi := -1, -1
					var outside []int
					bs := blk * regx.BlockSize
					for i := range cur {
						if cur[i] != prev[i] {
							in := i >= bs+slot*regx.SlotSize && i < bs+(slot+1)*regx.SlotSize
							crc := i >= bs+regx.BlockSize-4 && i < bs+regx.BlockSize
							if !in && !crc {
								outside = append(outside, i)
							}
							if in {
								if lo < 0 {
									lo = i - bs
								}
								hi = i - bs
							}
						}
					}
					if len(outside) > 0 {
						if len(outside) > 8 {
							outside = outside[:8]
						}
						r.Violation("C24:layout:write-outside-slot", map[string]any{"mod": mod, "block": blk, "slot": slot, "phase": phase, "offsets": outside})
					}
					// the stored 62 bytes decode to the written handle, at the slot's own offset
					var g sop.Handle
					raw := cur[bs+slot*regx.SlotSize : bs+(slot+1)*regx.SlotSize]
					if err := m.Unmarshal(raw, &g); err != nil || g != h {
						r.Violation("C24:layout:slot-content-mismatch", map[string]any{"mod": mod, "block": blk, "slot": slot, "want": h, "got": g})
					}
					if hi+1 > maxSlotEnd {
						maxSlotEnd = hi + 1
					}
					if (slot+1)*regx.SlotSize > regx.BlockSize-4 {
						r.Violation("C24:layout:slot-overlaps-checksum", map[string]any{"slot": slot})
					}
					// all earlier slots still decode to what was written
					prev = cur
					r.Eval(fmt.Sprintf("layout:mod=%d:blk=%d:slot=%d:phase=%d", mod, blk, slot, phase), true)
				}
			}
			// whole block read back through a fresh registry: all 66 ids present
			reg2, _ := regx.Open(base, "tbl", mod, false)
			ids := make([]sop.UUID, 0, 66)
			for slot := 0; slot < regx.HandlesPerBlock; slot++ {
				ids = append(ids, regx.MakeID(mod, blk, slot, uint32(1+slot)))
			}
			got, err := reg2.Get(ids...)
			if err != nil || len(got) != 66 {
				r.Violation("C24:layout:full-block-readback", map[string]any{"mod": mod, "block": blk, "found": len(got), "err": fmt.Sprint(err)})
			}
			reg2.Close()
			slots, _ := regx.ReadAll(base, "tbl")
			for _, s := range slots {
				if !s.CRCOK {
					r.Violation("C24:layout:crc-invalid-after-writes", map[string]any{"mod": mod, "block": s.Block})
					break
				}
			}
			r.Count("slots_written", 66)
		}
		reg.Close()
		env.Remove(base)
	}
	// Part 3: collisions. When an id's ideal slot is taken the writer probes other slots of the block; the
	// record must still land in exactly ONE aligned 62-byte slot (never straddling two, never the CRC area),
	// also when every slot after the ideal one is taken and the probe has to wrap around.
	for _, sIdeal := range []int{0, 1, 2, 40, 64, 65} {
		base := env.Scratch("c24col")
		reg, err := regx.Open(base, "tbl", 1, true)
		if err != nil {
			r.Broken("open registry: %v", err)
			break
		}
		written := map[sop.UUID]sop.Handle{}
		add := func(slot int, salt uint32) bool {
			h := randHandle(rnd)
			h.LogicalID = regx.MakeID(1, 0, slot, salt)
			h.WorkInProgressTimestamp, h.IsDeleted = 0, false // the normal committed state
			if err := reg.Add(h); err != nil {
				r.Broken("registry add failed: %v", err)
				return false
			}
			written[h.LogicalID] = h
			return true
		}
		ok := true
		if sIdeal > 0 {
			ok = add(0, 900) // a resident low slot that a misplaced write could clobber
		}
		for slot := sIdeal; slot < regx.HandlesPerBlock && ok; slot++ {
			ok = add(slot, uint32(1000+slot))
		}
		if !ok {
			break
		}
		files := regx.SegmentFiles(base, "tbl")
		prev, _ := os.ReadFile(files[0])
		for c := 0; c < 3 && ok; c++ { // three colliders with the same ideal slot
			if !add(sIdeal, uint32(5000+c)) {
				ok = false
				break
			}
			cur, _ := os.ReadFile(files[0])
			first, last := -1, -1
			for i := 0; i < regx.BlockSize-4 && i < len(cur); i++ {
				if cur[i] != prev[i] {
					if first < 0 {
						first = i
					}
					last = i
				}
			}
			fp := fmt.Sprintf("collision:ideal=%d:collider=%d", sIdeal, c)
			r.Eval(fp, true)
			if first < 0 {
				// block full: the record went to another segment, nothing to check in this block
				prev = cur
				continue
			}
			if first/regx.SlotSize != last/regx.SlotSize {
				r.Violation("C24:layout:collision-write-straddles-slots", map[string]any{"ideal_slot": sIdeal, "collider": c, "first_changed_byte": first, "last_changed_byte": last})
			}
			prev = cur
		}
		// every record ever written must sit in exactly one aligned slot and decode back unchanged
		slots, _ := regx.ReadAll(base, "tbl")
		found := map[sop.UUID]int{}
		for _, sl := range slots {
			if w, okk := written[sl.Handle.LogicalID]; okk {
				found[sl.Handle.LogicalID]++
				if w != sl.Handle {
					r.Violation("C24:layout:collision-record-changed-on-disk", map[string]any{"ideal_slot": sIdeal, "written": w, "on_disk": sl.Handle, "slot": sl.Slot})
				}
			} else {
				r.Violation("C24:layout:collision-slot-holds-unwritten-record", map[string]any{"ideal_slot": sIdeal, "slot": sl.Slot, "on_disk": sl.Handle})
			}
		}
		for id := range written {
			if found[id] != 1 {
				r.Violation("C24:layout:collision-record-not-in-exactly-one-slot", map[string]any{"ideal_slot": sIdeal, "id": id.String(), "aligned_slots_holding_it": found[id]})
			}
		}
		reg.Close()
		env.Remove(base)
	}
	_ = minCRCStart
	r.Set("max_observed_slot_end", maxSlotEnd)
	r.Set("observed_block_geometry", fmt.Sprintf("%d slots x %d bytes + 4 CRC bytes = %d", regx.HandlesPerBlock, regx.SlotSize, regx.HandlesPerBlock*regx.SlotSize+4))
	if maxSlotEnd > regx.BlockSize-4 {
		r.Violation("C24:layout:slot-overlaps-checksum", map[string]any{"max_slot_end": maxSlotEnd})
	}
	r.Sample(map[string]any{"kind": "layout", "mods": mods, "slots_per_block": 66, "phases": []string{"add", "update"}})
	return r.Finish(rule, assumptions, 10)
}

const rule = "codec: seeded random handles over all flag combinations and int32/int64 extremes, fingerprint = (flags, version class, timestamp class); layout: one Add and one UpdateNoLocks per (modulus, block, slot) on a real registry file, raw file diffed before/after; fingerprint = (mod, block, slot, phase); collisions: ideal slot s in {0,1,2,40,64,65} with every slot from s to 65 taken, three colliders each: the bytes changed by each write must lie inside ONE aligned slot and every record written must be found in exactly one aligned slot, unchanged; every case is non-trivial (it reaches the encoder or the block writer)"

var assumptions = []string{"registry files on ext4 with O_DIRECT", "in-memory L2 cache (fresh per registry instance)", "layout observed through the public fs.NewRegistry API, raw bytes read with os.ReadFile"}

func cls32(v int32) string {
	switch v {
	case 0, 1, -1, math.MaxInt32, math.MinInt32:
		return fmt.Sprint(v)
	}
	if v < 0 {
		return "neg"
	}
	return "pos"
}
func cls64(v int64) string {
	switch v {
	case 0, 1, -1, math.MaxInt64, math.MinInt64:
		return fmt.Sprint(v)
	}
	if v < 0 {
		return "neg"
	}
	return "pos"
}
