// Package hist: crash-free transaction histories over stores of all value placements, with commits,
// voluntary rollbacks and injected commit failures, followed by the raw disk walker (C10, C11).
package hist

import (
	"context"
	"encoding/json"
	"fmt"
	"os"
	"sort"
	"strconv"
	"time"

	"github.com/sharedcode/sop"

	"verifharness/kit/deco"
	"verifharness/kit/env"
	"verifharness/kit/mirror"
	"verifharness/kit/par"
	"verifharness/kit/proc"
	"verifharness/kit/report"
	"verifharness/kit/sopx"
	"verifharness/kit/txn"
	"verifharness/kit/walk"
)

func init() { proc.Register("hist-worker", func(a []string) int { return par.Serve(a, history) }) }

// labels of call sites that lie BEFORE the commit point (a fault there aborts the transaction and its
// rollback/cleanup runs to completion afterwards).
var preCommitLabels = []string{"tlog.Add(2)", "tlog.Add(3)", "tlog.Add(4)", "tlog.Add(5)", "tlog.Add(6)", "tlog.Add(7)", "tlog.Add(8)", "tlog.Add(9)", "tlog.Add(10)",
	"l2.Lock", "l2.IsLocked", "blob.Add", "reg.UpdateNoLocks(false)", "reg.Get", "reg.Add", "sr.Update", "plog.Add", "l2.GetStructs[lock]", "l2.SetStructs[lock]", "reg.UpdateNoLocks(true)"}

// any label incl. post-commit cleanup (C10 only).
var anyLabels = append([]string{"blob.Remove", "reg.Remove", "tlog.Add(12)", "tlog.Add(13)", "tlog.Remove", "plog.Remove", "l2.Delete[node]", "l2.Unlock", "l2.Delete[lock]"}, preCommitLabels...)

type Res struct {
	Hash         string      `json:"hash"`
	Profiles     []string    `json:"profiles"`
	Txns         int         `json:"txns"`
	Committed    int         `json:"committed"`
	Failed       int         `json:"failed"`
	RolledBack   int         `json:"rolled_back"`
	FaultsFired  int         `json:"faults_fired"`
	NodeDeleting int         `json:"node_deleting_txns"`
	Interleaved  int         `json:"interleaved_pairs"`
	Walk         walk.Report `json:"walk"`
	APIProblem   string      `json:"api_problem,omitempty"`
	ModelDiff    string      `json:"model_diff,omitempty"`
	Log          []string    `json:"log"`
	Harness      string      `json:"harness,omitempty"`
}

func history(i int, seed int64, extra []string) any {
	mirror.InstallGlobals()
	sop.RetryStartDuration = time.Millisecond
	mode := extra[0] // "c10" | "c11"
	rnd := env.Rand(seed, fmt.Sprintf("hist-%s-%d", mode, i))
	ctx := context.Background()
	res := Res{}
	dir := env.Scratch("hist")
	defer env.Remove(dir)
	db := sopx.NewDB(dir)
	mir := txn.Mirror{Dir: dir}
	// two stores with different placements
	p1 := sopx.Profiles[i%4]
	p2 := sopx.Profiles[(i/4+1)%4]
	specs := []txn.Spec{{Name: "a", Slot: []int{2, 4, 8}[rnd.Intn(3)], Profile: p1}, {Name: "b", Slot: []int{2, 4}[rnd.Intn(2)], Profile: p2}}
	res.Profiles = []string{string(p1), string(p2)}
	basep, model := txn.Baseline(specs, 8)
	if err := txn.Commit(txn.Public{DB: db}, basep, time.Minute); err != nil {
		res.Harness = "baseline: " + err.Error()
		return res
	}
	labels := anyLabels
	if mode == "c11" {
		labels = preCommitLabels
	}
	n := 20 + rnd.Intn(25)
	shapes := []string{"S3-leaf-insert", "S4-split", "S6-updates", "S7-removes", "S8-mixed", "S9-multistore", "S5-rootsplit", "S2-emptied-root"}
	walkEach := os.Getenv("VERIF_HIST_WALK_EACH") != "" // development aid: walk the disk after every transaction
	seenOrphans := 0
	if v := os.Getenv("VERIF_HIST_MAXTXN"); v != "" { // development aid: stop the history early
		if m, err := strconv.Atoi(v); err == nil && m < n {
			n = m
		}
	}
	for k := 0; k < n; k++ {
		if walkEach && k > 0 {
			w := walk.Walk(dir)
			tot := 0
			for _, sw := range w.By {
				tot += len(sw.OrphanHandles) + len(sw.OrphanBlobs) + 1000*len(sw.Problems)
			}
			if tot != seenOrphans {
				res.Log = append(res.Log, fmt.Sprintf("   >>> before txn %d: orphan handles+blobs (+1000 per walker problem) went from %d to %d", k, seenOrphans, tot))
				seenOrphans = tot
			}
		}
		shape := shapes[rnd.Intn(len(shapes))]
		prog := txn.Gen(rnd, shape, model, specs, fmt.Sprintf("h%d", k))
		if len(prog.Ops) == 0 {
			continue
		}
		res.Txns++
		if rnd.Intn(5) == 0 {
			// interleaved pair: T1 works but does not commit yet, T2 changes another key of the same store
			// and commits first, then T1 commits: T1's commit has to refetch, merge and retry.
			p2 := txn.Gen(rnd, []string{"S3-leaf-insert", "S6-updates", "S4-split"}[rnd.Intn(3)], model, specs, fmt.Sprintf("i%d", k))
			if ok := disjoint(prog, p2); ok && len(p2.Ops) > 0 {
				t1, e1 := mir.Begin(sop.ForWriting, 15*time.Minute)
				t2, e2 := mir.Begin(sop.ForWriting, 15*time.Minute)
				if e1 == nil && e2 == nil {
					r1, x1 := txn.Run(mir, t1, prog)
					r2, x2 := txn.Run(mir, t2, p2)
					if r1 == nil && x1 == nil && r2 == nil && x2 == nil {
						c2, cancel2 := context.WithTimeout(ctx, 5*time.Second)
						err2 := t2.Commit(c2)
						cancel2()
						c1, cancel1 := context.WithTimeout(ctx, 5*time.Second)
						err1 := t1.Commit(c1)
						cancel1()
						if err2 == nil {
							model = model.Apply(p2)
							res.Committed++
						} else {
							res.Failed++
						}
						if err1 == nil {
							model = model.Apply(prog)
							res.Committed++
						} else {
							res.Failed++
						}
						res.Interleaved++
						res.Log = append(res.Log, fmt.Sprintf("txn %d %s: interleaved pair, T2 err=%v, T1 err=%v; T1 ops=%s; T2 ops=%s", k, shape, err2, err1, opsStr(prog), opsStr(p2)))
						continue
					}
					t1.Rollback(ctx)
					t2.Rollback(ctx)
				}
			}
		}
		t, err := mir.Begin(sop.ForWriting, 15*time.Minute)
		if err != nil {
			res.Harness = "begin: " + err.Error()
			return res
		}
		if r, err := txn.Run(mir, t, prog); err != nil || r != nil {
			res.Log = append(res.Log, fmt.Sprintf("txn %d %s: op problem %v %+v", k, shape, err, r))
			t.Rollback(ctx)
			// an operation that fails on a valid program is itself a finding of C19/C17; stop this history
			res.APIProblem = fmt.Sprintf("operation failed inside transaction %d (%s): %v %+v", k, shape, err, r)
			break
		}
		what := rnd.Intn(10)
		switch {
		case what < 2: // voluntary rollback
			t.Rollback(ctx)
			res.RolledBack++
			res.Log = append(res.Log, fmt.Sprintf("txn %d %s: rollback", k, shape))
		case what < 5: // commit with one injected failure
			label := labels[rnd.Intn(len(labels))]
			plan := deco.NewPlan(label, 1+rnd.Intn(2), deco.FailBefore)
			plan.NoTrace = true
			deco.Install(plan)
			plan.Arm()
			cctx, cancel := context.WithTimeout(ctx, 5*time.Second)
			err := t.Commit(cctx)
			cancel()
			plan.Disarm()
			deco.Install(nil)
			if plan.Fired() > 0 {
				res.FaultsFired++
			}
			if err == nil {
				model = model.Apply(prog)
				res.Committed++
				if shape == "S7-removes" || shape == "S2-emptied-root" {
					res.NodeDeleting++
				}
			} else {
				res.Failed++
			}
			res.Log = append(res.Log, fmt.Sprintf("txn %d %s: commit with fault at %s fired=%d err=%v", k, shape, label, plan.Fired(), err))
		default:
			// a caller deadline bounds the documented 3-minute sector-lock wait that a leaked lock of an
			// earlier injected failure can cause (C07/C15 matter)
			cctx, cancel := context.WithTimeout(ctx, 5*time.Second)
			err := t.Commit(cctx)
			cancel()
			if err == nil {
				model = model.Apply(prog)
				res.Committed++
				if shape == "S7-removes" || shape == "S2-emptied-root" {
					res.NodeDeleting++
				}
			} else {
				res.Failed++
			}
			res.Log = append(res.Log, fmt.Sprintf("txn %d %s: commit err=%v", k, shape, err))
		}
	}
	if len(res.Log) > 60 {
		res.Log = res.Log[len(res.Log)-60:]
	}
	// public-API scan fetching every value, compared with the model
	d := sopx.DumpDB(db)
	res.ModelDiff = txn.DiffContent(d, model.Dump())
	for _, s := range d.Stores {
		// the first failing store counts; later ones fail only because the wrapper ended the transaction
		if d.By[s].Err != "" && res.APIProblem == "" {
			res.APIProblem = "store " + s + ": " + d.By[s].Err
		}
	}
	res.Walk = walk.Walk(dir)
	keys := []string{}
	for _, l := range res.Log {
		keys = append(keys, l)
	}
	sort.Strings(keys)
	res.Hash = fmt.Sprintf("%d-%s-%s-%d", i, p1, p2, res.Txns)
	return res
}

func opsStr(p txn.Program) string {
	s := ""
	for _, o := range p.Ops {
		s += fmt.Sprintf("%s:%s(%s) ", o.Store, o.Kind, o.K)
	}
	return s
}

// disjoint reports whether two programs touch no common (store, key).
func disjoint(a, b txn.Program) bool {
	seen := map[string]bool{}
	for _, o := range a.Ops {
		seen[o.Store+"/"+o.K] = true
	}
	for _, o := range b.Ops {
		if seen[o.Store+"/"+o.K] {
			return false
		}
	}
	return true
}

// RunWorkers runs n histories in the given mode and returns the results.
func RunWorkers(r *report.Run, mode string, n int) []Res {
	lines, died := par.Run(r, "hist-worker", 16, n, 1700, nil, mode)
	for _, d := range died {
		r.Inconclusive("worker-died")
		r.Set("worker_death", d)
	}
	var out []Res
	for _, l := range lines {
		var res Res
		if json.Unmarshal(l.Res, &res) == nil {
			out = append(out, res)
		}
	}
	if len(out) < n*9/10 {
		r.Broken("only %d of %d histories reported", len(out), n)
	}
	return out
}
