// Package c07: a commit that fails on an I/O or lock error leaves no trace and no blockage.
package c07

import (
	"fmt"
	"strings"

	"verifharness/kit/report"
	"verifharness/props/atom"
	"verifharness/props/c01"
)

func Run(r *report.Run) int {
	forms := []string{"fail-before"}
	if r.Thorough() {
		forms = []string{"fail-before", "fail-after", "refuse"}
	}
	cfgs := c01.Plan(r, true, forms)
	// different program stream than C01
	for i := range cfgs {
		cfgs[i].Prog += 1000
	}
	results, cold := atom.Sweep(r, cfgs, 16)
	planned, reached := 0, 0
	for _, res := range results {
		if res.Harness != "" {
			r.Inconclusive("harness")
			continue
		}
		if res.Program != nil {
			r.Sample(map[string]any{"shape": res.Shape, "program": res.Program, "census_sites": len(res.Census)})
		}
		if res.Site == "" {
			continue // fault-free commit / rollback belong to C01
		}
		planned++
		fp := fmt.Sprintf("%s#%d:%s:%s", res.Shape, res.Prog, res.Site, res.Form)
		if res.Fired == 0 {
			r.Inconclusive("site-not-reached")
			r.Eval(fp, false)
			continue
		}
		reached++
		r.Eval(fp, true)
		site := res.Label + "/" + res.Form
		if res.Committed {
			r.Count("fault_tolerated_commit_nil", 1)
			if res.WarmDiff != "" {
				r.Violation(fmt.Sprintf("C07:%s:%s:commit-nil-but-change-not-visible", res.Shape, site), res)
			}
		} else {
			r.Count("fault_reported_commit_error", 1)
			if res.WarmDiff != "" {
				cls := "trace-left-items"
				if strings.Contains(res.WarmDiff, "COUNT-ONLY") {
					cls = "trace-left-count-only"
				} else if strings.Contains(res.WarmDiff, "store sets differ") {
					cls = "trace-left-store-set"
				}
				r.Violation(fmt.Sprintf("C07:%s:%s:%s", res.Shape, site, cls), res)
			}
			if res.Slow {
				r.Inconclusive("retry-missed-its-budget-on-a-slow-machine")
			} else if res.RetryErr != "" && res.RetryErr != "n/a" {
				r.Violation(fmt.Sprintf("C07:%s:%s:retry-blocked", res.Shape, site), res)
			} else if res.RetryDiff != "" {
				r.Violation(fmt.Sprintf("C07:%s:%s:retry-committed-but-wrong-state", res.Shape, site), res)
			} else {
				r.Count("retry_committed", 1)
			}
		}
		if d := cold[res.Dir]; d != "" && res.WarmDiff == "" && res.RetryDiff == "" {
			r.Violation(fmt.Sprintf("C07:%s:%s:cold-reader-differs", res.Shape, site), map[string]any{"case": res, "cold_diff": d})
		}
	}
	r.Count("fault_sites_planned", int64(planned))
	r.Count("fault_sites_reached", int64(reached))
	if planned > 0 && reached*100 < planned*95 {
		r.Broken("only %d of %d planned fault sites were reached (<95%%)", reached, planned)
	}
	return r.Finish(rule, assumptions, 50)
}

const rule = "as C01 (shapes S1..S9, every census site of the commit incl. the rollback it triggers) with one injected failure per run; oracle = Commit nil ⇒ dump==after, Commit error ⇒ dump==before AND an immediate fault-free retry of the same program (new transaction, 5 s maxTime while the failed transaction's lock TTL is 15 min, no clock advance) commits and yields after; fingerprint = (shape, site, form); non-trivial = fault fired"

var assumptions = []string{"mirror path wiring identical to infs", "standalone mode, in-memory L2", "one fault per run (pairs not yet built)", "retry judged by result, not by a timer"}
