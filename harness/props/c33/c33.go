// Package c33: the vector store (ai/vector) returns live items and correctly ranked query hits.
//
// Technique: differential execution (E-MODEL). Generated programs of Upsert / UpsertBatch / Delete /
// Optimize, split over several transactions, run against the REAL store on the filesystem backend;
// a reference model id -> (vector, payload, live) predicts, after every step,
//
//	Get(id)   : latest vector and payload if live, an error if deleted or never stored;
//	Query     : <= k hits, distinct ids, every id live, latest payload passes the filter, the score is
//	            the cosine of the query with the LATEST vector of the id, scores do not increase.
//
// Deliberately NOT asserted (see Finish assumptions): completeness of the top-k (the index is an
// approximate IVF index: only the 2 closest centroids are scanned), Count(), the centroid a vector
// lands in, and the success of the mutating calls themselves (a failed mutating call ends the case
// as inconclusive).
package c33

import (
	"context"
	"crypto/sha1"
	"encoding/hex"
	"encoding/json"
	"fmt"
	"math"
	"math/rand"
	"os"
	"runtime/debug"
	"sort"
	"strings"
	"sync"
	"time"

	"github.com/sharedcode/sop"
	"github.com/sharedcode/sop/ai"
	"github.com/sharedcode/sop/ai/vector"
	"github.com/sharedcode/sop/database"

	"verifharness/kit/env"
	"verifharness/kit/report"
)

var ctx = context.Background()

// Payload is the item payload type T of the store under test.
type Payload struct {
	Tag  int    `json:"tag"`
	Gen  int    `json:"gen"`
	Note string `json:"note"`
}

// Item is one upserted item of a program.
type Item struct {
	ID  string    `json:"id"`
	Vec []float32 `json:"vec"`
	P   Payload   `json:"p"`
	Cid int       `json:"cid,omitempty"` // explicit centroid (0 = auto)
}

// Op is one mutating call.
type Op struct {
	Kind  string `json:"kind"` // upsert | batch | delete
	ID    string `json:"id,omitempty"`
	Items []Item `json:"items,omitempty"`
}

// Step is one writing transaction; Optimize, when set, is called last and commits the transaction.
type Step struct {
	Ops      []Op `json:"ops"`
	Optimize bool `json:"optimize,omitempty"`
	InTx     bool `json:"observe_in_tx,omitempty"` // also observe inside the writing transaction, before commit
	Buffer   bool `json:"buffer,omitempty"`        // EnableIngestionBuffer for the opens of this step
}

// Cfg is the configuration class of a case.
type Cfg struct {
	Scenario    string   `json:"scenario"`
	Mode        int      `json:"usage_mode"`
	Dedup       bool     `json:"dedup"`
	Dim         int      `json:"dim"`
	IDs         []string `json:"ids"`
	ContentSize int      `json:"content_size"`
}

// Program is one generated case.
type Program struct {
	Cfg   Cfg    `json:"cfg"`
	Steps []Step `json:"steps"`
	QSeed int64  `json:"qseed"` // seed of the observation queries
	Name  string `json:"name"`  // domain name (unique per execution)
}

type finding struct {
	Sig    string
	Detail map[string]any
}

// ---------------------------------------------------------------------------------------------
// reference model

type mItem struct {
	vec    []float32
	p      Payload
	stored bool
	live   bool
	cls    string      // never | upsert | reupsert | delete | reupsert-after-delete
	opt    bool        // an Optimize completed since the last event on this id
	buf    bool        // the last event on this id happened through the ingestion buffer (TempVectors)
	old    [][]float32 // earlier vectors of this id (targets for ghost-hunting queries)
}

type model struct {
	items map[string]*mItem
	ids   []string
}

func newModel(ids []string) *model {
	m := &model{items: map[string]*mItem{}, ids: ids}
	for _, id := range ids {
		m.items[id] = &mItem{cls: "never"}
	}
	return m
}

func (m *model) upsert(it Item, buffered bool) {
	x := m.items[it.ID]
	switch {
	case !x.stored:
		x.cls = "upsert"
	case x.live:
		x.cls = "reupsert"
	default:
		x.cls = "reupsert-after-delete"
	}
	if x.stored {
		x.old = append(x.old, x.vec)
	}
	x.vec, x.p, x.stored, x.live, x.opt, x.buf = it.Vec, it.P, true, true, false, buffered
}

func (m *model) delete(id string, buffered bool) {
	x := m.items[id]
	if !x.stored || !x.live {
		return // deleting a never-stored or already deleted id changes nothing
	}
	x.live, x.cls, x.opt, x.buf = false, "delete", false, buffered
}

func (m *model) optimized() {
	for _, x := range m.items {
		if x.stored {
			x.opt = true
		}
	}
}

func (m *model) class(id string) string {
	x, ok := m.items[id]
	if !ok {
		return "never"
	}
	c := x.cls
	if x.buf {
		c += "~buf"
	}
	if x.opt {
		c += "+opt"
	}
	return c
}

func (m *model) counts() (live, dead, re int) {
	for _, x := range m.items {
		if x.live {
			live++
			if len(x.old) > 0 {
				re++
			}
		} else if x.stored {
			dead++
		}
	}
	return
}

// ---------------------------------------------------------------------------------------------
// helpers

func cos64(a, b []float32) float64 {
	var dot, na, nb float64
	l := len(a)
	if len(b) < l {
		l = len(b)
	}
	for i := 0; i < l; i++ {
		dot += float64(a[i]) * float64(b[i])
		na += float64(a[i]) * float64(a[i])
		nb += float64(b[i]) * float64(b[i])
	}
	if na == 0 || nb == 0 {
		return 0
	}
	return dot / (math.Sqrt(na) * math.Sqrt(nb))
}

// cp gives the store a private copy of a vector: the harness shares vectors between items and with
// the model, and must not depend on the store leaving its arguments alone.
func cp(v []float32) []float32 { return append([]float32(nil), v...) }

// fstr renders floats for the evidence (encoding/json rejects NaN and Inf).
func fstr(v []float32) []string {
	out := make([]string, len(v))
	for i, x := range v {
		out[i] = fmt.Sprintf("%g", x)
	}
	return out
}

func vecEq(a, b []float32) bool {
	if len(a) != len(b) {
		return false
	}
	for i := range a {
		if a[i] != b[i] {
			return false
		}
	}
	return true
}

// scoreTol: the store computes the cosine with float32 accumulators; with components of magnitude
// <= 8 and dimension <= 8 the difference to the float64 value is < 1e-6. 1e-4 is far below the score
// difference any generated stale vector of a different direction produces.
const scoreTol = 1e-4

// guard runs f and converts a panic into an error string with the stack.
func guard(f func() error) (err error, panicked string) {
	defer func() {
		if p := recover(); p != nil {
			panicked = fmt.Sprintf("%v\n%s", p, debug.Stack())
		}
	}()
	return f(), ""
}

// ---------------------------------------------------------------------------------------------
// the store under test

type sut struct {
	dir  string
	name string
	cfg  Cfg
	dbo  sop.DatabaseOptions
}

func (s *sut) begin(mode sop.TransactionMode) (sop.Transaction, error) {
	return database.BeginTransaction(ctx, s.dbo, mode)
}

// open opens the vector store the way ai/database.OpenVectorStore does: TransactionOptions copied
// from the database options, Cache = the L2 cache of that cache type (required by Optimize).
func (s *sut) open(tx sop.Transaction, buffer bool) (ai.VectorStore[Payload], error) {
	var to sop.TransactionOptions
	s.dbo.CopyTo(&to)
	vs, err := vector.Open[Payload](ctx, tx, s.name, vector.Config{
		UsageMode:             ai.UsageMode(s.cfg.Mode),
		ContentSize:           sop.ValueDataSize(s.cfg.ContentSize),
		EnableIngestionBuffer: buffer,
		TransactionOptions:    to,
		Cache:                 sop.GetL2Cache(to),
	})
	if err != nil {
		return nil, err
	}
	if !s.cfg.Dedup {
		vs.SetDeduplication(false)
	}
	return vs, nil
}

// ---------------------------------------------------------------------------------------------
// observation

type query struct {
	Vec    []float32 `json:"vec"`
	K      int       `json:"k"`
	Filter string    `json:"filter"` // none | tag-even | gen>=1 | reject-all
	Why    string    `json:"why"`
}

func filterFn(name string) func(Payload) bool {
	switch name {
	case "tag-even":
		return func(p Payload) bool { return p.Tag%2 == 0 }
	case "gen>=1":
		return func(p Payload) bool { return p.Gen >= 1 }
	case "reject-all":
		return func(p Payload) bool { return false }
	}
	return nil
}

func randVec(rnd *rand.Rand, dim int) []float32 {
	v := make([]float32, dim)
	nz := false
	for !nz {
		for i := range v {
			v[i] = float32(rnd.Intn(9) - 4)
			if v[i] != 0 {
				nz = true
			}
		}
	}
	return v
}

// queries builds the observation queries from the model state (deterministic in rnd).
func queries(m *model, dim int, rnd *rand.Rand) []query {
	big := len(m.ids) + 5
	var live, stale [][]float32
	for _, id := range m.ids {
		x := m.items[id]
		if x.live {
			live = append(live, x.vec)
			stale = append(stale, x.old...)
		} else if x.stored {
			stale = append(stale, x.vec)
			stale = append(stale, x.old...)
		}
	}
	qs := []query{{Vec: randVec(rnd, dim), K: 3, Filter: "none", Why: "random"}}
	if len(live) > 0 {
		qs = append(qs, query{Vec: live[rnd.Intn(len(live))], K: big, Filter: "none", Why: "live-vector"})
	}
	if len(stale) > 0 {
		qs = append(qs, query{Vec: stale[rnd.Intn(len(stale))], K: big, Filter: "none", Why: "stale-or-deleted-vector"})
	}
	qs = append(qs,
		query{Vec: randVec(rnd, dim), K: 1 + rnd.Intn(2), Filter: "tag-even", Why: "random"},
		query{Vec: randVec(rnd, dim), K: big, Filter: "gen>=1", Why: "random"},
		query{Vec: randVec(rnd, dim), K: big, Filter: "reject-all", Why: "random"},
	)
	if rnd.Intn(4) == 0 {
		qs = append(qs, query{Vec: randVec(rnd, dim), K: 0, Filter: "none", Why: "k=0"})
	}
	return qs
}

type obsStats struct {
	gets, getsLive, queries, hits, multiHitQueries int
}

// observe compares Get of every id and a few queries with the model. where names the vantage point.
// light (the look from inside the writing transaction): only the first three queries.
func observe(vs ai.VectorStore[Payload], m *model, scen string, dim int, where string, rnd *rand.Rand, st *obsStats, light bool) (fs []finding, inconclusive string) {
	getFailed := map[string]bool{} // a query finding about an id whose Get already disagreed is a consequence
	add := func(sig string, d map[string]any) {
		d["where"] = where
		if id, ok := d["id"].(string); ok {
			if strings.Contains(sig, ":get@") {
				getFailed[id] = true
			} else if getFailed[id] {
				return
			}
		}
		fs = append(fs, finding{Sig: sig, Detail: d})
	}
	ids := append(append([]string{}, m.ids...), "zz-never-stored")
	for _, id := range ids {
		var it *ai.Item[Payload]
		err, pan := guard(func() error {
			var e error
			it, e = vs.Get(ctx, id)
			return e
		})
		st.gets++
		cls := m.class(id)
		x := m.items[id]
		if pan != "" {
			add(fmt.Sprintf("C33:%s:get@%s:panic", scen, cls), map[string]any{"id": id, "panic": pan})
			continue
		}
		if x != nil && x.live {
			st.getsLive++
			switch {
			case err != nil:
				add(fmt.Sprintf("C33:%s:get@%s:error-on-live-item", scen, cls), map[string]any{"id": id, "error": err.Error(), "expected_vec": x.vec, "expected_payload": x.p})
			case it == nil:
				add(fmt.Sprintf("C33:%s:get@%s:nil-item-no-error", scen, cls), map[string]any{"id": id})
			case !vecEq(it.Vector, x.vec):
				// stale-vector: an earlier vector of this id came back; foreign-vector: one never upserted under this id
				kind := "foreign-vector"
				for _, o := range x.old {
					if vecEq(o, it.Vector) {
						kind = "stale-vector"
					}
				}
				add(fmt.Sprintf("C33:%s:get@%s:%s", scen, cls, kind), map[string]any{"id": id, "got_vec": fstr(it.Vector), "expected_vec": x.vec, "earlier_vecs": x.old})
			case it.Payload != x.p:
				add(fmt.Sprintf("C33:%s:get@%s:wrong-payload", scen, cls), map[string]any{"id": id, "got_payload": it.Payload, "expected_payload": x.p})
			case it.ID != id:
				add(fmt.Sprintf("C33:%s:get@%s:wrong-id", scen, cls), map[string]any{"id": id, "got_id": it.ID})
			}
		} else if err == nil {
			d := map[string]any{"id": id}
			if it != nil {
				d["got_vec"], d["got_payload"] = fstr(it.Vector), it.Payload
			}
			add(fmt.Sprintf("C33:%s:get@%s:dead-item-returned", scen, cls), d)
		}
	}
	qs := queries(m, dim, rnd)
	if light && len(qs) > 3 {
		qs = qs[:3]
	}
	for _, q := range qs {
		var hits []ai.Hit[Payload]
		err, pan := guard(func() error {
			var e error
			hits, e = vs.Query(ctx, cp(q.Vec), q.K, filterFn(q.Filter))
			return e
		})
		st.queries++
		if pan != "" {
			add(fmt.Sprintf("C33:%s:query:panic", scen), map[string]any{"query": q, "panic": pan})
			continue
		}
		if err != nil {
			// The statement does not say a query cannot fail; counted, not judged.
			return fs, "query-error: " + err.Error()
		}
		st.hits += len(hits)
		if len(hits) >= 2 {
			st.multiHitQueries++
		}
		type hv struct {
			ID    string  `json:"id"`
			Score string  `json:"score"`
			Want  float64 `json:"cosine_of_latest"`
			Class string  `json:"id_class"`
		}
		var view []hv
		for _, h := range hits {
			v := hv{ID: h.ID, Score: fmt.Sprintf("%g", h.Score), Class: m.class(h.ID)}
			if x := m.items[h.ID]; x != nil && x.stored {
				v.Want = cos64(q.Vec, x.vec)
			}
			view = append(view, v)
		}
		base := func() map[string]any { return map[string]any{"query": q, "hits": view} }
		if len(hits) > q.K {
			add(fmt.Sprintf("C33:%s:query:more-than-k", scen), base())
		}
		seen := map[string]bool{}
		for i, h := range hits {
			x := m.items[h.ID]
			cls := m.class(h.ID)
			if seen[h.ID] {
				d := base()
				d["id"] = h.ID
				add(fmt.Sprintf("C33:%s:query@%s:duplicate-id", scen, cls), d)
				continue
			}
			seen[h.ID] = true
			if x == nil || !x.live {
				d := base()
				d["id"] = h.ID
				add(fmt.Sprintf("C33:%s:query@%s:dead-item-returned", scen, cls), d)
				continue
			}
			if f := filterFn(q.Filter); f != nil && !f(x.p) {
				d := base()
				d["id"], d["latest_payload"], d["hit_payload"] = h.ID, x.p, h.Payload
				add(fmt.Sprintf("C33:%s:query@%s:filter-not-passed", scen, cls), d)
			}
			if h.Payload != x.p {
				d := base()
				d["id"], d["latest_payload"], d["hit_payload"] = h.ID, x.p, h.Payload
				add(fmt.Sprintf("C33:%s:query@%s:wrong-payload", scen, cls), d)
			}
			want := cos64(q.Vec, x.vec)
			if math.IsNaN(float64(h.Score)) || math.Abs(float64(h.Score)-want) > scoreTol {
				d := base()
				d["id"], d["latest_vec"], d["earlier_vecs"] = h.ID, x.vec, x.old
				add(fmt.Sprintf("C33:%s:query@%s:score-not-of-latest-vector", scen, cls), d)
			}
			if i > 0 && hits[i-1].Score < h.Score {
				d := base()
				d["position"] = i
				add(fmt.Sprintf("C33:%s:query:not-descending", scen), d)
			}
		}
	}
	return fs, ""
}

// ---------------------------------------------------------------------------------------------
// executing one program

type outcome struct {
	findings     []finding
	inconclusive string
	failStep     int
	stats        obsStats
	nontrivial   bool
	optimizes    int
	steps        int
}

func dedupFindings(fs []finding) []finding {
	seen := map[string]bool{}
	var out []finding
	for _, f := range fs {
		if !seen[f.Sig] {
			seen[f.Sig] = true
			out = append(out, f)
		}
	}
	return out
}

// execute runs the program in a fresh folder. It stops at the first step whose observation disagrees
// with the model (later disagreements would be consequences).
func execute(p Program) (out outcome) {
	dir := env.Scratch("c33")
	defer env.Remove(dir)
	s := &sut{dir: dir, name: p.Name, cfg: p.Cfg,
		dbo: sop.DatabaseOptions{StoresFolders: []string{dir}, CacheType: sop.InMemory}}
	m := newModel(p.Cfg.IDs)
	qr := rand.New(rand.NewSource(p.QSeed))
	scen := p.Cfg.Scenario
	out.failStep = -1

	fail := func(i int, fs []finding) bool {
		if len(fs) == 0 {
			return false
		}
		for k := range fs {
			fs[k].Detail["step"] = i
		}
		out.findings, out.failStep = dedupFindings(fs), i
		return true
	}
	optimizedWithMix := false

	for i, st := range p.Steps {
		out.steps++
		tx, err := s.begin(sop.ForWriting)
		if err != nil {
			out.inconclusive = "begin-error"
			return
		}
		var vs ai.VectorStore[Payload]
		if err, pan := guard(func() error { var e error; vs, e = s.open(tx, st.Buffer); return e }); err != nil || pan != "" {
			tx.Rollback(ctx)
			if pan != "" {
				fail(i, []finding{{Sig: fmt.Sprintf("C33:%s:open:panic", scen), Detail: map[string]any{"panic": pan}}})
				return
			}
			out.inconclusive = "open-error: " + err.Error()
			return
		}
		for j, op := range st.Ops {
			err, pan := guard(func() error {
				switch op.Kind {
				case "upsert":
					it := op.Items[0]
					return vs.Upsert(ctx, ai.Item[Payload]{ID: it.ID, Vector: cp(it.Vec), Payload: it.P, CentroidID: it.Cid})
				case "batch":
					var items []ai.Item[Payload]
					for _, it := range op.Items {
						items = append(items, ai.Item[Payload]{ID: it.ID, Vector: cp(it.Vec), Payload: it.P, CentroidID: it.Cid})
					}
					return vs.UpsertBatch(ctx, items)
				case "delete":
					return vs.Delete(ctx, op.ID)
				}
				return fmt.Errorf("harness: unknown op %q", op.Kind)
			})
			if pan != "" {
				tx.Rollback(ctx)
				fail(i, []finding{{Sig: fmt.Sprintf("C33:%s:%s:panic", scen, op.Kind), Detail: map[string]any{"op_index": j, "op": op, "panic": pan}}})
				return
			}
			if err != nil {
				// The statement does not promise that a mutating call succeeds: no verdict.
				tx.Rollback(ctx)
				out.inconclusive = fmt.Sprintf("%s-error: %s", op.Kind, err.Error())
				return
			}
			switch op.Kind {
			case "upsert", "batch":
				for _, it := range op.Items {
					m.upsert(it, st.Buffer)
				}
			case "delete":
				m.delete(op.ID, st.Buffer)
			}
		}
		if st.InTx && !st.Optimize {
			fs, inc := observe(vs, m, scen, p.Cfg.Dim, "inside-writing-transaction", qr, &out.stats, true)
			if fail(i, fs) {
				tx.Rollback(ctx)
				return
			}
			if inc != "" {
				tx.Rollback(ctx)
				out.inconclusive = inc
				return
			}
		}
		if st.Optimize {
			live, dead, re := m.counts()
			err, pan := guard(func() error { return vs.Optimize(ctx) })
			if pan != "" {
				fail(i, []finding{{Sig: fmt.Sprintf("C33:%s:optimize:panic", scen), Detail: map[string]any{"panic": pan}}})
				return
			}
			if err != nil {
				out.inconclusive = "optimize-error: " + err.Error()
				return
			}
			m.optimized()
			out.optimizes++
			if live > 0 && dead > 0 && (re > 0 || scen == "nodedup") {
				optimizedWithMix = true
			}
		} else if err := tx.Commit(ctx); err != nil {
			out.inconclusive = "commit-error: " + err.Error()
			return
		}

		// vantage point 2: a fresh transaction after the commit; reading and writing modes alternate.
		mode, where := sop.ForReading, "fresh-reading-transaction"
		if i%2 == 1 {
			mode, where = sop.ForWriting, "fresh-writing-transaction"
		}
		rtx, err := s.begin(mode)
		if err != nil {
			out.inconclusive = "begin-error"
			return
		}
		// After an Optimize a buffered store is read the way the package's own tests read it: without
		// the ingestion buffer (see Finish assumptions).
		obsBuffer := st.Buffer && !st.Optimize
		var rvs ai.VectorStore[Payload]
		if err, pan := guard(func() error { var e error; rvs, e = s.open(rtx, obsBuffer); return e }); err != nil || pan != "" {
			rtx.Rollback(ctx)
			if pan != "" {
				fail(i, []finding{{Sig: fmt.Sprintf("C33:%s:open:panic", scen), Detail: map[string]any{"panic": pan}}})
				return
			}
			out.inconclusive = "open-error(" + where + "): " + err.Error()
			return
		}
		fs, inc := observe(rvs, m, scen, p.Cfg.Dim, where, qr, &out.stats, false)
		if mode == sop.ForReading {
			rtx.Commit(ctx)
		} else {
			rtx.Rollback(ctx)
		}
		if fail(i, fs) {
			return
		}
		if inc != "" {
			out.inconclusive = inc
			return
		}
	}
	out.nontrivial = optimizedWithMix && out.stats.multiHitQueries > 0
	return
}

// ---------------------------------------------------------------------------------------------
// generation

var scenarios = []struct {
	name string
	mode ai.UsageMode
	w    int
}{
	{"dynamic", ai.Dynamic, 30},
	{"count-tracking", ai.DynamicWithVectorCountTracking, 25},
	{"build-once", ai.BuildOnceQueryMany, 12},
	{"dynamic-cid", ai.Dynamic, 10},
	{"nodedup", ai.Dynamic, 8},
	{"buffered", ai.Dynamic, 15},
}

func pickScenario(rnd *rand.Rand, idx int) int {
	if idx < len(scenarios) {
		return idx // every scenario class at least once
	}
	tot := 0
	for _, s := range scenarios {
		tot += s.w
	}
	x := rnd.Intn(tot)
	for i, s := range scenarios {
		if x < s.w {
			return i
		}
		x -= s.w
	}
	return 0
}

// vecPool: base vectors with small integer components plus duplicates, scaled copies (same cosine),
// near-parallel copies, opposite vectors and (sometimes) the zero vector, which Upsert accepts.
func vecPool(rnd *rand.Rand, dim, n int, zero bool) [][]float32 {
	var pool [][]float32
	for i := 0; i < n; i++ {
		pool = append(pool, randVec(rnd, dim))
	}
	for i := 0; i < n; i++ {
		b := pool[rnd.Intn(n)]
		c := make([]float32, dim)
		copy(c, b)
		switch rnd.Intn(5) {
		case 0: // exact duplicate
		case 1:
			for j := range c {
				c[j] *= 2
			}
		case 2:
			for j := range c {
				c[j] *= 0.5
			}
		case 3: // near-parallel
			c[rnd.Intn(dim)] += 0.0078125 // 2^-7, exact in float32
		case 4:
			for j := range c {
				c[j] = -c[j]
			}
		}
		pool = append(pool, c)
	}
	if zero {
		pool = append(pool, make([]float32, dim))
	}
	return pool
}

func generate(rnd *rand.Rand, idx int) Program {
	sc := scenarios[pickScenario(rnd, idx)]
	nIDs := 5 + rnd.Intn(16)
	dim := 2 + rnd.Intn(7)
	ids := make([]string, nIDs)
	for i := range ids {
		ids[i] = fmt.Sprintf("id%02d", i)
	}
	cfg := Cfg{Scenario: sc.name, Mode: int(sc.mode), Dedup: sc.name != "nodedup", Dim: dim, IDs: ids, ContentSize: rnd.Intn(3)}
	pool := vecPool(rnd, dim, 3+nIDs/2, rnd.Intn(3) == 0)
	p := Program{Cfg: cfg, QSeed: rnd.Int63()}

	m := newModel(ids) // generation-time model: steers deletes to live ids, re-upserts to stored ids
	gen := map[string]int{}
	everStored := map[string]bool{}
	mkItem := func(id string) Item {
		it := Item{ID: id, Vec: pool[rnd.Intn(len(pool))], P: Payload{Tag: rnd.Intn(6), Gen: gen[id], Note: fmt.Sprintf("%s/g%d", id, gen[id])}}
		gen[id]++
		if sc.name == "dynamic-cid" && rnd.Intn(3) == 0 {
			it.Cid = 1 + rnd.Intn(4)
		}
		return it
	}
	pickUpsertID := func() (string, bool) {
		if sc.name == "nodedup" { // pristine data only: never upsert an id twice
			var fresh []string
			for _, id := range ids {
				if !everStored[id] {
					fresh = append(fresh, id)
				}
			}
			if len(fresh) == 0 {
				return "", false
			}
			return fresh[rnd.Intn(len(fresh))], true
		}
		return ids[rnd.Intn(len(ids))], true
	}
	pickDeleteID := func() string {
		var live []string
		for _, id := range ids {
			if m.items[id].live {
				live = append(live, id)
			}
		}
		if len(live) > 0 && rnd.Intn(5) != 0 {
			return live[rnd.Intn(len(live))]
		}
		return ids[rnd.Intn(len(ids))] // maybe never stored / already deleted
	}
	// Half of the buffered cases do not delete while the ingestion buffer is in use, so that the part
	// of the lifecycle behind the first Optimize is explored as well.
	bufNoDelete := sc.name == "buffered" && rnd.Intn(2) == 0
	noDeleteNow := false
	genOps := func(n int, first bool) []Op {
		var ops []Op
		for len(ops) < n {
			x := rnd.Intn(100)
			if noDeleteNow && x >= 68 {
				x -= 40
			}
			switch {
			case first || x < 22: // batch
				first = false
				bn := 2 + rnd.Intn(6)
				seen := map[string]bool{}
				var items []Item
				for k := 0; k < bn; k++ {
					id, ok := pickUpsertID()
					if !ok || seen[id] {
						continue // one id at most once per batch (which of two wins is not stated)
					}
					seen[id] = true
					everStored[id] = true
					items = append(items, mkItem(id))
				}
				if len(items) == 0 {
					ops = append(ops, Op{Kind: "delete", ID: pickDeleteID()})
					m.delete(ops[len(ops)-1].ID, false)
					continue
				}
				for _, it := range items {
					m.upsert(it, false)
				}
				ops = append(ops, Op{Kind: "batch", Items: items})
			case x < 68:
				id, ok := pickUpsertID()
				if !ok {
					ops = append(ops, Op{Kind: "delete", ID: pickDeleteID()})
					m.delete(ops[len(ops)-1].ID, false)
					continue
				}
				everStored[id] = true
				it := mkItem(id)
				m.upsert(it, false)
				ops = append(ops, Op{Kind: "upsert", Items: []Item{it}})
			default:
				id := pickDeleteID()
				m.delete(id, false)
				ops = append(ops, Op{Kind: "delete", ID: id})
			}
		}
		return ops
	}

	nSteps := 5 + rnd.Intn(6)
	optimized := false
	for i := 0; i < nSteps; i++ {
		st := Step{InTx: rnd.Intn(3) == 0}
		if sc.name == "buffered" && !optimized {
			st.Buffer = true // documented lifecycle: buffer during the initial ingestion, until Optimize
		}
		noDeleteNow = st.Buffer && bufNoDelete
		wantOpt := i >= 2 && (rnd.Intn(4) == 0 || (i == nSteps-2 && !optimized))
		if sc.name == "build-once" {
			// single ingestion phase, then Optimize, then read-only use
			wantOpt = !optimized && i == nSteps-2
			if optimized {
				p.Steps = append(p.Steps, Step{}) // no writes: observation only
				continue
			}
		}
		if wantOpt {
			// Most Optimize calls should meet live, deleted and re-upserted ids at once: add a
			// writing step that completes the mix where the history so far lacks one of them.
			if live, dead, re := m.counts(); (live < 2 || dead == 0 || re == 0) && rnd.Intn(5) != 0 {
				fix := Step{Buffer: st.Buffer, InTx: rnd.Intn(3) == 0}
				liveIDs := func() []string {
					var l []string
					for _, id := range ids {
						if m.items[id].live {
							l = append(l, id)
						}
					}
					return l
				}
				for tries := 0; len(liveIDs()) < 3 && tries < 10; tries++ {
					if id, ok := pickUpsertID(); ok {
						everStored[id] = true
						it := mkItem(id)
						m.upsert(it, false)
						fix.Ops = append(fix.Ops, Op{Kind: "upsert", Items: []Item{it}})
					}
				}
				l := liveIDs()
				if re == 0 && sc.name != "nodedup" && len(l) > 0 {
					it := mkItem(l[0])
					m.upsert(it, false)
					fix.Ops = append(fix.Ops, Op{Kind: "upsert", Items: []Item{it}})
				}
				if dead == 0 && !noDeleteNow && len(l) > 1 {
					m.delete(l[len(l)-1], false)
					fix.Ops = append(fix.Ops, Op{Kind: "delete", ID: l[len(l)-1]})
				}
				if len(fix.Ops) > 0 {
					p.Steps = append(p.Steps, fix)
				}
			}
			st.Optimize = true
			if rnd.Intn(3) == 0 { // Optimize with pending writes in the same transaction (documented: it commits them)
				st.Ops = genOps(1+rnd.Intn(3), false)
			}
			optimized = true
		} else {
			st.Ops = genOps(1+rnd.Intn(5), i == 0 && rnd.Intn(3) != 0)
		}
		p.Steps = append(p.Steps, st)
	}
	return p
}

func (p Program) hash() string {
	q := p
	q.Name = ""
	b, _ := json.Marshal(q)
	h := sha1.Sum(b)
	return hex.EncodeToString(h[:8])
}

func (p Program) shape() string {
	var sb strings.Builder
	sb.WriteString(p.Cfg.Scenario + ":")
	for _, st := range p.Steps {
		c := byte('w')
		if len(st.Ops) == 0 {
			c = 'r'
		}
		if st.Optimize {
			c = 'O'
			if len(st.Ops) > 0 {
				c = 'P'
			}
		}
		sb.WriteByte(c)
	}
	return sb.String()
}

// ---------------------------------------------------------------------------------------------
// shrinking (only runs when something fired): greedy removal of steps, then ops, then ids; a
// candidate is kept when the same signature fires again. K-means inside the store is seeded from
// the clock, so every candidate gets 2 attempts.

var nameSeq struct {
	sync.Mutex
	n int
}

func freshName(prefix string) string {
	nameSeq.Lock()
	defer nameSeq.Unlock()
	nameSeq.n++
	return fmt.Sprintf("%s%d", prefix, nameSeq.n)
}

func reproduces(p Program, sig string, attempts int) (bool, outcome) {
	for a := 0; a < attempts; a++ {
		p.Name = freshName("s")
		o := execute(p)
		for _, f := range o.findings {
			if f.Sig == sig {
				return true, o
			}
		}
	}
	return false, outcome{}
}

func cloneProgram(p Program) Program {
	b, _ := json.Marshal(p)
	var q Program
	_ = json.Unmarshal(b, &q)
	return q
}

func shrink(p Program, sig string, failStep int, budget int) (Program, int) {
	cur := cloneProgram(p)
	if failStep >= 0 && failStep+1 < len(cur.Steps) {
		cur.Steps = cur.Steps[:failStep+1]
	}
	runs := 0
	try := func(c Program) bool {
		if runs >= budget {
			return false
		}
		runs++
		ok, _ := reproduces(c, sig, 2)
		return ok
	}
	changed := true
	for changed && runs < budget {
		changed = false
		for i := len(cur.Steps) - 2; i >= 0; i-- { // whole steps (never the last: it carries the failing observation)
			c := cloneProgram(cur)
			c.Steps = append(c.Steps[:i], c.Steps[i+1:]...)
			if try(c) {
				cur, changed = c, true
			}
		}
		for i := len(cur.Steps) - 1; i >= 0; i-- { // single ops
			for j := len(cur.Steps[i].Ops) - 1; j >= 0; j-- {
				c := cloneProgram(cur)
				c.Steps[i].Ops = append(c.Steps[i].Ops[:j], c.Steps[i].Ops[j+1:]...)
				if try(c) {
					cur, changed = c, true
				}
			}
		}
		for i := range cur.Steps { // batch members
			for j := range cur.Steps[i].Ops {
				for k := len(cur.Steps[i].Ops[j].Items) - 1; k >= 0 && len(cur.Steps[i].Ops[j].Items) > 1; k-- {
					c := cloneProgram(cur)
					it := c.Steps[i].Ops[j].Items
					c.Steps[i].Ops[j].Items = append(it[:k], it[k+1:]...)
					if try(c) {
						cur, changed = c, true
					}
				}
			}
		}
	}
	// drop unused ids from the domain
	used := map[string]bool{}
	for _, st := range cur.Steps {
		for _, op := range st.Ops {
			if op.ID != "" {
				used[op.ID] = true
			}
			for _, it := range op.Items {
				used[it.ID] = true
			}
		}
	}
	c := cloneProgram(cur)
	c.Cfg.IDs = nil
	for _, id := range cur.Cfg.IDs {
		if used[id] {
			c.Cfg.IDs = append(c.Cfg.IDs, id)
		}
	}
	if len(c.Cfg.IDs) > 0 && len(c.Cfg.IDs) < len(cur.Cfg.IDs) && try(c) {
		cur = c
	}
	return cur, runs
}

// ---------------------------------------------------------------------------------------------

const rule = "case = one generated program (scenario class x usage mode x dedup x dim 2-8 x 5-20 ids x content size; " +
	"5-12 steps, each its own writing transaction of Upsert/UpsertBatch/Delete ops, Optimize in its own or a shared transaction) " +
	"run against the real store; after every step Get of every id of the domain and 6-7 queries are compared with the model " +
	"from a fresh reading/writing transaction, and in 1/3 of the steps (Get of every id, 3 queries) also inside the writing transaction before the commit. " +
	"fingerprint = hash of the program; non-trivial = at least one Optimize ran while the store held live, deleted AND re-upserted ids (nodedup scenario: live and deleted ids), " +
	"and at least one query returned >= 2 hits."

var assumptions = []string{
	"Completeness of the top-k is NOT asserted: the index is an approximate IVF index (Query scans the 2 closest centroids only). With EnableIngestionBuffer the query path is a documented brute-force scan of TempVectors (exact), still not asserted.",
	"A mutating call (Upsert/UpsertBatch/Delete/Optimize/Commit) or a Query that returns an error ends the case as inconclusive; the statement only speaks about what Get and Query return after the calls happened.",
	"A panic escaping Open/Get/Query/Upsert/UpsertBatch/Delete/Optimize is reported with the outcome class 'panic' (the call returned neither a result nor an error); the case ends there.",
	"Scores are compared with the float64 cosine of the latest vector within 1e-4; the order is checked on the returned scores (non-increasing, exact).",
	"One id appears at most once per UpsertBatch (the statement does not say which of two wins).",
	"Scenario build-once (BuildOnceQueryMany): writes only before the single Optimize, read-only afterwards (documented use). Scenario nodedup (SetDeduplication(false)): an id is upserted at most once (documented: pristine data only). Scenario buffered: EnableIngestionBuffer=true during the initial ingestion up to and including the first Optimize, opened without the buffer afterwards - the lifecycle the package's own tests use.",
	"Optimize is called on a freshly opened store, last in its transaction, and neither the store handle nor the transaction is used afterwards (documented precondition).",
	"All vectors of a case have the same dimension; components are small dyadic numbers (|x| <= 8); the zero vector is included in a third of the cases (Upsert accepts it; its cosine is 0 by the store's own definition).",
	"Standalone filesystem backend with the in-memory L2 cache; cases run on parallel goroutines with distinct folders and distinct domain names.",
}

type caseResult struct {
	idx  int
	prog Program
	out  outcome
}

// Run is the check entry point.
func Run(r *report.Run) int {
	if r.Replay != "" {
		return replay(r)
	}
	n := r.Pick(40, 500)
	workers := 12
	rnd := env.Rand(r.Seed, "c33")
	progs := make([]Program, n)
	for i := range progs {
		progs[i] = generate(rnd, i)
		progs[i].Name = fmt.Sprintf("c%d", i)
	}

	results := make([]caseResult, n)
	t0 := time.Now() // reporting only, never part of a verdict
	var wg sync.WaitGroup
	jobs := make(chan int)
	for w := 0; w < workers; w++ {
		wg.Add(1)
		go func() {
			defer wg.Done()
			for i := range jobs {
				results[i] = caseResult{idx: i, prog: progs[i], out: execute(progs[i])}
			}
		}()
	}
	for i := 0; i < n; i++ {
		jobs <- i
	}
	close(jobs)
	wg.Wait()
	r.Set("main_loop_s", time.Since(t0).Seconds())

	shapes := map[string]bool{}
	scen := map[string]int64{}
	shrunk := map[string]bool{}
	incSamples := map[string]string{}
	for _, cr := range results {
		o := cr.out
		if o.inconclusive != "" {
			reason := o.inconclusive
			if k := strings.Index(reason, ":"); k > 0 {
				reason = reason[:k]
			}
			key := cr.prog.Cfg.Scenario + "/" + reason
			r.Inconclusive(key)
			if _, ok := incSamples[key]; !ok {
				incSamples[key] = fmt.Sprintf("case %d: %s", cr.idx, o.inconclusive)
			}
			continue
		}
		r.Eval(cr.prog.hash(), o.nontrivial)
		shapes[cr.prog.shape()] = true
		scen[cr.prog.Cfg.Scenario]++
		r.Count("steps", int64(o.steps))
		r.Count("optimize_calls", int64(o.optimizes))
		r.Count("gets", int64(o.stats.gets))
		r.Count("gets_of_live_ids", int64(o.stats.getsLive))
		r.Count("queries", int64(o.stats.queries))
		r.Count("query_hits", int64(o.stats.hits))
		r.Count("queries_with_2plus_hits", int64(o.stats.multiHitQueries))
		if cr.idx < 2 {
			r.Sample(map[string]any{"case": cr.idx, "program": cr.prog, "nontrivial": o.nontrivial})
		}
		for _, f := range o.findings {
			d := f.Detail
			d["seed"], d["case"], d["program"] = r.Seed, cr.idx, cr.prog
			before := r.Violations()
			r.Violation(f.Sig, d)
			// minimise the first witness of every signature that is not a listed known finding
			// (d is a map: the report marshals it in Finish, so it can still be completed here)
			if r.Violations() > before && !shrunk[f.Sig] && len(shrunk) < 6 {
				shrunk[f.Sig] = true
				min, runs := shrink(cr.prog, f.Sig, o.failStep, 40)
				d["minimized_program"], d["shrink_runs"] = min, runs
			}
		}
	}
	for k, v := range scen {
		r.Count("cases_"+k, v)
	}
	r.Set("distinct_shapes", len(shapes))
	if len(incSamples) > 0 {
		keys := make([]string, 0, len(incSamples))
		for k := range incSamples {
			keys = append(keys, k)
		}
		sort.Strings(keys)
		var list []string
		for _, k := range keys {
			list = append(list, k+" -> "+incSamples[k])
		}
		r.Set("inconclusive_samples", list)
	}
	return r.Finish(rule, assumptions, 20)
}

// replay re-executes the (minimised, if present) program of one replay file. K-means inside the store
// is seeded from the clock, so the program is run up to 5 times; every disagreement is reported.
func replay(r *report.Run) int {
	b, err := os.ReadFile(r.Replay)
	if err != nil {
		r.Broken("cannot read replay file: %v", err)
		return r.Finish(rule, assumptions, 0)
	}
	var f struct {
		Signature string `json:"signature"`
		Detail    struct {
			Program   *Program `json:"program"`
			Minimized *Program `json:"minimized_program"`
		} `json:"detail"`
	}
	if err := json.Unmarshal(b, &f); err != nil || (f.Detail.Program == nil && f.Detail.Minimized == nil) {
		r.Broken("replay file has no program: %v", err)
		return r.Finish(rule, assumptions, 0)
	}
	p := f.Detail.Minimized
	if p == nil {
		p = f.Detail.Program
	}
	for a := 0; a < 5; a++ {
		q := cloneProgram(*p)
		q.Name = freshName("r")
		o := execute(q)
		if o.inconclusive != "" {
			r.Inconclusive(o.inconclusive)
			continue
		}
		r.Eval(fmt.Sprintf("%s#%d", q.hash(), a), true)
		for _, fd := range o.findings {
			fd.Detail["program"], fd.Detail["attempt"] = q, a
			r.Violation(fd.Sig, fd.Detail)
		}
		if len(o.findings) > 0 {
			break
		}
	}
	fmt.Printf("replay of %s (recorded signature %s)\n", r.Replay, f.Signature)
	return r.Finish(rule, assumptions, 0)
}
