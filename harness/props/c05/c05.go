// Package c05: a unique-key store never ends up with two items under the same key.
package c05

import (
	"context"
	"encoding/json"
	"fmt"
	"time"

	"github.com/sharedcode/sop"

	"verifharness/kit/env"
	"verifharness/kit/par"
	"verifharness/kit/proc"
	"verifharness/kit/report"
	"verifharness/kit/sopx"
	"verifharness/props/conc"
)

func init() {
	proc.Register("c05-worker", func(a []string) int { conc.Setup(13, 25); return par.Serve(a, round) })
}

type TxnRes struct {
	ID   string   `json:"id"`
	Ops  []string `json:"ops"`
	Err  string   `json:"err,omitempty"`
	Call int64    `json:"call"`
	Ret  int64    `json:"ret"`
}

type RoundRes struct {
	Sig       string   `json:"sig"`
	Racers    int      `json:"racers"` // >=2 transactions touched one key
	Seeded    bool     `json:"seeded"`
	Slot      int      `json:"slot"`
	Profile   string   `json:"profile"`
	Procs     int      `json:"procs"`
	Txns      []TxnRes `json:"txns"`
	Forward   []string `json:"forward"`
	Backward  []string `json:"backward"`
	Committed int      `json:"committed"`
	Problem   string   `json:"problem,omitempty"`
	Harness   string   `json:"harness,omitempty"`
}

func round(i int, seed int64, _ []string) any {
	rnd := env.Rand(seed, fmt.Sprintf("c05-%d", i))
	res := RoundRes{Procs: conc.Procs(i)}
	db, dir := conc.NewRoundDB("c05")
	defer env.Remove(dir)
	res.Slot = []int{2, 4, 8}[rnd.Intn(3)]
	prof := sopx.Profiles[rnd.Intn(len(sopx.Profiles))]
	res.Profile = string(prof)
	res.Seeded = rnd.Intn(3) != 0
	so := sopx.Options("u", res.Slot, true, prof)
	// create the store (empty) in its own committed transaction; seeded rounds also add a few far keys
	{
		t, err := db.Begin(sop.ForWriting, time.Minute)
		if err != nil {
			res.Harness = err.Error()
			return res
		}
		b, err := sopx.New[string, string](db, t, so)
		if err != nil {
			res.Harness = err.Error()
			return res
		}
		if res.Seeded {
			for k := 0; k < 5; k++ {
				b.Add(conc.Ctx, fmt.Sprintf("z%02d", k), "seed")
			}
		}
		if err := t.Commit(conc.Ctx); err != nil {
			res.Harness = "create: " + err.Error()
			return res
		}
	}
	nKeys := 1 + rnd.Intn(4)
	G := 2 + rnd.Intn(5)
	touched := map[string]int{}
	scripts := make([][]func(*conc.Clock) conc.TxnRec, G)
	results := make([]TxnRes, G)
	for g := 0; g < G; g++ {
		type op struct{ kind, k string }
		var ops []op
		n := 1 + rnd.Intn(3)
		seen := map[string]bool{}
		for j := 0; j < n; j++ {
			k := fmt.Sprintf("k%d", rnd.Intn(nKeys))
			kind := []string{"add", "add", "addifnotexist", "upsert", "updatekey"}[rnd.Intn(5)]
			ops = append(ops, op{kind, k})
			if !seen[k] {
				seen[k] = true
				touched[k]++
			}
		}
		gg := g
		delay := time.Duration(rnd.Intn(2500)) * time.Microsecond
		scripts[g] = []func(*conc.Clock) conc.TxnRec{func(clock *conc.Clock) conc.TxnRec {
			tr := TxnRes{ID: fmt.Sprintf("T%d", gg)}
			defer func() { results[gg] = tr }()
			t, err := db.Begin(sop.ForWriting, time.Minute)
			if err != nil {
				tr.Err = "begin: " + err.Error()
				return conc.TxnRec{ID: tr.ID}
			}
			b, err := sopx.Open[string, string](db, t, "u")
			if err != nil {
				tr.Err = "open: " + err.Error()
				t.Rollback(conc.Ctx)
				return conc.TxnRec{ID: tr.ID}
			}
			for _, o := range ops {
				var ok bool
				var err error
				v := tr.ID + "." + o.k
				switch o.kind {
				case "add":
					ok, err = b.Add(conc.Ctx, o.k, v)
				case "addifnotexist":
					ok, err = b.AddIfNotExist(conc.Ctx, o.k, v)
				case "upsert":
					ok, err = b.Upsert(conc.Ctx, o.k, v)
				case "updatekey":
					ok, err = b.UpdateKey(conc.Ctx, o.k)
				}
				tr.Ops = append(tr.Ops, fmt.Sprintf("%s(%s)=%v", o.kind, o.k, ok))
				if err != nil {
					tr.Err = "op: " + err.Error()
					t.Rollback(conc.Ctx)
					return conc.TxnRec{ID: tr.ID}
				}
			}
			time.Sleep(delay)
			tr.Call = clock.Tick()
			// A caller deadline bounds the documented 3-minute registry sector-lock wait that racing
			// first-root creators run into (that wait is C15's subject, not C05's).
			cctx, cancel := context.WithTimeout(conc.Ctx, 6*time.Second)
			err = t.Commit(cctx)
			cancel()
			tr.Ret = clock.Tick()
			if err != nil {
				tr.Err = err.Error()
			}
			return conc.TxnRec{ID: tr.ID, CallSeq: tr.Call, RetSeq: tr.Ret, Err: tr.Err}
		}}
	}
	_, events := conc.RunRound(res.Procs, scripts)
	res.Txns = results
	for _, t := range results {
		if t.Err == "" {
			res.Committed++
		}
	}
	for _, n := range touched {
		if n >= 2 {
			res.Racers++
		}
	}
	res.Sig, _ = conc.InterleavingSignature(events)
	// the deciding observation: ordered scans of the store after quiescence
	t, err := db.Begin(sop.ForReading, time.Minute)
	if err != nil {
		res.Harness = err.Error()
		return res
	}
	defer t.Rollback(conc.Ctx)
	b, err := sopx.Open[string, string](db, t, "u")
	if err != nil {
		res.Problem = "store cannot be opened after the race: " + err.Error()
		return res
	}
	ok, err := b.First(conc.Ctx)
	for ok && err == nil {
		res.Forward = append(res.Forward, b.GetCurrentKey().Key)
		ok, err = b.Next(conc.Ctx)
	}
	if err != nil {
		res.Problem = "forward scan failed: " + err.Error()
		return res
	}
	ok, err = b.Last(conc.Ctx)
	for ok && err == nil {
		res.Backward = append(res.Backward, b.GetCurrentKey().Key)
		ok, err = b.Previous(conc.Ctx)
	}
	if err != nil {
		res.Problem = "backward scan failed: " + err.Error()
		return res
	}
	for i := 1; i < len(res.Forward); i++ {
		if res.Forward[i-1] == res.Forward[i] {
			res.Problem = fmt.Sprintf("duplicate key %q in forward scan", res.Forward[i])
			return res
		}
	}
	for i := 1; i < len(res.Backward); i++ {
		if res.Backward[i-1] == res.Backward[i] {
			res.Problem = fmt.Sprintf("duplicate key %q in backward scan", res.Backward[i])
			return res
		}
	}
	return res
}

func Run(r *report.Run) int {
	rounds := r.Pick(160, 3000)
	lines, died := par.Run(r, "c05-worker", 16, rounds, 1700, nil)
	conc.ReportDeaths(r, "C05", died)
	for _, l := range lines {
		var res RoundRes
		if json.Unmarshal(l.Res, &res) != nil {
			continue
		}
		if res.Harness != "" {
			r.Inconclusive("harness")
			continue
		}
		r.Eval(res.Sig, res.Racers > 0 && res.Committed >= 2)
		r.Count("committed_transactions", int64(res.Committed))
		if !res.Seeded {
			r.Count("rounds_on_unseeded_empty_store", 1)
		}
		if l.Round < 3 {
			r.Sample(res)
		}
		if res.Problem != "" {
			cls := "duplicate-key"
			if len(res.Problem) > 5 && res.Problem[:5] != "dupli" {
				cls = "store-unreadable"
			}
			seeded := "seeded"
			if !res.Seeded {
				seeded = "unseeded"
			}
			r.Violation(fmt.Sprintf("C05:%s:%s:%s", seeded, res.Profile, cls), map[string]any{"round": l.Round, "seed": r.Seed, "result": res})
		}
	}
	if len(lines) < rounds*9/10 {
		r.Broken("only %d of %d rounds reported", len(lines), rounds)
	}
	return r.Finish(rule, assumptions, 10)
}

const rule = "rounds of 2-6 concurrent transactions (public path) calling Add/AddIfNotExist/Upsert/UpdateKey on the same 1-4 keys of a unique store, seeded and UNSEEDED empty stores (racing first roots), slot length 2/4/8, all value placements, L2 delays, GOMAXPROCS cycle; oracle: adjacent keys of the forward and backward ordered scans after quiescence are never equal (who wins and whether losers error is not asserted); fingerprint = commit-order signature; non-trivial = >=2 transactions touched one key and >=2 committed"

var assumptions = []string{"standalone in-memory L2, single process", "store object itself is created (empty) by a committed transaction before the race; the race is about its first items"}
