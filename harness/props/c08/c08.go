// Package c08: a crash during commit leaves all-or-nothing, with earlier commits intact.
package c08

import (
	"fmt"
	"os"
	"strconv"
	"strings"

	"verifharness/kit/env"
	"verifharness/kit/report"
	"verifharness/kit/txn"
	"verifharness/props/crash"
)

func Shapes(r *report.Run) []string {
	if r.Thorough() {
		return []string{"S6-updates", "S4-split", "S7-removes", "S3-leaf-insert", "S8-mixed", "S9-multistore", "S5-rootsplit", "S2-emptied-root", "S10-create-and-change"}
	}
	return []string{"S6-updates", "S4-split", "S7-removes"}
}

func withEarlier(m txn.Model) txn.Model {
	c := m.Clone()
	c["alpha"]["earlier"] = "committed-before-the-victim"
	return c
}

// siteClass = <phase>:<label/action>: two signature segments, so that a known finding can name the
// phase of the commit and leave the exact call site open.
func siteClass(s crash.Scenario) string {
	a := s.Act
	if s.Act == "torn" {
		a = "torn"
	}
	return s.Phase + ":" + s.Label + "/" + a
}

func Run(r *report.Run) int {
	logDir := env.Scratch("c08log")
	scs := crash.Plan(r, logDir, Shapes(r), r.Thorough())
	cases := crash.Sweep(logDir, scs, false, parallelism())
	planned, hit := 0, 0
	for i, c := range cases {
		planned++
		s := c.Scenario
		fp := fmt.Sprintf("%s:aged=%v:%s#%d:%s:%d:%d", s.Shape, s.Aged, s.Label, s.Ord, s.Act, s.TornN, s.TornRel)
		if c.VictimExit != 77 {
			r.Inconclusive("crash-site-not-reached")
			r.Eval(fp, false)
			continue
		}
		hit++
		r.Eval(fp, true)
		if i%97 == 0 {
			r.Sample(map[string]any{"scenario": s, "steps": c.Steps, "translogs_after_recovery": c.Walk1.Translogs})
		}
		site := siteClass(s)
		if c.Harness != "" {
			if strings.HasPrefix(c.Harness, "RECOVER-DIED") || strings.HasPrefix(c.Harness, "OBSERVE-DIED") {
				r.Set("later_process_died_sample", c.Harness)
				r.Violation(fmt.Sprintf("C08:%s:%s:later-process-died", s.Shape, site), c)
			} else {
				r.Inconclusive("harness")
			}
			continue
		}
		before, after, _ := s.Models()
		before, after = withEarlier(before), withEarlier(after)
		obs, nz := crash.StripRecoveryKeys(c.Dump1)
		r.Count("recovery_writes_visible", int64(nz))
		dB := txn.DiffContent(obs, before.Dump())
		dA := txn.DiffContent(obs, after.Dump())
		switch {
		case dB == "":
			r.Count("outcome_none_of_the_changes", 1)
		case dA == "":
			r.Count("outcome_all_of_the_changes", 1)
		default:
			cls := "mixed-visibility"
			if strings.Contains(dB, "COUNT-ONLY") || strings.Contains(dA, "COUNT-ONLY") {
				cls = "count-only-mismatch"
			} else if strings.Contains(dB, "unreadable") || strings.Contains(dB, "dump failed") {
				cls = "store-unreadable"
			}
			if sd, ok := obs.By["alpha"]; ok && sd.Err == "" {
				found := false
				for _, it := range sd.Items {
					if it.K == "earlier" && it.V == "committed-before-the-victim" {
						found = true
					}
				}
				if !found {
					cls = "earlier-commit-damaged"
				}
			}
			r.Violation(fmt.Sprintf("C08:%s:%s:%s", s.Shape, site, cls), map[string]any{"case": c, "vs_before": dB, "vs_after": dA})
		}
		for _, st := range c.Steps {
			if st.Slow {
				r.Inconclusive("step-missed-its-deadline-on-a-slow-machine")
			}
			if st.Err == "" {
				continue
			}
			if st.Kind == "read" {
				r.Violation(fmt.Sprintf("C08:%s:%s:not-readable-at+%dmin", s.Shape, site, st.OffsetMin), map[string]any{"case": c, "step": st})
				break
			}
			if st.Kind == "write" && st.OffsetMin >= 75 {
				r.Violation(fmt.Sprintf("C08:%s:%s:not-writable-at+%dmin", s.Shape, site, st.OffsetMin), map[string]any{"case": c, "step": st})
				break
			}
		}
		for name, sw := range c.Walk1.By {
			if len(sw.Problems) > 0 {
				r.Violation(fmt.Sprintf("C08:%s:%s:reachable-data-does-not-load", s.Shape, site), map[string]any{"store": name, "problems": sw.Problems, "case": c})
				break
			}
		}
	}
	r.Count("crash_points_planned", int64(planned))
	r.Count("crash_points_hit", int64(hit))
	if planned == 0 || hit*100 < planned*95 {
		r.Broken("only %d of %d planned crashes hit", hit, planned)
	}
	return r.Finish(rule, assumptions, 50)
}

const rule = "victim child processes run one seeded transaction (shapes S6 updates, S4 split, S7 removes; thorough all) on the mirror path and die (os.Exit) right before every decorator call site of their commit (every blob file, every registry block write incl. torn writes (prefix ending 20 and 40 bytes into the changed handle record at every block write; block prefixes 62/2048 inside the flip [thorough 1,62,2048,4092,4095 everywhere]), store-info, transaction-log and priority-log appends, L2 calls), plus after the last one; a cold recovery process with the clock advanced to +6 min, +75 min, +4 h 10 min and six further 6-minute steps runs read and write transactions per store through the public path; a cold observer dumps and walks the disk; oracle: the dump (minus the recovery writers' keys) equals model-before or model-after jointly over all stores incl. the earlier commit, stores stay readable, writable from +75 min on, every reachable node/value loads; fingerprint = (shape, site, ordinal, action, torn length); non-trivial = the victim died at the planned site (exit 77)"

var assumptions = []string{"crash model: the process dies between two completed calls visible at the seams, optionally with the last block write torn; nothing below the syscall layer", "standalone mode (locks die with the process)", "clock advanced through sop.Now, not waited out"}

func parallelism() int {
	if v := os.Getenv("VERIF_PAR"); v != "" {
		if n, err := strconv.Atoi(v); err == nil && n > 0 {
			return n
		}
	}
	return 8
}
