// Package c18: key search positions the cursor so that range scans return exactly the range.
//
// The states are those reached by C17's programs (same generator, executor and reference model; the
// C17 oracle keeps running so that a probe never judges a tree that has already diverged from the
// model). After a state is reached the probes below run against the REAL tree through the public
// cursor API and the shipped iterators of /repo/inmemory/iterate.go:
//
//	Find(k, true)              -> found iff the model has k; lands on the FIRST of the equal keys
//	                              (first in the store's own forward scan), and Next from there walks
//	                              exactly the rest of the equal-key run and then the successor
//	FindInDescendingOrder(k)   -> found iff present; lands on the LAST of the equal keys; Previous from
//	                              there walks the run backwards and then the predecessor
//	FindWithID(k, id)          -> lands on exactly the requested duplicate
//	Find(k, false)             -> found iff present; lands on some item with key k
//	Range(from,to) / RangeDesc -> exactly the model's items with from <= key <= to (ascending /
//	                              descending), for hits and misses (before first, between, after last),
//	                              inverted and empty ranges; All / AllDesc -> everything
//
// Deliberately NOT asserted: the parking slot after a miss (only the range result), the relative
// order of equal keys inside a range (compared per key as a multiset), FindWithID with an id that is
// not in the tree, and anything about Find(k,false) beyond "some item with key k" (which duplicate is
// unspecified; its behaviour from a stale cursor belongs to C17).
package c18

import (
	"fmt"
	"runtime/debug"
	"sort"
	"sync"
	"sync/atomic"

	"verifharness/kit/report"
	"verifharness/props/c17"
)

const id = "C18"

type stats struct {
	states, finds, findIDs, ranges, rangeItems, missProbes, dupProbes, precond atomic.Int64
}

type pctx struct {
	p     *c17.Program
	s     c17.Store
	m     *c17.Model
	fwd   []c17.Obs
	shape string
	site  string // current probe, for panics
	st    *stats
}

func (c *pctx) keyClass(k int) string {
	n := len(c.fwd)
	switch {
	case n == 0:
		return "empty-tree"
	case c.m.Has(k):
		if len(c.m.Run(k)) > 1 {
			return "hit-dup"
		}
		return "hit"
	case k < c.fwd[0].K:
		return "miss-before-first"
	case k > c.fwd[n-1].K:
		return "miss-after-last"
	}
	return "miss-between"
}

func (c *pctx) fail(probe, class, outcome string, d map[string]any) *c17.Failure {
	if d == nil {
		d = map[string]any{}
	}
	d["probe"] = probe
	if c.m.Count() <= 60 {
		d["tree"] = c.s.Dump()
	}
	if len(c.fwd) <= 60 {
		d["forward_scan"] = fmtObs(c.fwd)
	}
	return &c17.Failure{Sig: fmt.Sprintf("%s:%s:%s/%s@%s:%s", id, c.p.Cfg.Scenario(), probe, class, c.shape, outcome), Detail: d}
}

func fmtObs(o []c17.Obs) []string {
	if len(o) > 80 {
		o = o[:80]
	}
	out := make([]string, len(o))
	for i, x := range o {
		out[i] = fmt.Sprintf("{%d,t%d}=v%d", x.K, x.Tag, x.V)
	}
	return out
}

// bounds returns [lo,hi) indexes in fwd of the items with from <= K <= to.
func (c *pctx) bounds(from, to int) (int, int) {
	lo := sort.Search(len(c.fwd), func(i int) bool { return c.fwd[i].K >= from })
	hi := sort.Search(len(c.fwd), func(i int) bool { return c.fwd[i].K > to })
	if hi < lo {
		hi = lo
	}
	return lo, hi
}

// sameItems compares got with want (both in key order, asc or desc) with equal-key runs as multisets.
func sameItems(got, want []c17.Obs) bool {
	if len(got) != len(want) {
		return false
	}
	exact := true
	for i := range got {
		if got[i].K != want[i].K {
			return false
		}
		if got[i].V != want[i].V || got[i].Tag != want[i].Tag {
			exact = false
		}
	}
	if exact {
		return true
	}
	canon := func(x []c17.Obs) []c17.Obs {
		y := append([]c17.Obs(nil), x...)
		for i := 0; i < len(y); {
			j := i
			for j < len(y) && y[j].K == y[i].K {
				j++
			}
			sort.Slice(y[i:j], func(a, b int) bool { return y[i+a].V < y[i+b].V })
			i = j
		}
		return y
	}
	g, w := canon(got), canon(want)
	for i := range g {
		if g[i].V != w[i].V || g[i].Tag != w[i].Tag {
			return false
		}
	}
	return true
}

func reversed(x []c17.Obs) []c17.Obs {
	y := make([]c17.Obs, len(x))
	for i := range x {
		y[len(x)-1-i] = x[i]
	}
	return y
}

var maxKeys sync.Map // *c17.Program -> int

func maxKey(p *c17.Program) int {
	if v, ok := maxKeys.Load(p); ok {
		return v.(int)
	}
	mk := 0
	for _, o := range p.Ops {
		if o.K > mk {
			mk = o.K
		}
	}
	maxKeys.Store(p, mk)
	return mk
}

// probeState runs every probe against the current state. It leaves the cursor unselected.
func probeState(i int, p *c17.Program, s c17.Store, m *c17.Model, st *stats) (fl *c17.Failure) {
	c := &pctx{p: p, s: s, m: m, st: st, shape: "?"}
	defer func() {
		if x := recover(); x != nil {
			if b, ok := x.(c17.BudgetExceeded); ok {
				fl = c.fail(c.site, "any", "no-termination", map[string]any{"repository_gets": b.Gets})
				return
			}
			fl = c.fail(c.site, "any", "panic", map[string]any{"panic": fmt.Sprint(x), "stack": string(debug.Stack())})
		}
	}()
	n := m.Count()
	st.states.Add(1)
	if s.Owned() {
		s.Walk() // refresh the shape classification (cursor untouched)
		c.shape = s.Shape()
	}

	// 0. the store's own forward order (with item ids) through First/Next
	c.site = "First-Next"
	ok, err := s.First()
	for ok && err == nil {
		if len(c.fwd) > n+1 {
			break
		}
		o, cerr := s.Cur()
		if cerr != nil {
			err = cerr
			break
		}
		c.fwd = append(c.fwd, o)
		ok, err = s.Next()
	}
	pre := err == nil && len(c.fwd) == n
	for j := 0; pre && j < n; j++ {
		it := m.ByV(c.fwd[j].V)
		if it == nil || it.K != c.fwd[j].K || (j > 0 && c.fwd[j-1].K > c.fwd[j].K) || c.fwd[j].ID.IsNil() {
			pre = false
		}
	}
	if !pre {
		// the tree no longer is the model's ordered collection: C17's business, not a C18 verdict
		st.precond.Add(1)
		return &c17.Failure{Sig: "C17-precondition", Detail: map[string]any{"forward_scan": fmtObs(c.fwd), "model_count": n, "error": fmt.Sprint(err)}}
	}

	// 1. probe keys in and around the domain
	hiKey := maxKey(p) + 1
	var probes []int
	if hiKey+2 <= 26 {
		for k := -1; k <= hiKey; k++ {
			probes = append(probes, k)
		}
	} else {
		seen := map[int]bool{}
		add := func(k int) {
			if k >= -1 && k <= hiKey && !seen[k] {
				seen[k] = true
				probes = append(probes, k)
			}
		}
		for _, k := range []int{-1, 0, 1, hiKey, hiKey - 1} {
			add(k)
		}
		if n > 0 {
			for _, k := range []int{c.fwd[0].K - 1, c.fwd[0].K, c.fwd[n-1].K, c.fwd[n-1].K + 1} {
				add(k)
			}
			// the two most duplicated keys
			b1, b2, l1, l2 := -1, -1, 0, 0
			for _, k := range m.Keys() {
				if l := len(m.Run(k)); l > l1 {
					b2, l2, b1, l1 = b1, l1, k, l
				} else if l > l2 {
					b2, l2 = k, l
				}
			}
			add(b1)
			add(b2)
		}
		x := uint64(i)*0x9E3779B97F4A7C15 + uint64(len(p.Ops))
		for len(probes) < 24 {
			x = x*6364136223846793005 + 1442695040888963407
			add(int(x>>33)%(hiKey+2) - 1)
		}
		sort.Ints(probes)
	}

	firstIdx := func(k int) (int, int) { return c.bounds(k, k) }

	for _, k := range probes {
		class := c.keyClass(k)
		has := m.Has(k)
		lo, hi := firstIdx(k)
		if has {
			if hi-lo > 1 {
				st.dupProbes.Add(1)
			}
		} else {
			st.missProbes.Add(1)
		}

		// Find(k, true): first of equal keys, and the walk from there
		c.site = "Find-first"
		st.finds.Add(1)
		ok, err := s.Find(c17.Key{K: k}, true)
		if f := c.retCheck("Find-first", class, ok, err, has); f != nil {
			return f
		}
		if has {
			o, _ := s.Cur()
			if o.ID != c.fwd[lo].ID || o.V != c.fwd[lo].V {
				return c.fail("Find-first", class, "not-first-of-equal-keys", map[string]any{"key": k, "landed_on": fmtObs([]c17.Obs{o}), "first_in_forward_scan": fmtObs(c.fwd[lo : lo+1]), "position_in_run": posIn(c.fwd[lo:hi], o)})
			}
			// Next walks the rest of the run and then reaches the successor (or the end)
			for t := 1; t <= min(hi-lo, 64); t++ {
				j := lo + t
				ok, err := s.Next()
				if j >= len(c.fwd) {
					if ok || err != nil {
						return c.fail("Find-first", class, "next-past-last-item-succeeded", map[string]any{"key": k, "error": fmt.Sprint(err)})
					}
					break
				}
				o, _ := s.Cur()
				if !ok || err != nil || o.ID != c.fwd[j].ID {
					return c.fail("Find-first", class, "scan-from-cursor-diverges", map[string]any{"key": k, "step": t, "next_returned": ok, "error": fmt.Sprint(err), "current": fmtObs([]c17.Obs{o}), "expected": fmtObs(c.fwd[j : j+1])})
				}
			}
		}

		// FindInDescendingOrder(k): last of equal keys, and the walk back from there
		c.site = "Find-desc"
		st.finds.Add(1)
		ok, err = s.FindDesc(c17.Key{K: k})
		if f := c.retCheck("Find-desc", class, ok, err, has); f != nil {
			return f
		}
		if has {
			o, _ := s.Cur()
			if o.ID != c.fwd[hi-1].ID || o.V != c.fwd[hi-1].V {
				return c.fail("Find-desc", class, "not-last-of-equal-keys", map[string]any{"key": k, "landed_on": fmtObs([]c17.Obs{o}), "last_in_forward_scan": fmtObs(c.fwd[hi-1 : hi]), "position_in_run": posIn(c.fwd[lo:hi], o)})
			}
			for t := 1; t <= min(hi-lo, 64); t++ {
				j := hi - 1 - t
				ok, err := s.Previous()
				if j < 0 {
					if ok || err != nil {
						return c.fail("Find-desc", class, "previous-before-first-item-succeeded", map[string]any{"key": k, "error": fmt.Sprint(err)})
					}
					break
				}
				o, _ := s.Cur()
				if !ok || err != nil || o.ID != c.fwd[j].ID {
					return c.fail("Find-desc", class, "scan-from-cursor-diverges", map[string]any{"key": k, "step": t, "previous_returned": ok, "error": fmt.Sprint(err), "current": fmtObs([]c17.Obs{o}), "expected": fmtObs(c.fwd[j : j+1])})
				}
			}
		}

		// Find(k, false): some item with key k
		c.site = "Find-exact"
		st.finds.Add(1)
		ok, err = s.Find(c17.Key{K: k}, false)
		if f := c.retCheck("Find-exact", class, ok, err, has); f != nil {
			return f
		}
		if has {
			o, _ := s.Cur()
			if it := m.ByV(o.V); o.K != k || it == nil || it.K != k {
				return c.fail("Find-exact", class, "wrong-item", map[string]any{"key": k, "landed_on": fmtObs([]c17.Obs{o})})
			}
		}

		// FindWithID: the requested duplicate (first, last, middle and up to three more)
		if has {
			c.site = "FindWithID"
			picks := []int{lo, hi - 1, (lo + hi) / 2}
			for j := 1; j <= 3 && hi-lo > 3; j++ {
				picks = append(picks, lo+(j*7+i)%(hi-lo))
			}
			done := map[int]bool{}
			for _, j := range picks {
				if done[j] {
					continue
				}
				done[j] = true
				st.findIDs.Add(1)
				ok, err := s.FindWithID(c17.Key{K: k}, c.fwd[j].ID)
				if f := c.retCheck("FindWithID", class, ok, err, true); f != nil {
					f.Detail["duplicate_index"] = j - lo
					return f
				}
				o, _ := s.Cur()
				if o.ID != c.fwd[j].ID || o.V != c.fwd[j].V {
					return c.fail("FindWithID", class, "wrong-duplicate", map[string]any{"key": k, "requested": fmtObs(c.fwd[j : j+1]), "requested_index_in_run": j - lo, "landed_on": fmtObs([]c17.Obs{o}), "landed_index_in_run": posIn(c.fwd[lo:hi], o)})
				}
			}
		}
	}

	// 2. range scans through the shipped iterators
	type pair struct{ from, to int }
	var pairs []pair
	if len(probes) <= 8 {
		for _, a := range probes {
			for _, b := range probes {
				pairs = append(pairs, pair{a, b})
			}
		}
	} else {
		x := uint64(i)*0xD1B54A32D192ED03 + 7
		rnd := func(n int) int {
			x = x*6364136223846793005 + 1442695040888963407
			return int(x>>33) % n
		}
		deltas := []int{0, 0, 1, 2, 3, 4, 7, 12, hiKey}
		for j := 0; j < 36; j++ {
			a := probes[rnd(len(probes))]
			pairs = append(pairs, pair{a, a + deltas[rnd(len(deltas))]})
		}
		for j := 0; j < 4; j++ { // inverted
			a := probes[rnd(len(probes))]
			pairs = append(pairs, pair{a, a - 1 - rnd(5)})
		}
		pairs = append(pairs, pair{-1, hiKey}, pair{probes[0], probes[len(probes)-1]})
	}
	limit := n + 2
	for _, pr := range pairs {
		lo, hi := c.bounds(pr.from, pr.to)
		want := c.fwd[lo:hi]
		st.ranges.Add(2)
		st.rangeItems.Add(int64(2 * len(want)))

		c.site = "Range"
		got, over := s.Range(c17.Key{K: pr.from}, c17.Key{K: pr.to}, limit)
		if over || !sameItems(got, want) {
			out := "range-mismatch"
			if over {
				out = "yields-too-many"
			}
			return c.fail("Range", "from-"+c.keyClass(pr.from), out, map[string]any{"from": pr.from, "to": pr.to, "got": fmtObs(got), "expected": fmtObs(want), "to_class": c.keyClass(pr.to)})
		}
		// RangeDesc(from=high bound, to=low bound): same set, descending
		c.site = "RangeDesc"
		got, over = s.RangeDesc(c17.Key{K: pr.to}, c17.Key{K: pr.from}, limit)
		if over || !sameItems(got, reversed(want)) {
			out := "range-mismatch"
			if over {
				out = "yields-too-many"
			}
			return c.fail("RangeDesc", "from-"+c.keyClass(pr.to), out, map[string]any{"from_high": pr.to, "to_low": pr.from, "got": fmtObs(got), "expected": fmtObs(reversed(want)), "to_class": c.keyClass(pr.from)})
		}
	}
	c.site = "All"
	if got, over := s.All(limit); over || !sameItems(got, c.fwd) {
		return c.fail("All", "all", "range-mismatch", map[string]any{"got": fmtObs(got)})
	}
	c.site = "AllDesc"
	if got, over := s.AllDesc(limit); over || !sameItems(got, reversed(c.fwd)) {
		return c.fail("AllDesc", "all", "range-mismatch", map[string]any{"got": fmtObs(got)})
	}

	// leave no current item: the program's next operation starts from an unselected cursor
	c.site = "reset"
	if ok, _ := s.Last(); ok {
		s.Next()
	}
	return nil
}

func posIn(run []c17.Obs, o c17.Obs) int {
	for i, x := range run {
		if x.ID == o.ID {
			return i
		}
	}
	return -1
}

func (c *pctx) retCheck(probe, class string, got bool, err error, want bool) *c17.Failure {
	if err != nil {
		return c.fail(probe, class, "unexpected-error", map[string]any{"error": err.Error()})
	}
	if got != want {
		out := "returned-true-expected-false"
		if want {
			out = "returned-false-expected-true"
		}
		return c.fail(probe, class, out, nil)
	}
	return nil
}

// Run is the check entry.
func Run(r *report.Run) int {
	st := &stats{}
	var mu sync.Mutex
	var found []c17.Found
	var cut, cutExh int64
	cutSigs := map[string]int{}

	// probe the state after the last operation of every exhaustive sequence (every prefix is a
	// sequence of the enumeration itself), and every state of the random programs
	hookLast := &c17.Hooks{AfterOp: func(i, n int, p *c17.Program, s c17.Store, m *c17.Model) *c17.Failure {
		if i != n-2 { // the last operation before the closing Scan
			return nil
		}
		return probeState(i, p, s, m, st)
	}}
	hookEvery := func(k int) *c17.Hooks {
		return &c17.Hooks{AfterOp: func(i, n int, p *c17.Program, s c17.Store, m *c17.Model) *c17.Failure {
			if p.Ops[i].Kind == c17.OpScan || (k > 1 && i%k != 0 && i != n-2) {
				return nil
			}
			return probeState(i, p, s, m, st)
		}}
	}
	note := func(caseIdx int, p *c17.Program, f *c17.Failure, exh bool) {
		mu.Lock()
		defer mu.Unlock()
		if f.FromHook && f.Sig != "C17-precondition" {
			found = append(found, c17.Found{Case: caseIdx, Prog: p, Fail: f})
			return
		}
		// C17's oracle (or the probe's precondition) stopped the program: states up to there were probed
		if exh {
			cutExh++
		} else {
			cut++
		}
		cutSigs[f.Sig]++
	}

	if r.Replay != "" {
		return c17.Replay(r, id, hookEvery(1), "replay of one recorded program, probes after every operation")
	}

	// ---- Part 1: exhaustive sequences -----------------------------------------------------------
	type exhPlan struct {
		uniq                bool
		nKeys, level, depth int
	}
	plans := []exhPlan{
		{false, 3, 0, r.Pick(5, 6)}, {false, 3, 2, r.Pick(3, 4)}, {false, 2, 0, r.Pick(6, 8)},
		{true, 4, 0, r.Pick(4, 5)}, {true, 3, 2, r.Pick(3, 4)},
	}
	var cases []c17.ExhCase
	for _, bal := range []bool{false, true} {
		for _, pl := range plans {
			cfg := c17.Config{Variant: "owned", ReqSlot: 2, Unique: pl.uniq, Balance: bal, KeyKind: "func"}
			cases = append(cases, c17.ExhCases(cfg, pl.nKeys, pl.level, pl.depth)...)
		}
	}
	exhOut := make([]c17.ExhOutcome, len(cases))
	c17.Parallel(len(cases), func(i int) { exhOut[i] = c17.RunExh(id, cases[i], hookLast) })
	var seqs, nt int64
	for i, o := range exhOut {
		r.Eval(cases[i].Name, o.NonTrivial > 0)
		seqs += int64(o.Sequences)
		nt += int64(o.NonTrivial)
		for j, f := range o.Fails {
			note(i, o.FailProgs[j], f, true)
		}
	}
	r.Count("exhaustive_cases", int64(len(cases)))
	r.Count("exhaustive_sequences", seqs)
	r.Count("exhaustive_sequences_nontrivial", nt)

	// ---- Part 2: seeded random programs ---------------------------------------------------------
	progs := c17.RandomSuite(r.Seed, "c18", r.Pick(160, 2500), 400, r.Pick(0, 4), 50000)
	if r.Thorough() {
		progs = append(progs, c17.RandomSuite(r.Seed, "c18-mid", 200, 3000, 0, 0)...)
	}
	results := make([]c17.Result, len(progs))
	c17.Parallel(len(progs), func(i int) {
		k := 1
		if len(progs[i].Ops) > 1000 {
			k = 7
		}
		if len(progs[i].Ops) > 10000 {
			k = 251
		}
		p := progs[i]
		if p.WalkEvery != 1 {
			q := *p
			q.WalkEvery = 1 // the probes want a tree that C17's walk has just confirmed
			if len(q.Ops) > 10000 {
				q.WalkEvery = 251
			}
			p = &q
			progs[i] = p
		}
		res := c17.Exec(id, p, hookEvery(k))
		results[i] = res
		if res.Fail != nil {
			note(len(cases)+i, p, res.Fail, false)
		}
	})
	for i, res := range results {
		p := progs[i]
		slot := 8
		if p.Cfg.Variant == "owned" {
			slot = p.Cfg.ReqSlot - p.Cfg.ReqSlot%2
		}
		r.Eval("prog:"+p.Hash(), res.NonTrivial(p, slot))
		r.Count("random_programs", 1)
		r.Count("random_ops", int64(res.OpsDone))
		r.Count("nodes_created", int64(res.Creates))
		r.Count("nodes_removed", int64(res.Removes))
		if i < 3 {
			ops := p.Strings()
			if len(ops) > 20 {
				ops = ops[:20]
			}
			r.Sample(map[string]any{"kind": "random-program", "hash": p.Hash(), "cfg": p.Cfg, "ops_total": len(p.Ops), "first_ops": ops,
				"nodes_created": res.Creates, "nodes_removed": res.Removes, "max_count": res.MaxCount})
		}
	}
	r.Sample(map[string]any{"kind": "probe-set", "per_state": "for every probe key in [-1, maxKey+1] (sampled when more than 26): Find(k,true)+Next walk, FindInDescendingOrder(k)+Previous walk, Find(k,false), FindWithID per duplicate; Range/RangeDesc over probe pairs (all pairs when <= 8 probes), All, AllDesc"})
	r.Count("states_probed", st.states.Load())
	r.Count("find_probes", st.finds.Load())
	r.Count("findwithid_probes", st.findIDs.Load())
	r.Count("probe_keys_missing_from_tree", st.missProbes.Load())
	r.Count("probe_keys_duplicated_in_tree", st.dupProbes.Load())
	r.Count("range_scans", st.ranges.Load())
	r.Count("range_items_expected", st.rangeItems.Load())
	r.Count("random_programs_cut_short_by_c17_oracle", cut)
	r.Count("exhaustive_sequences_cut_short_by_c17_oracle", cutExh)
	r.Set("c17_oracle_stops_by_signature", cutSigs)

	// shrinking re-runs the program with a probe after every operation
	shrinkHook := hookEvery(1)
	c17.Report(r, id, found, shrinkHook)

	return r.Finish(
		"case = one exhaustive subtree (all Add/Remove/Upsert[/Find+RemoveCurrentItem] sequences over 2-4 keys starting with a 2-operation prefix, slot length 2, probes after the last operation of every sequence) "+
			"or one seeded random C17 program (probes after every operation; every 7th / 251st on the 3000- / 50000-op runs of the thorough tier), each on a fresh real tree. "+
			"fingerprint = subtree name or program hash; non-trivial = the program split / created / removed at least one node (shipped variant: Count() exceeded the slot length).",
		[]string{
			"a state is probed only while C17's oracle still agrees with the tree; programs stopped by the C17 oracle are counted (random_programs_cut_short_by_c17_oracle), not judged here",
			"'first/last of equal keys' is relative to the store's own First/Next order observed immediately before the probe",
			"the parking slot after a miss is not asserted, only that Range/RangeDesc return the model's range",
			"equal keys inside a range are compared as a multiset",
			"probes end with Last()+Next() so that the program's next operation starts without a current item (keeps C17's stale-cursor defect out of this check)",
		}, 20)
}
