// Package c26: shard auto-repair restores full redundancy.
//
// Real code under observation: fs.NewBlobStoreWithEC with RepairCorruptedShards = true. For every
// damage pattern within parity the check writes a blob, remembers the shard files the library
// wrote, damages at most p of them, reads the blob (GetOne), and - when that read succeeded with
// the stored bytes, which is the statement's precondition - observes
//
//	(1) every shard file is byte-identical to the originally written one (the encoding is
//	    deterministic, so "intact" can be decided by comparison with the first write), and
//	(2) starting from the state the repairing read left behind, every set of p further shard
//	    failures (all p files removed; a data bit flipped in all p files) still reads back the
//	    stored bytes.
//
// One violation per case: when (1) fails the case is "not-repaired" and the further failures that are
// then not tolerated are recorded in its detail as the consequence; "redundancy-lost" is the case where
// every file is as written and (2) fails all the same.
//
// Weaker readings chosen: a first read that fails, returns other bytes or kills the process is
// C25's subject and only counted here; the further failures of (2) are uniform (all missing or
// all bit-flipped), the two kinds the library handles on an undamaged blob, so that C25's mixed-kind
// defects are not reported a second time under C26.
//
// Cases run in child processes through c25's executor (a shard shorter than its header kills the
// reader on the unchanged library).
package c26

import (
	"fmt"

	"verifharness/kit/proc"
	"verifharness/kit/report"
	"verifharness/props/c25"
)

func init() { proc.Register("c26-batch", c25.ChildMain) }

const rule = "case = (d,p) x blob size x set of at most p damaged shard files x damage kind per shard, read with RepairCorruptedShards on; then every p-subset of shards x {all removed, all with a flipped data bit} applied to the post-repair state. " +
	"Enumerated: every subset of 1..p shards x every assignment of {missing, empty(=17B), truncated, corrupt(data bit), badsum(md5 bit), badpad(pad-count bit)} where that product fits the per-group budget, " +
	"else every subset x every uniform assignment + seed-sampled mixed assignments (closed under sub-damage); plus single shards cut inside the header (bounded number: they kill the reader on the unchanged library). " +
	"Distinct class = (d,p):size class:damage count:kind set. Non-trivial = at least one shard file really changed AND the first read returned the stored bytes (the statement's precondition), so files and further failures were observed."

var assumptions = []string{
	"'intact' is decided by byte comparison with the shard files of the first write (deterministic encoding, observed at set-up)",
	"a first read that errors, returns other bytes or crashes is C25's subject; counted here as precondition-unmet, not as a C26 violation (unless the same read succeeds with repair off)",
	"the p further failures are uniform: all removed, or all with one flipped data bit",
	"damage is applied to files at rest; no concurrent reader or writer",
	"quick tier uses a reduced (d,p) set",
}

func configs(r *report.Run) []c25.Config {
	if r.Thorough() {
		return c25.AllConfigs()
	}
	return []c25.Config{{D: 1, P: 1}, {D: 2, P: 1}, {D: 3, P: 1}, {D: 1, P: 2}, {D: 2, P: 2}, {D: 3, P: 2}, {D: 2, P: 3}}
}

func moreSets(seed int64, cfg c25.Config, size int) [][]c25.Damage {
	var out [][]c25.Damage
	for _, kind := range []string{c25.KMissing, c25.KCorrupt} {
		for _, sub := range c25.Subsets(cfg.D+cfg.P, cfg.P) {
			var set []c25.Damage
			for _, sh := range sub {
				dm, _ := c25.MkDamage(seed, cfg.D, cfg.P, size, sh, kind)
				set = append(set, dm)
			}
			out = append(out, set)
		}
	}
	return out
}

func genCases(r *report.Run) ([]c25.Case, bool) {
	var cases []c25.Case
	complete := true
	budget := r.Pick(250, 1000)
	samples := r.Pick(1, 3)
	for _, cfg := range configs(r) {
		n := cfg.D + cfg.P
		sizes := []int{cfg.D + 1}
		if r.Thorough() {
			sizes = []int{cfg.D + 1, 2 * cfg.D, 1}
		}
		for _, size := range sizes {
			cs := c25.NewCaseSet()
			if !c25.Product(cs, r.Seed, cfg, size, cfg.P, c25.BodyKinds, budget, samples) {
				complete = false
			}
			// header cuts: first and last shard (quick), every shard (thorough, first size)
			for sh := 0; sh < n; sh++ {
				if sh == 0 || sh == n-1 || (r.Thorough() && size == cfg.D+1) {
					for _, kind := range []string{c25.KShort, c25.KZero} {
						if kind == c25.KZero && sh != 0 {
							continue
						}
						dm, _ := c25.MkDamage(r.Seed, cfg.D, cfg.P, size, sh, kind)
						cs.Add([]c25.Damage{dm})
					}
				}
			}
			more := moreSets(r.Seed, cfg, size)
			for _, dmg := range cs.List {
				cases = append(cases, c25.Case{Fam: "repair", D: cfg.D, P: cfg.P, Size: size, Repair: true, Dmg: dmg, More: more})
			}
		}
	}
	return cases, complete
}

type verdict struct {
	c       c25.Case
	res     c25.Result
	class   string
	culprit []c25.Damage
	detail  map[string]any
}

// Run is the C26 check.
func Run(r *report.Run) int {
	cases, complete := genCases(r)
	r.Count("cases_planned", int64(len(cases)))
	results := c25.Exec(r, "c26-batch", cases, r.Pick(25, 40))
	r.Set("product_complete_for_every_group", complete)

	type key struct{ group, dmg, class string }
	bad := map[key]bool{}
	var verdicts []*verdict
	counts := map[string]int64{}
	var moreReads int64
	samples := 0
	for i, c := range cases {
		res := results[i]
		cfg := c25.Config{D: c.D, P: c.P}
		if res.Outcome == "" {
			r.Inconclusive("no result (child timed out or run broken)")
			continue
		}
		k := len(c.Dmg)
		fp := fmt.Sprintf("repair:%s:%s:k=%d:%s", cfg, c25.SizeClass(c.D, c.Size), k, c25.KindSet(c.Dmg))
		add := func(class string, detail map[string]any) {
			detail["case"] = map[string]any{"d": c.D, "p": c.P, "size": c.Size, "repair": true, "dmg": c.Dmg}
			detail["seed"] = r.Seed
			detail["replay"] = "fs.NewBlobStoreWithEC(fs.DefaultToFilePath, fs.NewFileIO(), {tbl: d,p,folders,RepairCorruptedShards:true}); Add one blob of case.size bytes; keep copies of the d+p shard files; " +
				"apply case.dmg (len = truncate to, off/bit = flip); GetOne; compare the shard files with the copies; apply the further damage; GetOne"
			verdicts = append(verdicts, &verdict{c: c, res: res, class: class, detail: detail})
			bad[key{c25.GroupKey(c), c25.DmgKey(c.Dmg), class}] = true
		}
		if res.Outcome == "died" && res.Phase2 {
			// the first read had succeeded; the process died while the post-repair state was being read
			r.Eval(fp, true)
			counts["first_read_ok"]++
			counts["died_after_repair"]++
			add("redundancy-lost", map[string]any{"observed": "process died during a read after the repairing read: " + res.Msg, "stderr": res.Stderr,
				"expected": "after a successful repairing read any p further shard failures are tolerated"})
			continue
		}
		if res.Outcome != "died" && res.Applied != k {
			r.Broken("case %d: %d of %d damages changed a file (%s)", i, res.Applied, k, c25.DmgKey(c.Dmg))
			continue
		}
		if res.Outcome != "ok" {
			// precondition (a successful read) not met
			r.Eval(fp, false)
			counts["first_read_"+res.Outcome]++
			if res.NoRepairOutcome == "ok" {
				add("read-fails-only-with-repair", map[string]any{"observed": res.Outcome + ": " + res.Msg, "expected": "the same read succeeds with RepairCorruptedShards off, so repair must not make it fail"})
			}
			continue
		}
		r.Eval(fp, true)
		counts["first_read_ok"]++
		if samples < 4 && k >= 1 {
			samples++
			failed := 0
			for _, m := range res.More {
				if m.Outcome != "ok" {
					failed++
				}
			}
			r.Sample(map[string]any{"d": c.D, "p": c.P, "size": c.Size, "dmg": c.Dmg, "unrepaired": res.Unrepaired, "further_reads": len(res.More), "further_reads_failed": failed})
		}
		var lost []c25.MoreResult
		for _, m := range res.More {
			moreReads++
			if m.Outcome != "ok" {
				lost = append(lost, m)
			}
		}
		show := lost
		if len(show) > 4 {
			show = show[:4]
		}
		if len(lost) > 0 {
			counts["redundancy_lost"]++
		}
		// One violation per case: a shard file left damaged is the cause, the further failures that are
		// then not tolerated are its consequence and go into the same detail. "redundancy-lost" is
		// kept for the case where every file is as written and p further failures still break the read.
		switch {
		case len(res.Unrepaired) > 0:
			counts["not_repaired"]++
			add("not-repaired", map[string]any{"observed": res.Unrepaired, "expected": "after the successful read every shard file equals the originally written one",
				"further_sets_not_tolerated": show, "failing_further_sets": len(lost), "further_sets_tried": len(res.More)})
		case len(lost) > 0:
			counts["all_files_identical_after_read"]++
			add("redundancy-lost", map[string]any{"observed": show, "failing_further_sets": len(lost), "further_sets_tried": len(res.More), "unrepaired": res.Unrepaired,
				"expected": "after a successful repairing read any p further shard failures are tolerated"})
		default:
			counts["all_files_identical_after_read"]++
		}
	}
	r.Count("further_failure_reads", moreReads)
	for k, v := range counts {
		r.Count(k, v)
	}

	// Name each violation by its smallest sub-damage that violates in the same class.
	em := c25.NewEmitter(r)
	for _, v := range verdicts {
		v.culprit = v.c.Dmg
		n := len(v.c.Dmg)
		best := -1
		for mask := 1; mask < (1<<n)-1; mask++ {
			var sub []c25.Damage
			for i := 0; i < n; i++ {
				if mask&(1<<i) != 0 {
					sub = append(sub, v.c.Dmg[i])
				}
			}
			if best >= 0 && len(sub) >= best {
				continue
			}
			if bad[key{c25.GroupKey(v.c), c25.DmgKey(sub), v.class}] {
				v.culprit, best = sub, len(sub)
			}
		}
		v.detail["smallest_culprit"] = v.culprit
		// "not-repaired" is named by the damage kinds that were left on disk: the culprit's shards that
		// still differ after the read (the other damages of the culprit were repaired; they only shaped
		// what the decoder looked at). If the files that differ are not among the damaged ones (a repair
		// that wrote into the wrong place) the whole culprit names the class.
		named := v.culprit
		if v.class == "not-repaired" {
			left := map[int]bool{}
			for _, u := range v.res.Unrepaired {
				left[u.Shard] = true
			}
			var still []c25.Damage
			for _, dm := range v.culprit {
				if left[dm.Shard] {
					still = append(still, dm)
				}
			}
			if len(still) > 0 {
				named = still
			}
		}
		sig := fmt.Sprintf("C26:%s:%s:%s", c25.Config{D: v.c.D, P: v.c.P}, c25.SigKinds(named, v.class), v.class)
		em.Add(sig, len(v.c.Dmg)*1000000+(v.c.D+v.c.P)*100000+min(v.c.Size, 99999), v.detail,
			fmt.Sprintf("size=%d dmg=[%s] -> %v", v.c.Size, c25.DmgKey(v.c.Dmg), brief(v.detail["observed"])))
	}
	em.Flush(3)
	return r.Finish(rule, assumptions, r.Pick(70, 150))
}

func brief(v any) string {
	s := fmt.Sprintf("%+v", v)
	if len(s) > 220 {
		s = s[:220] + "…"
	}
	return s
}
