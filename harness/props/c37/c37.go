// Package c37: the commit protocol never installs two successors of one node version (trace monitor
// over a recording Registry decorator, mirror path). The model-checking clause of the property's
// quantifier belongs to another technique family and is not attempted (DESIGN §9).
package c37

import (
	"context"
	"encoding/json"
	"fmt"
	"sync"
	"sync/atomic"
	"time"

	"github.com/sharedcode/sop"
	"github.com/sharedcode/sop/fs"

	"verifharness/kit/env"
	"verifharness/kit/mirror"
	"verifharness/kit/par"
	"verifharness/kit/proc"
	"verifharness/kit/report"
	"verifharness/kit/sopx"
	"verifharness/kit/txn"
	"verifharness/props/conc"
)

func init() {
	proc.Register("c37-worker", func(a []string) int {
		conc.Setup(19, 25)
		mirror.RegistryWrap = wrap
		return par.Serve(a, round)
	})
}

// ---- the trace monitor ----

type flip struct {
	TID     sop.UUID
	L       sop.UUID
	To      int32
	Active  sop.UUID
	Deleted bool
	Seq     int64
}

type monitor struct {
	mu       sync.Mutex
	seq      int64
	flips    []flip
	problems []string
	events   int64
	blobBad  int
}

var mon = &monitor{}

func (m *monitor) reset() {
	m.mu.Lock()
	m.seq, m.flips, m.problems, m.events, m.blobBad = 0, nil, nil, 0, 0
	m.mu.Unlock()
}

type recReg struct {
	in     sop.Registry
	folder string
	tid    sop.UUID
}

func wrap(folder string, r sop.Registry) (sop.Registry, func(sop.UUID)) {
	rr := &recReg{in: r, folder: folder}
	return rr, func(t sop.UUID) { rr.tid = t }
}

func (r *recReg) Close() error {
	if c, ok := r.in.(interface{ Close() error }); ok {
		return c.Close()
	}
	return nil
}
func (r *recReg) Get(ctx context.Context, p []sop.RegistryPayload[sop.UUID]) ([]sop.RegistryPayload[sop.Handle], error) {
	mon.mu.Lock()
	mon.events++
	mon.mu.Unlock()
	out, err := r.in.Get(ctx, p)
	jitter() // widen the window between reading a handle and acting on it
	return out, err
}
func (r *recReg) Add(ctx context.Context, p []sop.RegistryPayload[sop.Handle]) error {
	mon.mu.Lock()
	mon.events++
	mon.mu.Unlock()
	return r.in.Add(ctx, p)
}
func (r *recReg) Update(ctx context.Context, p []sop.RegistryPayload[sop.Handle]) error {
	mon.mu.Lock()
	mon.events++
	mon.mu.Unlock()
	return r.in.Update(ctx, p)
}
func (r *recReg) Remove(ctx context.Context, p []sop.RegistryPayload[sop.UUID]) error {
	mon.mu.Lock()
	mon.events++
	mon.mu.Unlock()
	return r.in.Remove(ctx, p)
}
func (r *recReg) Replicate(ctx context.Context, a, b, c, d []sop.RegistryPayload[sop.Handle]) error {
	return r.in.Replicate(ctx, a, b, c, d)
}
func (r *recReg) UpdateNoLocks(ctx context.Context, allOrNothing bool, p []sop.RegistryPayload[sop.Handle]) error {
	if allOrNothing {
		// the flip: (ii) every new active id must point at fully written, decodable data BEFORE it is installed
		bs := fs.NewBlobStore(r.folder, nil, nil)
		for _, pl := range p {
			for _, h := range pl.IDs {
				if h.IsDeleted {
					continue
				}
				ba, err := bs.GetOne(ctx, pl.BlobTable, h.GetActiveID())
				var probe map[string]any
				if err != nil || len(ba) == 0 || json.Unmarshal(ba, &probe) != nil {
					mon.mu.Lock()
					mon.blobBad++
					mon.problems = append(mon.problems, fmt.Sprintf("flip-to-unwritten-data: tid=%v node=%v active=%v err=%v len=%d", r.tid, h.LogicalID, h.GetActiveID(), err, len(ba)))
					mon.mu.Unlock()
				}
			}
		}
	}
	err := r.in.UpdateNoLocks(ctx, allOrNothing, p)
	mon.mu.Lock()
	mon.events++
	if allOrNothing && err == nil {
		for _, pl := range p {
			for _, h := range pl.IDs {
				mon.seq++
				mon.flips = append(mon.flips, flip{TID: r.tid, L: h.LogicalID, To: h.Version, Active: h.GetActiveID(), Deleted: h.IsDeleted, Seq: mon.seq})
			}
		}
	}
	mon.mu.Unlock()
	return err
}

var jitterN atomic.Int64

// jitter sleeps 0-1.5 ms on every third call (interleaving widening only, never part of the oracle).
func jitter() {
	n := jitterN.Add(1)
	if n%3 == 0 {
		time.Sleep(time.Duration((n*7919)%1500) * time.Microsecond)
	}
}

// ---- the workload ----

type RoundRes struct {
	Sig         string   `json:"sig"`
	Overlapped  bool     `json:"overlapped"`
	Committed   int      `json:"committed"`
	Failed      int      `json:"failed"`
	Flips       int      `json:"flips"`
	Nodes       int      `json:"nodes"`
	Events      int64    `json:"registry_events"`
	Problems    []string `json:"problems,omitempty"`
	Slot        int      `json:"slot"`
	Profile     string   `json:"profile"`
	Harness     string   `json:"harness,omitempty"`
	SampleFlips []string `json:"sample_flips,omitempty"`
}

func round(i int, seed int64, _ []string) any {
	rnd := env.Rand(seed, fmt.Sprintf("c37-%d", i))
	mon.reset()
	res := RoundRes{}
	db, dir := conc.NewRoundDB("c37")
	defer env.Remove(dir)
	res.Slot = []int{2, 2, 4}[rnd.Intn(3)]
	prof := []sopx.Profile{sopx.InNode, sopx.Separate}[rnd.Intn(2)]
	res.Profile = string(prof)
	nKeys := 2 + rnd.Intn(4)
	if _, err := conc.SeedStore(db, "s", res.Slot, prof, nKeys); err != nil {
		res.Harness = err.Error()
		return res
	}
	mir := txn.Mirror{Dir: dir}
	G := 3 + rnd.Intn(3)
	type outcome struct {
		tid sop.UUID
		err error
	}
	var mu sync.Mutex
	var outs []outcome
	scripts := make([][]func(*conc.Clock) conc.TxnRec, G)
	n := 0
	for g := 0; g < G; g++ {
		for j := 0; j < 1+rnd.Intn(3); j++ {
			id := fmt.Sprintf("T%d", n)
			n++
			var ops []txn.Op
			for k := 0; k < 1+rnd.Intn(3); k++ {
				key := txn.Key(rnd.Intn(nKeys) * 10)
				switch rnd.Intn(4) {
				case 0:
					ops = append(ops, txn.Op{Store: "s", Kind: "upsert", K: txn.Key(rnd.Intn(nKeys*10 + 5)), V: id})
				case 1:
					ops = append(ops, txn.Op{Store: "s", Kind: "rmw", K: key, V: id})
				default:
					ops = append(ops, txn.Op{Store: "s", Kind: "upsert", K: key, V: id})
				}
			}
			delay := time.Duration(rnd.Intn(2000)) * time.Microsecond
			scripts[g] = append(scripts[g], func(clock *conc.Clock) conc.TxnRec {
				rec := conc.TxnRec{ID: id}
				t, err := mir.Begin(sop.ForWriting, time.Minute)
				if err != nil {
					rec.OpErr = err.Error()
					return rec
				}
				tid := t.GetID()
				for _, o := range ops {
					if rr, err := txn.Run(mir, t, txn.Program{Ops: []txn.Op{o}}); err != nil {
						rec.OpErr = err.Error()
						t.Rollback(conc.Ctx)
						return rec
					} else if rr != nil && rr.Err != nil {
						rec.OpErr = rr.Err.Error()
						t.Rollback(conc.Ctx)
						return rec
					}
				}
				time.Sleep(delay)
				rec.CallSeq = clock.Tick()
				cctx, cancel := context.WithTimeout(conc.Ctx, 20*time.Second)
				cerr := t.Commit(cctx)
				cancel()
				rec.RetSeq = clock.Tick()
				if cerr != nil {
					rec.Err = cerr.Error()
				}
				mu.Lock()
				outs = append(outs, outcome{tid, cerr})
				mu.Unlock()
				return rec
			})
		}
	}
	_, events := conc.RunRound(conc.Procs(i), scripts)
	res.Sig, res.Overlapped = conc.InterleavingSignature(events)
	committed := map[sop.UUID]bool{}
	for _, o := range outs {
		if o.err == nil {
			committed[o.tid] = true
			res.Committed++
		} else {
			res.Failed++
		}
	}
	mon.mu.Lock()
	flips := append([]flip(nil), mon.flips...)
	res.Problems = append(res.Problems, mon.problems...)
	res.Events = mon.events
	mon.mu.Unlock()
	res.Flips = len(flips)
	// (i) among committed transactions at most one flip v -> v+1 per (node, v+1)
	type key struct {
		L  sop.UUID
		To int32
	}
	winners := map[key]sop.UUID{}
	last := map[sop.UUID]flip{}
	nodes := map[sop.UUID]bool{}
	for _, f := range flips {
		nodes[f.L] = true
		if len(res.SampleFlips) < 6 {
			res.SampleFlips = append(res.SampleFlips, fmt.Sprintf("tid=%s node=%s ->v%d committed=%v", f.TID.String()[:8], f.L.String()[:8], f.To, committed[f.TID]))
		}
		if !committed[f.TID] {
			continue
		}
		k := key{f.L, f.To}
		if w, ok := winners[k]; ok && w != f.TID {
			res.Problems = append(res.Problems, fmt.Sprintf("two-successors: node %v version %d installed by committed transactions %v and %v", f.L, f.To, w, f.TID))
		}
		winners[k] = f.TID
		if lf, ok := last[f.L]; !ok || f.Seq > lf.Seq {
			last[f.L] = f
		}
	}
	res.Nodes = len(nodes)
	// (iii live case) at quiescence every touched handle equals the last committed flip's image
	if len(last) > 0 {
		reg, err := openReg(dir)
		if err == nil {
			for L, f := range last {
				if f.Deleted {
					continue
				}
				got, err := reg.Get(context.Background(), []sop.RegistryPayload[sop.UUID]{{RegistryTable: "s", IDs: []sop.UUID{L}}})
				if err != nil || len(got) == 0 || len(got[0].IDs) == 0 {
					res.Problems = append(res.Problems, fmt.Sprintf("handle-missing-at-quiescence: node %v err=%v", L, err))
					continue
				}
				h := got[0].IDs[0]
				if h.Version != f.To || h.GetActiveID() != f.Active {
					res.Problems = append(res.Problems, fmt.Sprintf("handle-differs-from-last-committed-flip: node %v has v%d active=%v, last committed flip v%d active=%v", L, h.Version, h.GetActiveID(), f.To, f.Active))
				}
			}
			reg.Close()
		}
	}
	return res
}

func openReg(dir string) (fs.Registry, error) {
	l2 := sop.GetL2Cache(sop.TransactionOptions{CacheType: sop.InMemory})
	rt, err := fs.NewReplicationTracker(context.Background(), []string{dir}, false, l2)
	if err != nil {
		return nil, err
	}
	return fs.NewRegistry(false, 0, rt, l2), nil
}

func Run(r *report.Run) int {
	rounds := r.Pick(240, 4000)
	lines, died := par.Run(r, "c37-worker", 8, rounds, 1700, nil)
	conc.ReportDeaths(r, "C37", died)
	for _, l := range lines {
		var res RoundRes
		if json.Unmarshal(l.Res, &res) != nil {
			continue
		}
		if res.Harness != "" {
			r.Inconclusive("harness")
			continue
		}
		r.Eval(res.Sig, res.Overlapped && res.Flips >= 2)
		r.Count("flips_observed", int64(res.Flips))
		r.Count("registry_events_observed", res.Events)
		r.Count("committed", int64(res.Committed))
		r.Count("failed", int64(res.Failed))
		if l.Round < 3 {
			r.Sample(res)
		}
		seen := map[string]bool{}
		for _, p := range res.Problems {
			cls := p
			for i := 0; i < len(p); i++ {
				if p[i] == ':' {
					cls = p[:i]
					break
				}
			}
			if !seen[cls] {
				seen[cls] = true
				r.Violation(fmt.Sprintf("C37:trace:%s:%s", res.Profile, cls), map[string]any{"round": l.Round, "seed": r.Seed, "result": res})
			}
		}
	}
	if len(lines) < rounds*9/10 {
		r.Broken("only %d of %d rounds reported", len(lines), rounds)
	}
	if r.Counter("flips_observed") < 50 {
		r.Broken("monitor observed only %d flips", r.Counter("flips_observed"))
	}
	return r.Finish(rule, assumptions, 10)
}

const rule = "rounds of 3-5 goroutines x 1-3 writer transactions on the mirror path over 2-5 keys in 1-3 nodes (slot length 2/4), upserts and read-modify-writes with L2 delays and a GOMAXPROCS cycle; a recording Registry decorator logs every call; online monitor: (ii) at every flip (UpdateNoLocks allOrNothing=true) the blob of each new active id exists and decodes before the call is delegated; offline over the trace: (i) among transactions whose Commit returned nil at most one installs version v+1 of a node; (iii, live case) at quiescence each touched handle equals the image of the last committed flip; fingerprint = commit-order signature; non-trivial = commits overlapped and >=2 flips were observed"

var assumptions = []string{"mirror path wiring identical to infs", "crash + recovery half of the property is observed by C08's walker, not here", "the model-checking clause of the quantifier is out of this family's reach"}
