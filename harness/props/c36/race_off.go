//go:build !race

package c36

const raceEnabled = false
