// Package c36: concurrent use of the library is free of data races (Go race detector over the
// E-CONC workloads). The check binary for C36 is built with -race by /verif/check.
package c36

import (
	"fmt"
	"os"
	"path/filepath"
	"regexp"
	"sort"
	"strings"

	"verifharness/kit/env"
	"verifharness/kit/par"
	"verifharness/kit/report"

	// the workloads (their init() registers the worker roles)
	_ "verifharness/props/c02"
	_ "verifharness/props/c04"
	_ "verifharness/props/c05"
	_ "verifharness/props/c06"
)

type workload struct {
	role   string
	rounds [2]int // quick, thorough
}

var workloads = []workload{
	{"c02-worker", [2]int{48, 600}},
	{"c04-worker", [2]int{48, 600}},
	{"c05-worker", [2]int{32, 300}},
	{"c06-worker", [2]int{16, 160}},
}

var (
	reLine = regexp.MustCompile(`:\d+ \+0x[0-9a-f]+`)
	reAddr = regexp.MustCompile(`0x[0-9a-f]+`)
	reGo   = regexp.MustCompile(`goroutine \d+`)
)

func Run(r *report.Run) int {
	if !raceEnabled {
		r.Broken("binary was not built with -race")
		return r.Finish(rule, assumptions, 2)
	}
	reps := r.Pick(1, 4)
	seen := map[string]bool{}
	for rep := 0; rep < reps; rep++ {
		for _, w := range workloads {
			logDir := env.Scratch("c36race")
			n := w.rounds[0]
			if r.Thorough() {
				n = w.rounds[1]
			}
			envv := []string{"GORACE=halt_on_error=0 history_size=3 log_path=" + filepath.Join(logDir, "race")}
			lines, died := par.Run(r, w.role, 8, n, 1700, envv)
			for _, d := range died {
				r.Inconclusive("worker-died:" + w.role)
				r.Set("worker_death_"+w.role, d)
			}
			r.Count("rounds_under_race_detector:"+w.role, int64(len(lines)))
			r.Eval(fmt.Sprintf("%s:rep%d", w.role, rep), len(lines) > 0)
			if len(lines) < n*8/10 {
				r.Broken("%s: only %d of %d rounds ran under the race detector", w.role, len(lines), n)
			}
			files, _ := filepath.Glob(filepath.Join(logDir, "race.*"))
			for _, f := range files {
				b, _ := os.ReadFile(f)
				for _, blk := range strings.Split(string(b), "==================") {
					if !strings.Contains(blk, "WARNING: DATA RACE") {
						continue
					}
					r.Count("race_reports_raw", 1)
					norm := reGo.ReplaceAllString(reAddr.ReplaceAllString(reLine.ReplaceAllString(blk, ""), ""), "goroutine")
					var frames []string
					for _, ln := range strings.Split(norm, "\n") {
						ln = strings.TrimSpace(ln)
						if strings.HasPrefix(ln, "github.com/sharedcode/sop") {
							fn := strings.SplitN(ln, "(", 2)[0]
							frames = append(frames, strings.TrimPrefix(fn, "github.com/sharedcode/sop"))
						}
					}
					if len(frames) == 0 {
						r.Broken("race report without a sop frame (harness race): %s", firstLines(blk, 30))
						continue
					}
					// signature: the two innermost distinct sop functions involved
					uniq := []string{}
					for _, f := range frames {
						dup := false
						for _, u := range uniq {
							if u == f {
								dup = true
							}
						}
						if !dup {
							uniq = append(uniq, f)
						}
						if len(uniq) == 2 {
							break
						}
					}
					sort.Strings(uniq)
					sig := "C36:" + w.role + ":" + strings.ReplaceAll(strings.Join(uniq, "|"), ":", ".") + ":data-race"
					if !seen[sig] {
						seen[sig] = true
						r.Violation(sig, map[string]any{"workload": w.role, "report": firstLines(blk, 80)})
					}
				}
			}
			env.Remove(logDir)
		}
	}
	r.Set("distinct_race_signatures", len(seen))
	r.Sample(map[string]any{"workloads": workloads, "repetitions": reps, "GORACE": "halt_on_error=0 history_size=3 log_path=<scratch>"})
	return r.Finish(rule, assumptions, 4)
}

func firstLines(s string, n int) string {
	l := strings.Split(s, "\n")
	if len(l) > n {
		l = l[:n]
	}
	return strings.Join(l, "\n")
}

const rule = "the concurrent in-process workloads of C02 (mixed read/write transactions), C04 (disjoint writers), C05 (racing unique adds) and C06 (add/remove histories with rollbacks and injected failures) run in worker processes of a -race build with GORACE halt_on_error=0 log_path=...; every 'WARNING: DATA RACE' block is read from the logs, normalised (addresses, line numbers, goroutine ids stripped) and de-duplicated by the two innermost distinct sop functions; a report without a sop frame marks the run broken; fingerprint = workload x repetition; non-trivial = the workload's rounds ran under the detector"

var assumptions = []string{"Go race detector (happens-before, only reports races it observes)", "public path + the L2/DirectIO decorators (mutex protected)", "standalone in-memory L2; replication tracker and background maintenance only as far as Begin reaches them"}
