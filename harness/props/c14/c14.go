// Package c14: transaction modes and lifecycle are enforced.
//
// Statement (properties.jsonl C14): operations on stores succeed only between Begin and the end of the
// transaction; read-only and no-check transactions can never change any stored data; a committed
// transaction cannot be rolled back; a finished transaction cannot be started or committed again to
// different effect.
//
// The oracle is the reference state machine of DESIGN Appendix A.3, implemented in machine.go exactly as
// written there (and, where A.3 is silent, with the weakest possible prediction: "unspecified"). Per call
// it predicts must-fail / must-succeed / unspecified; after the sequence the persisted contents, read by
// a fresh transaction, must equal the model (only a successful ForWriting commit changes data).
//
// Workload: call sequences over {Begin, Commit, Rollback, Phase1Commit, Phase2Commit (through
// GetPhasedTransaction()), Close, OpenBtree, NewBtree(existing), NewBtree(fresh), every method of
// btree.BtreeInterface} x {NoCheck, ForReading, ForWriting}, up to length 5 (quick) / 7 (thorough), pruned
// by equivalence of the reference state: sequences are explored breadth first; two sequences are
// equivalent when the reference machine ends in the same extended state (state key below); of every
// class the K first sequences (length, then symbol order) are kept and each kept sequence is extended by
// every symbol. Every executed sequence runs from scratch on a fresh scratch folder with a freshly
// seeded store (public path: database.BeginTransaction / NewBtree / OpenBtree via kit/sopx; the un-begun
// transaction comes from infs.NewTransaction with the options database.BeginTransaction would build).
package c14

import (
	"encoding/json"
	"fmt"
	"os"
	"runtime/debug"
	"sort"
	"strings"
	"sync"
	"time"

	"github.com/sharedcode/sop"
	"github.com/sharedcode/sop/btree"
	"github.com/sharedcode/sop/database"
	"github.com/sharedcode/sop/infs"

	"verifharness/kit/env"
	"verifharness/kit/report"
	"verifharness/kit/sopx"
)

const storeName = "s"
const freshName = "fresh"

var seedData = []sopx.KV{{K: "a", V: "1"}, {K: "b", V: "2"}, {K: "c", V: "3"}}

// ---------------------------------------------------------------------------------------------
// execution of one sequence

type callRec struct {
	Sym      string `json:"call"`
	Phase    string `json:"phase_before"`
	Predict  string `json:"predicted"`
	Ok       *bool  `json:"ok,omitempty"`
	Err      string `json:"err,omitempty"`
	Panic    string `json:"panic,omitempty"`
	Implicit string `json:"implicit_open,omitempty"`
	Verdict  string `json:"verdict,omitempty"`
}

type violation struct {
	Sig    string
	Detail map[string]any
}

type caseResult struct {
	Mode       sop.TransactionMode
	Seq        []Sym
	Calls      []callRec
	Final      machine
	Violations []violation
	Judged     int // calls with a must-fail / must-succeed prediction
	MustFail   int
	MustOK     int
	Panics     []string
	LegitErrs  []string // store op errors between Begin and end with the right mode (not judged)
	Broken     string
	Inconcl    string
	Getters    map[string]int
	Sites      map[string]int // judged calls per scenario:site
	SideData   string         // persisted contents matched no candidate model but the model does not judge this case
	Committed  bool
	FreshLeft  bool // ForWriting only: store "fresh" exists although the transaction did not commit (not judged)
}

type outcome struct {
	ok    *bool // nil when the call has no boolean result
	err   error
	panic string
}

func (o outcome) noError() bool { return o.err == nil && o.panic == "" }

func guard(f func() outcome) (o outcome) {
	defer func() {
		if p := recover(); p != nil {
			o = outcome{panic: fmt.Sprintf("%v\n%s", p, debug.Stack())}
		}
	}()
	return f()
}

func bres(ok bool, err error) outcome { return outcome{ok: &ok, err: err} }
func eres(err error) outcome          { return outcome{err: err} }

// newUnbegun builds the transaction exactly as database.BeginTransaction does, minus the Begin call.
func newUnbegun(d sopx.DB, mode sop.TransactionMode) (sop.Transaction, error) {
	cfg, err := database.ValidateOptions(d.Opts)
	if err != nil {
		return nil, err
	}
	var opts sop.TransactionOptions
	cfg.CopyTo(&opts)
	opts.Mode = mode
	opts.MaxTime = 15 * time.Minute
	return infs.NewTransaction(sopx.Ctx, opts)
}

// setup: the seeded store's options are a pure function of VERIF_SEED (value placement in the node,
// in a separate segment, separate + globally cached, or separate + actively persisted; slot length 4
// or 8 - with 4 the adds of a sequence split the root).
type setup struct {
	Profile sopx.Profile
	Slot    int
}

func setupFor(seed int64) setup {
	rnd := env.Rand(seed, "c14-setup")
	return setup{Profile: sopx.Profiles[rnd.Intn(len(sopx.Profiles))], Slot: []int{4, 8}[rnd.Intn(2)]}
}

func (su setup) options(name string) sop.StoreOptions {
	return sopx.Options(name, su.Slot, true, su.Profile)
}

func seedStore(d sopx.DB, su setup) error {
	t, err := d.Begin(sop.ForWriting)
	if err != nil {
		return err
	}
	b, err := sopx.New[string, string](d, t, su.options(storeName))
	if err != nil {
		return err
	}
	for _, kv := range seedData {
		if ok, err := b.Add(sopx.Ctx, kv.K, kv.V); !ok || err != nil {
			return fmt.Errorf("seed add %s: %v %v", kv.K, ok, err)
		}
	}
	return t.Commit(sopx.Ctx)
}

func runCase(seed int64, mode sop.TransactionMode, seq []Sym) (res caseResult) {
	res.Mode, res.Seq = mode, seq
	res.Getters = map[string]int{}
	res.Sites = map[string]int{}
	dir := env.Scratch("c14")
	defer env.Remove(dir)
	d := sopx.NewDB(dir)
	su := setupFor(seed)
	if err := seedStore(d, su); err != nil {
		res.Broken = "seeding failed: " + err.Error()
		return
	}
	t, err := newUnbegun(d, mode)
	if err != nil {
		res.Broken = "infs.NewTransaction failed: " + err.Error()
		return
	}
	m := newMachine(mode)
	var store btree.BtreeInterface[string, string]
	var lastID sop.UUID = sop.NewUUID()

	report := func(scenario, site, outcomeClass string, rec callRec, extra map[string]any) {
		det := map[string]any{"mode": modeName(mode), "sequence": symNames(seq), "calls_so_far": append([]callRec(nil), res.Calls...), "failing_call": rec, "seed": seed}
		for k, v := range extra {
			det[k] = v
		}
		res.Violations = append(res.Violations, violation{fmt.Sprintf("C14:%s:%s:%s", scenario, site, outcomeClass), det})
	}

	step := func(s Sym) {
		rec := callRec{Sym: s.String(), Phase: m.Phase.String()}
		pred := m.predict(s)
		rec.Predict = pred.String()

		// implicit open: between Begin and end, a store method needs a store object
		if s.isStoreMethod() && store == nil && m.Phase.between() {
			o := guard(func() outcome {
				b, err := sopx.Open[string, string](d, t, storeName)
				if err == nil {
					store = b
				}
				return eres(err)
			})
			if o.noError() {
				rec.Implicit = "ok"
				m.Opened = true
			} else {
				rec.Implicit = "failed: " + errText(o)
			}
		}
		var curKey string
		var curSet bool
		if store != nil && m.Phase.between() {
			ck := guard(func() outcome {
				k := store.GetCurrentKey()
				curKey, curSet = k.Key, !k.ID.IsNil()
				if curSet {
					lastID = k.ID
				}
				return outcome{}
			})
			_ = ck
		}

		var o outcome
		executed := true
		switch {
		case s == SymBegin:
			o = guard(func() outcome { return eres(t.Begin(sopx.Ctx)) })
		case s == SymCommit:
			o = guard(func() outcome { return eres(t.Commit(sopx.Ctx)) })
		case s == SymRollback:
			o = guard(func() outcome { return eres(t.Rollback(sopx.Ctx)) })
		case s == SymPhase1:
			o = guard(func() outcome { return eres(t.GetPhasedTransaction().Phase1Commit(sopx.Ctx)) })
		case s == SymPhase2:
			o = guard(func() outcome { return eres(t.GetPhasedTransaction().Phase2Commit(sopx.Ctx)) })
		case s == SymClose:
			o = guard(func() outcome { return eres(t.Close()) })
		case s == SymOpen:
			o = guard(func() outcome {
				b, err := sopx.Open[string, string](d, t, storeName)
				if err == nil {
					store = b
				}
				return eres(err)
			})
		case s == SymNewExisting:
			o = guard(func() outcome {
				b, err := sopx.New[string, string](d, t, su.options(storeName))
				if err == nil {
					store = b
				}
				return eres(err)
			})
		case s == SymNewFresh:
			o = guard(func() outcome {
				_, err := sopx.New[string, string](d, t, su.options(freshName))
				return eres(err)
			})
		case s == SymGetters:
			// Count / GetStoreInfo / IsUnique / GetCurrentKey: getters, observed but never judged
			if store != nil {
				o = guard(func() outcome {
					if store.Count() != 0 {
						res.Getters["Count!=0@"+m.Phase.String()]++
					}
					if store.GetStoreInfo().Name != "" {
						res.Getters["GetStoreInfo.Name!=''@"+m.Phase.String()]++
					}
					if store.IsUnique() {
						res.Getters["IsUnique@"+m.Phase.String()]++
					}
					if k := store.GetCurrentKey(); k.Key != "" || !k.ID.IsNil() {
						res.Getters["GetCurrentKey!=zero@"+m.Phase.String()]++
					}
					return outcome{}
				})
			} else {
				executed = false
			}
		case s.isStoreMethod():
			if store == nil {
				// no store object can exist: the only store operation available is opening it
				o = guard(func() outcome {
					b, err := sopx.Open[string, string](d, t, storeName)
					if err == nil {
						store = b
					}
					return eres(err)
				})
				rec.Sym = s.String() + " (as OpenBtree: no store object)"
			} else {
				o = guard(func() outcome { return callMethod(store, s, curKey, lastID) })
			}
		}
		if o.ok != nil {
			v := *o.ok
			rec.Ok = &v
		}
		if o.err != nil {
			rec.Err = o.err.Error()
		}
		if o.panic != "" {
			rec.Panic = head(o.panic, 1500)
			res.Panics = append(res.Panics, s.String()+"@"+m.Phase.String()+": "+head(o.panic, 300))
		}

		// judge
		if executed && o.panic == "" {
			if pred != Unspecified {
				sc, site := m.scenario(s)
				res.Sites[sc+":"+site+":"+pred.String()]++
			}
			switch pred {
			case MustFail:
				res.Judged++
				res.MustFail++
				if o.err == nil {
					oc := "reports-success"
					if o.ok != nil && !*o.ok {
						oc = "returns-no-error"
					}
					rec.Verdict = "VIOLATION " + oc
					scenario, site := m.scenario(s)
					report(scenario, site, oc, rec, nil)
				}
			case MustSucceed:
				res.Judged++
				res.MustOK++
				if o.err != nil {
					rec.Verdict = "VIOLATION fails"
					scenario, site := m.scenario(s)
					report(scenario, site, "fails", rec, nil)
				}
			}
		}
		if executed && s.isStoreOp() && m.Phase.between() && o.err != nil && !(s.isWrite() && mode != sop.ForWriting) {
			res.LegitErrs = append(res.LegitErrs, s.String()+"@"+m.Phase.String()+": "+head(o.err.Error(), 160))
		}

		// advance the reference machine
		stillBegun := guardBool(func() bool { return t.HasBegun() })
		cursorNow := false
		if store != nil {
			guard(func() outcome {
				k := store.GetCurrentKey()
				cursorNow = !k.ID.IsNil()
				return outcome{}
			})
		}
		m.advance(s, o, stillBegun, curKey, curSet, cursorNow, store != nil)
		if strings.HasPrefix(rec.Verdict, "VIOLATION") {
			m.Anomaly = true
		}
		res.Calls = append(res.Calls, rec)
	}

	for _, s := range seq {
		step(s)
	}
	res.Final = m // the state the enumeration classifies by (before the epilogue)

	// epilogue: end a transaction that is still open, so that the observer reads settled data. The call
	// is judged like any other (the machine is sound for every sequence).
	if m.Phase.between() || m.Phase == PhUnknown {
		step(SymRollback)
	}
	_ = guard(func() outcome { return eres(t.Close()) })
	res.Committed = m.Phase == PhCommitted

	// observe persisted contents with a fresh transaction
	dump := sopx.DumpDB(d)
	sd, have := dump.By[storeName]
	if dump.Err != "" || !have || sd.Err != "" {
		report("data", modeName(mode), "store-unreadable-afterwards", callRec{}, map[string]any{"dump": dump})
		return
	}
	got := map[string]string{}
	for _, kv := range sd.Items {
		got[kv.K] = kv.V
	}
	accepted := m.acceptedData()
	match := false
	for _, a := range accepted {
		if mapsEqual(a, got) && len(sd.Items) == len(a) {
			match = true
			break
		}
	}
	if !match && !m.dataJudged() {
		// side observation, not judged (see machine.dataJudged)
		res.SideData = fmt.Sprintf("%s %v: final phase %s, persisted %v, candidate models %v", modeName(mode), symNames(seq), m.Phase, sd.Items, accepted)
	}
	if m.dataJudged() && !match {
		oc := "items-changed"
		if mode == sop.ForWriting {
			if m.Phase == PhCommitted {
				oc = "committed-items-differ-from-model"
			} else {
				oc = "items-changed-without-commit"
			}
		}
		report("data", modeName(mode), oc, callRec{}, map[string]any{"persisted": sd.Items, "accepted_models": accepted, "final_phase": m.Phase.String()})
	}
	hasFresh := false
	for _, n := range dump.Stores {
		if n == freshName {
			hasFresh = true
		}
	}
	if mode != sop.ForWriting {
		// "Read-only and no-check transactions can never change any stored data": the set of stores
		// is stored data.
		if hasFresh || len(dump.Stores) != 1 {
			report("data", modeName(mode), "store-set-changed", callRec{}, map[string]any{"stores": dump.Stores, "final_phase": m.Phase.String()})
		}
	} else if hasFresh && m.Phase != PhCommitted {
		res.FreshLeft = true // atomicity of store creation belongs to C01/C12, not judged here
	}
	return
}

func guardBool(f func() bool) (b bool) {
	defer func() { recover() }()
	return f()
}

func errText(o outcome) string {
	if o.panic != "" {
		return "panic: " + head(o.panic, 200)
	}
	if o.err != nil {
		return o.err.Error()
	}
	return ""
}

func head(s string, n int) string {
	if len(s) > n {
		return s[:n]
	}
	return s
}

func mapsEqual(a, b map[string]string) bool {
	if len(a) != len(b) {
		return false
	}
	for k, v := range a {
		if w, ok := b[k]; !ok || w != v {
			return false
		}
	}
	return true
}

// callMethod invokes one BtreeInterface method with fixed arguments (chosen so that, between Begin and
// end, the call is meaningful on the seeded store {a,b,c}).
func callMethod(b btree.BtreeInterface[string, string], s Sym, curKey string, id sop.UUID) outcome {
	ctx := sopx.Ctx
	switch s {
	case SymAdd:
		return bres(b.Add(ctx, "n1", "add"))
	case SymAddIfNotExist:
		return bres(b.AddIfNotExist(ctx, "n2", "addifnotexist"))
	case SymUpdate:
		return bres(b.Update(ctx, "a", "update"))
	case SymUpdateKey:
		return bres(b.UpdateKey(ctx, "a"))
	case SymUpdateCurrentKey:
		return bres(b.UpdateCurrentKey(ctx, curKey))
	case SymUpdateCurrentValue:
		return bres(b.UpdateCurrentValue(ctx, "updatecurrentvalue"))
	case SymUpdateCurrentItem:
		return bres(b.UpdateCurrentItem(ctx, curKey, "updatecurrentitem"))
	case SymUpsert:
		return bres(b.Upsert(ctx, "b", "upsert"))
	case SymRemove:
		return bres(b.Remove(ctx, "c"))
	case SymRemoveCurrentItem:
		return bres(b.RemoveCurrentItem(ctx))
	case SymFind:
		return bres(b.Find(ctx, "a", false))
	case SymFindWithID:
		return bres(b.FindWithID(ctx, "a", id))
	case SymFindInDescendingOrder:
		return bres(b.FindInDescendingOrder(ctx, "b"))
	case SymGetCurrentValue:
		_, err := b.GetCurrentValue(ctx)
		return eres(err)
	case SymGetCurrentValueNoLock:
		_, err := b.GetCurrentValueNoLock(ctx)
		return eres(err)
	case SymGetCurrentItem:
		_, err := b.GetCurrentItem(ctx)
		return eres(err)
	case SymGetCurrentItemNoLock:
		_, err := b.GetCurrentItemNoLock(ctx)
		return eres(err)
	case SymRLockCurrentItem:
		return eres(b.RLockCurrentItem(ctx))
	case SymFirst:
		return bres(b.First(ctx))
	case SymLast:
		return bres(b.Last(ctx))
	case SymNext:
		return bres(b.Next(ctx))
	case SymPrevious:
		return bres(b.Previous(ctx))
	}
	return outcome{err: fmt.Errorf("harness: unknown symbol %v", s)}
}

// ---------------------------------------------------------------------------------------------
// enumeration

const rule = "case = (transaction mode, call sequence); sequences over 32 symbols (6 lifecycle calls, OpenBtree, NewBtree existing/fresh, 22 BtreeInterface methods, 1 getter bundle) " +
	"explored breadth first up to the tier's length, pruned by equivalence of the reference machine's extended state " +
	"(phase, pristine, store opened, cursor set, dirty, writes after phase 1, Close called, fresh store created, an earlier call contradicted its prediction, how the transaction ended): K sequences kept per class, each extended by every symbol; " +
	"fingerprint = (mode, extended state before the last call, last call); non-trivial = the last call carried a must-fail/must-succeed prediction or the sequence reached a commit/rollback with the data oracle applied"

var assumptions = []string{
	"public path only: database.BeginTransaction-equivalent options through infs.NewTransaction (un-begun), database.NewBtree/OpenBtree via kit/sopx; standalone in-memory L2; fresh scratch folder and freshly seeded store {a,b,c} per sequence",
	"reference machine = DESIGN Appendix A.3; where A.3 defines no transition (commit calls before Begin or after phase 1, any call after an unspecified one) the prediction is 'unspecified' and only the data oracle applies",
	"Count/GetStoreInfo/IsUnique/GetCurrentKey are getters: exercised, counted, never judged",
	"a store-op error between Begin and the end is not judged (the statement says 'only', not 'always'); whether the transaction is still open afterwards is read from HasBegun()",
	"persisted contents are read after ending a still-open transaction with Rollback (so the store count written in phase 1 - property C03 - is not observed here); in ForWriting mode only the items of the seeded store are judged, the set of stores only in ForReading/NoCheck",
	"sequences run in-process on 12 workers; a call that panics is recorded as a side observation, not as success or failure",
}

type job struct {
	mode sop.TransactionMode
	seq  []Sym
}

func seqKey(seq []Sym) string {
	var b strings.Builder
	for _, s := range seq {
		fmt.Fprintf(&b, "%02d.", int(s))
	}
	return b.String()
}

func symNames(seq []Sym) []string {
	out := make([]string, len(seq))
	for i, s := range seq {
		out[i] = s.String()
	}
	return out
}

func runAll(seed int64, jobs []job, workers int) []caseResult {
	out := make([]caseResult, len(jobs))
	ch := make(chan int, len(jobs))
	for i := range jobs {
		ch <- i
	}
	close(ch)
	var wg sync.WaitGroup
	for w := 0; w < workers; w++ {
		wg.Add(1)
		go func() {
			defer wg.Done()
			for i := range ch {
				done := make(chan caseResult, 1)
				go func() { done <- runCase(seed, jobs[i].mode, jobs[i].seq) }()
				select {
				case r := <-done:
					out[i] = r
				case <-time.After(120 * time.Second):
					// watchdog: produces "inconclusive", never a verdict
					out[i] = caseResult{Mode: jobs[i].mode, Seq: jobs[i].seq, Inconcl: "case-timeout"}
				}
			}
		}()
	}
	wg.Wait()
	return out
}

// replayOne re-executes the single sequence stored in a replay file and prints every call.
func replayOne(r *report.Run) int {
	b, err := os.ReadFile(r.Replay)
	if err != nil {
		r.Broken("cannot read replay file: %v", err)
		return r.Finish(rule, assumptions, 0)
	}
	var rf struct {
		Detail struct {
			Mode     string   `json:"mode"`
			Sequence []string `json:"sequence"`
		} `json:"detail"`
	}
	if err := json.Unmarshal(b, &rf); err != nil {
		r.Broken("bad replay file: %v", err)
		return r.Finish(rule, assumptions, 0)
	}
	mode := sop.NoCheck
	for _, m := range []sop.TransactionMode{sop.NoCheck, sop.ForReading, sop.ForWriting} {
		if modeName(m) == rf.Detail.Mode {
			mode = m
		}
	}
	var seq []Sym
	for _, n := range rf.Detail.Sequence {
		for _, s := range allSyms {
			if s.String() == n {
				seq = append(seq, s)
			}
		}
	}
	res := runCase(r.Seed, mode, seq)
	for _, c := range res.Calls {
		j, _ := json.Marshal(c)
		fmt.Println("  call:", string(j))
	}
	fmt.Println("  final reference state:", res.Final.key())
	for _, v := range res.Violations {
		r.Violation(v.Sig, v.Detail)
		fmt.Println("  violated:", v.Sig)
	}
	r.Eval("replay", true)
	r.Eval("replay-2", true)
	return r.Finish(rule, assumptions, 0)
}

func Run(r *report.Run) int {
	if r.Replay != "" {
		return replayOne(r)
	}
	maxLen := r.Pick(5, 7)
	keep := r.Pick(1, 4)
	modes := []sop.TransactionMode{sop.NoCheck, sop.ForReading, sop.ForWriting}
	workers := 12

	type rep struct {
		seq   []Sym
		state machine
	}
	sigSeen := map[string]int{}
	reported := map[string]bool{}
	coverage := map[string]int{}   // (mode,state,symbol) -> executions
	stateCount := map[string]int{} // mode|state -> sequences reaching it
	var total, judged, mustFail, mustOK, legitErr, panics, freshLeft, commits int
	getters := map[string]int{}
	sites := map[string]int{}
	panicSamples := map[string]string{}
	legitSamples := map[string]int{}
	perLevel := []int{}
	var freshSamples, sideSamples []string
	sideData := 0
	storeSetBy := map[string]int{}

	for _, mode := range modes {
		frontier := []rep{{seq: nil, state: newMachine(mode)}}
		kept := map[string]int{newMachine(mode).key(): 1}
		for level := 1; level <= maxLen && len(frontier) > 0; level++ {
			var jobs []job
			var before []string
			for _, f := range frontier {
				for _, s := range allSyms {
					if !f.state.worthTrying(s) {
						continue
					}
					seq := append(append([]Sym(nil), f.seq...), s)
					jobs = append(jobs, job{mode, seq})
					before = append(before, f.state.key())
				}
			}
			results := runAll(r.Seed, jobs, workers)
			for len(perLevel) < level {
				perLevel = append(perLevel, 0)
			}
			perLevel[level-1] += len(jobs)
			// deterministic order for representative selection
			idx := make([]int, len(results))
			for i := range idx {
				idx[i] = i
			}
			sort.Slice(idx, func(a, b int) bool { return seqKey(results[idx[a]].Seq) < seqKey(results[idx[b]].Seq) })
			var next []rep
			for _, i := range idx {
				res := results[i]
				total++
				last := res.Seq[len(res.Seq)-1]
				fp := fmt.Sprintf("%s|%s|%s", modeName(mode), before[i], last)
				if res.Broken != "" {
					r.Broken("%s %v: %s", modeName(mode), symNames(res.Seq), res.Broken)
					r.Eval(fp, false)
					continue
				}
				if res.Inconcl != "" {
					r.Inconclusive(res.Inconcl)
					r.Eval(fp, false)
					continue
				}
				lastJudged := len(res.Calls) >= len(res.Seq) && res.Calls[len(res.Seq)-1].Predict != "unspecified"
				ended := res.Final.Phase == PhCommitted || res.Final.Phase == PhAborted
				r.Eval(fp, lastJudged || ended)
				coverage[fp]++
				stateCount[modeName(mode)+"|"+res.Final.key()]++
				judged += res.Judged
				mustFail += res.MustFail
				mustOK += res.MustOK
				legitErr += len(res.LegitErrs)
				for _, e := range res.LegitErrs {
					legitSamples[head(e, 120)]++
				}
				panics += len(res.Panics)
				for _, p := range res.Panics {
					k := strings.SplitN(p, ":", 2)[0]
					if _, ok := panicSamples[k]; !ok {
						panicSamples[k] = p
					}
				}
				if res.SideData != "" {
					sideData++
					if len(sideSamples) < 6 {
						sideSamples = append(sideSamples, res.SideData)
					}
				}
				if res.FreshLeft {
					freshLeft++
					if len(freshSamples) < 8 {
						freshSamples = append(freshSamples, fmt.Sprintf("%s %v -> %s", modeName(mode), symNames(res.Seq), res.Final.key()))
					}
				}
				for _, v := range res.Violations {
					if strings.HasSuffix(v.Sig, "store-set-changed") {
						storeSetBy[modeName(mode)+"|ended="+res.Final.EndedBy+"|phase="+res.Final.Phase.String()]++
					}
				}
				if res.Committed {
					commits++
				}
				for k, v := range res.Getters {
					getters[k] += v
				}
				for k, v := range res.Sites {
					sites[k] += v
				}
				for _, v := range res.Violations {
					// one report per (signature, mode): the detail of the shortest sequence is kept
					k := v.Sig + "|" + modeName(mode)
					sigSeen[v.Sig]++
					if !reported[k] {
						reported[k] = true
						r.Violation(v.Sig, v.Detail)
					}
				}
				if total <= 3 || (len(res.Seq) == 4 && total%997 == 0) {
					r.Sample(map[string]any{"mode": modeName(mode), "sequence": symNames(res.Seq), "calls": res.Calls, "final_state": res.Final.key()})
				}
				if level < maxLen {
					k := res.Final.key()
					if kept[k] < keep && res.Final.Phase != PhUnknown {
						kept[k]++
						next = append(next, rep{seq: res.Seq, state: res.Final})
					}
				}
			}
			frontier = next
		}
	}
	r.Count("sequences_executed", int64(total))
	r.Count("calls_judged", int64(judged))
	r.Count("must_fail_predictions", int64(mustFail))
	r.Count("must_succeed_predictions", int64(mustOK))
	r.Count("store_op_errors_between_begin_and_end_not_judged", int64(legitErr))
	r.Count("calls_that_panicked_not_judged", int64(panics))
	r.Count("writer_left_fresh_store_without_commit_not_judged", int64(freshLeft))
	r.Count("sequences_ending_committed", int64(commits))
	r.Count("writes_after_phase1_then_contents_match_no_model_not_judged", int64(sideData))
	if len(sideSamples) > 0 {
		r.Set("writes_after_phase1_samples_not_judged", sideSamples)
	}
	r.Count("distinct_reference_states_reached", int64(len(stateCount)))
	r.Set("sequences_per_level", perLevel)
	r.Set("getter_observations_not_judged", getters)
	r.Set("judged_calls_by_site", sites)
	r.Set("seeded_store_setup", setupFor(r.Seed))
	r.Set("violation_signature_counts", sigSeen)
	if len(panicSamples) > 0 {
		r.Set("panic_samples", panicSamples)
	}
	if len(legitSamples) > 0 {
		r.Set("store_op_error_samples", legitSamples)
	}
	if len(freshSamples) > 0 {
		r.Set("writer_left_fresh_store_samples_not_judged", freshSamples)
	}
	if len(storeSetBy) > 0 {
		r.Set("store_set_changed_by_ending", storeSetBy)
	}
	// coverage floor of the central clause: every BtreeInterface method must have been called on a
	// retained store object after the end of a transaction, and opening must have been tried before Begin
	for s := SymAdd; s < symCount; s++ {
		if sites["after-end:"+s.String()+":must-fail"] == 0 {
			r.Broken("method %s was never exercised after the end of a transaction", s)
		}
	}
	for _, s := range []Sym{SymOpen, SymNewExisting, SymNewFresh} {
		if sites["before-begin:"+s.String()+":must-fail"] == 0 || sites["after-end:"+s.String()+":must-fail"] == 0 {
			r.Broken("%s was not exercised before Begin and after the end", s)
		}
	}
	r.Set("max_sequence_length", maxLen)
	r.Set("kept_per_state_class", keep)
	return r.Finish(rule, assumptions, 300)
}

func modeName(m sop.TransactionMode) string {
	switch m {
	case sop.NoCheck:
		return "NoCheck"
	case sop.ForReading:
		return "ForReading"
	case sop.ForWriting:
		return "ForWriting"
	}
	return fmt.Sprint(int(m))
}
