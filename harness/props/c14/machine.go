package c14

// The lifecycle reference machine of DESIGN Appendix A.3.
//
//	phase in {new, begun, p1done, ended-committed, ended-aborted};  mode in {NoCheck, ForReading, ForWriting}
//	Begin:         new -> begun (must succeed); any other phase: must fail, no effect
//	store op X:    phase in {begun, p1done}: allowed - result unspecified (write ops additionally need
//	               ForWriting, otherwise they must fail); phase in {new, ended-*}: must NOT report success
//	Phase1Commit:  begun -> p1done | ended-aborted (either result accepted; result decides)
//	Phase2Commit:  p1done -> ended-committed | ended-aborted; in phase begun: must fail
//	Commit:        begun -> ended-committed | ended-aborted
//	Rollback:      begun/p1done -> ended-aborted (must succeed); ended-committed: must fail;
//	               ended-aborted: unspecified result, no effect
//	Close:         any phase, no effect on data
//	persisted data afterwards = model data; model data changes only on a transition into ended-committed
//	of a ForWriting transaction (then = before + the transaction's successful write ops).
//
// Deliberately weaker than A.3 in three places (each can only remove alarms, never add one):
//   - wherever A.3 lists no transition for a call (Commit / Phase1Commit after phase 1, commit-type calls
//     before Begin that report success, Begin reporting success on a finished transaction ...) the machine
//     enters phase "unknown": every later prediction is "unspecified" and the data oracle accepts both
//     the uncommitted and the committed contents;
//   - A.3 says a wrong-mode write leaves the transaction ended-aborted ("that is what the wrapper does and
//     the statement allows"): the statement does not REQUIRE it, so whether the transaction is still open
//     after a failed store operation is read from HasBegun();
//   - "Begin in phase new must succeed" is only asserted while no other call was made on the transaction.

import (
	"fmt"

	"github.com/sharedcode/sop"
)

type Phase int

const (
	PhNew Phase = iota
	PhBegun
	PhP1Done
	PhCommitted
	PhAborted
	PhUnknown
)

func (p Phase) String() string {
	return [...]string{"new", "begun", "p1done", "ended-committed", "ended-aborted", "unknown"}[p]
}

// between: between Begin and the end of the transaction.
func (p Phase) between() bool { return p == PhBegun || p == PhP1Done }

type Prediction int

const (
	Unspecified Prediction = iota
	MustFail
	MustSucceed
)

func (p Prediction) String() string {
	return [...]string{"unspecified", "must-fail", "must-succeed"}[p]
}

type Sym int

const (
	SymBegin Sym = iota
	SymCommit
	SymRollback
	SymPhase1
	SymPhase2
	SymClose
	SymOpen
	SymNewExisting
	SymNewFresh
	SymGetters
	// write methods of BtreeInterface
	SymAdd
	SymAddIfNotExist
	SymUpdate
	SymUpdateKey
	SymUpdateCurrentKey
	SymUpdateCurrentValue
	SymUpdateCurrentItem
	SymUpsert
	SymRemove
	SymRemoveCurrentItem
	// read methods of BtreeInterface
	SymFind
	SymFindWithID
	SymFindInDescendingOrder
	SymGetCurrentValue
	SymGetCurrentValueNoLock
	SymGetCurrentItem
	SymGetCurrentItemNoLock
	SymRLockCurrentItem
	SymFirst
	SymLast
	SymNext
	SymPrevious
	symCount
)

var symNamesTab = [...]string{
	"Begin", "Commit", "Rollback", "Phase1Commit", "Phase2Commit", "Close", "OpenBtree", "NewBtree(existing)", "NewBtree(fresh)", "Getters",
	"Add", "AddIfNotExist", "Update", "UpdateKey", "UpdateCurrentKey", "UpdateCurrentValue", "UpdateCurrentItem", "Upsert", "Remove", "RemoveCurrentItem",
	"Find", "FindWithID", "FindInDescendingOrder", "GetCurrentValue", "GetCurrentValueNoLock", "GetCurrentItem", "GetCurrentItemNoLock", "RLockCurrentItem",
	"First", "Last", "Next", "Previous",
}

func (s Sym) String() string { return symNamesTab[s] }

var allSyms = func() []Sym {
	out := make([]Sym, 0, symCount)
	for s := Sym(0); s < symCount; s++ {
		out = append(out, s)
	}
	return out
}()

func (s Sym) isWrite() bool       { return s >= SymAdd && s <= SymRemoveCurrentItem }
func (s Sym) isStoreMethod() bool { return s >= SymAdd && s < symCount }

// isStoreOp: an "operation on a store" in the sense of the statement (opening/creating included).
func (s Sym) isStoreOp() bool {
	return s.isStoreMethod() || s == SymOpen || s == SymNewExisting || s == SymNewFresh
}

type writeOp struct {
	Del bool
	K   string
	V   string
}

type machine struct {
	Mode     sop.TransactionMode
	Phase    Phase
	Pristine bool   // phase new and no call made yet
	Opened   bool   // the caller holds a store object
	Cursor   bool   // the store object has a current item
	Dirty    bool   // successful write ops before phase 1
	P1Dirty  bool   // successful write ops after phase 1
	Closed   bool   // Close was called
	EndedBy  string // how the transaction ended
	Fresh    bool   // NewBtree(fresh) reported success
	Anomaly  bool   // an earlier call contradicted its prediction (keeps such sequences in a class of their own, so they get extended)

	writes    []writeOp // successful write ops between Begin and phase 1 (ForWriting)
	p1writes  []writeOp // successful write ops after phase 1: A.3 leaves their fate unspecified
	uncertain bool      // a write reported success whose effect the model cannot name
}

func newMachine(mode sop.TransactionMode) machine {
	return machine{Mode: mode, Phase: PhNew, Pristine: true}
}

// key: the extended reference state used to prune equivalent sequences.
func (m machine) key() string {
	b := func(x bool) int {
		if x {
			return 1
		}
		return 0
	}
	closed := m.Closed
	if m.Phase == PhCommitted || m.Phase == PhAborted {
		closed = true // ending a transaction releases its resources anyway: Close adds no new class
	}
	return fmt.Sprintf("%s/pristine=%d/opened=%d/cursor=%d/dirty=%d/p1dirty=%d/closed=%d/fresh=%d/anomaly=%d/by=%s",
		m.Phase, b(m.Pristine), b(m.Opened), b(m.Cursor), b(m.Dirty), b(m.P1Dirty), b(closed), b(m.Fresh), b(m.Anomaly), m.EndedBy)
}

// worthTrying prunes symbols that are equivalent to another symbol in this state.
func (m machine) worthTrying(s Sym) bool {
	if !m.Opened && !m.Phase.between() && s.isStoreMethod() {
		return false // without a store object the only store operation is opening it (= SymOpen)
	}
	if s == SymGetters && !m.Opened {
		return false
	}
	return true
}

func (m machine) predict(s Sym) Prediction {
	if m.Phase == PhUnknown {
		return Unspecified
	}
	switch {
	case s == SymBegin:
		switch m.Phase {
		case PhNew:
			if m.Pristine {
				return MustSucceed
			}
			return Unspecified
		default:
			return MustFail
		}
	case s == SymRollback:
		switch m.Phase {
		case PhBegun:
			return MustSucceed
		case PhP1Done:
			if m.P1Dirty {
				// A.3: store ops after phase 1 are allowed with unspecified result; what a write made
				// after phase 1 does to the prepared commit (and to its undo) is therefore not predicted
				return Unspecified
			}
			return MustSucceed
		case PhCommitted:
			return MustFail
		}
		return Unspecified
	case s == SymPhase2:
		if m.Phase == PhBegun {
			return MustFail
		}
		return Unspecified
	case s.isStoreOp():
		if !m.Phase.between() {
			return MustFail
		}
		if s.isWrite() && m.Mode != sop.ForWriting {
			return MustFail
		}
		return Unspecified
	}
	return Unspecified // Commit, Phase1Commit, Close, Getters
}

// scenario names the signature's scenario class and site for a judged call.
func (m machine) scenario(s Sym) (string, string) {
	if s.isStoreOp() {
		switch {
		case m.Phase == PhNew:
			return "before-begin", s.String()
		case !m.Phase.between():
			return "after-end", s.String()
		default:
			return "mode-" + modeName(m.Mode), s.String()
		}
	}
	return "lifecycle", s.String() + "@" + m.Phase.String()
}

// advance moves the machine over one executed call.
//
//	stillBegun: HasBegun() after the call;  curKey/curSet: current key of the store object before the
//	call;  cursorNow: the store object has a current item after the call;  haveStore: a store object exists.
func (m *machine) advance(s Sym, o outcome, stillBegun bool, curKey string, curSet bool, cursorNow bool, haveStore bool) {
	ok := o.noError()
	wasNew := m.Phase == PhNew
	switch {
	case m.Phase == PhUnknown:
		// stays unknown
	case s == SymBegin:
		switch m.Phase {
		case PhNew:
			if ok {
				m.Phase = PhBegun
			} else {
				m.Phase = PhUnknown
			}
		default:
			if ok { // reported as a violation; what the transaction is now is not defined
				m.Phase = PhUnknown
			}
		}
	case s == SymCommit:
		switch m.Phase {
		case PhBegun:
			if ok {
				m.Phase, m.EndedBy = PhCommitted, "commit"
			} else if o.panic != "" {
				m.Phase = PhUnknown
			} else {
				m.Phase, m.EndedBy = PhAborted, "commit-failed"
			}
		case PhP1Done:
			m.Phase = PhUnknown // A.3 defines Commit only in phase begun
		case PhNew:
			if ok {
				m.Phase = PhUnknown
			}
		}
	case s == SymPhase1:
		switch m.Phase {
		case PhBegun:
			if ok {
				m.Phase = PhP1Done
			} else if o.panic != "" {
				m.Phase = PhUnknown
			} else {
				m.Phase, m.EndedBy = PhAborted, "phase1-failed"
			}
		case PhP1Done:
			m.Phase = PhUnknown // A.3 defines Phase1Commit only in phase begun
		case PhNew:
			if ok {
				m.Phase = PhUnknown
			}
		}
	case s == SymPhase2:
		switch m.Phase {
		case PhBegun:
			if ok { // violation reported
				m.Phase = PhUnknown
			}
		case PhP1Done:
			if ok {
				m.Phase, m.EndedBy = PhCommitted, "phase2"
			} else if o.panic != "" {
				m.Phase = PhUnknown
			} else {
				m.Phase, m.EndedBy = PhAborted, "phase2-failed"
			}
		case PhNew:
			if ok {
				m.Phase = PhUnknown
			}
		}
	case s == SymRollback:
		switch m.Phase {
		case PhBegun, PhP1Done:
			if ok {
				m.Phase, m.EndedBy = PhAborted, "rollback"
			} else {
				m.Phase = PhUnknown
			}
		case PhNew:
			if ok {
				m.Phase = PhUnknown
			}
		}
		// ended-committed: stays committed whatever Rollback said - the data oracle then checks that
		// the committed data is still there ("a committed transaction cannot be rolled back")
	case s == SymClose:
		m.Closed = true
	case s == SymGetters:
	case s.isStoreOp():
		if m.Phase.between() {
			wrongMode := s.isWrite() && m.Mode != sop.ForWriting
			if !ok || wrongMode {
				if !stillBegun {
					m.Phase = PhAborted
					if wrongMode {
						m.EndedBy = "wrong-mode-write"
					} else {
						m.EndedBy = "store-op-error"
					}
				}
			} else {
				if s == SymNewFresh {
					m.Fresh = true
				}
				if s.isWrite() && o.ok != nil && *o.ok && m.Mode == sop.ForWriting {
					m.recordWrite(s, curKey, curSet)
				}
			}
		}
	}
	if wasNew && s != SymGetters {
		m.Pristine = false
	}
	m.Opened = haveStore
	if haveStore {
		m.Cursor = cursorNow
	}
}

func (m *machine) recordWrite(s Sym, curKey string, curSet bool) {
	var w *writeOp
	switch s {
	case SymAdd:
		w = &writeOp{K: "n1", V: "add"}
	case SymAddIfNotExist:
		w = &writeOp{K: "n2", V: "addifnotexist"}
	case SymUpdate:
		w = &writeOp{K: "a", V: "update"}
	case SymUpsert:
		w = &writeOp{K: "b", V: "upsert"}
	case SymRemove:
		w = &writeOp{Del: true, K: "c"}
	case SymUpdateKey, SymUpdateCurrentKey:
		// same key written back: no change of (key, value) content
		if s == SymUpdateCurrentKey && !curSet {
			m.uncertain = true
		}
	case SymUpdateCurrentValue, SymUpdateCurrentItem, SymRemoveCurrentItem:
		if !curSet {
			m.uncertain = true // reported success without a current item: the model cannot name the effect
			break
		}
		switch s {
		case SymUpdateCurrentValue:
			w = &writeOp{K: curKey, V: "updatecurrentvalue"}
		case SymUpdateCurrentItem:
			w = &writeOp{K: curKey, V: "updatecurrentitem"}
		default:
			w = &writeOp{Del: true, K: curKey}
		}
	}
	if m.Phase == PhBegun {
		m.Dirty = true
		if w != nil {
			m.writes = append(m.writes, *w)
		}
	} else {
		m.P1Dirty = true
		if w != nil {
			m.p1writes = append(m.p1writes, *w)
		}
	}
}

func apply(base map[string]string, ws []writeOp) map[string]string {
	out := map[string]string{}
	for k, v := range base {
		out[k] = v
	}
	for _, w := range ws {
		if w.Del {
			delete(out, w.K)
		} else {
			out[w.K] = w.V
		}
	}
	return out
}

// dataJudged: false when the model cannot name the committed contents - a write reported success
// without a current item, or writes were made after phase 1 (A.3: result unspecified) and the
// transaction did not end in a successful rollback.
func (m machine) dataJudged() bool {
	if m.Mode != sop.ForWriting {
		return true
	}
	if m.Phase == PhCommitted || m.Phase == PhUnknown {
		return !m.uncertain && !m.P1Dirty
	}
	return true
}

// acceptedData lists the contents of the seeded store the model accepts after the sequence.
func (m machine) acceptedData() []map[string]string {
	base := map[string]string{}
	for _, kv := range seedData {
		base[kv.K] = kv.V
	}
	if m.Mode != sop.ForWriting {
		return []map[string]string{base}
	}
	committedVariants := func() []map[string]string {
		var out []map[string]string
		for i := 0; i <= len(m.p1writes); i++ {
			ws := append(append([]writeOp(nil), m.writes...), m.p1writes[:i]...)
			out = append(out, apply(base, ws))
		}
		return out
	}
	switch m.Phase {
	case PhCommitted:
		return committedVariants()
	case PhUnknown:
		return append([]map[string]string{base}, committedVariants()...)
	}
	return []map[string]string{base}
}
