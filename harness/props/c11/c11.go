// Package c11: finished transactions leave no orphaned blobs, registry entries or logs.
package c11

import (
	"fmt"
	"strings"

	"verifharness/kit/report"
	"verifharness/props/hist"
)

func Run(r *report.Run) int {
	results := hist.RunWorkers(r, "c11", r.Pick(24, 300))
	nodes := int64(0)
	for i, res := range results {
		if res.Harness != "" {
			r.Inconclusive("harness")
			continue
		}
		r.Eval(res.Hash, res.Failed >= 1 && res.NodeDeleting >= 1)
		r.Count("transactions", int64(res.Txns))
		r.Count("interleaved_conflicting_pairs", int64(res.Interleaved))
		r.Count("faults_fired", int64(res.FaultsFired))
		if i < 2 {
			r.Sample(map[string]any{"profiles": res.Profiles, "txns": res.Txns, "committed": res.Committed, "failed": res.Failed, "rolled_back": res.RolledBack})
		}
		for name, sw := range res.Walk.By {
			nodes += int64(sw.NodesReached)
			prof := res.Profiles[0]
			if name == "b" {
				prof = res.Profiles[1]
			}
			if len(sw.OrphanBlobs) > 0 {
				r.Violation(fmt.Sprintf("C11:history:%s:orphan-node-blob-files", prof), map[string]any{"store": name, "orphans": head(sw.OrphanBlobs, 10), "count": len(sw.OrphanBlobs), "log": res.Log})
			}
			if len(sw.OrphanValues) > 0 {
				r.Count("orphan_value_blobs", int64(len(sw.OrphanValues)))
				r.Count("orphan_value_blobs_duplicating_an_inline_value", int64(sw.InlineDupValues))
				r.Violation(fmt.Sprintf("C11:history:%s:orphan-value-blob-files", prof), map[string]any{"store": name, "orphans": head(sw.OrphanValues, 10), "count": len(sw.OrphanValues), "of_which_inline_duplicates": sw.InlineDupValues, "log": res.Log})
			}
			if len(sw.OrphanHandles) > 0 {
				r.Violation(fmt.Sprintf("C11:history:%s:orphan-registry-entries", prof), map[string]any{"store": name, "orphans": head(sw.OrphanHandles, 10), "count": len(sw.OrphanHandles), "log": res.Log})
			}
			r.Count("cow_files_left(reported, not judged)", int64(len(sw.CowFiles)))
			r.Count("handles_with_stale_inactive_id(not judged)", int64(len(sw.StagedHandles)))
		}
		if len(res.Walk.Translogs) > 0 {
			kinds := map[string]bool{}
			for _, f := range res.Walk.Translogs {
				switch {
				case strings.HasSuffix(f, ".plg"):
					kinds["priority-log-left"] = true
				case strings.Contains(f, "commitlogs") || strings.HasSuffix(f, ".cmt"):
					kinds["commit-change-log"] = true
				default:
					kinds["transaction-log-left"] = true
				}
			}
			for k := range kinds {
				if k == "commit-change-log" {
					r.Count("commit_change_logs_left(reported, not judged)", 1)
					continue
				}
				r.Violation("C11:history:"+strings.Join(res.Profiles, "+")+":"+k, map[string]any{"files": head(res.Walk.Translogs, 10), "log": res.Log})
			}
		}
	}
	r.Count("nodes_walked", nodes)
	if nodes < 200 {
		r.Broken("walker reached only %d nodes", nodes)
	}
	return r.Finish(rule, assumptions, 5)
}

func head(s []string, n int) []string {
	if len(s) > n {
		return s[:n]
	}
	return s
}

const rule = "the C10 histories restricted to crash-free runs with injected failures only at call sites BEFORE the commit point (so every rollback/cleanup finishes); at quiescence the walker computes: blob files under the store folders that no reachable handle (active or staged id) or item value references; registry slots whose logical id is unreachable from the root; files under translogs/; all three sets must be empty; .cow files and commit-change logs are reported separately; fingerprint = history id + profiles; non-trivial = >=1 failed and >=1 node-deleting transaction"

var assumptions = []string{"a handle's stale inactive id pointing at an already deleted blob is not an orphan", "walker decodes with SOP's marshaler only"}
