// Package c23: corrupted registry data is reported, never served.
//
// Fault enumeration (E-ENUM) on one written registry block: every single-bit flip of the 4096 bytes
// (and, thorough tier, bursts), crossed with the state of the block's backup (.cow) file:
//
//	no-backup       no .cow file
//	empty-backup    a 0-byte .cow (crash right after the file was created)
//	invalid-backup  a .cow that is not a usable pre-image: wrong ("stale") size, or 4096 bytes whose own
//	                checksum does not match
//	valid-backup    a .cow holding the valid PREVIOUS image of the block, or (valid-zero) the all-zero
//	                pre-image saved before the block's first write
//
// Oracle (statement: "a registry block whose checksum does not match, and that has no valid backup,
// causes lookups and updates to fail with an error; its contents are never decoded into handles or
// overwritten as if valid"):
//   - without a valid backup: Get of an id stored in the block returns an error (hence no handle);
//     Update / UpdateNoLocks of an id stored in the block returns an error; after either call the
//     block's bytes on disk are exactly the corrupted bytes (not rewritten).
//   - with a valid backup: Get returns no error and serves the BACKUP's handle for the id; an Update
//     succeeds, and afterwards the updated id reads as written and another id reads as in the backup.
//
// "Invalid" is decided by the oracle itself (CRC32-IEEE of the first 4092 bytes, little endian, in
// the last 4; an all-zero block is valid): a mutation that happens to leave a valid block (cannot
// occur for single-bit flips; conceivable for bursts) is counted as trivial and not judged.
// Only ids that ARE stored in the block are looked up (weaker reading: nothing is claimed about
// lookups of ids that merely hash to a damaged block).
package c23

import (
	"bytes"
	"encoding/binary"
	"fmt"
	"hash/crc32"
	"math/rand"
	"os"
	"path/filepath"
	"sync"
	"syscall"
	"unsafe"

	"github.com/sharedcode/sop"

	"verifharness/kit/env"
	"verifharness/kit/regx"
	"verifharness/kit/report"
)

const table = "tbl"

// image is one written block: its bytes before (B0) and after (B1) the last update, and what each holds.
type image struct {
	Mod, Block, Fill int
	IDs              []sop.UUID
	SlotOf           map[sop.UUID]int
	Old, New         map[sop.UUID]sop.Handle // content of B0 / B1
	Updated          sop.UUID                // the id whose handle differs between B0 and B1
	B0, B1           []byte
}

func blockValid(b []byte) bool {
	zero := true
	for _, x := range b {
		if x != 0 {
			zero = false
			break
		}
	}
	return zero || crc32.ChecksumIEEE(b[:regx.BlockSize-4]) == binary.LittleEndian.Uint32(b[regx.BlockSize-4:])
}

func segPath(base string) string { return filepath.Join(base, table, table+"-1.reg") }
func cowPath(base string, block int) string {
	return filepath.Join(base, table, fmt.Sprintf("%s-1_%d.cow", table, block*regx.BlockSize))
}

func readBlock(base string, block int) ([]byte, error) {
	b, err := directRead(segPath(base), int64(block)*regx.BlockSize)
	if err == nil && b == nil {
		err = fmt.Errorf("segment file ends before block %d", block)
	}
	return b, err
}

// ---- harness-side block I/O: O_DIRECT like the registry itself, so that the page cache never sits
// between what the registry wrote and what the harness inspects (mixing buffered and direct I/O on
// one file is not guaranteed coherent) ----

func alignedBlock() []byte {
	b := make([]byte, 2*regx.BlockSize)
	off := int(uintptr(unsafe.Pointer(&b[0])) & (regx.BlockSize - 1))
	if off != 0 {
		off = regx.BlockSize - off
	}
	return b[off : off+regx.BlockSize : off+regx.BlockSize]
}

// directRead returns the 4096-byte block at byte offset off; (nil, nil) when the file ends before it.
func directRead(path string, off int64) ([]byte, error) {
	fd, err := syscall.Open(path, syscall.O_RDONLY|syscall.O_DIRECT, 0)
	if err != nil {
		return nil, err
	}
	defer syscall.Close(fd)
	buf := alignedBlock()
	n, err := syscall.Pread(fd, buf, off)
	if err != nil {
		return nil, err
	}
	if n == 0 {
		return nil, nil
	}
	if n != regx.BlockSize {
		return nil, fmt.Errorf("short direct read: %d bytes at %d of %s", n, off, path)
	}
	out := make([]byte, regx.BlockSize)
	copy(out, buf)
	return out, nil
}

func randHandle(id sop.UUID, rnd *rand.Rand) sop.Handle {
	h := sop.Handle{LogicalID: id, Version: int32(rnd.Int31())}
	rnd.Read(h.PhysicalIDA[:])
	rnd.Read(h.PhysicalIDB[:])
	h.IsActiveIDB = rnd.Intn(2) == 0
	h.IsDeleted = rnd.Intn(2) == 0
	h.WorkInProgressTimestamp = rnd.Int63()
	return h
}

// buildImage writes `fill` handles into one block through the real registry and records the block
// before and after a final update of one id. Verified on the spot: both images are valid and a fresh
// registry reads every id back (otherwise the run is broken, not a finding).
func buildImage(rnd *rand.Rand, mod, block, fill int) (*image, error) {
	base := env.Scratch("c23-img")
	defer env.Remove(base)
	rg, err := regx.Open(base, table, mod, true)
	if err != nil {
		return nil, err
	}
	defer rg.Close()
	img := &image{Mod: mod, Block: block, Fill: fill, SlotOf: map[sop.UUID]int{}, Old: map[sop.UUID]sop.Handle{}, New: map[sop.UUID]sop.Handle{}}
	for i := 0; i < fill; i++ {
		slot := (i * 5) % regx.HandlesPerBlock // spread; 5 is coprime to 66
		if fill < regx.HandlesPerBlock && i%7 == 3 {
			slot = 0 // a few ideal-slot collisions
		}
		id := regx.MakeID(mod, block, slot, uint32(100+i))
		h := randHandle(id, rnd)
		if err := rg.Add(h); err != nil {
			return nil, err
		}
		img.IDs = append(img.IDs, id)
		img.Old[id] = h
		img.New[id] = h
	}
	if img.B0, err = readBlock(base, block); err != nil {
		return nil, err
	}
	img.Updated = img.IDs[rnd.Intn(len(img.IDs))]
	h := randHandle(img.Updated, rnd)
	if err := rg.UpdateNoLocks(false, h); err != nil {
		return nil, err
	}
	img.New[img.Updated] = h
	if img.B1, err = readBlock(base, block); err != nil {
		return nil, err
	}
	if !blockValid(img.B0) || !blockValid(img.B1) || bytes.Equal(img.B0, img.B1) {
		return nil, fmt.Errorf("written block images not valid/distinct")
	}
	slots, err := regx.ReadAll(base, table)
	if err != nil {
		return nil, err
	}
	for _, s := range slots {
		img.SlotOf[s.Handle.LogicalID] = s.Slot
	}
	rd, err := regx.Open(base, table, mod, false)
	if err != nil {
		return nil, err
	}
	defer rd.Close()
	got, err := rd.Get(img.IDs...)
	if err != nil || len(got) != fill {
		return nil, fmt.Errorf("read-back of the uncorrupted block failed: %v (%d of %d)", err, len(got), fill)
	}
	for id, h := range got {
		if img.New[id] != h {
			return nil, fmt.Errorf("read-back mismatch on the uncorrupted block")
		}
	}
	return img, nil
}

// Case is one corrupted-block experiment.
type Case struct {
	Img        *image   `json:"-"`
	Mod        int      `json:"mod"`
	Block      int      `json:"block"`
	Fill       int      `json:"fill"`
	Backup     string   `json:"backup"`      // no-backup | empty-backup | invalid-backup | valid-backup
	BackupKind string   `json:"backup_kind"` // none | empty | short-100 | short-4095 | long-4100 | garbage-crc | valid
	Damage     string   `json:"damage"`      // bit | burst-bits | burst-bytes | zero-span
	Offset     int      `json:"bit_or_byte_offset"`
	Length     int      `json:"length"`
	Seed       int64    `json:"burst_seed,omitempty"`
	GetID      sop.UUID `json:"get_id"`
	UpdID      sop.UUID `json:"update_id"`
	UpdKind    string   `json:"update_kind"` // update | updatenolocks
	DoUpdate   bool     `json:"update_exercised"`
}

func (c *Case) mutate() []byte {
	b := append([]byte(nil), c.Img.B1...)
	switch c.Damage {
	case "bit":
		b[c.Offset/8] ^= 1 << (c.Offset % 8)
	case "burst-bits":
		for i := c.Offset; i < c.Offset+c.Length && i < regx.BlockSize*8; i++ {
			b[i/8] ^= 1 << (i % 8)
		}
	case "burst-bytes":
		rnd := rand.New(rand.NewSource(c.Seed))
		for i := c.Offset; i < c.Offset+c.Length && i < regx.BlockSize; i++ {
			b[i] = byte(rnd.Intn(256))
		}
	case "zero-span":
		for i := c.Offset; i < c.Offset+c.Length && i < regx.BlockSize; i++ {
			b[i] = 0
		}
	}
	return b
}

// region names where the (start of the) damage lies relative to the looked-up id.
func (c *Case) region() string {
	byteOff := c.Offset
	if c.Damage == "bit" || c.Damage == "burst-bits" {
		byteOff = c.Offset / 8
	}
	if byteOff >= regx.HandlesPerBlock*regx.SlotSize {
		return "crc"
	}
	slot := byteOff / regx.SlotSize
	if s, ok := c.Img.SlotOf[c.GetID]; ok && s == slot {
		return "looked-up-slot"
	}
	for _, s := range c.Img.SlotOf {
		if s == slot {
			return "other-occupied-slot"
		}
	}
	return "empty-slot"
}

type worker struct {
	base string
	r    *report.Run
	fd   int    // harness-side O_DIRECT descriptor on the segment file
	buf  []byte // aligned scratch block
}

func (w *worker) readBlock(block int) ([]byte, error) {
	n, err := syscall.Pread(w.fd, w.buf, int64(block)*regx.BlockSize)
	if err != nil || n != regx.BlockSize {
		return nil, fmt.Errorf("direct read: n=%d err=%v", n, err)
	}
	return append([]byte(nil), w.buf...), nil
}

func (w *worker) writeBlock(block int, data []byte) error {
	copy(w.buf, data)
	n, err := syscall.Pwrite(w.fd, w.buf, int64(block)*regx.BlockSize)
	if err != nil || n != regx.BlockSize {
		return fmt.Errorf("direct write: n=%d err=%v", n, err)
	}
	return nil
}

// at most maxWitnesses violations per signature are handed to the report (each with full detail);
// the rest are only counted (evidence: violations_by_signature).
const maxWitnesses = 5

var (
	sigMu    sync.Mutex
	sigCount = map[string]int64{}
)

func (w *worker) setState(c *Case, mutated []byte) error {
	if err := w.writeBlock(c.Block, mutated); err != nil {
		return err
	}
	// a previous case may have made the registry spill into a second segment file; every case starts
	// from exactly one segment
	_ = os.Remove(filepath.Join(w.base, table, table+"-2.reg"))
	cp := cowPath(w.base, c.Block)
	var data []byte
	switch c.BackupKind {
	case "none":
		if err := os.Remove(cp); err != nil && !os.IsNotExist(err) {
			return err
		}
		return nil
	case "empty":
		data = []byte{}
	case "short-100":
		data = c.Img.B0[:100]
	case "short-4095":
		data = c.Img.B0[:regx.BlockSize-1]
	case "long-4100":
		data = append(append([]byte(nil), c.Img.B0...), 1, 2, 3, 4)
	case "garbage-crc":
		data = append([]byte(nil), c.Img.B0...)
		data[regx.BlockSize-2] ^= 0x40 // a backup whose own checksum does not match
	case "valid":
		data = c.Img.B0
	case "valid-zero":
		data = make([]byte, regx.BlockSize)
	}
	return os.WriteFile(cp, data, 0o644)
}

// old is what the backup holds for id (a zero backup holds nothing).
func (c *Case) old(id sop.UUID) (sop.Handle, bool) {
	if c.BackupKind == "valid-zero" {
		return sop.Handle{}, false
	}
	h, ok := c.Img.Old[id]
	return h, ok
}

func (w *worker) open(c *Case) *regx.Reg {
	rg, err := regx.Open(w.base, table, c.Mod, true)
	if err != nil {
		w.r.Broken("open registry: %v", err)
		return nil
	}
	return rg
}

func (w *worker) run(c *Case) {
	mutated := c.mutate()
	if blockValid(mutated) {
		w.r.Eval("trivial", false)
		w.r.Count("mutations_leaving_a_valid_block_not_judged", 1)
		return
	}
	region := c.region()
	w.r.Eval(fmt.Sprintf("mod=%d:fill=%d:%s:%s:%s:%s", c.Mod, c.Fill, c.BackupKind, c.Damage, region, c.UpdKind), true)
	w.r.Count("cases_"+c.Backup, 1)
	w.r.Count("cases_damage_"+c.Damage, 1)
	viol := func(op, outcome string, extra map[string]any) {
		extra["case"] = c
		extra["damage_region"] = region
		sig := fmt.Sprintf("C23:%s:%s:%s", c.Backup, op, outcome)
		sigMu.Lock()
		sigCount[sig]++
		n := sigCount[sig]
		sigMu.Unlock()
		if n <= maxWitnesses {
			w.r.Violation(sig, extra)
		}
	}

	// ---- lookup ----
	if err := w.setState(c, mutated); err != nil {
		w.r.Broken("set state: %v", err)
		return
	}
	rg := w.open(c)
	if rg == nil {
		return
	}
	got, gerr := rg.Get(c.GetID)
	rg.Close()
	after, err := w.readBlock(c.Block)
	if err != nil {
		w.r.Broken("read block: %v", err)
		return
	}
	h, found := got[c.GetID]
	w.r.Count("lookups", 1)
	if c.Backup != "valid-backup" {
		rewritten := !bytes.Equal(after, mutated)
		switch {
		case gerr == nil:
			sub := "served_nothing_without_error"
			if found && h == c.Img.New[c.GetID] {
				sub = "served_handle_equal_to_original"
			} else if found {
				sub = "served_corrupted_handle"
			}
			w.r.Count(sub, 1)
			out := "served-without-error"
			if rewritten {
				out = "served-and-block-rewritten"
			}
			viol("get", out, map[string]any{"expected": "an error, no handle, block bytes untouched", "observed_found": found, "observed_handle": h, "original_handle": c.Img.New[c.GetID], "what_was_served": sub, "block_rewritten": rewritten})
		case rewritten:
			viol("get", "error-but-block-rewritten", map[string]any{"error": gerr.Error()})
		default:
			w.r.Count("lookups_reported_error", 1)
		}
	} else {
		switch {
		case gerr != nil:
			viol("get", "error-despite-valid-backup", map[string]any{"error": gerr.Error()})
		case func() bool { oh, ok := c.old(c.GetID); return found != ok || (ok && h != oh) }():
			oh, ok := c.old(c.GetID)
			viol("get", "backup-content-not-served", map[string]any{"expected_present": ok, "expected": oh, "observed_found": found, "observed_handle": h})
		default:
			w.r.Count("lookups_served_backup_content", 1)
		}
	}

	// ---- update ----
	if !c.DoUpdate {
		return
	}
	if err := w.setState(c, mutated); err != nil {
		w.r.Broken("set state: %v", err)
		return
	}
	if rg = w.open(c); rg == nil {
		return
	}
	nh := c.Img.New[c.UpdID]
	nh.Version ^= 0x5a5a
	var uerr error
	if c.UpdKind == "update" {
		uerr = rg.Update(nh)
	} else {
		uerr = rg.UpdateNoLocks(false, nh)
	}
	rg.Close()
	if after, err = w.readBlock(c.Block); err != nil {
		w.r.Broken("read block: %v", err)
		return
	}
	w.r.Count("updates", 1)
	if c.Backup != "valid-backup" {
		rewritten := !bytes.Equal(after, mutated)
		switch {
		case uerr == nil:
			// (when the damage hit the id bytes of the updated entry in a FULL block, the write goes to a new
			// segment file and the damaged block stays as it is; otherwise the damaged block is rewritten
			// with a fresh checksum - both are "accepted", the detail says which)
			sub := "update_accepted_block_left_as_is"
			if rewritten {
				sub = "update_accepted_block_overwritten_with_fresh_checksum"
			}
			w.r.Count(sub, 1)
			viol("update", "accepted-without-error", map[string]any{"expected": "an error, block bytes untouched", "update_kind": c.UpdKind, "block_rewritten": rewritten, "block_valid_afterwards": blockValid(after)})
		case rewritten:
			viol("update", "error-but-block-rewritten", map[string]any{"error": uerr.Error(), "update_kind": c.UpdKind})
		default:
			w.r.Count("updates_reported_error", 1)
		}
		return
	}
	if c.BackupKind == "valid-zero" {
		// the restored block is empty: whether updating an id it does not hold is accepted or refused is not
		// judged; afterwards the block must be valid and must not hold anything taken from the damaged image
		other := c.GetID
		if other == c.UpdID {
			for _, id := range c.Img.IDs {
				if id != c.UpdID {
					other = id
					break
				}
			}
		}
		if rg = w.open(c); rg == nil {
			return
		}
		got, gerr = rg.Get(other)
		rg.Close()
		_, served := got[other]
		switch {
		case !blockValid(after) && uerr == nil:
			viol("update", "accepted-and-block-left-invalid", map[string]any{"update_kind": c.UpdKind})
		case gerr == nil && served && other != c.UpdID:
			viol("update", "damaged-content-kept-as-valid", map[string]any{"update_kind": c.UpdKind, "update_error": fmt.Sprint(uerr), "id_served_from_damaged_image": other, "handle": got[other]})
		default:
			w.r.Count("updates_on_block_restored_from_zero_backup", 1)
		}
		return
	}
	if uerr != nil {
		viol("update", "error-despite-valid-backup", map[string]any{"error": uerr.Error(), "update_kind": c.UpdKind})
		return
	}
	// after the update: the updated id reads as written, another id reads as in the backup
	other := c.GetID
	if other == c.UpdID {
		for _, id := range c.Img.IDs {
			if id != c.UpdID {
				other = id
				break
			}
		}
	}
	if rg = w.open(c); rg == nil {
		return
	}
	got, gerr = rg.Get(c.UpdID, other)
	rg.Close()
	switch {
	case gerr != nil:
		viol("update", "unreadable-after-restore-and-update", map[string]any{"error": gerr.Error()})
	case got[c.UpdID] != nh:
		viol("update", "update-lost-after-restore", map[string]any{"expected": nh, "observed": got[c.UpdID]})
	case other != c.UpdID && got[other] != c.Img.Old[other]:
		viol("update", "other-id-not-restored-from-backup", map[string]any{"expected": c.Img.Old[other], "observed": got[other]})
	default:
		w.r.Count("updates_applied_on_restored_block", 1)
	}
}

// pickIDs chooses the id to look up (the one whose slot is damaged if there is one, else PRNG) and the
// id to update (PRNG, biased to the same).
func pickIDs(rnd *rand.Rand, img *image, byteOff int) (sop.UUID, sop.UUID) {
	get := img.IDs[rnd.Intn(len(img.IDs))]
	if byteOff < regx.HandlesPerBlock*regx.SlotSize && rnd.Intn(4) != 0 {
		slot := byteOff / regx.SlotSize
		for id, s := range img.SlotOf {
			if s == slot {
				get = id
			}
		}
	}
	upd := get
	if rnd.Intn(2) == 0 {
		upd = img.IDs[rnd.Intn(len(img.IDs))]
	}
	return get, upd
}

var backupKinds = []struct{ class, kind string }{
	{"no-backup", "none"}, {"empty-backup", "empty"}, {"invalid-backup", "short-100"}, {"invalid-backup", "short-4095"},
	{"invalid-backup", "long-4100"}, {"invalid-backup", "garbage-crc"}, {"valid-backup", "valid"},
	{"valid-backup", "valid-zero"}, // the pre-image saved before a block's FIRST write: an all-zero block
}

func Run(r *report.Run) int {
	rnd := env.Rand(r.Seed, "c23")
	type spec struct{ mod, block, fill int }
	specs := []spec{{1, 0, 33}}
	if r.Thorough() {
		specs = []spec{{1, 0, 1}, {1, 0, 33}, {1, 0, 66}, {2, 1, 5}, {250, 249, 12}}
	}
	var cases []*Case
	planned := map[string]bool{}
	for _, sp := range specs {
		img, err := buildImage(rnd, sp.mod, sp.block, sp.fill)
		if err != nil {
			r.Broken("build image mod=%d fill=%d: %v", sp.mod, sp.fill, err)
			return r.Finish(rule, assumptions, 1)
		}
		mk := func(bk struct{ class, kind string }, damage string, off, length int, byteOff int, doUpdate bool) {
			get, upd := pickIDs(rnd, img, byteOff)
			uk := "update"
			if rnd.Intn(2) == 0 {
				uk = "updatenolocks"
			}
			cases = append(cases, &Case{Img: img, Mod: sp.mod, Block: sp.block, Fill: sp.fill, Backup: bk.class, BackupKind: bk.kind,
				Damage: damage, Offset: off, Length: length, Seed: rnd.Int63(), GetID: get, UpdID: upd, UpdKind: uk, DoUpdate: doUpdate})
			planned[fmt.Sprintf("%d/%d/%d:%s:%s", sp.mod, sp.block, sp.fill, bk.kind, damage)] = true
		}
		full := sp.mod == 1 && sp.fill == 33 // the block whose single-bit flips are enumerated completely
		for _, bk := range backupKinds {
			for bit := 0; bit < regx.BlockSize*8; bit++ {
				byteIdx := bit / 8
				perByte := bit%8 == byteIdx%8                    // one bit per byte, rotating bit index
				per4 := byteIdx%4 == 1 && bit%8 == (byteIdx/4)%8 // one bit per 4 bytes
				heavy := bk.kind == "none" || bk.kind == "garbage-crc" || bk.kind == "valid"
				switch {
				case !r.Thorough() && bk.kind == "none":
					// quick: every flip is looked up; the update half on one bit per byte
					mk(bk, "bit", bit, 1, byteIdx, perByte)
				case !r.Thorough():
					if per4 {
						mk(bk, "bit", bit, 1, byteIdx, true)
					}
				case full && heavy:
					mk(bk, "bit", bit, 1, byteIdx, true) // every flip
				case full:
					if perByte {
						mk(bk, "bit", bit, 1, byteIdx, true)
					}
				case bk.kind == "none" && sp.mod == 1:
					mk(bk, "bit", bit, 1, byteIdx, true) // every flip, fill 1 and fill 66
				case bk.kind == "none":
					if perByte {
						mk(bk, "bit", bit, 1, byteIdx, true)
					}
				default:
					if per4 {
						mk(bk, "bit", bit, 1, byteIdx, true)
					}
				}
			}
			// directed torn-write shapes, both tiers: the END of the block (CRC trailer included) zeroed or
			// overwritten - what a write that stopped early, or a trimmed sector, leaves - and the head
			for _, n := range []int{4, 8, 16, 66, 70, 130, 512, 2048, 4092} {
				off := regx.BlockSize - n
				mk(bk, "zero-span", off, n, off, true)
				mk(bk, "burst-bytes", off, n, off, true)
			}
			for _, n := range []int{4, 62, 512, 2048} {
				mk(bk, "zero-span", 0, n, 0, true)
				mk(bk, "burst-bytes", 0, n, 0, true)
			}
			if r.Thorough() {
				for i := 0; i < 600; i++ {
					switch i % 3 {
					case 0:
						off := rnd.Intn(regx.BlockSize*8 - 1)
						mk(bk, "burst-bits", off, 2+rnd.Intn(63), off/8, true)
					case 1:
						off := rnd.Intn(regx.BlockSize)
						mk(bk, "burst-bytes", off, 1+rnd.Intn(512), off, true)
					default:
						off := rnd.Intn(regx.BlockSize)
						mk(bk, "zero-span", off, []int{1, 4, 62, 512, 2048}[rnd.Intn(5)], off, true)
					}
				}
			}
		}
		if full {
			r.Set("single_bit_flips_enumerated_completely_for", fmt.Sprintf("mod=%d block=%d fill=%d, backup state none%s", sp.mod, sp.block, sp.fill, map[bool]string{true: ", garbage-crc and valid; also fill 1 and fill 66 with no backup", false: ""}[r.Thorough()]))
		}
	}
	r.Set("planned_cases", len(cases))

	// workers: each owns a private copy of the table (segment file + .cow), cases are independent.
	nW := 8
	var wg sync.WaitGroup
	ch := make(chan *Case, 256)
	for g := 0; g < nW; g++ {
		wg.Add(1)
		go func() {
			defer wg.Done()
			ws := map[int]*worker{} // per modulus
			for c := range ch {
				w, ok := ws[c.Mod]
				if !ok {
					base := env.Scratch("c23")
					_ = os.MkdirAll(filepath.Join(base, table), 0o755)
					if err := os.WriteFile(segPath(base), make([]byte, c.Mod*regx.BlockSize), 0o644); err != nil {
						r.Broken("create segment: %v", err)
						continue
					}
					fd, err := syscall.Open(segPath(base), syscall.O_RDWR|syscall.O_DIRECT, 0)
					if err != nil {
						r.Broken("open segment: %v", err)
						continue
					}
					w = &worker{base: base, r: r, fd: fd, buf: alignedBlock()}
					ws[c.Mod] = w
				}
				w.run(c)
			}
			for _, w := range ws {
				syscall.Close(w.fd)
				env.Remove(w.base)
			}
		}()
	}
	for i, c := range cases {
		if i < 3 {
			r.Sample(c)
		}
		ch <- c
	}
	close(ch)
	wg.Wait()
	r.Set("planned_classes", len(planned))
	sigMu.Lock()
	bySig := map[string]int64{}
	for k, v := range sigCount {
		bySig[k] = v
	}
	sigMu.Unlock()
	r.Set("violations_by_signature", bySig)
	return r.Finish(rule, assumptions, len(planned))
}

const rule = "case = (written block image, damage, backup state, looked-up id, updated id, update entry point); damage = single-bit flip (quick: all 32768 flips of the reference block with no backup (lookup on every flip, update on one bit per byte), and one bit per 4 bytes under each of the 7 other backup states (among them a valid all-zero backup: the pre-image of a block's first write); thorough: all flips of the reference block with no / checksum-invalid / valid backup and one bit per byte under the other 4 backup states, all flips with no backup for fill 1 and fill 66, one bit per byte for mod 2 and mod 250, one bit per 4 bytes for their other backup states, plus 600 bursts per image and backup state); fingerprint = (mod, fill, backup kind, damage kind, damaged region relative to the looked-up id, update entry point); non-trivial = the mutated block is invalid by the oracle's own checksum rule; floor = number of planned (image, backup kind, damage kind) classes"

var assumptions = []string{
	"the block is corrupted and the .cow file is placed with plain buffered file writes while no registry instance is open; every lookup/update then goes through a fresh fs.NewRegistry with a fresh in-memory L2 cache (disk truth)",
	"block validity is decided independently by the oracle (CRC32-IEEE over 4092 bytes, little endian trailer, all-zero block valid)",
	"only ids stored in the damaged block are looked up / updated",
}
