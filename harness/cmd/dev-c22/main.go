package main

import (
	"verifharness/kit/driver"
	"verifharness/props/c22"
)

func main() {
	driver.Main(map[string]driver.Check{"C22": {Level: "fault_enumeration", Fn: c22.Run}})
}
