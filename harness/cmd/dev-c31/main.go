package main

import (
	"verifharness/kit/driver"
	"verifharness/props/c31"
)

func main() {
	driver.Main(map[string]driver.Check{"C31": {Level: "exploration", Fn: c31.Run}})
}
