package main

import (
	"encoding/json"
	"fmt"
	"os"

	"verifharness/props/c17"
)

// usage: dbg '<json program>'
func main() {
	var p c17.Program
	if err := json.Unmarshal([]byte(os.Args[1]), &p); err != nil {
		panic(err)
	}
	p.WalkEvery = 1
	res := c17.ExecTrace("C17", &p, nil)
	if res.Fail != nil {
		b, _ := json.MarshalIndent(res.Fail, "", " ")
		fmt.Println(string(b))
		return
	}
	fmt.Println("passed", res.OpsDone, c17.LastDump)
}
