package main

import (
	"fmt"
	"os"
	"runtime/pprof"
	"time"

	"verifharness/props/c17"
)

func main() {
	f, _ := os.Create("/tmp/c17dbg/cpu.prof")
	pprof.StartCPUProfile(f)
	defer pprof.StopCPUProfile()
	cfg := c17.Config{Variant: "owned", ReqSlot: 2, Unique: false, Balance: true, KeyKind: "func"}
	cases := c17.ExhCases(cfg, 3, 0, 5)
	t := time.Now()
	n := 0
	for i := range cases {
		n += c17.RunExh("C17", cases[i], nil).Sequences
	}
	fmt.Println("seqs", n, time.Since(t), time.Since(t)/time.Duration(n))
}
