package main

import (
	"encoding/json"
	"fmt"
	"math/rand"
	"os"
	"strings"

	"verifharness/props/c17"
)

// usage: dbg '<json program>'   |   dbg search <maxlen> <tries> <uniq:0|1>
func main() {
	if os.Args[1] == "search" {
		var maxLen, tries, uq int
		fmt.Sscan(os.Args[2], &maxLen)
		fmt.Sscan(os.Args[3], &tries)
		fmt.Sscan(os.Args[4], &uq)
		best := map[string]*c17.Program{}
		rnd := rand.New(rand.NewSource(12345))
		for t := 0; t < tries; t++ {
			n := 4 + rnd.Intn(maxLen-3)
			p := &c17.Program{Cfg: c17.Config{Variant: "owned", ReqSlot: 2, Unique: uq == 1, Balance: true, KeyKind: "int"}, Class: "search", WalkEvery: 1}
			nk := 6 + rnd.Intn(10)
			for i := 0; i < n; i++ {
				k := c17.KeyOf(1 + rnd.Intn(nk))
				if rnd.Intn(100) < 70 {
					p.Ops = append(p.Ops, c17.Op{Kind: c17.OpAdd, K: k, V: i + 1})
				} else {
					p.Ops = append(p.Ops, c17.Op{Kind: c17.OpRemove, K: k, V: i + 1})
				}
			}
			res := c17.Exec("C17", p, nil)
			if res.Fail == nil || !strings.Contains(res.Fail.Sig, "insert@") {
				continue
			}
			p.Ops = p.Ops[:res.Fail.OpIndex+1]
			small, _ := c17.Shrink(p, res.Fail.Sig, func(q *c17.Program) *c17.Failure { return c17.Exec("C17", q, nil).Fail }, 400)
			if b := best[res.Fail.Sig]; b == nil || len(small.Ops) < len(b.Ops) {
				best[res.Fail.Sig] = small
				fmt.Println(res.Fail.Sig, len(small.Ops), small.Strings())
			}
		}
		return
	}
	var p c17.Program
	if err := json.Unmarshal([]byte(os.Args[1]), &p); err != nil {
		panic(err)
	}
	p.WalkEvery = 1
	res := c17.ExecTrace("C17", &p, nil)
	if res.Fail != nil {
		b, _ := json.MarshalIndent(res.Fail, "", " ")
		fmt.Println(string(b))
		return
	}
	fmt.Println("passed", res.OpsDone, c17.LastDump)
}
