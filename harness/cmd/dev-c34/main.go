package main

import (
	"verifharness/kit/driver"
	"verifharness/props/c34"
)

func main() {
	driver.Main(map[string]driver.Check{"C34": {Level: "exploration", Fn: c34.Run}})
}
