package main

import (
	"verifharness/kit/driver"
	"verifharness/props/c26"
)

func main() {
	driver.Main(map[string]driver.Check{"C26": {Level: "fault_enumeration", Fn: c26.Run}})
}
