package main

import (
	"verifharness/kit/driver"
	"verifharness/props/c28"
)

func main() {
	driver.Main(map[string]driver.Check{"C28": {Level: "exploration", Fn: c28.Run}})
}
