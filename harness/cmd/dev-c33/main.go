package main

import (
	"verifharness/kit/driver"
	"verifharness/props/c33"
)

func main() {
	driver.Main(map[string]driver.Check{"C33": {Level: "exploration", Fn: c33.Run}})
}
