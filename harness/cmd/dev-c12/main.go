package main

import (
	"verifharness/kit/driver"
	"verifharness/props/c12"
)

func main() {
	driver.Main(map[string]driver.Check{"C12": {Level: "exploration", Fn: c12.Run}})
}
