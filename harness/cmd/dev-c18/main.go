package main

import (
	"verifharness/kit/driver"
	"verifharness/props/c18"
)

func main() {
	driver.Main(map[string]driver.Check{"C18": {Level: "exploration", Fn: c18.Run}})
}
