package main

import (
	"verifharness/kit/driver"
	"verifharness/props/c21"
)

func main() {
	driver.Main(map[string]driver.Check{"C21": {Level: "exploration", Fn: c21.Run}})
}
