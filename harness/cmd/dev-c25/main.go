package main

import (
	"verifharness/kit/driver"
	"verifharness/props/c25"
)

func main() {
	driver.Main(map[string]driver.Check{"C25": {Level: "fault_enumeration", Fn: c25.Run}})
}
