package main

import (
	"verifharness/kit/driver"
	"verifharness/props/c24"
)

var checks = map[string]driver.Check{
	"C24": {Level: "exploration", Fn: c24.Run},
}
