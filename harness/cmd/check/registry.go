package main

import (
	"verifharness/kit/driver"
	"verifharness/props/c01"
	"verifharness/props/c04"
	"verifharness/props/c07"
	"verifharness/props/c24"
	"verifharness/props/c28"
)

var checks = map[string]driver.Check{
	"C01": {Level: "fault_enumeration", Fn: c01.Run},
	"C04": {Level: "exploration", Fn: c04.Run},
	"C07": {Level: "fault_enumeration", Fn: c07.Run},
	"C24": {Level: "exploration", Fn: c24.Run},
	"C28": {Level: "exploration", Fn: c28.Run},
}
