package main

import (
	"verifharness/kit/driver"
	"verifharness/props/c01"
	"verifharness/props/c02"
	"verifharness/props/c03"
	"verifharness/props/c04"
	"verifharness/props/c05"
	"verifharness/props/c06"
	"verifharness/props/c07"
	"verifharness/props/c08"
	"verifharness/props/c09"
	"verifharness/props/c10"
	"verifharness/props/c11"
	"verifharness/props/c12"
	"verifharness/props/c13"
	"verifharness/props/c14"
	"verifharness/props/c15"
	"verifharness/props/c16"
	"verifharness/props/c17"
	"verifharness/props/c18"
	"verifharness/props/c19"
	"verifharness/props/c20"
	"verifharness/props/c21"
	"verifharness/props/c22"
	"verifharness/props/c23"
	"verifharness/props/c24"
	"verifharness/props/c25"
	"verifharness/props/c26"
	"verifharness/props/c27"
	"verifharness/props/c28"
	"verifharness/props/c29"
	"verifharness/props/c30"
	"verifharness/props/c31"
	"verifharness/props/c32"
	"verifharness/props/c33"
	"verifharness/props/c34"
	"verifharness/props/c35"
	"verifharness/props/c36"
	"verifharness/props/c37"
	"verifharness/props/c38"
)

var checks = map[string]driver.Check{
	"C15": {Level: "exploration", Fn: c15.Run},
	"C27": {Level: "exploration", Fn: c27.Run},
	"C20": {Level: "exploration", Fn: c20.Run},
	"C09": {Level: "fault_enumeration", Fn: c09.Run},
	"C08": {Level: "fault_enumeration", Fn: c08.Run},
	"C11": {Level: "exploration", Fn: c11.Run},
	"C10": {Level: "exploration", Fn: c10.Run},
	"C37": {Level: "exploration", Fn: c37.Run},
	"C19": {Level: "exploration", Fn: c19.Run},
	"C03": {Level: "exploration", Fn: c03.Run},
	"C16": {Level: "fault_enumeration", Fn: c16.Run},
	"C36": {Level: "exploration", Fn: c36.Run},
	"C38": {Level: "exploration", Fn: c38.Run},
	"C26": {Level: "fault_enumeration", Fn: c26.Run},
	"C25": {Level: "fault_enumeration", Fn: c25.Run},
	"C23": {Level: "fault_enumeration", Fn: c23.Run},
	"C22": {Level: "fault_enumeration", Fn: c22.Run},
	"C21": {Level: "exploration", Fn: c21.Run},
	"C18": {Level: "exploration", Fn: c18.Run},
	"C17": {Level: "exploration", Fn: c17.Run},
	"C14": {Level: "exploration", Fn: c14.Run},
	"C13": {Level: "exploration", Fn: c13.Run},
	"C12": {Level: "exploration", Fn: c12.Run},
	"C01": {Level: "fault_enumeration", Fn: c01.Run},
	"C02": {Level: "exploration", Fn: c02.Run},
	"C04": {Level: "exploration", Fn: c04.Run},
	"C05": {Level: "exploration", Fn: c05.Run},
	"C06": {Level: "exploration", Fn: c06.Run},
	"C07": {Level: "fault_enumeration", Fn: c07.Run},
	"C24": {Level: "exploration", Fn: c24.Run},
	"C28": {Level: "exploration", Fn: c28.Run},
	"C35": {Level: "exploration", Fn: c35.Run},
	"C31": {Level: "exploration", Fn: c31.Run},
	"C32": {Level: "exploration", Fn: c32.Run},
	"C33": {Level: "exploration", Fn: c33.Run},
	"C34": {Level: "exploration", Fn: c34.Run},
	"C30": {Level: "exploration", Fn: c30.Run},
	"C29": {Level: "exploration", Fn: c29.Run},
}
