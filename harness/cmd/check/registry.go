package main

import (
	"verifharness/kit/driver"
	"verifharness/props/c01"
	"verifharness/props/c02"
	"verifharness/props/c04"
	"verifharness/props/c07"
	"verifharness/props/c24"
	"verifharness/props/c28"
	"verifharness/props/c29"
	"verifharness/props/c30"
	"verifharness/props/c31"
	"verifharness/props/c32"
	"verifharness/props/c33"
	"verifharness/props/c34"
	"verifharness/props/c35"
)

var checks = map[string]driver.Check{
	"C01": {Level: "fault_enumeration", Fn: c01.Run},
	"C02": {Level: "exploration", Fn: c02.Run},
	"C04": {Level: "exploration", Fn: c04.Run},
	"C07": {Level: "fault_enumeration", Fn: c07.Run},
	"C24": {Level: "exploration", Fn: c24.Run},
	"C28": {Level: "exploration", Fn: c28.Run},
	"C35": {Level: "exploration", Fn: c35.Run},
	"C31": {Level: "exploration", Fn: c31.Run},
	"C32": {Level: "exploration", Fn: c32.Run},
	"C33": {Level: "exploration", Fn: c33.Run},
	"C34": {Level: "exploration", Fn: c34.Run},
	"C30": {Level: "exploration", Fn: c30.Run},
	"C29": {Level: "exploration", Fn: c29.Run},
}
