package main

import (
	"verifharness/kit/report"
	"verifharness/props/c24"
)

type check struct {
	Level string
	Fn    func(r *report.Run) int
}

var checks = map[string]check{
	"C24": {"exploration", c24.Run},
}
