// check <Cnn> [--tier quick|thorough] [--replay file]   |   check child <role> <args...>
package main

import "verifharness/kit/driver"

func main() { driver.Main(checks) }
