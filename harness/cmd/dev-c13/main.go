package main

import (
	"verifharness/kit/driver"
	"verifharness/props/c13"
)

func main() {
	driver.Main(map[string]driver.Check{"C13": {Level: "exploration", Fn: c13.Run}})
}
