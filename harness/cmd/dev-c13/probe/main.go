package main

import (
	"fmt"
	"os/exec"
	"time"

	"github.com/sharedcode/sop"
	"verifharness/kit/env"
	"verifharness/kit/sopx"
)

func main() {
	env.Quiet()
	defer env.Cleanup()
	dir := env.Scratch("probe")
	d := sopx.NewDB(dir)
	t0 := time.Now()
	t, _ := d.Begin(sop.ForWriting)
	b, _ := sopx.New[string, string](d, t, sopx.Options("s", 8, true, sopx.InNode))
	b.Add(sopx.Ctx, "a", "1")
	fmt.Println(t.Commit(sopx.Ctx), time.Since(t0))
	out, _ := exec.Command("sh", "-c", "cd "+dir+" && find . -type f | xargs ls -la && du -sh .").CombinedOutput()
	fmt.Println(string(out))
	t0 = time.Now()
	sopx.DumpDB(d)
	fmt.Println("dump", time.Since(t0))
}
