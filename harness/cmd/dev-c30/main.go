package main

import (
	"verifharness/kit/driver"
	"verifharness/props/c30"
)

func main() {
	driver.Main(map[string]driver.Check{"C30": {Level: "exploration", Fn: c30.Run}})
}
