package main

import (
	"verifharness/kit/driver"
	"verifharness/props/c32"
)

func main() {
	driver.Main(map[string]driver.Check{"C32": {Level: "exploration", Fn: c32.Run}})
}
