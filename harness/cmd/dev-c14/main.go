package main

import (
	"verifharness/kit/driver"
	"verifharness/props/c14"
)

func main() {
	driver.Main(map[string]driver.Check{"C14": {Level: "exploration", Fn: c14.Run}})
}
