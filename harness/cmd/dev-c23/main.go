package main

import (
	"verifharness/kit/driver"
	"verifharness/props/c23"
)

func main() {
	driver.Main(map[string]driver.Check{"C23": {Level: "fault_enumeration", Fn: c23.Run}})
}
