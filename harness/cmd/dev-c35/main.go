package main

import (
	"verifharness/kit/driver"
	"verifharness/props/c35"
)

func main() {
	driver.Main(map[string]driver.Check{"C35": {Level: "exploration", Fn: c35.Run}})
}
