package main

import (
	"verifharness/kit/driver"
	"verifharness/props/c29"
)

func main() {
	driver.Main(map[string]driver.Check{"C29": {Level: "exploration", Fn: c29.Run}})
}
