package main

import (
	"verifharness/kit/driver"
	"verifharness/props/c17"
)

func main() {
	driver.Main(map[string]driver.Check{"C17": {Level: "exploration", Fn: c17.Run}})
}
