package main

import (
	"verifharness/kit/driver"
	"verifharness/props/c38"
)

func main() {
	driver.Main(map[string]driver.Check{"C38": {Level: "exploration", Fn: c38.Run}})
}
