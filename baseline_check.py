#!/usr/bin/env python3
"""Runs baseline_off.sh, compares passing tests with BASELINE.json stable_pass. Usage: baseline_check.py [out.json]"""
import json, subprocess, sys
base = json.load(open('/root/.vp/BASELINE.json'))
stable = set(base['stable_pass'])
p = subprocess.run(['/verif/baseline_off.sh'], capture_output=True, text=True)
passed, failed = set(), set()
for line in p.stdout.splitlines():
    try:
        e = json.loads(line)
    except Exception:
        continue
    if e.get('Test') and e.get('Action') in ('pass', 'fail'):
        name = f"{e['Package']}::{e['Test']}"
        (passed if e['Action'] == 'pass' else failed).add(name)
missing = sorted(stable - passed)
print(f"passed={len(passed)} failed={len(failed)} stable={len(stable)} stable_missing={len(missing)}")
for m in missing[:50]:
    print("  MISSING/FAILED:", m)
sys.exit(1 if missing else 0)
