#!/usr/bin/env python3
"""Regenerates MANIFEST.json from checks.json (the per-property registration table)."""
import json
spec = json.load(open('/verif/checks.json'))
checks = []
for c in spec['checks']:
    checks.append({
        "property_id": c['id'],
        "quick_cmd": f"./check {c['id']} --tier quick",
        "thorough_cmd": f"./check {c['id']} --tier thorough",
        "evidence_file": f"/verif/evidence/{c['id']}.json",
        "replay_cmd_template": f"./check {c['id']} --replay {{path}}",
        "engine": c.get('engine', 'harness'),
        "level_claimed": {"category": c['level'], "text": c['text'], "design_ref": c.get('design_ref', 'DESIGN.md §6 ' + c['id'])},
        "level_note": c['note'],
        "technique": c['technique'],
    })
m = {
    "version": 1,
    "setup_cmd": "./check setup",
    "hooks": {"guard": "verif", "enable": "every harness build passes -tags verif (go1.26.8 build -tags verif in /verif/harness with replace => /repo); no source hooks exist, all observation goes through exported seams",
              "baseline_off_cmd": "/verif/baseline_off.sh", "source_commits": spec.get('hook_commits', []), "add_only": True},
    "engines": spec.get('engines', []),
    "checks": checks,
    "not_applicable": spec.get('not_applicable', []),
    "notes": spec.get('notes', ''),
}
json.dump(m, open('/verif/MANIFEST.json', 'w'), indent=1)
print("MANIFEST.json:", len(checks), "checks,", len(m['not_applicable']), "not_applicable")
